/-
  C18 — validators used from different threads do not interfere.

  Model: `Cerberus.Shared` (Model/Shared.lean): the process-wide state (class-level cache
  of validated schemas, the schema objects callers share, the lazily created schema
  validator class) and threads as sequences of atomic actions, interleaved by an
  arbitrary scheduler.

  Proved here, for every world (`expand`, `key`, `valid`, `children`, `process`) with
  idempotent expansion and without key confusion, every number of threads, every
  program and **every schedule** (any length, any interleaving of the atomic actions):
    * `C18_invariant`     the shared state stays sound (objects are in their original or
                          in their expanded form, every cached key belongs to a valid schema);
    * `C18_independent`   a thread that has terminated produced exactly the outcomes of
                          its program's sequential meaning `spec` — which mentions neither
                          the cache nor any other thread;
    * `C18_alone`         running alone produces `spec` as well, hence
    * `C18_same_as_alone` concurrent outcome = outcome alone.
  Negations, at the finer atomicity of the code before the repairs F17 / F18, by explicit
  schedules evaluated by the kernel:
    * `C18_witness_expand`      two threads expanding one `anyof_type` rule set in place
                                with the unrepaired step granularity leave `anyof: []`;
    * `C18_witness_lazy_class`  a class published before it is complete is used half-built.
  and `C18_needs_no_confusion`: without the no-confusion hypothesis the cache lets one
  thread's schema vouch for another's (this is finding F13, a sequential defect already).

  Partial in the sense of the brief: the theorem holds at the atomicity stated in
  Model/Shared.lean; that the real code has this atomicity (the GIL makes single dict /
  set operations atomic, the expansion lock makes `expand` atomic, the class is published
  complete) is checked by the footprint port and searched by the deterministic line-level
  scheduler of harness/sched.py, not proved.
-/
import Cerberus.Model.Shared
namespace Cerberus
open Shared

variable {S D R : Type}

namespace Shared

/-- the shared state is sound -/
def GInv (w : World S D R) (objs0 : Nat → S) (σ : Sigma S) : Prop :=
  (∀ o, σ.objs o = objs0 o ∨ σ.objs o = w.expand (objs0 o)) ∧
  (∀ k, k ∈ σ.cache → ∃ s, w.key s = k ∧ w.valid s = true)

def BindI (w : World S D R) (objs0 : Nat → S) (target : List (Out S R)) (t : TState S D R) (s : S) : Prop :=
  ∃ o, s = w.expand (objs0 o) ∧ spec w objs0 (.construct o :: t.prog) t.held t.outs = target

def ChildI (w : World S D R) (objs0 : Nat → S) (target : List (Out S R)) (t : TState S D R)
    (i : Nat) (doc : D) (todo : List S) (flags : List Bool) (s : S) : Prop :=
  ∃ h done, t.held[i]? = some h ∧ w.children h doc = done ++ s :: todo ∧ flags = done.map w.valid ∧
    spec w objs0 (.call i doc :: t.prog) t.held t.outs = target

def KI (w : World S D R) (objs0 : Nat → S) (target : List (Out S R)) (t : TState S D R) : Kont S D → S → Prop
  | .bind, s => BindI w objs0 target t s
  | .child i doc todo flags, s => ChildI w objs0 target t i doc todo flags s

/-- what is known about a thread at each point of its program -/
def TInv (w : World S D R) (objs0 : Nat → S) (target : List (Out S R)) (σ : Sigma S) (t : TState S D R) : Prop :=
  match t.phase with
  | .idle => spec w objs0 t.prog t.held t.outs = target
  | .expand o => spec w objs0 (.construct o :: t.prog) t.held t.outs = target
  | .snap o => spec w objs0 (.construct o :: t.prog) t.held t.outs = target ∧ σ.objs o = w.expand (objs0 o)
  | .lookup k s => KI w objs0 target t k s
  | .check k s hit => KI w objs0 target t k s ∧ (hit = true → w.valid s = true)
  | .add k s _ ok => KI w objs0 target t k s ∧ ok = w.valid s
  | .fin k s ok => KI w objs0 target t k s ∧ ok = w.valid s

/-- an object that is expanded stays expanded -/
def Stable (w : World S D R) (objs0 : Nat → S) (σ σ' : Sigma S) : Prop :=
  ∀ o, σ.objs o = w.expand (objs0 o) → σ'.objs o = w.expand (objs0 o)

theorem KI_congr (w : World S D R) (objs0 : Nat → S) (target : List (Out S R)) (t t' : TState S D R)
    (hp : t'.prog = t.prog) (hh : t'.held = t.held) (ho : t'.outs = t.outs) (k : Kont S D) (s : S)
    (h : KI w objs0 target t k s) : KI w objs0 target t' k s := by
  cases k with
  | bind => simpa [KI, BindI, hp, hh, ho] using h
  | child i doc todo flags => simpa [KI, ChildI, hp, hh, ho] using h

theorem TInv_stable (w : World S D R) (objs0 : Nat → S) (target : List (Out S R)) (σ σ' : Sigma S)
    (t : TState S D R) (hs : Stable w objs0 σ σ') (h : TInv w objs0 target σ t) : TInv w objs0 target σ' t := by
  obtain ⟨phase, prog, held, outs⟩ := t
  cases phase with
  | snap o => exact ⟨h.1, hs o h.2⟩
  | _ => exact h

/-- one atomic action of a thread preserves everything -/
theorem tstep_inv (w : World S D R) (idem : ∀ s, w.expand (w.expand s) = w.expand s)
    (noConf : ∀ s s', w.key s = w.key s' → w.valid s = w.valid s')
    (objs0 : Nat → S) (target : List (Out S R)) (σ σ' : Sigma S) (t t' : TState S D R)
    (hg : GInv w objs0 σ) (ht : TInv w objs0 target σ t) (hstep : tstep w σ t = some (σ', t')) :
    GInv w objs0 σ' ∧ TInv w objs0 target σ' t' ∧ Stable w objs0 σ σ' := by
  obtain ⟨phase, prog, held, outs⟩ := t
  cases phase with
  | idle =>
    cases prog with
    | nil => simp [tstep] at hstep
    | cons op r =>
      cases op with
      | construct o =>
        simp only [tstep, Option.some.injEq, Prod.mk.injEq] at hstep
        obtain ⟨rfl, rfl⟩ := hstep
        exact ⟨hg, by simpa [TInv] using ht, fun _ h => h⟩
      | call i doc =>
        simp only [tstep] at hstep
        simp only [TInv] at ht
        cases hh : held[i]? with
        | none =>
          simp only [hh, Option.some.injEq, Prod.mk.injEq] at hstep
          obtain ⟨rfl, rfl⟩ := hstep
          refine ⟨hg, ?_, fun _ h => h⟩
          simpa [TInv, spec, hh] using ht
        | some h =>
          simp only [hh] at hstep
          cases hc : w.children h doc with
          | nil =>
            simp only [hc, Option.some.injEq, Prod.mk.injEq] at hstep
            obtain ⟨rfl, rfl⟩ := hstep
            refine ⟨hg, ?_, fun _ h => h⟩
            simpa [TInv, spec, hh, hc] using ht
          | cons c cs =>
            simp only [hc, Option.some.injEq, Prod.mk.injEq] at hstep
            obtain ⟨rfl, rfl⟩ := hstep
            refine ⟨hg, ?_, fun _ h => h⟩
            simp only [TInv, KI, ChildI]
            exact ⟨h, [], hh, by simpa using hc, rfl, ht⟩
  | expand o =>
    simp only [tstep, Option.some.injEq, Prod.mk.injEq] at hstep
    obtain ⟨rfl, rfl⟩ := hstep
    simp only [TInv] at ht
    have hexp : w.expand (σ.objs o) = w.expand (objs0 o) := by
      rcases hg.1 o with h | h
      · rw [h]
      · rw [h, idem]
    refine ⟨⟨fun o' => ?_, hg.2⟩, ?_, fun o' ho' => ?_⟩
    · by_cases ho : o' = o
      · subst ho; right; simp [upd, hexp]
      · simpa [upd, ho] using hg.1 o'
    · simp only [TInv]
      exact ⟨ht, by simp [upd, hexp]⟩
    · by_cases ho : o' = o
      · subst ho; simp [upd, hexp]
      · simpa [upd, ho] using ho'
  | snap o =>
    simp only [tstep, Option.some.injEq, Prod.mk.injEq] at hstep
    obtain ⟨rfl, rfl⟩ := hstep
    simp only [TInv] at ht
    refine ⟨hg, ?_, fun _ h => h⟩
    simp only [TInv, KI, BindI]
    exact ⟨o, ht.2, ht.1⟩
  | lookup k s =>
    simp only [tstep, Option.some.injEq, Prod.mk.injEq] at hstep
    obtain ⟨rfl, rfl⟩ := hstep
    simp only [TInv] at ht
    refine ⟨hg, ?_, fun _ h => h⟩
    simp only [TInv]
    refine ⟨KI_congr w objs0 target _ _ rfl rfl rfl k s ht, fun hhit => ?_⟩
    have hmem : w.key s ∈ σ.cache := by simpa using hhit
    obtain ⟨s', hk, hv⟩ := hg.2 _ hmem
    rw [noConf s s' hk.symm]; exact hv
  | check k s hit =>
    simp only [tstep, Option.some.injEq, Prod.mk.injEq] at hstep
    obtain ⟨rfl, rfl⟩ := hstep
    simp only [TInv] at ht
    refine ⟨?_, ?_, ?_⟩
    · split
      · exact hg
      · refine ⟨hg.1, fun k' hk' => ?_⟩
        simp only [List.mem_append, List.mem_map, List.mem_filter] at hk'
        rcases hk' with ⟨s', ⟨_, hv⟩, rfl⟩ | hk'
        · exact ⟨s', rfl, hv⟩
        · exact hg.2 _ hk'
    · simp only [TInv]
      refine ⟨KI_congr w objs0 target _ _ rfl rfl rfl k s ht.1, ?_⟩
      cases hit with
      | true => simp [ht.2 rfl]
      | false => simp
    · intro o h; split <;> exact h
  | add k s hit ok =>
    simp only [tstep, Option.some.injEq, Prod.mk.injEq] at hstep
    obtain ⟨rfl, rfl⟩ := hstep
    simp only [TInv] at ht
    refine ⟨?_, ?_, ?_⟩
    · split
      · rename_i hc
        refine ⟨hg.1, fun k' hk' => ?_⟩
        simp only [List.mem_cons] at hk'
        rcases hk' with rfl | hk'
        · refine ⟨s, rfl, ?_⟩
          have : ok = true := by simp_all
          rw [← ht.2]; exact this
        · exact hg.2 _ hk'
      · exact hg
    · simp only [TInv]
      exact ⟨KI_congr w objs0 target _ _ rfl rfl rfl k s ht.1, ht.2⟩
    · intro o h; split <;> exact h
  | fin k s ok =>
    simp only [TInv] at ht
    obtain ⟨hk, hok⟩ := ht
    cases k with
    | bind =>
      simp only [KI, BindI] at hk
      obtain ⟨o, hs, hspec⟩ := hk
      simp only [tstep] at hstep
      split at hstep
      · rename_i hoktrue
        simp only [Option.some.injEq, Prod.mk.injEq] at hstep
        obtain ⟨rfl, rfl⟩ := hstep
        refine ⟨hg, ?_, fun _ h => h⟩
        have hv : w.valid (w.expand (objs0 o)) = true := by rw [← hs, ← hok]; exact hoktrue
        simpa [TInv, spec, hv, hs] using hspec
      · rename_i hokfalse
        simp only [Option.some.injEq, Prod.mk.injEq] at hstep
        obtain ⟨rfl, rfl⟩ := hstep
        refine ⟨hg, ?_, fun _ h => h⟩
        have hv : w.valid (w.expand (objs0 o)) = false := by
          rw [← hs, ← hok]; simpa using hokfalse
        simpa [TInv, spec, hv] using hspec
    | child i doc todo flags =>
      simp only [KI, ChildI] at hk
      obtain ⟨h, done, hh, hc, hf, hspec⟩ := hk
      simp only [tstep] at hstep
      cases todo with
      | nil =>
        simp only [hh, Option.some.injEq, Prod.mk.injEq] at hstep
        obtain ⟨rfl, rfl⟩ := hstep
        refine ⟨hg, ?_, fun _ h => h⟩
        simp only [TInv]
        simp only [spec, hh, hc, List.map_append, List.map_cons, List.map_nil] at hspec
        rw [hf, hok]; exact hspec
      | cons c cs =>
        simp only [Option.some.injEq, Prod.mk.injEq] at hstep
        obtain ⟨rfl, rfl⟩ := hstep
        refine ⟨hg, ?_, fun _ h => h⟩
        simp only [TInv, KI, ChildI]
        exact ⟨h, done ++ [s], hh, by simp [hc], by simp [hf, hok], hspec⟩

/-- the system invariant -/
def SysInv (w : World S D R) (objs0 : Nat → S) (target : Nat → List (Out S R)) (y : Sys S D R) : Prop :=
  GInv w objs0 y.σ ∧ ∀ j, TInv w objs0 (target j) y.σ (y.ts j)

theorem step_inv (w : World S D R) (idem : ∀ s, w.expand (w.expand s) = w.expand s)
    (noConf : ∀ s s', w.key s = w.key s' → w.valid s = w.valid s')
    (objs0 : Nat → S) (target : Nat → List (Out S R)) (y : Sys S D R) (i : Nat)
    (h : SysInv w objs0 target y) : SysInv w objs0 target (y.step w i) := by
  unfold Sys.step
  cases hs : tstep w y.σ (y.ts i) with
  | none => exact h
  | some p =>
    obtain ⟨σ', t'⟩ := p
    obtain ⟨hg', ht', hst⟩ := tstep_inv w idem noConf objs0 (target i) y.σ σ' (y.ts i) t' h.1 (h.2 i) hs
    refine ⟨hg', fun j => ?_⟩
    by_cases hj : j = i
    · subst hj; simpa [upd] using ht'
    · simpa [upd, hj] using TInv_stable w objs0 (target j) y.σ σ' (y.ts j) hst (h.2 j)

theorem run_inv (w : World S D R) (idem : ∀ s, w.expand (w.expand s) = w.expand s)
    (noConf : ∀ s s', w.key s = w.key s' → w.valid s = w.valid s')
    (objs0 : Nat → S) (target : Nat → List (Out S R)) :
    ∀ (sched : List Nat) (y : Sys S D R), SysInv w objs0 target y → SysInv w objs0 target (y.run w sched)
  | [], _, h => h
  | i :: r, y, h => by
    simpa [Sys.run] using run_inv w idem noConf objs0 target r (y.step w i) (step_inv w idem noConf objs0 target y i h)

theorem initial_inv (w : World S D R) (objs0 : Nat → S) (cache : List Nat) (cls : Cls) (progs : Nat → List (HOp D))
    (hc : ∀ k, k ∈ cache → ∃ s, w.key s = k ∧ w.valid s = true) :
    SysInv w objs0 (fun j => spec w objs0 (progs j) [] []) (initial (R := R) objs0 cache cls progs) :=
  ⟨⟨fun _ => Or.inl rfl, hc⟩, fun _ => by simp [TInv, initial, TState.start]⟩

end Shared

/-- **C18 (the shared state stays sound)** under every schedule. -/
theorem C18_invariant (w : World S D R) (idem : ∀ s, w.expand (w.expand s) = w.expand s)
    (noConf : ∀ s s', w.key s = w.key s' → w.valid s = w.valid s')
    (objs0 : Nat → S) (cache : List Nat) (cls : Cls) (progs : Nat → List (HOp D))
    (hc : ∀ k, k ∈ cache → ∃ s, w.key s = k ∧ w.valid s = true) (sched : List Nat) :
    GInv w objs0 ((initial (R := R) objs0 cache cls progs).run w sched).σ :=
  (run_inv w idem noConf objs0 _ sched _ (initial_inv w objs0 cache cls progs hc)).1

/-- **C18 (schedule independence).**  Whatever the number of threads, their programs, the
    initial (sound) cache, the state of the lazily created class and the schedule: a
    thread that has run to completion produced exactly the sequential meaning of its own
    program — a function of its program and of the schema objects as the callers wrote
    them, in which neither the cache nor any other thread occurs. -/
theorem C18_independent (w : World S D R) (idem : ∀ s, w.expand (w.expand s) = w.expand s)
    (noConf : ∀ s s', w.key s = w.key s' → w.valid s = w.valid s')
    (objs0 : Nat → S) (cache : List Nat) (cls : Cls) (progs : Nat → List (HOp D))
    (hc : ∀ k, k ∈ cache → ∃ s, w.key s = k ∧ w.valid s = true) (sched : List Nat) (j : Nat)
    (hterm : (((initial (R := R) objs0 cache cls progs).run w sched).ts j).terminated) :
    (((initial (R := R) objs0 cache cls progs).run w sched).ts j).outs = spec w objs0 (progs j) [] [] := by
  have h := (run_inv w idem noConf objs0 _ sched _ (initial_inv w objs0 cache cls progs hc)).2 j
  obtain ⟨hp, hq⟩ := hterm
  simp only [TInv, hp, hq, spec] at h
  exact h

/-- **C18 (alone).**  The same program run alone — one thread, cold cache — produces the
    sequential meaning too … -/
theorem C18_alone (w : World S D R) (idem : ∀ s, w.expand (w.expand s) = w.expand s)
    (noConf : ∀ s s', w.key s = w.key s' → w.valid s = w.valid s')
    (objs0 : Nat → S) (cls : Cls) (prog : List (HOp D)) (n : Nat)
    (hterm : (((initial (R := R) objs0 [] cls (fun _ => prog)).run w (List.replicate n 0)).ts 0).terminated) :
    (((initial (R := R) objs0 [] cls (fun _ => prog)).run w (List.replicate n 0)).ts 0).outs = spec w objs0 prog [] [] :=
  C18_independent w idem noConf objs0 [] cls (fun _ => prog) (by simp) _ 0 hterm

/-- … **hence each thread's outcome under any interleaving is its outcome alone.** -/
theorem C18_same_as_alone (w : World S D R) (idem : ∀ s, w.expand (w.expand s) = w.expand s)
    (noConf : ∀ s s', w.key s = w.key s' → w.valid s = w.valid s')
    (objs0 : Nat → S) (cache : List Nat) (cls cls' : Cls) (progs : Nat → List (HOp D))
    (hc : ∀ k, k ∈ cache → ∃ s, w.key s = k ∧ w.valid s = true) (sched : List Nat) (j n : Nat)
    (hterm : (((initial (R := R) objs0 cache cls progs).run w sched).ts j).terminated)
    (halone : (((initial (R := R) objs0 [] cls' (fun _ => progs j)).run w (List.replicate n 0)).ts 0).terminated) :
    (((initial (R := R) objs0 cache cls progs).run w sched).ts j).outs =
    (((initial (R := R) objs0 [] cls' (fun _ => progs j)).run w (List.replicate n 0)).ts 0).outs := by
  rw [C18_independent w idem noConf objs0 cache cls progs hc sched j hterm,
      C18_alone w idem noConf objs0 cls' (progs j) n halone]

/-! ### non-vacuity: a concrete world, two threads sharing a shorthand schema object -/

/-- contents are numbers: 10 is the shorthand form of 11, 20 of 21 (invalid); key = content -/
def exWorld : World Nat Nat Nat :=
  { expand := fun s => if s % 10 = 0 then s + 1 else s, key := fun s => s, valid := fun s => s != 21, subs := fun s => if s = 11 then [311, 21] else [],
    children := fun s d => if d = 0 then [] else [s + 100, s + 200], process := fun s d => s + d }

def exProgs : Nat → List (HOp Nat)
  | 0 => [.construct 0, .call 0 5, .construct 1]
  | 1 => [.construct 0, .construct 1, .call 0 0]
  | _ => []

def exObjs : Nat → Nat := fun o => if o = 0 then 10 else 20

/-- an interleaved schedule runs both threads to completion; both end with their sequential
    meaning: object 0 accepted in its expanded form, object 1 rejected -/
example :
    let y := (initial (R := Nat) exObjs [] .absent exProgs).run exWorld
      ([0, 1, 1, 0, 0, 1, 0, 1, 1, 0, 0, 1, 0, 1] ++ List.replicate 40 0 ++ List.replicate 40 1)
    (y.ts 0).terminated ∧ (y.ts 1).terminated ∧
    (y.ts 0).outs = [.accepted 11, .called 16 [true, true], .rejected] ∧
    (y.ts 1).outs = [.accepted 11, .rejected, .called 11 []] := by
  decide +kernel

example : (∀ s, exWorld.expand (exWorld.expand s) = exWorld.expand s) ∧
    (∀ s s', exWorld.key s = exWorld.key s' → exWorld.valid s = exWorld.valid s') := by
  refine ⟨fun s => ?_, fun s s' h => by simp [exWorld] at h; rw [h]⟩
  simp only [exWorld]
  split <;> simp_all <;> omega

/-! ### negations -/

/-- **without the no-confusion hypothesis the statement is false** (this is finding F13,
    a defect of the cache that shows sequentially already): with a key function that
    confuses a valid and an invalid schema, the second thread's invalid schema is accepted. -/
theorem C18_needs_no_confusion :
    let w : World Nat Nat Nat := { exWorld with key := fun _ => 0, expand := fun s => s }
    let progs : Nat → List (HOp Nat) := fun j => if j = 0 then [.construct 0] else if j = 1 then [.construct 1] else []
    let objs : Nat → Nat := fun o => if o = 0 then 11 else 21
    let y := (initial (R := Nat) objs [] .complete progs).run w (List.replicate 10 0 ++ List.replicate 10 1)
    (y.ts 1).terminated ∧ (y.ts 1).outs = [.accepted 21] ∧ spec w objs (progs 1) [] [] = [.rejected] := by
  decide +kernel

open Fine in
/-- **the unrepaired in-place expansion interferes** (F18): the rule set
    `{'anyof_type': ['integer', 'string']}` shared by two threads.  Alone, a thread leaves
    `{'anyof': [{'type': 'integer'}, {'type': 'string'}]}`.  If A is preempted after taking
    its list of shorthand keys and B runs to completion in between, A resets the list, fails
    on the deleted key (the exception is swallowed) and both threads hold `{'anyof': []}`. -/
theorem C18_witness_expand :
    let r0 : Rules := [(.short 0 7, [(7, 1), (7, 2)])]
    -- alone
    (erun r0 .start .start (List.replicate 8 true)).1 = [(.op 0, [(7, 1), (7, 2)])] ∧
    (erun r0 .start .start (List.replicate 8 true)).2.1 = .done ∧
    -- A: one step; B: to completion; A: the rest
    (erun r0 .start .start ([true] ++ List.replicate 8 false ++ List.replicate 8 true)).1 = [(.op 0, [])] ∧
    (erun r0 .start .start ([true] ++ List.replicate 8 false ++ List.replicate 8 true)).2.1 = .aborted ∧
    -- A: up to the second append; B: to completion: three definitions instead of two
    (erun r0 .start .start (List.replicate 4 true ++ List.replicate 8 false ++ List.replicate 8 true)).1
      = [(.op 0, [(7, 1), (7, 2), (7, 2)])] := by
  decide +kernel

open Fine in
/-- **a class published before it is complete is used half-built** (F17): A binds the
    global, B finds it and instantiates it, A completes it afterwards.  Alone (and in the
    repaired order, which has no `half` state) no thread can observe `half`. -/
theorem C18_witness_lazy_class :
    (lrun .absent {} {} [true, false, true, true]).2.2.usedHalf = true ∧
    (lrun .absent {} {} [true, true, true, false]).2.2.usedHalf = false ∧
    (lrun .absent {} {} [true, true, true]).2.1.usedHalf = false := by
  decide +kernel

end Cerberus
