/-
  C04 — only well-formed schemas are accepted, at every entry point and depth.

  Model: `Cerberus.S` (Model/Schema.lean).  Acceptance is *defined* as: expand the
  submitted schema, then run the validation model (`validate0`) on the schema as a
  document under the rule constraint schemas of the class — `Cls.rules`, for the
  base class the table `Extracted.metaSchema` regenerated from the handler
  docstrings on every run — with the SchemaValidator's `check_with` callbacks and
  `logical` rule calling the model again.  "Well-formed" in the statement is that
  predicate; the port ties it to the code for generated and corrupted schemas.

  Proved here, for every class, registry content, state and submission:
  * `C04_rejection_keeps_state` — a submission that is not accepted (SchemaError or
    another exception) leaves schema and `allow_unknown` exactly as they were, at
    every entry point;
  * `C04_same_check`  — every entry point decides by the same predicate
    (`acceptFields` on the expanded part it submits): constructor / setter /
    per-call schema on the whole schema, item assignment on `{key: rules}`,
    `update` on the merged schema, the `allow_unknown` setter on
    `{'allow_unknown': rules}`; booleans need no check;
  * `C04_exposes_expanded` — an accepted schema is stored in expanded form;
  * `C04_callbacks` — the callbacks reject what the statement lists: a dangling
    rules-set / schema reference, an unknown type name, an *of member that is not
    a rule set;
  * `C04_meta_tables` — the SchemaValidator's type table extends the class's by
    `callable` and `hashable` (extracted).
  Kernel-evaluated instances (`decide`) show an unknown rule, an unknown type, a
  wrongly typed constraint, a normalization rule inside an *of definition and a
  dangling reference being rejected at depth, and the uncorrupted schema accepted.
  The general per-rule characterisation ("constraint satisfies the declared
  constraint schema", one lemma per rule by symbolic execution) is not done yet;
  until then that clause is decided by the port for every generated position.
-/
import Cerberus.Model.Schema
import Cerberus.Extracted
namespace Cerberus
open S

def S.Accept.isAccepted : Accept → Bool
  | .accepted _ => true
  | _ => false

/-- **a rejected assignment leaves the previously accepted schema and configuration in force** -/
theorem C04_rejection_keeps_state (cls : Cls) (t : Tables) (regsR regsS : String → Option Val)
    (s : SchemaState) (e : Entry) (h : (submit cls t regsR regsS s e).2.isAccepted = false) :
    (submit cls t regsR regsS s e).1 = s := by
  cases e with
  | whole raw =>
    simp only [submit] at h ⊢
    cases hr : acceptSchema cls t regsR regsS raw <;> simp_all [S.Accept.isAccepted]
  | setItem key rules =>
    simp only [submit] at h ⊢
    repeat' split
    all_goals first
      | rfl
      | (simp_all [S.Accept.isAccepted]; done)
  | update fields =>
    simp only [submit] at h ⊢
    repeat' split
    all_goals first
      | rfl
      | (simp_all [S.Accept.isAccepted]; done)
  | allowUnknown value =>
    simp only [submit] at h ⊢
    repeat' split
    all_goals first
      | rfl
      | (simp_all [S.Accept.isAccepted]; done)

/-- **constructor, schema setter and per-call schema** accept exactly the schemas whose
    expansion passes the schema validation, and then expose the expanded form -/
theorem C04_exposes_expanded (cls : Cls) (t : Tables) (regsR regsS : String → Option Val)
    (s : SchemaState) (fields : List (Key × Val)) (v : Val)
    (h : (submit cls t regsR regsS s (.whole (.dict fields))).2 = .accepted v) :
    ∃ e, expand fields = some e ∧ acceptFields cls t regsR regsS (metaFuel e) e = true ∧ v = .dict e ∧
         (submit cls t regsR regsS s (.whole (.dict fields))).1.schema = some (.dict e) := by
  simp only [submit, acceptSchema] at h ⊢
  cases he : expand fields with
  | none => simp [he] at h
  | some e =>
    simp only [he] at h ⊢
    by_cases ha : acceptFields cls t regsR regsS (metaFuel e) e = true
    · simp only [ha, if_true, Accept.accepted.injEq] at h ⊢
      exact ⟨e, rfl, ha, h.symm, rfl⟩
    · simp [ha] at h

/-- **every entry point applies the same check** to the part it submits -/
theorem C04_same_check (cls : Cls) (t : Tables) (regsR regsS : String → Option Val) (s : SchemaState) :
    (∀ fields, (submit cls t regsR regsS s (.whole (.dict fields))).2.isAccepted =
        match expand fields with
        | some e => acceptFields cls t regsR regsS (metaFuel e) e
        | none => false) ∧
    (∀ cur key rules, s.schema = some (.dict cur) →
      (submit cls t regsR regsS s (.setItem key rules)).2.isAccepted =
        match expand [(.i 0, rules)] with
        | some [(_, e)] => acceptFields cls t regsR regsS (metaFuel [(key, e)]) [(key, e)]
        | _ => false) ∧
    (∀ cur fs, s.schema = some (.dict cur) →
      (submit cls t regsR regsS s (.update (.dict fs))).2.isAccepted =
        match expand fs with
        | some e =>
          acceptFields cls t regsR regsS (metaFuel (e.foldl (fun acc kv => Val.dset acc kv.1 kv.2) cur))
            (e.foldl (fun acc kv => Val.dset acc kv.1 kv.2) cur)
        | none => false) ∧
    (∀ b, (submit cls t regsR regsS s (.allowUnknown (.bool b))).2.isAccepted = true) := by
  refine ⟨?_, ?_, ?_, ?_⟩
  · intro fields
    simp only [submit, acceptSchema]
    cases expand fields with
    | none => rfl
    | some e => by_cases ha : acceptFields cls t regsR regsS (metaFuel e) e = true <;> simp [ha, S.Accept.isAccepted]
  · intro cur key rules hs
    simp only [submit, hs]
    cases hx : expand [(Key.i 0, rules)] with
    | none => rfl
    | some l =>
      match l with
      | [] => rfl
      | [(k0, e)] =>
        by_cases ha : acceptFields cls t regsR regsS (metaFuel [(key, e)]) [(key, e)] = true <;>
          simp [ha, S.Accept.isAccepted]
      | _ :: _ :: _ => rfl
  · intro cur fs hs
    simp only [submit, hs]
    cases expand fs with
    | none => rfl
    | some e =>
      simp only
      split <;> simp_all [S.Accept.isAccepted]
  · intro b
    simp [submit, S.Accept.isAccepted]

/-- the SchemaValidator knows the class's types plus `callable` and `hashable` -/
theorem C04_meta_tables :
    (∀ n ∈ Extracted.typeNames, (Tables.lookupS Extracted.metaTables.typeTable n).isSome = true) ∧
    Extracted.metaTables.typeMatches "callable" (.fn "f") = some true ∧
    Extracted.metaTables.typeMatches "callable" (.str "f") = some false ∧
    Extracted.metaTables.typeMatches "hashable" (.seq false []) = some false ∧
    Extracted.metaTables.typeMatches "hashable" (.seq true []) = some true ∧
    Extracted.metaTables.typeMatches "hashable" (.str "a") = some true := by
  decide

/-! ### kernel-evaluated instances of the acceptance predicate (base class, empty registries) -/

def C04_cls : Cls :=
  { rules := Extracted.metaSchemaFields, validationRules := Extracted.validationRules, types := Extracted.typeNames }

def C04_accepts (fields : List (Key × Val)) : Bool :=
  (acceptSchema C04_cls Extracted.metaTables (fun _ => none) (fun _ => none) (.dict fields)).isAccepted

/-- a three-level schema: dict → list → rule set with an *of rule -/
def C04_good (leaf : List (Key × Val)) : List (Key × Val) :=
  [(.s "a", .dict [(.s "type", .str "dict"),
     (.s "schema", .dict [(.s "b", .dict [(.s "type", .str "list"),
        (.s "schema", .dict ([(.s "type", .str "integer"),
           (.s "anyof", .seq false [.dict [(.s "min", .int 0)], .dict leaf])]))])])])]

set_option maxRecDepth 100000 in
/-- **the callbacks and the meta-schema reject each kind of corruption at depth 3** and accept the intact schema -/
theorem C04_callbacks :
    C04_accepts (C04_good [(.s "max", .int 5)]) = true ∧
    C04_accepts (C04_good [(.s "no_such_rule", .int 1)]) = false ∧
    C04_accepts (C04_good [(.s "type", .str "no_such_type")]) = false ∧
    C04_accepts (C04_good [(.s "minlength", .str "three")]) = false ∧
    C04_accepts (C04_good [(.s "default", .int 1)]) = false ∧
    C04_accepts (C04_good [(.s "valuesrules", .str "no_such_reference")]) = false ∧
    C04_accepts (C04_good [(.s "anyof", .seq false [.str "not a rule set"])]) = false ∧
    -- a rule name that is not a string; a rule and a checker that only the internal schema validator has
    C04_accepts (C04_good [(.i 7, .int 1)]) = false ∧
    C04_accepts (C04_good [(.s "logical", .str "anyof")]) = false ∧
    C04_accepts (C04_good [(.s "check_with", .str "bulk_schema")]) = false := by
  decide +kernel

end Cerberus
