/-
  C12 — each error points to the offending value and the violated constraint.

  Model: `V.mkErr` (= `Validator._error`), `V.buildErrs`, the handler dispatch
  `V.handler` and the error definitions extracted from `cerberus.errors`.

  Proved for every environment, context, schema, document, field:
  * `C12_value`       — the error's document path is the validator's path plus the
                        field, and `error.value` is the document's value at that field
                        (for a missing required field: the mapping lacks the field, so
                        the value is `None`);
  * `C12_constraint`  — for an error of a rule, the schema path is the validator's
                        schema path plus (field, rule) and `error.constraint` is what
                        the field's (dereferenced) rule set holds for that rule —
                        defaults for `nullable` / `required` not spelled out;
  * `C12_definitions` — every (code, rule) pair the handlers can emit is an error
                        definition of `cerberus.errors` (extracted on this run);
  * `C12_emitted`     — the handlers emit only those pairs;
  * `C12_children`    — a handler's error has child errors only if its code is a
                        group code; group / logic bit tests agree with the extracted
                        classification of all 256 codes.
-/
import Cerberus.Proofs.Validate
import Cerberus.Props.C01
namespace Cerberus
open V

/-- **document path and value** -/
theorem C12_value (env : Env) (ctx : Ctx) (schema doc : Val) (f : Key) (code : Nat)
    (rule : Option String) (info : List Val) (kids : List Err) (e : Err)
    (h : mkErr env ctx schema doc f code rule info kids = .ok e) :
    e.dp = ctx.docPath ++ [f] ∧ e.value = (doc.dget? f).getD .none ∧ e.code = code ∧ e.rule = rule ∧
    e.kids = kids ∧ e.info = info := by
  unfold mkErr at h
  cases rule with
  | none =>
    simp only [pure, Except.pure, Except.ok.injEq] at h
    subst h; exact ⟨rfl, rfl, rfl, rfl, rfl, rfl⟩
  | some r =>
    simp only [bind, Except.bind] at h
    repeat' (split at h)
    all_goals first
      | (simp only [pure, Except.pure, Except.ok.injEq] at h; subst h; exact ⟨rfl, rfl, rfl, rfl, rfl, rfl⟩)
      | (simp [raisePy] at h; done)

/-- **schema path and constraint** of an error of a rule -/
theorem C12_constraint (env : Env) (ctx : Ctx) (schema doc : Val) (f : Key) (code : Nat)
    (r : String) (info : List Val) (kids : List Err) (e : Err)
    (h : mkErr env ctx schema doc f code (some r) info kids = .ok e) :
    ∃ rs, fieldRules env schema f "_error" = .ok rs ∧
      ((rs.dget? (kS r)).isSome = true →
         e.constraint = (rs.dget? (kS r)).getD .none ∧ e.spStr = false ∧
         e.sp = if code == Code.UNKNOWN_FIELD then ctx.schemaPath else ctx.schemaPath ++ [f, kS r]) ∧
      ((rs.dget? (kS r)).isSome = false →
         (r = "nullable" ∧ e.constraint = .bool false) ∨
         (r = "required" ∧ e.constraint = ctx.cfg.requireAll ∧ e.spStr = true)) := by
  unfold mkErr at h
  simp only [bind, Except.bind] at h
  cases hf : fieldRules env schema f "_error" with
  | error x => simp [hf] at h
  | ok rs =>
    refine ⟨rs, rfl, ?_, ?_⟩
    · intro hs
      simp only [hf] at h
      cases hg : rs.dget? (kS r) with
      | none => simp [hg] at hs
      | some c =>
        simp only [hg] at h
        repeat' (split at h)
        all_goals first
          | (simp only [pure, Except.pure, Except.ok.injEq] at h; subst h
             simp_all [Err.constraint, Err.spStr, Err.sp])
          | (simp [raisePy] at h; done)
    · intro hs
      simp only [hf] at h
      cases hg : rs.dget? (kS r) with
      | some c => simp [hg] at hs
      | none =>
        simp only [hg] at h
        repeat' (split at h)
        all_goals first
          | (simp only [pure, Except.pure, Except.ok.injEq] at h; subst h
             simp_all [Err.constraint, Err.spStr])
          | (simp [raisePy] at h; done)

/-- the (code, rule) pairs of the validation handlers of the model -/
def emittedPairs : List (Nat × Option String) :=
  [ (Code.CUSTOM, none), (Code.REQUIRED_FIELD, some "required"), (Code.UNKNOWN_FIELD, none),
    (Code.DEPENDENCIES_FIELD, some "dependencies"), (Code.DEPENDENCIES_FIELD_VALUE, some "dependencies"),
    (Code.EXCLUDES_FIELD, some "excludes"), (Code.EMPTY_NOT_ALLOWED, some "empty"),
    (Code.NOT_NULLABLE, some "nullable"), (Code.BAD_TYPE, some "type"),
    (Code.BAD_TYPE_FOR_SCHEMA, some "schema"), (Code.ITEMS_LENGTH, some "items"),
    (Code.MIN_LENGTH, some "minlength"), (Code.MAX_LENGTH, some "maxlength"),
    (Code.REGEX_MISMATCH, some "regex"), (Code.MIN_VALUE, some "min"), (Code.MAX_VALUE, some "max"),
    (Code.UNALLOWED_VALUE, some "allowed"), (Code.UNALLOWED_VALUES, some "allowed"),
    (Code.FORBIDDEN_VALUE, some "forbidden"), (Code.FORBIDDEN_VALUES, some "forbidden"),
    (Code.MISSING_MEMBERS, some "contains"), (Code.READONLY_FIELD, some "readonly"),
    (Code.COERCION_FAILED, some "coerce"), (Code.RENAMING_FAILED, some "rename_handler"),
    (Code.SETTING_DEFAULT_FAILED, some "default_setter"),
    (Code.MAPPING_SCHEMA, some "schema"), (Code.SEQUENCE_SCHEMA, some "schema"),
    (Code.KEYSRULES, some "keysrules"), (Code.VALUESRULES, some "valuesrules"), (Code.BAD_ITEMS, some "items"),
    (Code.NONEOF, some "noneof"), (Code.ONEOF, some "oneof"), (Code.ANYOF, some "anyof"), (Code.ALLOF, some "allof") ]

/-- **code and rule belong to the same error definition** — on the definitions
    extracted from `cerberus.errors` on this run -/
theorem C12_definitions :
    ∀ p ∈ emittedPairs, ∃ d ∈ Extracted.errorDefs, d.2.1 = p.1 ∧ d.2.2 = p.2 := by
  decide

/-- the extracted bit tests of all 256 codes are the model's `isGroup` / `isLogic` /
    `isNormalization` -/
theorem C12_bits :
    (List.range 256).all (fun c =>
      (Extracted.groupCodes.contains c == (c &&& 0x80 != 0)) &&
      (Extracted.logicCodes.contains c == (c &&& 0x10 != 0)) &&
      (Extracted.normCodes.contains c == (c &&& 0x60 != 0))) = true := by
  decide +kernel

def specOK (sp : ESpec) : Prop :=
  (sp.code, sp.rule) ∈ emittedPairs ∧ (sp.kids ≠ [] → (sp.code &&& 0x80 != 0) = true)

theorem errsOnly_specs {x : M (List ESpec)} {o : HOut} (h : errsOnly x = .ok o) : x = .ok o.errs := by
  unfold errsOnly at h
  split at h
  · simp only [Except.ok.injEq] at h; subst h; rfl
  · simp at h


instance (sp : ESpec) : Decidable ((sp.code, sp.rule) ∈ emittedPairs) := inferInstance

def allOK (specs : List ESpec) : Prop := ∀ sp ∈ specs, specOK sp

theorem allOK_nil : allOK [] := by intro sp h; cases h
theorem allOK_single {sp : ESpec} (h : specOK sp) : allOK [sp] := by
  intro sp' h'
  simp only [List.mem_cons, List.mem_nil_iff, or_false] at h'
  subst h'; exact h
theorem allOK_append {a b : List ESpec} (ha : allOK a) (hb : allOK b) : allOK (a ++ b) := by
  intro sp h
  rcases List.mem_append.mp h with h | h
  · exact ha sp h
  · exact hb sp h

/-- closes `allOK specs` after the handler has been unfolded into `h` -/
macro "spec_tac" h:ident : tactic => `(tactic| (
  try simp only [bind, Except.bind, pure, Except.pure, liftPy] at $h:ident
  repeat' (split at $h:ident)
  all_goals first
    | (simp at $h:ident; done)
    | (simp only [Except.ok.injEq] at $h:ident; subst $h:ident
       first
         | exact allOK_nil
         | exact allOK_single ⟨by dsimp only; decide, fun hk => by first | exact absurd rfl hk | (dsimp only; decide)⟩)
    | (cases $h:ident
       first
         | exact allOK_nil
         | exact allOK_single ⟨by dsimp only; decide, fun hk => by first | exact absurd rfl hk | (dsimp only; decide)⟩)))

theorem hAllowed_specs (env : Env) (ctx : Ctx) (schema doc : Val) (f : Key) (c v : Val) (specs : List ESpec)
    (h : hAllowed env ctx schema doc f c v = .ok specs) : allOK specs := by
  unfold hAllowed at h
  spec_tac h

theorem hForbidden_specs (env : Env) (ctx : Ctx) (schema doc : Val) (f : Key) (c v : Val) (specs : List ESpec)
    (h : hForbidden env ctx schema doc f c v = .ok specs) : allOK specs := by
  unfold hForbidden at h
  spec_tac h

theorem hContains_specs (env : Env) (ctx : Ctx) (schema doc : Val) (f : Key) (c v : Val) (specs : List ESpec)
    (h : hContains env ctx schema doc f c v = .ok specs) : allOK specs := by
  unfold hContains at h
  spec_tac h

theorem hMin_specs (env : Env) (ctx : Ctx) (schema doc : Val) (f : Key) (c v : Val) (specs : List ESpec)
    (h : hMin env ctx schema doc f c v = .ok specs) : allOK specs := by
  unfold hMin at h
  spec_tac h

theorem hMax_specs (env : Env) (ctx : Ctx) (schema doc : Val) (f : Key) (c v : Val) (specs : List ESpec)
    (h : hMax env ctx schema doc f c v = .ok specs) : allOK specs := by
  unfold hMax at h
  spec_tac h

theorem hRegex_specs (env : Env) (ctx : Ctx) (schema doc : Val) (f : Key) (c v : Val) (specs : List ESpec)
    (h : hRegex env ctx schema doc f c v = .ok specs) : allOK specs := by
  unfold hRegex at h
  split at h
  · split at h
    · simp at h
    · cases h; exact allOK_nil
    · cases h; exact allOK_single ⟨by decide, fun hk => absurd rfl hk⟩
  · simp [raisePy] at h
  · cases h; exact allOK_nil

theorem hLength_specs (env : Env) (ctx : Ctx) (schema doc : Val) (f : Key) (c v : Val) (b : Bool) (specs : List ESpec)
    (h : hLength env ctx schema doc f c v b = .ok specs) : allOK specs := by
  unfold hLength at h
  repeat' (split at h)
  all_goals first
    | (simp [raisePy] at h; done)
    | (cases h
       first
         | exact allOK_nil
         | exact allOK_single ⟨by dsimp only; decide, fun hk => absurd rfl hk⟩)

theorem depsSequence_specs (ctx : Ctx) (doc : Val) :
    ∀ (ds : List Val) (specs : List ESpec), depsSequence ctx doc ds = .ok specs → allOK specs
  | [], specs, h => by
    simp only [depsSequence, pure, Except.pure, Except.ok.injEq] at h
    subst h; exact allOK_nil
  | d :: ds, specs, h => by
    simp only [depsSequence, bind, Except.bind, pure, Except.pure] at h
    split at h
    · simp at h
    · split at h
      · simp at h
      · rename_i rest hr
        simp only [Except.ok.injEq] at h
        subst h
        apply allOK_append
        · split
          · exact allOK_nil
          · exact allOK_single ⟨by dsimp only; decide, fun hk => absurd rfl hk⟩
        · exact depsSequence_specs ctx doc ds rest hr

theorem hDependencies_specs (env : Env) (ctx : Ctx) (schema doc : Val) (f : Key) (c v : Val) (specs : List ESpec)
    (h : hDependencies env ctx schema doc f c v = .ok specs) : allOK specs := by
  unfold hDependencies at h
  split at h
  · exact depsSequence_specs _ _ _ _ h
  · split at h
    · simp at h
    · split at h
      · cases h; exact allOK_nil
      · cases h; exact allOK_single ⟨by dsimp only; decide, fun hk => absurd rfl hk⟩
  · cases h; exact allOK_nil

theorem hItems_specs (env : Env) (rec : Rec) (ctx : Ctx) (schema doc : Val) (f : Key) (c v : Val) (upd : Bool)
    (specs : List ESpec) (h : hItems env rec ctx schema doc f c v upd = .ok specs) : allOK specs := by
  unfold hItems at h
  spec_tac h

theorem hKeysrules_specs (env : Env) (rec : Rec) (ctx : Ctx) (schema doc : Val) (f : Key) (c v : Val)
    (specs : List ESpec) (h : hKeysrules env rec ctx schema doc f c v = .ok specs) : allOK specs := by
  unfold hKeysrules at h
  spec_tac h

theorem hValuesrules_specs (env : Env) (rec : Rec) (ctx : Ctx) (schema doc : Val) (f : Key) (c v : Val)
    (upd : Bool) (specs : List ESpec) (h : hValuesrules env rec ctx schema doc f c v upd = .ok specs) :
    allOK specs := by
  unfold hValuesrules at h
  spec_tac h

theorem checkOne_specs (env : Env) (v c : Val) (specs : List ESpec) (h : checkOne env v c = .ok specs) :
    allOK specs := by
  unfold checkOne at h
  repeat' (split at h)
  all_goals first
    | (simp [raisePy] at h; done)
    | (simp only [pure, Except.pure, Except.ok.injEq] at h; subst h
       intro sp hsp
       obtain ⟨m, _, hm⟩ := List.mem_map.mp hsp
       subst hm
       exact ⟨by simp [customSpec, emittedPairs, Code.CUSTOM], fun hk => absurd rfl hk⟩)

theorem checkAll_specs (env : Env) (v : Val) :
    ∀ (cs : List Val) (specs : List ESpec), checkAll env v cs = .ok specs → allOK specs
  | [], specs, h => by
    simp only [checkAll, pure, Except.pure, Except.ok.injEq] at h
    subst h; exact allOK_nil
  | c :: cs, specs, h => by
    simp only [checkAll, bind, Except.bind, pure, Except.pure] at h
    split at h
    · simp at h
    · rename_i a ha
      split at h
      · simp at h
      · rename_i b hb
        simp only [Except.ok.injEq] at h
        subst h
        exact allOK_append (checkOne_specs env v c a ha) (checkAll_specs env v cs b hb)

theorem hCheckWith_specs (env : Env) (c v : Val) (specs : List ESpec)
    (h : hCheckWith env c v = .ok specs) : allOK specs := by
  unfold hCheckWith at h
  split at h
  · exact checkAll_specs env v _ _ h
  · exact checkOne_specs env v c _ h

theorem hLogical_specs (env : Env) (rec : Rec) (ctx : Ctx) (schema doc : Val) (f : Key) (op : String)
    (code : Nat) (c v : Val) (upd : Bool) (specs : List ESpec)
    (hp : (code, some op) ∈ emittedPairs) (hg : (code &&& 0x80 != 0) = true)
    (h : hLogical env rec ctx schema doc f op code c v upd = .ok specs) : allOK specs := by
  unfold hLogical at h
  repeat' (split at h)
  all_goals first
    | (simp at h; done)
    | (simp only [Except.ok.injEq] at h; subst h
       first
         | exact allOK_nil
         | exact allOK_single ⟨hp, fun _ => hg⟩)

theorem hNullable_specs (env : Env) (t : Tables) (ctx : Ctx) (schema doc : Val) (f : Key) (c : Option Val) (v : Val)
    (o : HOut) (h : hNullable env t ctx schema doc f c v = .ok o) : allOK o.errs := by
  unfold hNullable at h
  spec_tac h

theorem hReadonly_specs (env : Env) (ctx : Ctx) (schema doc : Val) (f : Key) (c v : Val) (sofar : List Err)
    (o : HOut) (h : hReadonly env ctx schema doc f c v sofar = .ok o) : allOK o.errs := by
  unfold hReadonly at h
  spec_tac h

theorem hType_specs (env : Env) (t : Tables) (ctx : Ctx) (schema doc : Val) (f : Key) (c v : Val)
    (o : HOut) (h : hType env t ctx schema doc f c v = .ok o) : allOK o.errs := by
  unfold hType at h
  spec_tac h

theorem hEmpty_specs (env : Env) (t : Tables) (ctx : Ctx) (schema doc : Val) (f : Key) (c v : Val)
    (o : HOut) (h : hEmpty env t ctx schema doc f c v = .ok o) : allOK o.errs := by
  unfold hEmpty at h
  spec_tac h

theorem hExcludes_specs (env : Env) (ctx : Ctx) (schema doc : Val) (f : Key) (c v : Val)
    (o : HOut) (h : hExcludes env ctx schema doc f c v = .ok o) : allOK o.errs := by
  unfold hExcludes at h
  spec_tac h

theorem hSchema_specs (env : Env) (rec : Rec) (ctx : Ctx) (schema doc : Val) (f : Key) (c v : Val) (upd : Bool)
    (o : HOut) (h : hSchema env rec ctx schema doc f c v upd = .ok o) : allOK o.errs := by
  unfold hSchema at h
  spec_tac h

/-- **every error a rule handler describes** has a (code, rule) pair of the list
    above, and carries child errors only if its code is a group code -/
theorem C12_emitted (env : Env) (t : Tables) (rec : Rec) (ctx : Ctx) (schema doc : Val) (upd : Bool)
    (f : Key) (defs v : Val) (sofar : List Err) (rule : String) (o : HOut)
    (h : handler env t rec ctx schema doc upd f defs v sofar rule = .ok o) :
    ∀ sp ∈ o.errs, (sp.code, sp.rule) ∈ emittedPairs ∧ (sp.kids ≠ [] → (sp.code &&& 0x80 != 0) = true) := by
  unfold handler at h
  split at h
  all_goals first
    | exact hNullable_specs _ _ _ _ _ _ _ _ _ h
    | exact hReadonly_specs _ _ _ _ _ _ _ _ _ h
    | exact hType_specs _ _ _ _ _ _ _ _ _ h
    | exact hEmpty_specs _ _ _ _ _ _ _ _ _ h
    | exact hExcludes_specs _ _ _ _ _ _ _ _ h
    | exact hSchema_specs _ _ _ _ _ _ _ _ _ _ h
    | exact hAllowed_specs _ _ _ _ _ _ _ _ (errsOnly_specs h)
    | exact hForbidden_specs _ _ _ _ _ _ _ _ (errsOnly_specs h)
    | exact hContains_specs _ _ _ _ _ _ _ _ (errsOnly_specs h)
    | exact hMin_specs _ _ _ _ _ _ _ _ (errsOnly_specs h)
    | exact hMax_specs _ _ _ _ _ _ _ _ (errsOnly_specs h)
    | exact hLength_specs _ _ _ _ _ _ _ _ _ (errsOnly_specs h)
    | exact hRegex_specs _ _ _ _ _ _ _ _ (errsOnly_specs h)
    | exact hDependencies_specs _ _ _ _ _ _ _ _ (errsOnly_specs h)
    | exact hItems_specs _ _ _ _ _ _ _ _ _ _ (errsOnly_specs h)
    | exact hKeysrules_specs _ _ _ _ _ _ _ _ _ (errsOnly_specs h)
    | exact hValuesrules_specs _ _ _ _ _ _ _ _ _ _ (errsOnly_specs h)
    | exact hLogical_specs _ _ _ _ _ _ _ _ _ _ _ _ (by decide) (by decide) (errsOnly_specs h)
    | exact hCheckWith_specs _ _ _ _ (errsOnly_specs h)
    | (simp [raisePy] at h; done)
    | (simp only [] at h
       split at h
       · simp only [Except.ok.injEq] at h; subst h
         intro sp hsp
         obtain ⟨m, _, hm⟩ := List.mem_map.mp hsp
         subst hm
         exact ⟨by simp [customSpec, emittedPairs, Code.CUSTOM], fun hk => absurd rfl hk⟩
       · simp [raisePy] at h)

end Cerberus
