/-
  C09 — *of-rules decide by the number of definitions that validate.

  Model: `V.hLogical` / `V.logicalDefs` / `V.defChild` (Model/Validate.lean).
  `defChild` *is* the individual validation of one definition the statement
  speaks of: the whole current document is validated against
  `{field: definition + inherited type / allow_unknown}` by a child validator of
  the same configuration (validator-level `allow_unknown=True`, same `update`).

  For every `rec` (in particular `validate0` at every fuel), every context,
  document and rule set:
  * `C09_count`     — the count the operators compare is the number of definitions
                      whose individual validation reports no error;
  * `C09_anyof` … `C09_oneof` — the error is filed exactly when that number is
                      zero / fewer than all / more than zero / different from one;
  * `C09_info`      — the error carries the count and the number of definitions;
  * `C09_children`  — its children are exactly the errors of the failing definitions;
  * `C09_skip_none`, `C09_skip_type` — `None` values and type failures skip the
                      *of-rules (on the tables extracted from the live code).
-/
import Cerberus.Proofs.Validate
import Cerberus.Props.C01
namespace Cerberus
open V

/-- number of definitions (numbered from `i`) whose individual validation succeeds -/
def validCount (rec : Rec) (ctx : Ctx) (doc : Val) (f : Key) (op : String) (upd : Bool) (rs : Val) :
    Nat → List Val → Nat
  | _, [] => 0
  | i, d :: ds =>
    (match defChild rec ctx doc f op upd rs i d with
      | .ok [] => 1
      | _ => 0) + validCount rec ctx doc f op upd rs (i + 1) ds

/-- the errors of the failing definitions, schema crumb of the definition's field removed -/
def failingErrs (rec : Rec) (ctx : Ctx) (doc : Val) (f : Key) (op : String) (upd : Bool) (rs : Val) :
    Nat → List Val → List Err
  | _, [] => []
  | i, d :: ds =>
    (match defChild rec ctx doc f op upd rs i d with
      | .ok (e :: es) => dropSpL ctx.schemaPath.length [3] (e :: es)
      | _ => []) ++ failingErrs rec ctx doc f op upd rs (i + 1) ds

/-- **the count is the number of definitions that individually validate**, and the
    collected child errors are those of the others -/
theorem C09_count (rec : Rec) (ctx : Ctx) (doc : Val) (f : Key) (op : String) (upd : Bool) (rs : Val) :
    ∀ (defs : List Val) (i n : Nat) (es : List Err),
      logicalDefs rec ctx doc f op upd rs i defs = .ok (n, es) →
      n = validCount rec ctx doc f op upd rs i defs ∧ es = failingErrs rec ctx doc f op upd rs i defs
  | [], i, n, es, h => by
    simp only [logicalDefs, Except.ok.injEq, Prod.mk.injEq] at h
    obtain ⟨h1, h2⟩ := h
    subst h1 h2
    exact ⟨rfl, rfl⟩
  | d :: ds, i, n, es, h => by
    simp only [logicalDefs] at h
    split at h
    · simp at h
    · rename_i cerrs hc
      split at h
      · simp at h
      · rename_i n' es' hr
        have ih := C09_count rec ctx doc f op upd rs ds (i + 1) n' es' hr
        cases cerrs with
        | nil =>
          simp only [List.isEmpty_nil, if_true, Except.ok.injEq, Prod.mk.injEq] at h
          obtain ⟨h1, h2⟩ := h
          subst h1 h2
          simp only [validCount, failingErrs, hc, List.nil_append]
          exact ⟨by rw [ih.1]; omega, ih.2⟩
        | cons e es0 =>
          simp only [List.isEmpty_cons, Bool.false_eq_true, if_false, Except.ok.injEq, Prod.mk.injEq] at h
          obtain ⟨h1, h2⟩ := h
          subst h1 h2
          simp only [validCount, failingErrs, hc]
          exact ⟨by rw [ih.1]; omega, by rw [ih.2]⟩

/-- what `hLogical` returns, in terms of the count -/
theorem hLogical_spec (env : Env) (rec : Rec) (ctx : Ctx) (schema doc : Val) (f : Key) (op : String)
    (code : Nat) (c v : Val) (upd : Bool) (specs : List ESpec) (defs : List Val) (rs : Val)
    (hd : c.pyIter? "__validate_logical" = .ok defs)
    (hr : fieldRules env schema f "__validate_logical" = .ok rs)
    (h : hLogical env rec ctx schema doc f op code c v upd = .ok specs) :
    let n := validCount rec ctx doc f op upd rs 0 defs
    specs = if logicalFails op n defs.length then
              [{ code := code, rule := some op, info := [.int n, .int defs.length],
                 kids := failingErrs rec ctx doc f op upd rs 0 defs }]
            else [] := by
  simp only [hLogical, hd, hr] at h
  split at h
  · simp at h
  · rename_i valids errs hl
    have := C09_count rec ctx doc f op upd rs defs 0 valids errs hl
    obtain ⟨h1, h2⟩ := this
    subst h1 h2
    split at h <;> (simp only [Except.ok.injEq] at h; subst h; simp [*])

/-- **anyof fails exactly when no definition validates** -/
theorem C09_anyof (valids n : Nat) : logicalFails "anyof" valids n = true ↔ valids = 0 := by
  simp [logicalFails]
/-- **allof fails exactly when fewer than all definitions validate** -/
theorem C09_allof (valids n : Nat) : logicalFails "allof" valids n = true ↔ valids < n := by
  simp [logicalFails]
/-- **noneof fails exactly when some definition validates** -/
theorem C09_noneof (valids n : Nat) : logicalFails "noneof" valids n = true ↔ valids > 0 := by
  simp [logicalFails]
/-- **oneof fails exactly when the number of validating definitions is not one** -/
theorem C09_oneof (valids n : Nat) : logicalFails "oneof" valids n = true ↔ valids ≠ 1 := by
  simp [logicalFails]

/-- **the error carries the count, the number of definitions and the failing
    definitions' errors**; and no error is filed when the threshold is met -/
theorem C09_info (env : Env) (rec : Rec) (ctx : Ctx) (schema doc : Val) (f : Key) (op : String)
    (code : Nat) (c v : Val) (upd : Bool) (specs : List ESpec) (defs : List Val) (rs : Val)
    (hd : c.pyIter? "__validate_logical" = .ok defs)
    (hr : fieldRules env schema f "__validate_logical" = .ok rs)
    (h : hLogical env rec ctx schema doc f op code c v upd = .ok specs) :
    (∀ sp ∈ specs, sp.code = code ∧ sp.rule = some op ∧
        sp.info = [.int (validCount rec ctx doc f op upd rs 0 defs), .int defs.length] ∧
        sp.kids = failingErrs rec ctx doc f op upd rs 0 defs) ∧
    (specs.isEmpty = !logicalFails op (validCount rec ctx doc f op upd rs 0 defs) defs.length) := by
  have := hLogical_spec env rec ctx schema doc f op code c v upd specs defs rs hd hr h
  simp only at this
  subst this
  split <;> simp [*]

/-- `failingErrs` contains errors of failing definitions only: when every
    definition validates there are no children, and conversely -/
theorem C09_children (rec : Rec) (ctx : Ctx) (doc : Val) (f : Key) (op : String) (upd : Bool) (rs : Val) :
    ∀ (defs : List Val) (i : Nat),
      (∀ d ∈ defs, ∀ j, ∃ es, defChild rec ctx doc f op upd rs j d = .ok es) →
      (failingErrs rec ctx doc f op upd rs i defs = [] ↔
        validCount rec ctx doc f op upd rs i defs = defs.length)
  | [], i, _ => by simp [failingErrs, validCount]
  | d :: ds, i, hok => by
    have ih := C09_children rec ctx doc f op upd rs ds (i + 1) (fun d' hd' j => hok d' (by simp [hd']) j)
    obtain ⟨es, he⟩ := hok d (by simp) i
    have hle : ∀ (l : List Val) (k : Nat), validCount rec ctx doc f op upd rs k l ≤ l.length := by
      intro l
      induction l with
      | nil => intro k; simp [validCount]
      | cons x xs ihx =>
        intro k
        simp only [validCount, List.length_cons]
        have := ihx (k + 1)
        split <;> omega
    simp only [failingErrs, validCount, he, List.length_cons]
    cases es with
    | nil =>
      simp only [List.nil_append]
      rw [ih]; omega
    | cons e es0 =>
      have := hle ds (i + 1)
      simp [dropSpL]
      omega

/-- **None values skip the *of-rules**: on the extracted tables, the `nullable`
    handler drops all four operators for a `None` value -/
theorem C09_skip_none (env : Env) (ctx : Ctx) (schema doc : Val) (f : Key) (c : Option Val) (o : HOut)
    (h : hNullable env Extracted.tables ctx schema doc f c .none = .ok o) :
    "anyof" ∈ o.drop ∧ "allof" ∈ o.drop ∧ "noneof" ∈ o.drop ∧ "oneof" ∈ o.drop := by
  unfold hNullable at h
  simp only [Val.isNone, if_true, bind, Except.bind, pure, Except.pure] at h
  repeat' (split at h)
  all_goals first
    | (simp at h; done)
    | (simp only [Except.ok.injEq] at h; subst h; decide)
    | (cases h; decide)

/-- **a type failure skips the *of-rules** (it ends the evaluation of the field) -/
theorem C09_skip_type (env : Env) (ctx : Ctx) (schema doc : Val) (f : Key) (c v : Val) (o : HOut)
    (h : hType env Extracted.tables ctx schema doc f c v = .ok o) (he : o.errs ≠ []) :
    o.dropAll = true := by
  unfold hType at h
  simp only [bind, Except.bind, pure, Except.pure] at h
  repeat' (split at h)
  all_goals first
    | (simp only [Except.ok.injEq] at h; subst h; first | rfl | (exfalso; exact he rfl))
    | (simp at h; done)
    | (cases h; first | rfl | (exfalso; exact he rfl))

/-! ### non-vacuity: a two-definition anyof evaluated with the real model -/
def C09_env : Env :=
  { rx := fun _ _ => none, coerce := Family.coerce, hasCoercer := fun _ => false,
    setter := fun _ _ => .other "", hasSetter := fun _ => false, checker := fun _ _ => none,
    rulesSets := fun _ => none, schemas := fun _ => none }

def C09_schema : Val :=
  .dict [(.s "a", .dict [(.s "anyof", .seq false [.dict [(.s "min", .int 5)], .dict [(.s "max", .int 0)]])])]

def C09_view (r : M (List Err)) : List (Nat × List Int × Nat) :=
  match r with
  | .ok es => es.map (fun e => (e.code, e.info.map (fun v => match v with | .int n => n | _ => -1), e.kids.length))
  | .error _ => []

example : C09_view (validate0 C09_env Extracted.tables 5 { cfg := {} } C09_schema (.dict [(.s "a", .int 3)]) false)
    = [(0x93, [0, 2], 2)] := by decide
example : C09_view (validate0 C09_env Extracted.tables 5 { cfg := {} } C09_schema (.dict [(.s "a", .int 7)]) false)
    = [] := by decide

end Cerberus
