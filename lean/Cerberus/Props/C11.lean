/-
  C11 — error trees contain exactly the reported errors at their paths.

  Model: `Cerberus.Tree` (`ErrorTree.add`, `fetch_node_from`, `fetch_errors_from`,
  membership and lookup by error definition), for both tree kinds.  All
  statements are for *every* list of errors (any nesting of group / *of errors,
  any paths), i.e. for every error forest a validation can record.
-/
import Cerberus.Proofs.Tree
namespace Cerberus
open Tree

/-- **fetch_errors_from**: what is stored at `q` is exactly the reported errors
    (children included) whose path is `q`, in the order they were reported. -/
theorem C11_fetch (kind : TreeKind) (es : List Err) (q : List Key) :
    (build kind es).fetchErrs q = (flatT kind es).filter (fun x => kind.path x = q) := by
  unfold build
  rw [fetchErrs_addL]
  simp [fetchErrs_empty]

mutual
theorem flatT1_eq_flat (kind : TreeKind) :
    ∀ (e : Err), (∀ x ∈ e.flat, x.isGroup = true → kind.path x ≠ []) → flatT1 kind e = e.flat
  | .mk d s b c r k v i ks, h => by
    simp only [flatT1, Err.flat]
    by_cases hg : (Err.mk d s b c r k v i ks).isGroup = true
    · have hp : kind.path (Err.mk d s b c r k v i ks) ≠ [] :=
        h _ (by simp [Err.flat]) hg
      have hne : (kind.path (Err.mk d s b c r k v i ks)).isEmpty = false := by
        cases hh : kind.path (Err.mk d s b c r k v i ks) with
        | nil => exact absurd hh hp
        | cons _ _ => rfl
      simp only [hg, hne, Bool.not_false, Bool.and_self, if_true]
      rw [flatT_eq_flatten kind ks]
      intro x hx hgx
      exact h x (by simp [Err.flat, hg, hx]) hgx
    · simp [hg]
theorem flatT_eq_flatten (kind : TreeKind) :
    ∀ (es : List Err), (∀ x ∈ flatten es, x.isGroup = true → kind.path x ≠ []) → flatT kind es = flatten es
  | [], _ => by simp [flatT, flatten]
  | e :: es, h => by
    simp only [flatT, flatten]
    rw [flatT1_eq_flat kind e, flatT_eq_flatten kind es]
    · intro x hx hg; exact h x (by simp [flatten, hx]) hg
    · intro x hx hg; exact h x (by simp [flatten, hx]) hg
end

/-- The same with plain flattening, for forests in which every group error has
    a path (all errors a validator files have a non-empty document path; a group
    error always has a rule, hence a non-empty schema path). -/
theorem C11_fetch_flatten (kind : TreeKind) (es : List Err) (q : List Key)
    (h : GroupsHavePaths kind es) :
    (build kind es).fetchErrs q = (flatten es).filter (fun x => kind.path x = q) := by
  rw [C11_fetch, flatT_eq_flatten kind es h]

/-- **nothing else is in the trees**: an error found at `q` was reported and has path `q`. -/
theorem C11_nothing_else (kind : TreeKind) (es : List Err) (q : List Key) (e : Err)
    (h : e ∈ (build kind es).fetchErrs q) : e ∈ flatT kind es ∧ kind.path e = q := by
  rw [C11_fetch] at h
  simpa using h

/-- every reported error is retrievable at precisely its path -/
theorem C11_retrievable (kind : TreeKind) (es : List Err) (e : Err) (h : e ∈ flatT kind es) :
    e ∈ (build kind es).fetchErrs (kind.path e) := by
  rw [C11_fetch]
  simp [h]

/-- **fetch_node_from**: a node exists at `q` iff `q` is the root or a prefix of
    the path of some reported error — no empty branches. -/
theorem C11_node (kind : TreeKind) (es : List Err) (q : List Key) :
    ((build kind es).fetchNode q).isSome =
      (q.isEmpty || (flatT kind es).any (fun x => q.isPrefixOf (kind.path x))) := by
  unfold build
  rw [node_addL]
  cases q with
  | nil => simp
  | cons k q => simp [fetchNode_empty_cons]

/-- membership test and lookup by error definition agree with the node's list -/
theorem C11_lookup (t : Tree) (code : Nat) :
    (t.containsCode code = t.errs.any (·.code == code)) ∧
    (t.getByCode code = t.errs.find? (·.code == code)) ∧
    ((t.getByCode code).isSome = t.containsCode code) := by
  refine ⟨rfl, rfl, ?_⟩
  simp only [getByCode, containsCode]
  induction t.errs with
  | nil => rfl
  | cons x xs ih =>
    simp only [List.find?_cons, List.any_cons]
    cases hx : (x.code == code) <;> simp [ih]

theorem isEmpty_insert (t : Tree) (p : List Key) (e : Err) : (t.insert p e).isEmpty = false := by
  obtain ⟨es, d⟩ := t
  cases p with
  | nil => simp [Tree.insert, Tree.isEmpty]
  | cons k p =>
    simp only [Tree.insert, Tree.isEmpty]
    cases d with
    | nil => simp [upsert]
    | cons hd tl =>
      obtain ⟨k', t'⟩ := hd
      simp only [upsert]
      split <;> simp

mutual
theorem isEmpty_add (kind : TreeKind) : ∀ (e : Err) (t : Tree), (add kind t e).isEmpty = false
  | .mk d s b c r k v i ks, t => by
    simp only [add]
    split
    · exact isEmpty_addL kind ks _ (isEmpty_insert _ _ _)
    · exact isEmpty_insert _ _ _
theorem isEmpty_addL (kind : TreeKind) :
    ∀ (es : List Err) (t : Tree), t.isEmpty = false → (addL kind t es).isEmpty = false
  | [], t, h => by simpa [addL] using h
  | e :: es, t, _ => by
    simp only [addL]
    exact isEmpty_addL kind es _ (isEmpty_add kind e t)
end

/-- **both trees are empty iff nothing was reported** -/
theorem C11_empty (kind : TreeKind) (es : List Err) :
    (build kind es).isEmpty = es.isEmpty := by
  cases es with
  | nil => rfl
  | cons e es =>
    simp only [build, addL, List.isEmpty_cons]
    exact isEmpty_addL kind es _ (isEmpty_add kind e empty)

/-! ### non-vacuity: a nested forest (a `schema` group error holding an `anyof`
    logic error holding a leaf) meets the hypothesis and exercises every branch -/

def C11_sample : List Err :=
  [ .mk [.s "a"] [.s "a", .s "schema"] false 0x81 (some "schema") .none .none []
      [ .mk [.s "a", .s "b"] [.s "a", .s "schema", .s "b", .s "anyof"] false 0x93 (some "anyof") .none .none []
          [ .mk [.s "a", .s "b"] [.s "a", .s "schema", .s "b", .s "anyof", .i 0, .s "type"] false 0x24 (some "type")
              .none .none [] [] ] ],
    .mk [.s "c"] [] false 0x03 none .none .none [] [] ]

example : ((build .document C11_sample).fetchErrs [.s "a", .s "b"]).map Err.code =
    ((flatten C11_sample).filter (fun x => x.dp = [.s "a", .s "b"])).map Err.code := by decide
example : GroupsHavePaths .document C11_sample ∧ GroupsHavePaths .schema C11_sample := by
  constructor <;> (intro e he; revert e; decide)
example : ((build .document C11_sample).fetchErrs [.s "a", .s "b"]).length = 2 := by decide
example : ((build .schema C11_sample).fetchNode [.s "a", .s "schema", .s "b"]).isSome = true := by decide
example : ((build .schema C11_sample).fetchNode [.s "a", .s "zz"]).isSome = false := by decide

end Cerberus
