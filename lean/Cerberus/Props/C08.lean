/-
  C08 — the validated-schema cache is never observable except in speed.

  Model: `Cerberus.Cache` — the cache as a list of entries (key shape, structural key
  of the item, structural key of `types_mapping`) and the protocol common to the four
  lookup sites (a hit skips the validation, a successful validation adds the entry).
  Neither the class nor the lookup site is part of an entry, and the structural key
  identifies values that Python's `hash`/`==` identify.

  * `C08_transparent_partial` — for every history of submissions and `clear_caches()`
    in which no two submissions between two clears *confuse* the cache (an entry added
    by a valid submission is hit later by a submission that is invalid in its own
    context), every outcome equals the outcome with the cache cleared immediately
    beforehand.  "Partial": the hypothesis is needed — the unchanged code violates
    the unconditional statement, see the witnesses.
  * `C08_clear` — `clear_caches()` empties the cache, so the next outcome is the cold one.
  * `C08_witness_type`, `C08_witness_hash`, `C08_witness_string`, `C08_witness_context`,
    `C08_witness_subclass`, `C08_witness_registry`, `C08_witness_recursive` — the negation of the unconditional statement: concrete
    two-step histories whose second outcome differs warm and cold (known findings
    F13a–g; each is replayed on the real code by the check).
  * `C08_keys` — what the key identifies and what it keeps apart.
-/
import Cerberus.Model.Cache
namespace Cerberus
open Cache

/-- the operations up to the next `clear_caches()` -/
def untilClear : List Op → List Op
  | [] => []
  | .clear :: _ => []
  | op :: r => op :: untilClear r

def Cache.Op.hitsEntry (e : Entry) : Op → Bool
  | .submit site item types _ => e.same (mkEntry site item types)
  | .clear => false

def Cache.Op.isValid : Op → Bool
  | .submit _ _ _ v => v
  | .clear => true

/-- no submission is confused with an earlier valid one (before the next clear) -/
def NoConfusion : List Op → Prop
  | [] => True
  | .clear :: r => NoConfusion r
  | .submit site item types v :: r =>
    (v = true → ∀ b ∈ untilClear r, b.hitsEntry (mkEntry site item types) = true → b.isValid = true) ∧
    NoConfusion r

/-- every entry of the cache is hit only by valid submissions (before the next clear) -/
def Sound (c : State) (ops : List Op) : Prop :=
  ∀ e ∈ c, ∀ b ∈ untilClear ops, b.hitsEntry e = true → b.isValid = true

theorem sound_tail (c : State) (op : Op) (r : List Op) (h : Sound c (op :: r)) (hne : op ≠ .clear) :
    Sound c r := by
  intro e he b hb hh
  apply h e he b _ hh
  cases op with
  | clear => exact absurd rfl hne
  | submit s i t v => simp [untilClear, hb]

/-- **the cache is transparent as long as it is not confused** -/
theorem C08_transparent_partial :
    ∀ (ops : List Op) (c : State), Sound c ops → NoConfusion ops → run c ops = ops.map cold
  | [], _, _, _ => rfl
  | .clear :: r, c, _, hn => by
    simp only [run, step, cold, List.map_cons]
    congr 1
    exact C08_transparent_partial r [] (by intro e he; cases he) hn
  | .submit site item types v :: r, c, hs, hn => by
    obtain ⟨hv, hn'⟩ := hn
    simp only [run, step, lookup, cold, List.map_cons]
    by_cases hh : hit c (mkEntry site item types) = true
    · -- a hit: the entry was added by a valid submission, so this one is valid too
      simp only [hh, if_true]
      obtain ⟨e, he, hsame⟩ := List.any_eq_true.mp hh
      have hvalid : v = true := by
        have := hs e he (.submit site item types v) (by simp [untilClear]) (by
          simpa only [Cache.Op.hitsEntry] using hsame)
        simpa [Cache.Op.isValid] using this
      subst hvalid
      congr 1
      exact C08_transparent_partial r c (sound_tail c _ r hs (by simp)) hn'
    · simp only [hh, Bool.false_eq_true, if_false]
      cases v with
      | true =>
        simp only [if_true]
        congr 1
        apply C08_transparent_partial r _ _ hn'
        intro e he b hb hhit
        rcases List.mem_cons.mp he with rfl | he'
        · exact hv rfl b hb hhit
        · exact (sound_tail c _ r hs (by simp)) e he' b hb hhit
      | false =>
        simp only [Bool.false_eq_true, if_false]
        congr 1
        exact C08_transparent_partial r c (sound_tail c _ r hs (by simp)) hn'

/-- **clear_caches() changes no outcome**: the next submission is decided cold -/
theorem C08_clear (c : State) (site : Site) (item types : Val) (valid : Bool) :
    run c [.clear, .submit site item types valid] = [none, some valid] := by
  cases valid <;> simp [run, step, lookup, hit]

/-! ### the unconditional statement is false of the code: witnesses (known findings F13a-e) -/

def T : Val := .dict []          -- the same `types_mapping` throughout

/-- equal value, different type: `{'required': True}` then `{'required': 1}` -/
theorem C08_witness_type :
    run [] [.submit .bulk (.dict [(.s "required", .bool true)]) T true,
            .submit .bulk (.dict [(.s "required", .int 1)]) T false] = [some true, some true] := by decide

/-- colliding integer hashes: `{'required': False}` then `{'required': 2**61 - 1}` -/
theorem C08_witness_hash :
    run [] [.submit .bulk (.dict [(.s "required", .bool false)]) T true,
            .submit .bulk (.dict [(.s "required", .int 2305843009213693951)]) T false] = [some true, some true] := by
  decide

/-- a string and the list of its characters: `{'regex': 'ab'}` then `{'regex': ['a', 'b']}` -/
theorem C08_witness_string :
    run [] [.submit .bulk (.dict [(.s "regex", .str "ab")]) T true,
            .submit .bulk (.dict [(.s "regex", .seq false [.str "a", .str "b"])]) T false] = [some true, some true] := by
  decide

/-- rule context: a rule set with a normalization rule is fine under `valuesrules`, not in an *of definition -/
theorem C08_witness_context :
    run [] [.submit .bulk (.dict [(.s "default", .int 1)]) T true,
            .submit .logical (.dict [(.s "default", .int 1)]) T false] = [some true, some true] := by decide

/-- subclass leakage: a rule of a subclass (same `types_mapping`) validated by the subclass, then
    submitted to the base class, which does not define it -/
theorem C08_witness_subclass :
    run [] [.submit .bulk (.dict [(.s "is_odd", .bool true)]) T true,      -- subclass: valid
            .submit .bulk (.dict [(.s "is_odd", .bool true)]) T false]     -- base class: invalid
      = [some true, some true] := by decide

/-- a reference is cached by its *name*: the rule set `{'type': 'dict', 'schema': 'node'}` validated while the
    registry holds a valid definition of `node`, submitted again after `node` was redefined to an invalid one
    (known finding F13f) -/
theorem C08_witness_registry :
    run [] [.submit .bulk (.dict [(.s "type", .str "dict"), (.s "schema", .str "node")]) T true,     -- registry: node valid
            .submit .bulk (.dict [(.s "type", .str "dict"), (.s "schema", .str "node")]) T false]    -- registry: node invalid
      = [some true, some true] := by decide

/-- a part of a self-referential definition is validated while the definition itself is still being
    checked: the cycle guard answers "known", the part is cached as valid, and the definition is then
    rejected for another field; the part submitted on its own is accepted warm (known finding F13g) -/
theorem C08_witness_recursive :
    run [] [.submit .bulk (.dict [(.s "type", .str "dict"), (.s "schema", .str "node")]) T true,     -- inside node, guard says known
            .submit .subschema (.dict [(.s "v", .dict [(.s "type", .str "integerx")])]) T false,      -- node itself: rejected
            .submit .bulk (.dict [(.s "type", .str "dict"), (.s "schema", .str "node")]) T false]    -- the part alone: invalid cold
      = [some true, some false, some true] := by decide

/-- the witnesses violate exactly the hypothesis of `C08_transparent_partial` -/
theorem C08_witness_confused :
    ¬ NoConfusion [.submit .bulk (.dict [(.s "required", .bool true)]) T true,
                   .submit .bulk (.dict [(.s "required", .int 1)]) T false] := by
  intro h
  have := h.1 rfl (.submit .bulk (.dict [(.s "required", .int 1)]) T false) (by simp [untilClear]) (by decide)
  simp [Cache.Op.isValid] at this

/-- **what the key identifies, and what it keeps apart** -/
theorem C08_keys :
    sameKey (.dict [(.s "a", .int 1), (.s "b", .int 2)]) (.dict [(.s "b", .int 2), (.s "a", .int 1)]) = true ∧
    sameKey (.dict [(.s "a", .seq false [.int 1])]) (.dict [(.s "a", .seq true [.int 1])]) = true ∧
    sameKey (.dict [(.s "a", .bool true)]) (.dict [(.s "a", .flt 1 0)]) = true ∧
    sameKey (.dict [(.s "a", .int (-1))]) (.dict [(.s "a", .int (-2))]) = true ∧
    sameKey (.dict [(.s "a", .int 1)]) (.dict [(.s "a", .int 2)]) = false ∧
    sameKey (.dict [(.s "a", .str "x")]) (.dict [(.s "a", .str "y")]) = false ∧
    sameKey (.dict [(.s "a", .int 1)]) (.dict [(.s "b", .int 1)]) = false ∧
    sameKey (.dict [(.s "a", .dict [(.s "type", .str "integer")])]) (.dict [(.s "a", .dict [(.s "type", .str "string")])]) = false := by
  decide

/-- non-vacuity of the transparency theorem: a history with repeats, an invalid item and a clear -/
example : NoConfusion [.submit .bulk (.dict [(.s "type", .str "integer")]) T true,
                       .submit .bulk (.dict [(.s "type", .str "integer")]) T true,
                       .submit .logical (.dict [(.s "nope", .int 1)]) T false,
                       .clear,
                       .submit .bulk (.dict [(.s "nope", .int 1)]) T false] := by
  simp only [NoConfusion, untilClear]
  refine ⟨?_, ?_, ?_, ?_, trivial⟩ <;> (intro _; decide)

end Cerberus
