/-
  C15 — schema shorthands mean exactly their canonical form.

  Model: `S.expand` (Model/Schema.lean) = `DefinitionSchema.expand`: rule names with
  spaces are normalized, `<of-rule>_<rule>` shorthands are expanded, sub-schemas /
  bulk rule sets / items / *of definitions / allow_unknown rule sets are expanded
  recursively, deprecated rule names are renamed.  Everything downstream
  (acceptance, validation, normalization, `validator.schema`) consumes the
  *expanded* schema (`C04_exposes_expanded`), so a shorthand and its canonical
  form behave identically as soon as they expand to the same schema.

  Proved here, for every constraint value:
  * `C15_split`, `C15_underscore` — a key `<op>_<rule>` is split at the first
    underscore after the operator, for every rule name — in particular names that
    contain underscores themselves (`check_with`, `allow_unknown`, …);
  * `C15_shorthand` — `{<op>_<rule>: [v1, …, vn]}` expands to
    `{<op>: [{<rule>: v1}, …, {<rule>: vn}]}`;
  * `C15_deprecated` — `keyschema`, `valueschema`, `validator` are renamed, the
    constraint untouched; `C15_deprecated_conflict` — old and new name together are
    refused;
  * `C15_spaces` — a rule name with spaces becomes the name with underscores;
  * `C15_nested` (kernel-evaluated) — all of it at depth: inside a sub-schema, a
    list schema, `valuesrules`, `items`, an *of definition and an `allow_unknown`
    rule set, the shorthand form and the canonical form expand to the same schema,
    and expansion of the result changes nothing (`C15_idempotent_instance`).
  The unbounded "wherever in the schema" clause is decided by the accept port and
  the oracle over random rewritings at every eligible position; finding F15c lists
  the one position class where the code does not expand.
-/
import Cerberus.Model.Schema
namespace Cerberus
open S

/-- **the operator is split off at the first underscore** — whatever the rule name is -/
theorem C15_split (r : List Char) :
    splitOf (String.ofList ("allof".toList ++ '_' :: r)) = some ("allof", String.ofList r) ∧
    splitOf (String.ofList ("anyof".toList ++ '_' :: r)) = some ("anyof", String.ofList r) ∧
    splitOf (String.ofList ("noneof".toList ++ '_' :: r)) = some ("noneof", String.ofList r) ∧
    splitOf (String.ofList ("oneof".toList ++ '_' :: r)) = some ("oneof", String.ofList r) := by
  refine ⟨?_, ?_, ?_, ?_⟩ <;>
    simp [splitOf, splitOfChars, ofPrefixes, String.toList_ofList, List.isPrefixOf]

/-- rules whose own name contains an underscore -/
theorem C15_underscore :
    splitOf "anyof_check_with" = some ("anyof", "check_with") ∧
    splitOf "oneof_allow_unknown" = some ("oneof", "allow_unknown") ∧
    splitOf "noneof_rename_handler" = some ("noneof", "rename_handler") ∧
    splitOf "allof_type" = some ("allof", "type") ∧
    splitOf "anyof" = none ∧ splitOf "anyofx_type" = none ∧ splitOf "type" = none := by
  decide

/-- **the shorthand expands to one single-rule definition per value** -/
theorem C15_shorthand (key op rule : String) (tup : Bool) (vals : List Val)
    (h : splitOf key = some (op, rule)) (hne : key ≠ op) :
    expandLogicalRules [(.s key, .seq tup vals)] =
      ([(.s op, .seq false (vals.map (fun v => .dict [(.s rule, v)])))], false) := by
  have hk : ¬ (Key.s key = Key.s op) := by intro e; injection e with e'; exact hne e'
  have hk' : ¬ (Key.s op = Key.s key) := fun e => hk e.symm
  simp [expandLogicalRules, h, Val.dlookup, Val.dset, Val.ddel, iterConstraint, hk, hk']

/-- **deprecated rule names are renamed**, the constraint is kept -/
theorem C15_deprecated (c : Val) :
    renameRules [(.s "keyschema", c)] = some [(.s "keysrules", c)] ∧
    renameRules [(.s "valueschema", c)] = some [(.s "valuesrules", c)] ∧
    renameRules [(.s "validator", c)] = some [(.s "check_with", c)] ∧
    renameRules [(.s "type", c)] = some [(.s "type", c)] := by
  refine ⟨?_, ?_, ?_, ?_⟩ <;> rfl

/-- old and new name in one rule set: refused (RuntimeError in the code) -/
theorem C15_deprecated_conflict (c d : Val) :
    renameRules [(.s "keyschema", c), (.s "keysrules", d)] = none := by rfl

/-- **spaces in rule names become underscores** -/
theorem C15_spaces (c : Val) :
    normalizeNames [(.s "check with", c)] = [(.s "check_with", c)] ∧
    normalizeNames [(.s "allow unknown", c)] = [(.s "allow_unknown", c)] ∧
    normalizeNames [(.s "default setter", c)] = [(.s "default_setter", c)] ∧
    normalizeNames [(.s "anyof type", c)] = [(.s "anyof_type", c)] ∧
    normalizeNames [(.s "type", c)] = [(.s "type", c)] := by
  refine ⟨?_, ?_, ?_, ?_, ?_⟩ <;> rfl

/-! ### at depth -/

def C15_types : Val := .seq false [.str "integer", .str "string"]
def C15_defs : Val := .seq false [.dict [(.s "type", .str "integer")], .dict [(.s "type", .str "string")]]

/-- a rule set in shorthand / deprecated / spaced form … -/
def C15_short : Val :=
  .dict [(.s "anyof_type", C15_types), (.s "valueschema", .dict [(.s "oneof type", C15_types)]),
         (.s "check with", .fn "k_odd")]
/-- … and its canonical form -/
def C15_canon : Val :=
  .dict [(.s "anyof", C15_defs), (.s "valuesrules", .dict [(.s "oneof", C15_defs)]),
         (.s "check_with", .fn "k_odd")]

/-- the same rule set planted at every kind of nested position -/
def C15_planted (r : Val) : List (Key × Val) :=
  [(.s "a", .dict [(.s "type", .str "dict"), (.s "schema", .dict [(.s "x", r)])]),
   (.s "b", .dict [(.s "type", .str "list"), (.s "schema", .dict [(.s "type", .str "dict"), (.s "valuesrules", r)])]),
   (.s "c", .dict [(.s "type", .str "list"), (.s "items", .seq false [r])]),
   (.s "d", .dict [(.s "allof", .seq false [r])]),
   (.s "e", .dict [(.s "type", .str "dict"), (.s "allow_unknown", r)]),
   (.s "f", r)]

def C15_same (a b : Option (List (Key × Val))) : Bool :=
  match a, b with
  | some x, some y => Val.pyEq (.dict x) (.dict y)
  | _, _ => false

set_option maxRecDepth 100000 in
/-- **wherever the shorthand occurs**: the shorthand form and the canonical form expand to the same schema -/
theorem C15_nested : C15_same (expand (C15_planted C15_short)) (expand (C15_planted C15_canon)) = true := by
  decide +kernel

set_option maxRecDepth 100000 in
/-- expanding an expanded schema changes nothing -/
theorem C15_idempotent_instance :
    C15_same ((expand (C15_planted C15_short)).bind expand) (expand (C15_planted C15_short)) = true ∧
    C15_same (expand (C15_planted C15_canon)) (some (C15_planted C15_canon)) = true := by
  decide +kernel

/-! ### negation (known finding F15d): a field given by reference hides its neighbours from the expansion -/

/-- `{'d': {'type': 'dict', 'schema': {'a': <definition of a>, 'c': {'validator': f}}}}` -/
def C15_mixed (a : Val) : List (Key × Val) :=
  [(.s "d", .dict [(.s "type", .str "dict"),
                   (.s "schema", .dict [(.s "a", a), (.s "c", .dict [(.s "validator", .fn "f")])])])]

def C15_mixed_expanded (a : Val) (name : String) : List (Key × Val) :=
  [(.s "d", .dict [(.s "type", .str "dict"),
                   (.s "schema", .dict [(.s "a", a), (.s "c", .dict [(.s name, .fn "f")])])])]

set_option maxRecDepth 100000 in
/-- with the field `a` defined inline the deprecated name beside it is renamed; with `a` defined
    by a rules-set reference (a string) the sub-schema is taken for a list-type rule set and
    the name stays — the real code then rejects the schema ('unknown rule') -/
theorem C15_witness_reference_field :
    C15_same (expand (C15_mixed (.dict [(.s "type", .str "integer")])))
             (some (C15_mixed_expanded (.dict [(.s "type", .str "integer")]) "check_with")) = true ∧
    C15_same (expand (C15_mixed (.str "rs"))) (some (C15_mixed_expanded (.str "rs") "validator")) = true := by
  decide +kernel

end Cerberus
