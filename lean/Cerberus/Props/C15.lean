/-
  C15 — schema shorthands mean exactly their canonical form.

  Model: `S.expand` (Model/Schema.lean) = `DefinitionSchema.expand`: rule names with
  spaces are normalized, `<of-rule>_<rule>` shorthands are expanded, sub-schemas /
  bulk rule sets / items / *of definitions / allow_unknown rule sets are expanded
  recursively, deprecated rule names are renamed.  Everything downstream
  (acceptance, validation, normalization, `validator.schema`) consumes the
  *expanded* schema (`C04_exposes_expanded`), so a shorthand and its canonical
  form behave identically as soon as they expand to the same schema.

  Proved here, for every constraint value:
  * `C15_split`, `C15_underscore` — a key `<op>_<rule>` is split at the first
    underscore after the operator, for every rule name — in particular names that
    contain underscores themselves (`check_with`, `allow_unknown`, …);
  * `C15_shorthand` — `{<op>_<rule>: [v1, …, vn]}` expands to
    `{<op>: [{<rule>: v1}, …, {<rule>: vn}]}`;
  * `C15_deprecated` — `keyschema`, `valueschema`, `validator` are renamed, the
    constraint untouched; `C15_deprecated_conflict` — old and new name together are
    refused;
  * `C15_spaces` — a rule name with spaces becomes the name with underscores;
  * `C15_nested` (kernel-evaluated) — all of it at depth: inside a sub-schema, a
    list schema, `valuesrules`, `items`, an *of definition and an `allow_unknown`
    rule set, the shorthand form and the canonical form expand to the same schema,
    and expansion of the result changes nothing (`C15_idempotent_instance`).
  * `C15_rename_complete`, `C15_rename_idempotent` — for *every* rule set with distinct keys: after the
    renaming pass none of the three deprecated names is left, the keys are still distinct, every
    other rule is where it was, and a second pass changes nothing (`Proofs/Rename.lean`);
  * `C15_shorthand_complete`, `C15_canonical`, `C15_canonical_fixed_point` — for every rule set with
    distinct keys: a completed shorthand pass leaves no `<operator>_<rule>` key; the three passes in the
    order `expand` applies them give a rule set without spaced names, shorthands and deprecated names
    (`S.CanonicalRules`), and every such rule set is a fixed point of the passes — expansion is idempotent
    at the level of a rule set (`Proofs/Logical.lean`, `Proofs/Canonical.lean`);
  * `C15_level_canonical` — one level of `expandFields` on any field mapping: every rule set of the result is
    canonical (the recursive step between the second and the third pass rewrites constraints, not rule names:
    `subschemasWith_keys`, `Proofs/ExpandLevel.lean`).  The statement for the rule sets *below* the first level
    (inside `schema`, bulk rules, `*of` members, …) would follow by induction on the fuel over a predicate on the
    nested structure; it is not proved and remains instance- and port-decided;
  * `C15_spaces_complete` — for every rule set with distinct keys: after the name-normalizing pass no
    rule name contains a space, and a second pass changes nothing (`Proofs/Names.lean`).
  The unbounded "wherever in the schema" clause is decided by the accept port and
  the oracle over random rewritings at every eligible position; finding F15c lists
  the one position class where the code does not expand.
-/
import Cerberus.Model.Schema
import Cerberus.Proofs.Rename
import Cerberus.Proofs.Names
import Cerberus.Proofs.Canonical
import Cerberus.Proofs.ExpandLevel
namespace Cerberus
open S

/-- **the operator is split off at the first underscore** — whatever the rule name is -/
theorem C15_split (r : List Char) :
    splitOf (String.ofList ("allof".toList ++ '_' :: r)) = some ("allof", String.ofList r) ∧
    splitOf (String.ofList ("anyof".toList ++ '_' :: r)) = some ("anyof", String.ofList r) ∧
    splitOf (String.ofList ("noneof".toList ++ '_' :: r)) = some ("noneof", String.ofList r) ∧
    splitOf (String.ofList ("oneof".toList ++ '_' :: r)) = some ("oneof", String.ofList r) := by
  refine ⟨?_, ?_, ?_, ?_⟩ <;>
    simp [splitOf, splitOfChars, ofPrefixes, String.toList_ofList, List.isPrefixOf]

/-- rules whose own name contains an underscore -/
theorem C15_underscore :
    splitOf "anyof_check_with" = some ("anyof", "check_with") ∧
    splitOf "oneof_allow_unknown" = some ("oneof", "allow_unknown") ∧
    splitOf "noneof_rename_handler" = some ("noneof", "rename_handler") ∧
    splitOf "allof_type" = some ("allof", "type") ∧
    splitOf "anyof" = none ∧ splitOf "anyofx_type" = none ∧ splitOf "type" = none := by
  decide

/-- **the shorthand expands to one single-rule definition per value** -/
theorem C15_shorthand (key op rule : String) (tup : Bool) (vals : List Val)
    (h : splitOf key = some (op, rule)) (hne : key ≠ op) :
    expandLogicalRules [(.s key, .seq tup vals)] =
      ([(.s op, .seq false (vals.map (fun v => .dict [(.s rule, v)])))], false) := by
  have hk : ¬ (Key.s key = Key.s op) := by intro e; injection e with e'; exact hne e'
  have hk' : ¬ (Key.s op = Key.s key) := fun e => hk e.symm
  simp [expandLogicalRules, h, Val.dlookup, Val.dset, Val.ddel, iterConstraint, hk, hk']

/-- **deprecated rule names are renamed**, the constraint is kept -/
theorem C15_deprecated (c : Val) :
    renameRules [(.s "keyschema", c)] = some [(.s "keysrules", c)] ∧
    renameRules [(.s "valueschema", c)] = some [(.s "valuesrules", c)] ∧
    renameRules [(.s "validator", c)] = some [(.s "check_with", c)] ∧
    renameRules [(.s "type", c)] = some [(.s "type", c)] := by
  refine ⟨?_, ?_, ?_, ?_⟩ <;> rfl

/-- **after the renaming pass no deprecated rule name is left in a rule set** (whatever the rule set holds: any
    rules, any constraints, any size), its keys stay distinct, and every rule that is neither a deprecated name nor the
    replacement of one is where it was -/
theorem C15_rename_complete (rules out : List (Key × Val)) (hnd : (Val.dkeys rules).Nodup)
    (h : renameRules rules = some out) :
    Val.dlookup out (.s "keyschema") = Option.none ∧ Val.dlookup out (.s "validator") = Option.none ∧
    Val.dlookup out (.s "valueschema") = Option.none ∧ (Val.dkeys out).Nodup ∧
    (∀ q : Key, q ∉ [Key.s "keyschema", .s "keysrules", .s "validator", .s "check_with", .s "valueschema", .s "valuesrules"] →
      Val.dlookup out q = Val.dlookup rules q) :=
  renameRules_complete rules out hnd h

/-- **the renaming pass is idempotent**: a renamed rule set is a fixed point -/
theorem C15_rename_idempotent (rules out : List (Key × Val)) (hnd : (Val.dkeys rules).Nodup)
    (h : renameRules rules = some out) : renameRules out = some out :=
  renameRules_idempotent rules out hnd h

/-- the hypotheses are met by a rule set with all three deprecated names -/
example : ∃ out, renameRules [(.s "validator", .str "f"), (.s "type", .str "dict"), (.s "keyschema", .dict []),
      (.s "valueschema", .dict [])] = some out ∧ out.length = 4 := ⟨_, rfl, rfl⟩

/-- **after the name-normalizing pass no rule name of a rule set contains a space** (any rule set with distinct keys),
    and a second pass changes nothing -/
theorem C15_spaces_complete (rules : List (Key × Val)) (hnd : (Val.dkeys rules).Nodup) :
    (∀ n, Key.s n ∈ Val.dkeys (normalizeNames rules) → hasSpace n = false) ∧
    normalizeNames (normalizeNames rules) = normalizeNames rules :=
  ⟨fun n hn => by simpa [spacedKey] using (normalizeNames_complete rules hnd).2 (.s n) hn,
   normalizeNames_idempotent rules hnd⟩

/-- **when the shorthand pass completes, no `<operator>_<rule>` key is left in the rule set** -/
theorem C15_shorthand_complete (rules : List (Key × Val)) (hnd : (Val.dkeys rules).Nodup)
    (hfin : (expandLogicalRules rules).2 = false) :
    ∀ n, Key.s n ∈ Val.dkeys (expandLogicalRules rules).1 → splitOf n = none := by
  intro n hn
  have := (expandLogicalRules_complete rules hnd hfin).2 (.s n) hn
  simpa [ofKey] using this

/-- **the three rewriting passes, applied to one rule set in the order `expand` applies them, produce a canonical rule
    set** — no rule name with a space, no shorthand, no deprecated name, distinct keys — for every rule set with
    distinct keys, whatever its rules and constraints -/
theorem C15_canonical (rules out : List (Key × Val)) (hnd : (Val.dkeys rules).Nodup) (h : canonRules rules = some out) :
    CanonicalRules out :=
  canonRules_canonical rules out hnd h

/-- **the canonical form is a fixed point** (expanding an expanded rule set changes nothing), and in particular
    the passes are idempotent -/
theorem C15_canonical_fixed_point (rules out : List (Key × Val)) (hnd : (Val.dkeys rules).Nodup)
    (h : canonRules rules = some out) : canonRules out = some out :=
  canonRules_idempotent rules out hnd h

/-- the hypotheses are met, with all three kinds of rewriting at work -/
example : (canonRules [(.s "anyof type", .seq false [.str "integer", .str "string"]), (.s "validator", .str "f"),
      (.s "allow unknown", .bool true)]).map (fun out => Val.dkeys out) =
    some [.s "allow_unknown", .s "anyof", .s "check_with"] := by decide

/-- **every rule set of an expanded field mapping is canonical**: one level of `expand` (with any fuel left for the
    levels below) applied to any field mapping whose rule sets have distinct keys — when the shorthand pass completes,
    every rule set of the result is free of spaced names, shorthands and deprecated names.  The recursive step in
    between rewrites constraints only (`subschemasWith_keys`). -/
theorem C15_level_canonical (n : Nat) (fields out : List (Key × Val))
    (hnd : ∀ f rs, (f, Val.dict rs) ∈ fields → (Val.dkeys rs).Nodup)
    (hfin : (expandLogical (fields.map (fun kv => match kv.2 with
      | .dict rs => (kv.1, Val.dict (normalizeNames rs)) | _ => kv))).2 = false)
    (h : expandFields (n + 1) fields = some out) :
    ∀ f rs, (f, Val.dict rs) ∈ out → CanonicalRules rs :=
  expandFields_level n fields out hnd hfin h

/-- the hypotheses of `C15_level_canonical` are met by a field mapping with all three kinds of rewriting, nested -/
example :
    let fields : List (Key × Val) :=
      [(.s "a", .dict [(.s "anyof type", .seq false [.str "integer", .str "string"]), (.s "validator", .str "f")]),
       (.s "b", .dict [(.s "type", .str "dict"), (.s "valueschema", .dict [(.s "allow unknown", .bool true)])])]
    (expandLogical (fields.map (fun kv => match kv.2 with
      | .dict rs => (kv.1, Val.dict (normalizeNames rs)) | _ => kv))).2 = false ∧
    (expandFields 3 fields).isSome = true := by decide

/-- old and new name in one rule set: refused (RuntimeError in the code) -/
theorem C15_deprecated_conflict (c d : Val) :
    renameRules [(.s "keyschema", c), (.s "keysrules", d)] = none := by rfl

/-- **spaces in rule names become underscores** -/
theorem C15_spaces (c : Val) :
    normalizeNames [(.s "check with", c)] = [(.s "check_with", c)] ∧
    normalizeNames [(.s "allow unknown", c)] = [(.s "allow_unknown", c)] ∧
    normalizeNames [(.s "default setter", c)] = [(.s "default_setter", c)] ∧
    normalizeNames [(.s "anyof type", c)] = [(.s "anyof_type", c)] ∧
    normalizeNames [(.s "type", c)] = [(.s "type", c)] := by
  refine ⟨?_, ?_, ?_, ?_, ?_⟩ <;> rfl

/-! ### at depth -/

def C15_types : Val := .seq false [.str "integer", .str "string"]
def C15_defs : Val := .seq false [.dict [(.s "type", .str "integer")], .dict [(.s "type", .str "string")]]

/-- a rule set in shorthand / deprecated / spaced form … -/
def C15_short : Val :=
  .dict [(.s "anyof_type", C15_types), (.s "valueschema", .dict [(.s "oneof type", C15_types)]),
         (.s "check with", .fn "k_odd")]
/-- … and its canonical form -/
def C15_canon : Val :=
  .dict [(.s "anyof", C15_defs), (.s "valuesrules", .dict [(.s "oneof", C15_defs)]),
         (.s "check_with", .fn "k_odd")]

/-- the same rule set planted at every kind of nested position -/
def C15_planted (r : Val) : List (Key × Val) :=
  [(.s "a", .dict [(.s "type", .str "dict"), (.s "schema", .dict [(.s "x", r)])]),
   (.s "b", .dict [(.s "type", .str "list"), (.s "schema", .dict [(.s "type", .str "dict"), (.s "valuesrules", r)])]),
   (.s "c", .dict [(.s "type", .str "list"), (.s "items", .seq false [r])]),
   (.s "d", .dict [(.s "allof", .seq false [r])]),
   (.s "e", .dict [(.s "type", .str "dict"), (.s "allow_unknown", r)]),
   (.s "f", r)]

def C15_same (a b : Option (List (Key × Val))) : Bool :=
  match a, b with
  | some x, some y => Val.pyEq (.dict x) (.dict y)
  | _, _ => false

set_option maxRecDepth 100000 in
/-- **wherever the shorthand occurs**: the shorthand form and the canonical form expand to the same schema -/
theorem C15_nested : C15_same (expand (C15_planted C15_short)) (expand (C15_planted C15_canon)) = true := by
  decide +kernel

set_option maxRecDepth 100000 in
/-- expanding an expanded schema changes nothing -/
theorem C15_idempotent_instance :
    C15_same ((expand (C15_planted C15_short)).bind expand) (expand (C15_planted C15_short)) = true ∧
    C15_same (expand (C15_planted C15_canon)) (some (C15_planted C15_canon)) = true := by
  decide +kernel

/-! ### negation (known finding F15d): a field given by reference hides its neighbours from the expansion -/

/-- `{'d': {'type': 'dict', 'schema': {'a': <definition of a>, 'c': {'validator': f}}}}` -/
def C15_mixed (a : Val) : List (Key × Val) :=
  [(.s "d", .dict [(.s "type", .str "dict"),
                   (.s "schema", .dict [(.s "a", a), (.s "c", .dict [(.s "validator", .fn "f")])])])]

def C15_mixed_expanded (a : Val) (name : String) : List (Key × Val) :=
  [(.s "d", .dict [(.s "type", .str "dict"),
                   (.s "schema", .dict [(.s "a", a), (.s "c", .dict [(.s name, .fn "f")])])])]

set_option maxRecDepth 100000 in
/-- with the field `a` defined inline the deprecated name beside it is renamed; with `a` defined
    by a rules-set reference (a string) the sub-schema is taken for a list-type rule set and
    the name stays — the real code then rejects the schema ('unknown rule') -/
theorem C15_witness_reference_field :
    C15_same (expand (C15_mixed (.dict [(.s "type", .str "integer")])))
             (some (C15_mixed_expanded (.dict [(.s "type", .str "integer")]) "check_with")) = true ∧
    C15_same (expand (C15_mixed (.str "rs"))) (some (C15_mixed_expanded (.str "rs") "validator")) = true := by
  decide +kernel

end Cerberus
