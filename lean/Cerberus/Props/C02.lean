/-
  C02 — normalization yields the documented result in the documented order.

  The reference model of normalization is `Cerberus.normalize`
  (Model/Normalize.lean: rename, purge unknown, purge readonly, readonly check,
  defaults and default setters, coercion, containers — in that order, per
  mapping level, depth first), tied to the implementation by the `normalize`
  and `validate` ports.  This file proves the clauses of the statement that are
  about the passes themselves, for every environment (every family of coercers,
  setters, handlers), every schema and every document:

  * `C02_chain_stops`   — a failing coercer leaves the value unchanged, files one
                          COERCION_FAILED error, and no later member of its chain runs;
  * `C02_leaf_fail` / `C02_leaf_ok` — what a single coercer does;
  * `C02_kind`          — sequence container kinds (list / tuple) are preserved;
  * `C02_unknown_only`  — the rules for unknown fields never touch a known field
                          that has no `coerce` rule of its own;
  * `C02_error_shape`   — a normalization error has the code of its pass, the
                          document path of the mapping plus the field, and the
                          schema path of the rule;
  * `C02_purge_unknown` — after the purge pass only schema fields are left, and
                          schema fields are all kept;
  * `C02_purge_unknown_order` — the purge keeps the order of the document and is
                          idempotent;
  * `C02_purge_readonly` — a successful purge of readonly fields removes exactly
                          the items of fields whose `readonly` is truthy, keeps
                          the order, and met no unresolved rules reference;
  * `C02_readonly_check_normalized` — a child that inherits an already
                          normalized document files no readonly error.
-/
import Cerberus.Model.Normalize
namespace Cerberus
open N V

/-- **a normalization error** has the pass's code, path = mapping path + field,
    schema path = (field, rule), no children -/
theorem C02_error_shape (env : Env) (ctx : Ctx) (schema : Val) (m : List (Key × Val)) (f : Key)
    (code : Nat) (rule : String) (e : Err) (h : mkNErr env ctx schema m f code rule = .ok e) :
    e.code = code ∧ e.dp = ctx.docPath ++ [f] ∧ e.sp = ctx.schemaPath ++ [f, kS rule] ∧
    e.rule = some rule ∧ e.kids = [] ∧ e.value = (Val.dlookup m f).getD .none := by
  simp only [mkNErr, bind, Except.bind] at h
  split at h
  · simp at h
  · split at h
    · simp only [pure, Except.pure, Except.ok.injEq] at h
      subst h
      exact ⟨rfl, rfl, rfl, rfl, rfl, rfl⟩
    · simp [raisePy] at h

/-- a coercer that succeeds: new value, no error -/
theorem C02_leaf_ok (env : Env) (ctx : Ctx) (schema : Val) (m : List (Key × Val)) (f : Key) (proc : Val)
    (value : Val) (nullable : Bool) (code : Nat) (rule : String) (name : String) (v' : Val)
    (hn : procName env proc = .ok name) (hc : env.coerce name value = .ok v') :
    coerceLeaf env ctx schema m f proc value nullable code rule = .ok (v', []) := by
  simp [coerceLeaf, hn, hc]

/-- **a coercer that raises**: the value is returned unchanged and exactly one
    error is filed (none at all for a `None` value of a nullable field) -/
theorem C02_leaf_fail (env : Env) (ctx : Ctx) (schema : Val) (m : List (Key × Val)) (f : Key) (proc : Val)
    (value : Val) (nullable : Bool) (code : Nat) (rule : String) (name msg : String) (r : Val × List Err)
    (hn : procName env proc = .ok name) (hc : env.coerce name value = .error msg)
    (h : coerceLeaf env ctx schema m f proc value nullable code rule = .ok r) :
    r.1 = value ∧
    ((nullable = true ∧ value.isNone = true ∧ r.2 = []) ∨
     (∃ e, r.2 = [e] ∧ e.code = code ∧ e.dp = ctx.docPath ++ [f])) := by
  simp only [coerceLeaf, hn, hc] at h
  split at h
  · rename_i hnv
    simp only [Except.ok.injEq] at h
    subst h
    simp only [Bool.and_eq_true] at hnv
    exact ⟨rfl, Or.inl ⟨hnv.1, hnv.2, rfl⟩⟩
  · split at h
    · simp at h
    · rename_i e he
      simp only [Except.ok.injEq] at h
      subst h
      have := C02_error_shape _ _ _ _ _ _ _ _ he
      exact ⟨rfl, Or.inr ⟨e, rfl, this.1, this.2.1⟩⟩

theorem hasErrAt_append_single (es : List Err) (e : Err) (p : List Key) (c : Nat)
    (hd : e.dp = p) (hc : e.code = c) : hasErrAt (es ++ [e]) p c = true := by
  unfold hasErrAt
  have hmem : e ∈ flatten (es ++ [e]) := by
    have : ∀ (l : List Err), flatten (l ++ [e]) = flatten l ++ e.flat := by
      intro l
      induction l with
      | nil => simp [flatten]
      | cons x xs ih => simp [flatten, ih]
    rw [this]
    obtain ⟨d, s, b, c', r, k, v, i, ks⟩ := e
    simp [Err.flat]
  rw [List.any_eq_true]
  exact ⟨e, hmem, by simp [hd, hc]⟩

/-- **a failing coercer stops its chain**: when a member of a `coerce` chain
    raises (and the value is not a nullable `None`), the chain returns the value
    that member received, with exactly the errors filed so far plus that one —
    whatever members follow -/
theorem C02_chain_stops (env : Env) (ctx : Ctx) (schema : Val) (m : List (Key × Val)) (f : Key)
    (nullable : Bool) (sofar acc : List Err) (p : Val) (ps : List Val) (v : Val) (name msg : String)
    (hn : procName env p = .ok name) (hc : env.coerce name v = .error msg)
    (hnn : (nullable && v.isNone) = false) (r : Val × List Err)
    (h : coerceChain env ctx schema m f nullable Code.COERCION_FAILED "coerce" sofar (p :: ps) v acc = .ok r) :
    r.1 = v ∧ ∃ e, r.2 = acc ++ [e] ∧ e.code = Code.COERCION_FAILED := by
  simp only [coerceChain] at h
  split at h
  · simp at h
  · rename_i v' es hl
    have hf := C02_leaf_fail env ctx schema m f p v nullable Code.COERCION_FAILED "coerce" name msg (v', es) hn hc hl
    obtain ⟨hv, hcase⟩ := hf
    simp only at hv hcase
    rcases hcase with ⟨h1, h2, _⟩ | ⟨e, he, hcode, hdp⟩
    · simp [h1, h2] at hnn
    · subst he hv
      have hh : hasErrAt (sofar ++ (acc ++ [e])) (ctx.docPath ++ [f]) Code.COERCION_FAILED = true := by
        rw [← List.append_assoc]
        exact hasErrAt_append_single _ _ _ _ hdp hcode
      simp only [hh, if_true, Except.ok.injEq] at h
      subst h
      exact ⟨rfl, e, rfl, hcode⟩

/-- **sequence container kinds are preserved**: the pass over a list/tuple field
    stores a sequence of the same kind -/
theorem C02_kind (recN : RecN) (ctx : Ctx) (s s' : NState) (f : Key) (tup : Bool) (rule : String)
    (cschema : List (Key × Val)) (xs : List Val)
    (h : seqPass recN ctx s f tup rule cschema xs = .ok s') :
    s' = s ∨ ∃ ys, s'.m = Val.dset s.m f (.seq tup ys) := by
  simp only [seqPass] at h
  split at h
  · rename_i res cerrs _
    simp only [Except.ok.injEq] at h
    subst h
    exact Or.inr ⟨res.map (·.2), rfl⟩
  · simp only [Except.ok.injEq] at h
    exact Or.inl h.symm
  · simp at h

/-- one step of the coercion pass on a *known* field without a `coerce` rule of
    its own: nothing happens, whatever `allow_unknown` says -/
theorem C02_unknown_only (env : Env) (ctx : Ctx) (schema : Val) (rs : RSchema) (f : Key) (s : NState)
    (rules : Val) (hk : rlookup rs f = some (some rules)) (hno : rules.dget? (kS "coerce") = none) :
    coerceFields env ctx schema rs [f] s = .ok s := by
  simp [coerceFields, rulesOf, hk, hno, bind, Except.bind, pure, Except.pure]

/-- **purge unknown**: exactly the schema fields survive -/
theorem C02_purge_unknown (rs : RSchema) (m : List (Key × Val)) :
    (∀ kv ∈ purgeUnknown rs m, (rlookup rs kv.1).isSome = true) ∧
    (∀ kv ∈ m, (rlookup rs kv.1).isSome = true → kv ∈ purgeUnknown rs m) := by
  unfold purgeUnknown
  constructor
  · intro kv h; simpa using (List.mem_filter.mp h).2
  · intro kv h1 h2; exact List.mem_filter.mpr ⟨h1, by simpa using h2⟩

/-- **purge unknown keeps the order and is idempotent**: the surviving items are
    a sublist of the document (nothing is reordered or duplicated) and a second
    purge changes nothing -/
theorem C02_purge_unknown_order (rs : RSchema) (m : List (Key × Val)) :
    (purgeUnknown rs m).Sublist m ∧ purgeUnknown rs (purgeUnknown rs m) = purgeUnknown rs m := by
  unfold purgeUnknown
  exact ⟨List.filter_sublist, by simp [List.filter_filter]⟩

/-- generic fact about `filterM` in the processing monad (through its
    accumulator loop): when it succeeds the result is a sublist, every survivor's
    test said `true`, every item whose test said `true` survives, and no test raised -/
theorem filterAuxM_ok {α : Type} (p : α → M Bool) : ∀ (l acc out : List α), List.filterAuxM p l acc = .ok out →
    ∃ res : List α, out = res.reverse ++ acc ∧
    res.Sublist l ∧ (∀ a ∈ res, p a = .ok true) ∧ (∀ a ∈ l, p a = .ok true → a ∈ res) ∧
    (∀ a ∈ l, ∃ b, p a = .ok b)
  | [], acc, out, h => by
    simp only [List.filterAuxM, pure, Except.pure, Except.ok.injEq] at h
    exact ⟨[], by simp [h], by simp⟩
  | a :: l, acc, out, h => by
    simp only [List.filterAuxM, bind, Except.bind] at h
    cases hp : p a with
    | error e => simp [hp] at h
    | ok b =>
      simp only [hp] at h
      obtain ⟨res, h0, h1, h2, h3, h4⟩ := filterAuxM_ok p l _ out h
      cases b with
      | true =>
        refine ⟨a :: res, by simp [h0], h1.cons₂ a, ?_, ?_, ?_⟩
        · intro x hx; rcases List.mem_cons.mp hx with rfl | hx
          · exact hp
          · exact h2 x hx
        · intro x hx hpx; rcases List.mem_cons.mp hx with rfl | hx
          · exact List.mem_cons_self
          · exact List.mem_cons_of_mem _ (h3 x hx hpx)
        · intro x hx; rcases List.mem_cons.mp hx with rfl | hx
          · exact ⟨true, hp⟩
          · exact h4 x hx
      | false =>
        refine ⟨res, by simp [h0], h1.cons a, h2, ?_, ?_⟩
        · intro x hx hpx; rcases List.mem_cons.mp hx with rfl | hx
          · rw [hp] at hpx; cases hpx
          · exact h3 x hx hpx
        · intro x hx; rcases List.mem_cons.mp hx with rfl | hx
          · exact ⟨false, hp⟩
          · exact h4 x hx

theorem filterM_ok {α : Type} (p : α → M Bool) (l out : List α) (h : l.filterM p = .ok out) :
    out.Sublist l ∧ (∀ a ∈ out, p a = .ok true) ∧ (∀ a ∈ l, p a = .ok true → a ∈ out) ∧
    (∀ a ∈ l, ∃ b, p a = .ok b) := by
  simp only [List.filterM, bind, Except.bind] at h
  cases hr : List.filterAuxM p l [] with
  | error e => simp [hr] at h
  | ok r =>
    simp only [hr, pure, Except.pure, Except.ok.injEq] at h
    obtain ⟨res, h0, rest⟩ := filterAuxM_ok p l [] r hr
    have : out = res := by rw [← h, h0]; simp
    rw [this]; exact rest

/-- **purge readonly**: when the pass succeeds, the result is the document with
    exactly the items of `readonly` fields taken out, in the original order: no
    survivor is a known field with a truthy `readonly`, every item of an unknown
    field or of a field whose `readonly` is falsy survives, and no present
    field's rules were an unresolved reference -/
theorem C02_purge_readonly (rs : RSchema) (m out : List (Key × Val))
    (h : purgeReadonly rs m = .ok out) :
    out.Sublist m ∧
    (∀ kv ∈ out, ∀ r, rlookup rs kv.1 = some (some r) →
        (get r "readonly" (.bool false)).truthy = false) ∧
    (∀ kv ∈ m, rlookup rs kv.1 = none → kv ∈ out) ∧
    (∀ kv ∈ m, ∀ r, rlookup rs kv.1 = some (some r) →
        (get r "readonly" (.bool false)).truthy = false → kv ∈ out) ∧
    (∀ kv ∈ m, rlookup rs kv.1 ≠ some none) := by
  unfold purgeReadonly at h
  obtain ⟨h1, h2, h3, h4⟩ := filterM_ok _ m out h
  refine ⟨h1, ?_, ?_, ?_, ?_⟩
  · intro kv hkv r hr
    have := h2 kv hkv
    simp only [hr, pure, Except.pure, Except.ok.injEq] at this
    simpa using this
  · intro kv hkv hr
    exact h3 kv hkv (by simp [hr, pure, Except.pure])
  · intro kv hkv r hr hf
    exact h3 kv hkv (by simp [hr, hf, pure, Except.pure])
  · intro kv hkv hr
    obtain ⟨b, hb⟩ := h4 kv hkv
    simp [hr, raisePy] at hb

/-- **readonly check after normalization**: in a child that inherits a document
    which has already been normalized (`_is_normalized`), the readonly pass files
    nothing — whatever the schema says — as long as no present field's rules are an
    unresolved reference -/
theorem C02_readonly_check_normalized (env : Env) (ctx : Ctx) (schema : Val) (m : List (Key × Val))
    (hn : ctx.cfg.isNormalized = true) :
    ∀ (rs : RSchema), (∀ f, (f, none) ∈ rs → Val.dhas m f = false) →
      readonlyCheck env ctx schema m rs = .ok []
  | [], _ => by simp [readonlyCheck, pure, Except.pure]
  | (f, r) :: rest, h => by
    have ih := C02_readonly_check_normalized env ctx schema m hn rest
      (fun g hg => h g (List.mem_cons_of_mem _ hg))
    cases r with
    | none =>
      have hf : Val.dhas m f = false := h f List.mem_cons_self
      simp [readonlyCheck, hf, ih, bind, Except.bind, pure, Except.pure]
    | some rules =>
      cases hd : Val.dhas m f <;>
        simp [readonlyCheck, hd, hn, ih, bind, Except.bind, pure, Except.pure]

/-! ### non-vacuity: a two-member chain whose first member raises -/
def C02_env : Env :=
  { rx := fun _ _ => none, coerce := Family.coerce, hasCoercer := fun _ => false,
    setter := fun _ _ => .other "", hasSetter := fun _ => false, checker := fun _ _ => none,
    rulesSets := fun _ => none, schemas := fun _ => none }

example :
    (coerceChain C02_env { cfg := {} }
      (.dict [(.s "a", .dict [(.s "coerce", .seq false [.fn "c_raise", .fn "c_inc"])])])
      [(.s "a", .int 1)] (.s "a") false Code.COERCION_FAILED "coerce" []
      [.fn "c_raise", .fn "c_inc"] (.int 1) []).toOption.map (fun r => (r.1.num?, r.2.length))
    = some (some (1, 0), 1) := by decide

/-! ### non-vacuity: a document with a readonly, an ordinary and an unknown field -/
example :
    purgeReadonly [(.s "a", some (.dict [(.s "readonly", .bool true)])), (.s "b", some (.dict []))]
      [(.s "b", .int 1), (.s "a", .int 2), (.s "z", .int 3)]
    = .ok [(.s "b", .int 1), (.s "z", .int 3)] := rfl

example :
    purgeUnknown [(.s "a", some (.dict [])), (.s "b", some (.dict []))]
      [(.s "b", .int 1), (.s "z", .int 3), (.s "a", .int 2)]
    = [(.s "b", .int 1), (.s "a", .int 2)] := rfl

end Cerberus
