/-
  C07 — a validator's result does not depend on what it processed before.

  Model: `Cerberus.Api` — the instance as a state machine whose operations take
  the *whole* instance state as input (schema, configuration incl. the
  `_is_normalized` marker, `update`, `_unrequired_by_excludes`, error list,
  processed document).  The theorems say that a processing call reads the
  transient part of the state only after overwriting it: its observation (return
  value or exception, recorded errors, processed document) and the public part
  of the successor state are functions of the public part (schema and
  configuration) and the call alone.
-/
import Cerberus.Model.Api
namespace Cerberus
open Api

/-- a processing call (everything except reading `errors`) -/
def Op.isProcessing : Op → Bool
  | .readErrors => false
  | _ => true

theorem pub_fresh (p : Pub) : (VState.fresh p).pub = p := rfl

/-- the configuration with the marker reset, as `__init_processing` leaves it -/
def resetCfg (c : Cfg) : Cfg := { c with isNormalized := false }

theorem cfg_eq_of_pub (s₁ s₂ : VState) (h : s₁.pub = s₂.pub) : resetCfg s₁.cfg = resetCfg s₂.cfg := by
  obtain ⟨sch₁, cfg₁, u₁, q₁, e₁, d₁⟩ := s₁
  obtain ⟨sch₂, cfg₂, u₂, q₂, e₂, d₂⟩ := s₂
  obtain ⟨a₁, r₁, i₁, p₁, pr₁, n₁⟩ := cfg₁
  obtain ⟨a₂, r₂, i₂, p₂, pr₂, n₂⟩ := cfg₂
  simp only [VState.pub, Pub.mk.injEq] at h
  obtain ⟨_, ha, hr, hi, hp, hpr⟩ := h
  simp [resetCfg, ha, hr, hi, hp, hpr]

/-- `__init_processing` makes the two states agree on everything a call can read
    afterwards, provided the fields the caller sets first (`update`,
    `_unrequired_by_excludes`) agree -/
theorem initProcessing_pub (accept : Val → Option Val) (s₁ s₂ : VState) (doc : Val) (schema : Option Val)
    (h : s₁.pub = s₂.pub) (hu : s₁.update = s₂.update) (hq : s₁.unrequired = s₂.unrequired) :
    initProcessing accept s₁ doc schema = initProcessing accept s₂ doc schema ∧
    afterInitError accept s₁ doc schema = afterInitError accept s₂ doc schema := by
  have hc := cfg_eq_of_pub s₁ s₂ h
  have hs : s₁.schema = s₂.schema := by
    have := congrArg Pub.schema h
    simpa [VState.pub] using this
  have hr : reset s₁ doc = reset s₂ doc := by
    obtain ⟨sch₁, cfg₁, u₁, q₁, e₁, d₁⟩ := s₁
    obtain ⟨sch₂, cfg₂, u₂, q₂, e₂, d₂⟩ := s₂
    simp only at hs hu hq
    subst hs hu hq
    simp only [resetCfg] at hc
    simp only [reset, hc]
  simp [initProcessing, afterInitError, hr]

/-- overwrite the two fields that only `validate` assigns -/
def withUQ (s : VState) (u : Bool) (q : List Key) : VState := { s with update := u, unrequired := q }

theorem reset_frame (s : VState) (doc : Val) (u : Bool) (q : List Key) :
    reset (withUQ s u q) doc = withUQ (reset s doc) u q := rfl

theorem resolveSchemaArg_frame (accept : Val → Option Val) (s1 : VState) (schema : Option Val)
    (u : Bool) (q : List Key) :
    resolveSchemaArg accept (withUQ s1 u q) schema =
      (resolveSchemaArg accept s1 schema).map (fun s' => withUQ s' u q) := by
  unfold resolveSchemaArg
  cases schema with
  | some sch =>
    simp only
    cases accept sch <;> rfl
  | none =>
    simp only
    have : (withUQ s1 u q).schema = s1.schema := rfl
    rw [this]
    cases s1.schema with
    | some sc => rfl
    | none =>
      simp only
      have : (withUQ s1 u q).cfg = s1.cfg := rfl
      rw [this]
      split <;> rfl

theorem initProcessing_frame (accept : Val → Option Val) (s : VState) (doc : Val) (schema : Option Val)
    (u : Bool) (q : List Key) :
    initProcessing accept (withUQ s u q) doc schema =
      (initProcessing accept s doc schema).map (fun s' => withUQ s' u q) := by
  simp only [initProcessing, reset_frame, resolveSchemaArg_frame]
  cases resolveSchemaArg accept (reset s doc) schema with
  | error e => rfl
  | ok s2 =>
    simp only [Except.map, checkDoc]
    cases doc <;> rfl

theorem afterInitError_frame (accept : Val → Option Val) (s : VState) (doc : Val) (schema : Option Val)
    (u : Bool) (q : List Key) :
    afterInitError accept (withUQ s u q) doc schema = withUQ (afterInitError accept s doc schema) u q := by
  simp only [afterInitError, reset_frame, resolveSchemaArg_frame]
  cases resolveSchemaArg accept (reset s doc) schema with
  | error e => rfl
  | ok s2 => rfl

/-- `normalized` leaves `update` and `_unrequired_by_excludes` alone, and never reads them -/
theorem doNormalized_frame (env : Env) (accept : Val → Option Val) (fuel : Nat) (s : VState)
    (doc : Val) (schema : Option Val) (u : Bool) (q : List Key) :
    doNormalized env accept fuel (withUQ s u q) doc schema =
      (withUQ (doNormalized env accept fuel s doc schema).1 u q, (doNormalized env accept fuel s doc schema).2) := by
  simp only [doNormalized, initProcessing_frame, afterInitError_frame]
  cases initProcessing accept s doc schema with
  | error e => rfl
  | ok s1 =>
    simp only [Except.map]
    have hc : (withUQ s1 u q).cfg = s1.cfg := rfl
    have hsch : (withUQ s1 u q).schema = s1.schema := rfl
    simp only [hc, hsch]
    cases normalize env fuel { cfg := s1.cfg } (s1.schema.getD (Val.dict [])) (docKvs doc) with
    | error e => rfl
    | ok r => rfl

theorem doNormalized_low (env : Env) (accept : Val → Option Val) (fuel : Nat) (s₁ s₂ : VState)
    (doc : Val) (schema : Option Val) (h : s₁.pub = s₂.pub) :
    let r₁ := doNormalized env accept fuel s₁ doc schema
    let r₂ := doNormalized env accept fuel s₂ doc schema
    r₁.2 = r₂.2 ∧ r₁.1.errors = r₂.1.errors ∧ r₁.1.document = r₂.1.document ∧ r₁.1.pub = r₂.1.pub := by
  -- align the two fields that `normalized` does not touch, then use `initProcessing_pub`
  have h' : s₁.pub = (withUQ s₂ s₁.update s₁.unrequired).pub := by simpa [VState.pub, withUQ] using h
  have hi := initProcessing_pub accept s₁ (withUQ s₂ s₁.update s₁.unrequired) doc schema h' rfl rfl
  have e : doNormalized env accept fuel s₁ doc schema
      = doNormalized env accept fuel (withUQ s₂ s₁.update s₁.unrequired) doc schema := by
    simp only [doNormalized, hi.1, hi.2]
  rw [doNormalized_frame] at e
  simp [e, withUQ, VState.pub]

theorem doValidate_low (env : Env) (t : Tables) (accept : Val → Option Val) (fuel : Nat) (s₁ s₂ : VState)
    (doc : Val) (schema : Option Val) (upd norm : Bool) (h : s₁.pub = s₂.pub) :
    doValidate env t accept fuel s₁ doc schema upd norm = doValidate env t accept fuel s₂ doc schema upd norm := by
  have h' : ({ s₁ with update := upd, unrequired := [] } : VState).pub =
            ({ s₂ with update := upd, unrequired := [] } : VState).pub := by
    simpa [VState.pub] using h
  have hi := initProcessing_pub accept _ _ doc schema h' rfl rfl
  simp only [doValidate, hi.1, hi.2]

/-- **non-interference**: two instances that agree on schema and configuration
    give the same observation for every processing call, and agree on schema and
    configuration afterwards — whatever else they hold from earlier calls -/
theorem C07_low (env : Env) (t : Tables) (accept : Val → Option Val) (fuel : Nat) (s₁ s₂ : VState)
    (op : Op) (hop : op.isProcessing = true) (h : s₁.pub = s₂.pub) :
    let r₁ := step env t accept fuel s₁ op
    let r₂ := step env t accept fuel s₂ op
    r₁.2.ret = r₂.2.ret ∧ r₁.2.errors = r₂.2.errors ∧ r₁.2.document = r₂.2.document ∧ r₁.1.pub = r₂.1.pub := by
  cases op with
  | readErrors => simp [Op.isProcessing] at hop
  | validate doc schema upd norm =>
    simp [step, doValidate_low env t accept fuel s₁ s₂ doc schema upd norm h]
  | validated doc schema upd norm always =>
    simp [step, doValidate_low env t accept fuel s₁ s₂ doc schema upd norm h]
  | normalized doc schema always =>
    have k := doNormalized_low env accept fuel s₁ s₂ doc schema h
    simp only at k
    obtain ⟨k1, k2, k3, k4⟩ := k
    simp only [step]
    generalize doNormalized env accept fuel s₁ doc schema = a at *
    generalize doNormalized env accept fuel s₂ doc schema = b at *
    obtain ⟨sa, ra⟩ := a
    obtain ⟨sb, rb⟩ := b
    simp only at k1 k2 k3 k4
    subst k1
    cases ra with
    | ok u => simp [obsOf, k2, k3, k4]
    | error e => simp [obsOf, k2, k3, k4]

/-- the public part after a history depends only on the public part before it -/
theorem pub_run (env : Env) (t : Tables) (accept : Val → Option Val) (fuel : Nat) :
    ∀ (ops : List Op) (s₁ s₂ : VState), (∀ op ∈ ops, op.isProcessing = true) → s₁.pub = s₂.pub →
      (run env t accept fuel s₁ ops).pub = (run env t accept fuel s₂ ops).pub
  | [], _, _, _, h => h
  | op :: ops, s₁, s₂, hp, h => by
    simp only [run]
    apply pub_run env t accept fuel ops
    · intro o ho; exact hp o (by simp [ho])
    · exact (C07_low env t accept fuel s₁ s₂ op (hp op (by simp)) h).2.2.2

/-- **history independence**: after *any* finite history of calls (with any
    flags, documents, per-call schemas, including calls that raised), a probe
    call is observed exactly as on a fresh instance that has the same schema and
    configuration -/
theorem C07_history (env : Env) (t : Tables) (accept : Val → Option Val) (fuel : Nat)
    (s : VState) (ops : List Op) (probe : Op) (hp : probe.isProcessing = true) :
    let used := run env t accept fuel s ops
    let r₁ := step env t accept fuel used probe
    let r₂ := step env t accept fuel (VState.fresh used.pub) probe
    r₁.2.ret = r₂.2.ret ∧ r₁.2.errors = r₂.2.errors ∧ r₁.2.document = r₂.2.document := by
  intro used r₁ r₂
  have := C07_low env t accept fuel used (VState.fresh used.pub) probe hp (pub_fresh used.pub).symm
  exact ⟨this.1, this.2.1, this.2.2.1⟩

/-! ### non-vacuity: the states differ in every transient field -/
example : ({ schema := some (.dict []), cfg := { isNormalized := true }, update := true,
             unrequired := [.s "a"], errors := [default], document := some .none } : VState).pub
        = ({ schema := some (.dict []), cfg := {} } : VState).pub := rfl

end Cerberus
