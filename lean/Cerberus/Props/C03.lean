/-
  C03 — processing reports problems as errors and never raises.

  In the model every partial Python operation (`len`, `in` on hashed containers,
  `set()`, iteration, `<`, subscripting a rule set, calling a named handler) is an
  explicit `Except`; a Python exception is the outcome `.error (.py type site)`.
  `NoPy x` says that `x` is not such an outcome.

  Proved here:
  * `C03_only_declared`  — `__init_processing` raises nothing but `SchemaError`
                           (missing / rejected schema) and `DocumentError` (document
                           `None` or not a mapping), and does raise `DocumentError`
                           for every non-mapping document;
  * `C03_coercer_caught`, `C03_setter_caught` — an exception of a user-supplied
                           coercer / rename handler / default setter becomes an
                           error (or is swallowed for a nullable `None`), never an
                           exception of the call;
  * per rule handler (`C03_allowed`, `C03_forbidden`, `C03_contains`, `C03_min`,
    `C03_max`, `C03_length`, `C03_regex`, `C03_dependencies`, `C03_items`,
    `C03_keysrules`, `C03_valuesrules`, `C03_nullable`, `C03_readonly`,
    `C03_empty`, `C03_check_with`): for **every value** — whatever its shape —
    the handler does not raise, under an explicit guard on the *constraint* that
    is exactly what the rule's constraint schema demands of an accepted schema
    (and, for container rules, given that the child validations do not raise);
  * `C03_lookup`         — looking up a dotted / root-relative dependency path is a
                           total function of any document.
  The composition into "validate0 never raises for every accepted schema" needs
  the well-formedness predicate of C04 for all nested rule sets; that step is
  decided by the ports on the wrong-shape streams and the oracle.
-/
import Cerberus.Proofs.Validate
import Cerberus.Model.Api
namespace Cerberus
open V

/-- `x` is not a Python exception -/
def NoPy {α} (x : M α) : Prop := ∀ t s, x ≠ .error (.py t s)

theorem NoPy_ok {α} (a : α) : NoPy (Except.ok a : M α) := by intro t s h; cases h

theorem pyIter_of_iterable (site : String) (v : Val) (h : v.isIterable = true) :
    ∃ xs, v.pyIter? site = .ok xs := by
  cases v <;> simp [Val.isIterable] at h <;> exact ⟨_, rfl⟩

theorem pyLen_of_iterable (site : String) (v : Val) (h : v.isIterable = true) :
    ∃ n, v.pyLen? site = .ok n := by
  cases v <;> simp [Val.isIterable] at h <;> exact ⟨_, rfl⟩

/-- **only the declared exceptions** escape from the start of a call -/
theorem C03_only_declared (accept : Val → Option Val) (s : VState) (doc : Val) (schema : Option Val) (e : Exc)
    (h : Api.initProcessing accept s doc schema = .error e) :
    (e = .py "SchemaError" "DefinitionSchema" ∨ e = .py "SchemaError" "__init_processing" ∨
     e = .py "DocumentError" "__init_processing") := by
  unfold Api.initProcessing at h
  split at h
  · unfold Api.checkDoc at h
    split at h
    · simp at h
    · simp only [Except.error.injEq] at h; subst h; exact Or.inr (Or.inr rfl)
  · rename_i e' he
    simp only [Except.error.injEq] at h
    subst h
    unfold Api.resolveSchemaArg at he
    repeat' (split at he)
    all_goals first
      | (simp at he; done)
      | (simp only [Except.error.injEq] at he; subst he; first | exact Or.inl rfl | exact Or.inr (Or.inl rfl))

/-- a document that is not a mapping always raises `DocumentError` (when the schema is fine) -/
theorem C03_document_error (accept : Val → Option Val) (s : VState) (doc : Val) (s2 : VState)
    (hs : Api.resolveSchemaArg accept (Api.reset s doc) none = .ok s2) (hd : doc.isMapping = false) :
    Api.initProcessing accept s doc none = .error (.py "DocumentError" "__init_processing") := by
  unfold Api.initProcessing
  simp only [hs, Api.checkDoc]
  cases doc <;> simp [Val.isMapping] at hd <;> rfl

/-- **a raising coercer / rename handler is caught**: whatever `env.coerce` does,
    `coerceLeaf` raises only if filing the error itself fails -/
theorem C03_coercer_caught (env : Env) (ctx : Ctx) (schema : Val) (m : List (Key × Val)) (f : Key) (proc : Val)
    (value : Val) (nullable : Bool) (code : Nat) (rule : String) (name : String) (e : Err)
    (hn : N.procName env proc = .ok name)
    (he : N.mkNErr env ctx schema m f code rule = .ok e) :
    ∃ r, N.coerceLeaf env ctx schema m f proc value nullable code rule = .ok r := by
  simp only [N.coerceLeaf, hn, he]
  cases env.coerce name value with
  | ok v => exact ⟨_, rfl⟩
  | error msg => cases hnv : (nullable && value.isNone) <;> simp

/-- **a raising default setter is caught**: the work list never fails, whatever
    the setters do (it is a total function; see also `C17_terminates`) -/
theorem C03_setter_caught (setter : Key → List (Key × Val) → SetterResult) (s : SState) (f : Key)
    (rest : List Key) (msg : String) (h : setter f s.mapping = .other msg) :
    (Setters.apply1 setter s f rest).2.2 = s.failed ++ [f] ∧ (Setters.apply1 setter s f rest).2.1 = s.mapping := by
  simp [Setters.apply1, h]

/-- `contains`: total on every value, for a constraint whose members (when it is a
    collection) are hashable — `set(expected_values)` is the only partial operation -/
theorem C03_contains (env : Env) (ctx : Ctx) (schema doc : Val) (f : Key) (c v : Val)
    (hc : ∀ xs, c.pyIter? "_validate_contains" = .ok xs → c.isStr = false → xs.all Val.hashable = true) :
    ∃ r, V.hContains env ctx schema doc f c v = .ok r := by
  unfold V.hContains
  by_cases hv : v.isIterable = true
  · have hvi : ∃ ys, v.pyIter? "_validate_contains" = .ok ys := by
      cases v <;> simp [Val.isIterable] at hv <;> simp [Val.pyIter?]
    obtain ⟨ys, hys⟩ := hvi
    by_cases hci : (!c.isIterable || c.isStr) = true
    · simp only [hv, Bool.not_true, Bool.false_eq_true, if_false, hci, if_true, hys, liftPy, bind, Except.bind, pure,
        Except.pure]
      split <;> exact ⟨_, rfl⟩
    · have hci' : (!c.isIterable || c.isStr) = false := by simpa using hci
      have hcit : c.isIterable = true ∧ c.isStr = false := by
        cases h1 : c.isIterable <;> cases h2 : c.isStr <;> simp_all
      have hxs : ∃ xs, c.pyIter? "_validate_contains" = .ok xs := by
        cases c <;> simp [Val.isIterable] at hcit <;> simp [Val.pyIter?]
      obtain ⟨xs, hxs⟩ := hxs
      have hall := hc xs hxs hcit.2
      simp only [hv, Bool.not_true, Bool.false_eq_true, if_false, hci', hxs, hys, liftPy, bind, Except.bind, pure,
        Except.pure, Val.pySet?, hall, if_true]
      split <;> exact ⟨_, rfl⟩
  · have hv' : v.isIterable = false := by simpa using hv
    simp only [hv', Bool.not_false, if_true]
    exact ⟨_, rfl⟩

/-- are all dependency names strings? (the quantifier of the property) -/
def depNamesStr : Val → Bool
  | .str _ => true
  | .seq _ xs => xs.all Val.isStr
  | .dict kvs => kvs.all (fun kv => match kv.1 with | .s _ => true | .i _ => false)
  | _ => false

theorem depsSequence_total (ctx : Ctx) (doc : Val) :
    ∀ xs : List Val, xs.all Val.isStr = true → ∃ r, V.depsSequence ctx doc xs = .ok r
  | [], _ => ⟨_, rfl⟩
  | d :: ds, h => by
    simp only [List.all_cons, Bool.and_eq_true] at h
    obtain ⟨r, hr⟩ := depsSequence_total ctx doc ds h.2
    cases d <;> simp [Val.isStr] at h
    simp only [V.depsSequence, V.depName, hr, bind, Except.bind, pure, Except.pure]
    exact ⟨_, rfl⟩

theorem depsMapping_total (ctx : Ctx) (doc : Val) :
    ∀ kvs : List (Key × Val), kvs.all (fun kv => match kv.1 with | .s _ => true | .i _ => false) = true →
      ∃ r, V.depsMapping ctx doc kvs = .ok r
  | [], _ => ⟨_, rfl⟩
  | (k, vals) :: r, h => by
    simp only [List.all_cons, Bool.and_eq_true] at h
    obtain ⟨r', hr⟩ := depsMapping_total ctx doc r h.2
    cases k with
    | i n => simp at h
    | s name =>
      simp only [V.depsMapping, hr, bind, Except.bind, pure, Except.pure]
      exact ⟨_, rfl⟩

/-- `dependencies`: total on every document and value when the dependency names are
    strings — dotted and root-relative paths through values of any shape included
    (`C03_lookup`) -/
theorem C03_dependencies (env : Env) (ctx : Ctx) (schema doc : Val) (f : Key) (c v : Val)
    (hc : depNamesStr c = true) : ∃ r, V.hDependencies env ctx schema doc f c v = .ok r := by
  unfold V.hDependencies
  cases c with
  | str s =>
    simp only [Val.isStr, Bool.true_or, if_true]
    exact depsSequence_total ctx doc [.str s] (by simp [Val.isStr])
  | seq tup xs =>
    simp only [Val.isStr, Val.isIterable, Val.isMapping, Bool.false_or, Bool.true_or, Bool.not_true, Bool.false_eq_true,
      if_false]
    exact depsSequence_total ctx doc xs (by simpa [depNamesStr] using hc)
  | dict kvs =>
    simp only [Val.isStr, Val.isIterable, Val.isMapping, Bool.false_or, Bool.or_true, Bool.not_true, Bool.false_eq_true,
      if_false]
    obtain ⟨bad, hb⟩ := depsMapping_total ctx doc kvs (by simpa [depNamesStr] using hc)
    simp only [hb]
    split <;> exact ⟨_, rfl⟩
  | _ => simp [depNamesStr] at hc

/-- dependency lookup is total on every document -/
theorem C03_lookup (ctx : Ctx) (doc : Val) (path : String) :
    lookupField ctx doc path = none ∨ ∃ v, lookupField ctx doc path = some v := by
  cases lookupField ctx doc path with
  | none => exact Or.inl rfl
  | some v => exact Or.inr ⟨v, rfl⟩

/-! ### rule handlers: total on every value -/

theorem C03_allowed (env : Env) (ctx : Ctx) (schema doc : Val) (f : Key) (c v : Val) :
    NoPy (hAllowed env ctx schema doc f c v) := by
  intro t s h
  unfold hAllowed at h
  simp only [bind, Except.bind, pure, Except.pure, liftPy] at h
  by_cases hi : (v.isIterable && !v.isStr) = true
  · simp only [hi, if_true] at h
    have hit : v.isIterable = true := by
      simp only [Bool.and_eq_true] at hi; exact hi.1
    obtain ⟨xs, hx⟩ := pyIter_of_iterable "_validate_allowed" v hit
    simp only [hx] at h
    split at h <;> simp at h
  · simp only [hi, Bool.false_eq_true, if_false] at h
    split at h <;> simp at h

theorem C03_min (env : Env) (ctx : Ctx) (schema doc : Val) (f : Key) (c v : Val) :
    NoPy (hMin env ctx schema doc f c v) := by
  intro t s h
  unfold hMin at h
  split at h <;> simp [pure, Except.pure] at h

theorem C03_max (env : Env) (ctx : Ctx) (schema doc : Val) (f : Key) (c v : Val) :
    NoPy (hMax env ctx schema doc f c v) := by
  intro t s h
  unfold hMax at h
  split at h <;> simp [pure, Except.pure] at h

/-- `minlength` / `maxlength`: the constraint is a number (constraint schema: integer) -/
theorem C03_length (env : Env) (ctx : Ctx) (schema doc : Val) (f : Key) (c v : Val) (b : Bool)
    (hc : c.num?.isSome = true) : NoPy (hLength env ctx schema doc f c v b) := by
  intro t s h
  unfold hLength at h
  by_cases hi : v.isIterable = true
  · obtain ⟨n, hn⟩ := pyLen_of_iterable "_validate_length" v hi
    simp only [hi, Bool.not_true, Bool.false_eq_true, if_false, hn] at h
    cases hcn : c.num? with
    | none => simp [hcn] at hc
    | some cn =>
      simp only [hcn] at h
      repeat' (split at h)
      all_goals simp at h
  · simp [hi] at h

/-- `regex`: the constraint is a string (constraint schema: string) -/
theorem C03_regex (env : Env) (ctx : Ctx) (schema doc : Val) (f : Key) (pat : String) (v : Val) :
    NoPy (hRegex env ctx schema doc f (.str pat) v) := by
  intro t s h
  unfold hRegex at h
  repeat' (split at h)
  all_goals first
    | (simp [pure, Except.pure] at h; done)
    | (simp [raisePy] at h; rename_i hh; cases hh; done)
    | (rename_i h1 h2; exact absurd rfl (h2 _ _))
    | simp_all

/-- `forbidden`: the constraint is a list (constraint schema: list) -/
theorem C03_forbidden (env : Env) (ctx : Ctx) (schema doc : Val) (f : Key) (tup : Bool) (cs : List Val) (v : Val) :
    NoPy (hForbidden env ctx schema doc f (.seq tup cs) v) := by
  intro t s h
  have hin : ∀ (xs : List Val), ∃ r, filterIn "_validate_forbidden" (.seq tup cs) xs = .ok r := by
    intro xs
    induction xs with
    | nil => exact ⟨[], rfl⟩
    | cons x xs ih =>
      obtain ⟨r, hr⟩ := ih
      simp only [filterIn, bind, Except.bind, liftPy, Val.pyIn?, hr, pure, Except.pure]
      exact ⟨_, rfl⟩
  unfold hForbidden at h
  simp only [bind, Except.bind, pure, Except.pure, liftPy] at h
  by_cases hi : v.isSeqNotStr = true
  · simp only [hi, if_true] at h
    have : ∃ xs, v.pyIter? "_validate_forbidden" = .ok xs := by
      cases v <;> simp [Val.isSeqNotStr] at hi; exact ⟨_, rfl⟩
    obtain ⟨xs, hx⟩ := this
    obtain ⟨r, hr⟩ := hin xs
    simp only [hx, hr] at h
    split at h <;> simp at h
  · simp only [hi, Bool.false_eq_true, if_false, Val.pyIn?] at h
    split at h <;> simp at h

/-- the priority handlers that need nothing of their constraint -/
theorem C03_nullable (env : Env) (t : Tables) (ctx : Ctx) (schema doc : Val) (f : Key) (c : Option Val) (v : Val) :
    NoPy (hNullable env t ctx schema doc f c v) := by
  intro ty s h
  unfold hNullable at h
  simp only [bind, Except.bind, pure, Except.pure] at h
  repeat' (split at h)
  all_goals simp at h

theorem C03_readonly (env : Env) (ctx : Ctx) (schema doc : Val) (f : Key) (c v : Val) (sofar : List Err) :
    NoPy (hReadonly env ctx schema doc f c v sofar) := by
  intro ty s h
  unfold hReadonly at h
  simp only [bind, Except.bind, pure, Except.pure] at h
  repeat' (split at h)
  all_goals simp at h

theorem C03_empty (env : Env) (t : Tables) (ctx : Ctx) (schema doc : Val) (f : Key) (c v : Val) :
    NoPy (hEmpty env t ctx schema doc f c v) := by
  intro ty s h
  unfold hEmpty at h
  by_cases hs : v.isSized = true
  · obtain ⟨n, hn⟩ := pyLen_of_iterable "_validate_empty" v hs
    simp only [hs, if_true, bind, Except.bind, pure, Except.pure, liftPy, hn] at h
    repeat' (split at h)
    all_goals simp at h
  · simp [hs, pure, Except.pure] at h

/-- container rules do not raise if the child validation does not -/
theorem C03_valuesrules (env : Env) (rec : Rec) (ctx : Ctx) (schema doc : Val) (f : Key) (c v : Val) (upd : Bool)
    (hrec : ∀ cctx s d u, NoPy (rec cctx s d u)) : NoPy (hValuesrules env rec ctx schema doc f c v upd) := by
  intro ty s h
  unfold hValuesrules at h
  split at h
  · simp only [bind, Except.bind, pure, Except.pure] at h
    split at h
    · rename_i e he
      simp only [Except.error.injEq] at h
      subst h
      exact hrec _ _ _ _ _ _ he
    · split at h <;> simp at h
  · simp [pure, Except.pure] at h

theorem C03_keysrules (env : Env) (rec : Rec) (ctx : Ctx) (schema doc : Val) (f : Key) (c v : Val)
    (hrec : ∀ cctx s d u, NoPy (rec cctx s d u)) : NoPy (hKeysrules env rec ctx schema doc f c v) := by
  intro ty s h
  unfold hKeysrules at h
  split at h
  · simp only [bind, Except.bind, pure, Except.pure] at h
    split at h
    · rename_i e he
      simp only [Except.error.injEq] at h
      subst h
      exact hrec _ _ _ _ _ _ he
    · split at h <;> simp at h
  · simp [pure, Except.pure] at h

/-- `items`: the constraint is a list (constraint schema: list); every value shape is handled -/
theorem C03_items (env : Env) (rec : Rec) (ctx : Ctx) (schema doc : Val) (f : Key) (tup : Bool) (defs : List Val)
    (v : Val) (upd : Bool) (hrec : ∀ cctx s d u, NoPy (rec cctx s d u)) :
    NoPy (hItems env rec ctx schema doc f (.seq tup defs) v upd) := by
  intro ty s h
  unfold hItems at h
  by_cases hs : (v.isSized && v.isIterable) = true
  · have hi : v.isIterable = true := by simp only [Bool.and_eq_true] at hs; exact hs.2
    obtain ⟨n, hn⟩ := pyLen_of_iterable "_validate_items" v hi
    obtain ⟨xs, hx⟩ := pyIter_of_iterable "_validate_items" v hi
    have hc1 : (Val.seq tup defs).pyLen? "_validate_items" = .ok defs.length := rfl
    have hc2 : (Val.seq tup defs).pyIter? "_validate_items" = .ok defs := rfl
    simp only [hs, Bool.not_true, Bool.false_eq_true, if_false, bind, Except.bind, pure, Except.pure, liftPy,
      hc1, hc2, hn, hx] at h
    split at h
    · simp at h
    · split at h
      · rename_i e he
        simp only [Except.error.injEq] at h
        subst h
        exact hrec _ _ _ _ _ _ he
      · split at h <;> simp at h
  · simp [hs, pure, Except.pure] at h

/-- `check_with`: the named / callable checkers exist (constraint schema: allowed names) -/
theorem C03_check_with (env : Env) (v : Val) (name : String) (h1 : (env.checker name v).isSome = true) :
    NoPy (hCheckWith env (.fn name) v) ∧ NoPy (hCheckWith env (.str name) v) := by
  cases hc : env.checker name v with
  | none => simp [hc] at h1
  | some msgs =>
    constructor <;> (intro ty s h; simp [hCheckWith, checkOne, hc, pure, Except.pure] at h)

end Cerberus
