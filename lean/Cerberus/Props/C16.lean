/-
  C16 — extensions work at every depth of their class and nowhere else.

  In the model a validator *class* is the pair (environment, tables): the
  environment holds the class's named coercers, default setters, check_with methods
  and custom rules, the tables its `types_mapping`; the extra configuration
  arguments are captured by the environment's closures.  `validate0` and `normalize`
  thread one environment and one table record through the whole recursion — that is
  the model's rendering of `self.__class__(**child_config)`.

  * `C16_same_class`, `C16_same_class_normalize` — every child validation / child
    normalization, at every depth, runs with the environment and tables of its parent;
  * `C16_custom_rule`, `C16_check_with`, `C16_type`, `C16_coercer` — a custom rule, a
    check_with method, a type and a coercer are evaluated on (constraint, value) alone:
    the result does not depend on the depth, the paths, the document around, or what
    was validated before — so an extension behaves at depth exactly as at top level;
  * `C16_isolation_cold` — whether a class accepts a schema depends on that class's
    own tables and the registries only, not on anything an instance held before;
    with the cache in the picture the statement is false (`C08_witness_subclass`,
    known finding F13e).
-/
import Cerberus.Proofs.Validate
import Cerberus.Model.Normalize
import Cerberus.Model.Schema
import Cerberus.Props.C08
import Cerberus.Extracted
namespace Cerberus
open V

/-- **all child validators are instances of the same class** (validation) -/
theorem C16_same_class (env : Env) (t : Tables) (n : Nat) (ctx : Ctx) (schema doc : Val) (upd : Bool) :
    validate0 env t (n + 1) ctx schema doc upd =
      validateMapping env t (validate0 env t n) ctx schema doc upd [] [] := rfl

/-- …and normalization -/
theorem C16_same_class_normalize (env : Env) (n : Nat) (ctx : Ctx) (schema : Val) (doc : List (Key × Val)) :
    normalize env (n + 1) ctx schema doc = N.normalizeMapping env (normalize env n) ctx schema doc := rfl

def builtinRules : List String :=
  ["nullable", "readonly", "type", "empty", "allowed", "forbidden", "contains", "min", "max", "minlength",
   "maxlength", "regex", "dependencies", "excludes", "items", "schema", "keysrules", "valuesrules",
   "anyof", "allof", "noneof", "oneof", "check_with"]

/-- what the dispatcher does with a rule name that is not built in -/
theorem handler_custom (env : Env) (t : Tables) (rec : Rec) (ctx : Ctx) (schema doc : Val)
    (upd : Bool) (f : Key) (defs v : Val) (sofar : List Err) (rule : String) (h : rule ∉ builtinRules) :
    handler env t rec ctx schema doc upd f defs v sofar rule =
      (match env.customRule rule ((defs.dget? (kS rule)).getD .none) v with
       | some msgs => .ok { errs := msgs.map customSpec }
       | none => raisePy "RuntimeError" "__get_rule_handler") := by
  simp only [builtinRules, List.mem_cons, List.mem_nil_iff, or_false, not_or] at h
  obtain ⟨h1, h2, h3, h4, h5, h6, h7, h8, h9, h10, h11, h12, h13, h14, h15, h16, h17, h18, h19, h20, h21, h22, h23⟩ := h
  unfold handler
  split <;> first | (exfalso; simp_all; done) | rfl

/-- **a custom rule is dispatched to the class with (constraint, value) only** — whatever
    the depth, the context, the surrounding document and the errors so far -/
theorem C16_custom_rule (env : Env) (t : Tables) (rec rec' : Rec) (ctx ctx' : Ctx) (schema schema' doc doc' : Val)
    (upd upd' : Bool) (f f' : Key) (defs v : Val) (sofar sofar' : List Err) (rule : String)
    (h : rule ∉ builtinRules) :
    handler env t rec ctx schema doc upd f defs v sofar rule =
    handler env t rec' ctx' schema' doc' upd' f' defs v sofar' rule := by
  rw [handler_custom _ _ _ _ _ _ _ _ _ _ _ _ h, handler_custom _ _ _ _ _ _ _ _ _ _ _ _ h]

/-- a check_with method / function sees (field value) only -/
theorem C16_check_with (env : Env) (t : Tables) (rec rec' : Rec) (ctx ctx' : Ctx) (schema schema' doc doc' : Val)
    (upd upd' : Bool) (f f' : Key) (defs v : Val) (sofar sofar' : List Err) :
    handler env t rec ctx schema doc upd f defs v sofar "check_with" =
    handler env t rec' ctx' schema' doc' upd' f' defs v sofar' "check_with" := rfl

/-- a (custom) type is decided from the class's type table and the value only -/
theorem C16_type (env env' : Env) (t : Tables) (ctx ctx' : Ctx) (schema schema' doc doc' : Val) (f f' : Key) (c v : Val) :
    hType env t ctx schema doc f c v = hType env' t ctx' schema' doc' f' c v := rfl

/-- the value a coercer produces depends on the coercer and the input only -/
theorem C16_coercer (env : Env) (ctx ctx' : Ctx) (schema schema' : Val) (m m' : List (Key × Val)) (f f' : Key)
    (proc value : Val) (nullable : Bool) (code : Nat) (rule : String) (r r' : Val × List Err)
    (h : N.coerceLeaf env ctx schema m f proc value nullable code rule = .ok r)
    (h' : N.coerceLeaf env ctx' schema' m' f' proc value nullable code rule = .ok r') :
    r.1 = r'.1 ∧ r.2.length = r'.2.length := by
  simp only [N.coerceLeaf] at h h'
  cases hp : N.procName env proc with
  | error e => simp [hp] at h
  | ok name =>
    simp only [hp] at h h'
    cases hc : env.coerce name value with
    | ok v =>
      simp only [hc, Except.ok.injEq] at h h'
      subst h h'
      exact ⟨rfl, rfl⟩
    | error msg =>
      simp only [hc] at h h'
      by_cases hn : (nullable && value.isNone) = true
      · simp only [hn, if_true, Except.ok.injEq] at h h'
        subst h h'
        exact ⟨rfl, rfl⟩
      · simp only [hn, Bool.false_eq_true, if_false] at h h'
        split at h
        · simp at h
        · split at h'
          · simp at h'
          · simp only [Except.ok.injEq] at h h'
            subst h h'
            exact ⟨rfl, rfl⟩

/-- **defining or using a class never changes what another class accepts** (cold cache):
    the outcome of submitting a schema is a function of the class's own tables and
    the registries; no instance state enters -/
theorem C16_isolation_cold (cls : Cls) (t : Tables) (regsR regsS : String → Option Val)
    (s₁ s₂ : S.SchemaState) (raw : Val) :
    (S.submit cls t regsR regsS s₁ (.whole raw)).2 = (S.submit cls t regsR regsS s₂ (.whole raw)).2 := by
  simp only [S.submit]
  cases S.acceptSchema cls t regsR regsS raw <;> rfl

/-- with the cache the isolation fails: see `C08_witness_subclass` (known finding F13e) -/
theorem C16_isolation_warm_fails :
    Cache.run [] [.submit .bulk (.dict [(.s "is_odd", .bool true)]) T true,
                  .submit .bulk (.dict [(.s "is_odd", .bool true)]) T false] ≠ [some true, some false] := by
  decide

/-- **the internal types of the schema validator stay internal**: the types of the validator class
    extracted on this run are the documented ones; `callable` and `hashable` exist in the schema
    validator's own table only -/
theorem C16_internal_types :
    (∀ n, n ∈ Extracted.typeNames ↔
      n ∈ ["binary", "boolean", "container", "date", "datetime", "dict", "float", "integer", "list", "number", "set", "string"]) ∧
    "callable" ∉ Extracted.typeNames ∧ "hashable" ∉ Extracted.typeNames ∧
    (Tables.lookupS Extracted.metaTypeTable "callable").isSome = true ∧
    (Tables.lookupS Extracted.metaTypeTable "hashable").isSome = true ∧
    (Tables.lookupS Extracted.typeTable "callable").isSome = false ∧
    (Tables.lookupS Extracted.typeTable "hashable").isSome = false := by
  refine ⟨fun n => ?_, by decide, by decide, by decide, by decide, by decide, by decide⟩
  constructor
  · intro h
    have : ∀ m ∈ Extracted.typeNames,
        m ∈ ["binary", "boolean", "container", "date", "datetime", "dict", "float", "integer", "list", "number", "set", "string"] := by
      decide
    exact this n h
  · intro h
    have : ∀ m ∈ ["binary", "boolean", "container", "date", "datetime", "dict", "float", "integer", "list", "number", "set", "string"],
        m ∈ Extracted.typeNames := by decide
    exact this n h

end Cerberus
