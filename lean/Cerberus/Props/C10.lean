/-
  C10 — nested validation is compositional and inherits the configuration.

  Model: `Ctx.child` (= `_get_child_validator`) and the container handlers of
  `V` (Model/Validate.lean).  `rec cctx schema doc upd` *is* "validating the
  sub-document on its own with a validator of the same class and configuration":
  a child context differs from a top-level context only in its path prefixes
  and its root document.

  Proved here (for every `rec`, every context):
  * `C10_inherit`      — a child has the parent's configuration except for the
                         keyword overrides; `ignore_none_values`, purge flags and the
                         normalization marker are always inherited;
  * `C10_paths`        — its paths are the parent's paths plus the crumbs;
  * `C10_root`, `C10_root_deep` — the root document is captured by the first
                         generation only and is the same at every depth below;
  * `C10_root_lookup`  — a `^`-dependency in a child looks the field up in that root;
  * `C10_schema_mapping`, `C10_schema_sequence`, `C10_items`, `C10_valuesrules`,
    `C10_keysrules`    — each container rule reports exactly the errors of the
                         child validation of the sub-document (each item, value, key),
                         with allow_unknown / require_all taken from the field's rules
                         where given, `update` passed on (not for keysrules), wrapped
                         in the rule's group error;
  * `C10_equivariant`  — path equivariance of the whole validation, at every depth:
                         a validator whose document path and schema path are longer at
                         the front by `dp` / `sp` reports exactly the same errors, with
                         `dp` / `sp` in front of every path (child errors included);
  * `C10_detached`     — hence the errors beneath a field are exactly those of the same
                         validator *detached* from its parent (document path empty, schema
                         path starting at the field's crumbs; class, configuration and
                         root document — against which `^` dependencies resolve — kept),
                         with the field's path put in front.
  (Proofs/Prefix.lean; `C10_equivariant_partial` is the lemma for one error.)
  What a *root* validator does differently from a detached child — the
  `__allow_unknown__` marker crumb, the root document of `^` dependencies — is not
  equated by any theorem; the oracle (standalone real validators) and the validate0
  port decide it.
-/
import Cerberus.Proofs.Validate
import Cerberus.Proofs.Prefix
import Cerberus.Extracted
namespace Cerberus
open V

/-- **configuration inheritance** -/
theorem C10_inherit (ctx : Ctx) (doc : Val) (ov : Overrides) (dc : Option Key) (sc : List Key) :
    let c := ctx.child doc ov dc sc
    c.cfg.ignoreNone = ctx.cfg.ignoreNone ∧
    c.cfg.purgeReadonly = ctx.cfg.purgeReadonly ∧
    c.cfg.isNormalized = ctx.cfg.isNormalized ∧
    c.cfg.allowUnknown = ov.allowUnknown.getD ctx.cfg.allowUnknown ∧
    c.cfg.requireAll = ov.requireAll.getD ctx.cfg.requireAll ∧
    c.cfg.purgeUnknown = ov.purgeUnknown.getD ctx.cfg.purgeUnknown ∧
    c.isChild = true := by
  simp [Ctx.child]

/-- **paths are prefixed by the field's path** -/
theorem C10_paths (ctx : Ctx) (doc : Val) (ov : Overrides) (f : Key) (sc : List Key) :
    (ctx.child doc ov (some f) sc).docPath = ctx.docPath ++ [f] ∧
    (ctx.child doc ov none sc).docPath = ctx.docPath ∧
    (ctx.child doc ov (some f) sc).schemaPath = ctx.schemaPath ++ sc := by
  simp [Ctx.child]

/-- **the root document** is the first-level validator's document -/
theorem C10_root (ctx : Ctx) (doc : Val) (ov : Overrides) (dc : Option Key) (sc : List Key) :
    (ctx.child doc ov dc sc).root = if ctx.isChild then ctx.root else doc := by
  simp [Ctx.child]

/-- …and stays the same at every depth below the first generation, whatever
    sub-documents the deeper validators process -/
theorem C10_root_deep (ctx : Ctx) (d₁ d₂ : Val) (o₁ o₂ : Overrides) (c₁ c₂ : Option Key) (s₁ s₂ : List Key) :
    ((ctx.child d₁ o₁ c₁ s₁).child d₂ o₂ c₂ s₂).root = (ctx.child d₁ o₁ c₁ s₁).root := by
  simp [Ctx.child]

/-- **root-relative dependencies** resolve against the root document in every
    child, and against the document itself at the top level -/
theorem C10_root_lookup (ctx : Ctx) (doc : Val) (c : Char) (rest : List Char) (hc : c ≠ '^') :
    lookupField ctx doc (String.ofList ('^' :: c :: rest)) =
      lookupParts ((String.ofList (c :: rest)).splitOn ".") (if ctx.isChild then ctx.root else doc) := by
  simp only [lookupField, String.toList_ofList]
  split
  · rename_i h; injection h with _ h2; injection h2 with h3 _; exact absurd h3 hc
  · rename_i h; injection h with _ h2; subst h2; rfl
  · rename_i h1 h2; exact absurd rfl (h2 _)

/-- **mapping `schema`**: the errors beneath the field are exactly the errors of
    validating the sub-document with the field's allow_unknown / require_all
    (else the parent's), the parent's `update`, below the field's paths -/
theorem C10_schema_mapping (env : Env) (rec : Rec) (ctx : Ctx) (schema doc : Val) (f : Key)
    (c : Val) (sub : List (Key × Val)) (upd : Bool) (o : HOut) (rs cschema : Val) (cerrs : List Err)
    (hc : c.isNone = false)
    (hr : fieldRules env schema f "__validate_schema_mapping" = .ok rs)
    (hs : env.resolveSchema c = some cschema)
    (hrec : rec (ctx.child doc
              { allowUnknown := some ((rs.dget? (kS "allow_unknown")).getD ctx.cfg.allowUnknown)
                requireAll := some ((rs.dget? (kS "require_all")).getD ctx.cfg.requireAll) }
              (some f) [f, kS "schema"]) cschema (.dict sub) upd = .ok cerrs)
    (h : hSchema env rec ctx schema doc f c (.dict sub) upd = .ok o) :
    o.errs = if cerrs.isEmpty then [] else
      [{ code := Code.MAPPING_SCHEMA, rule := some "schema", info := [], kids := cerrs }] := by
  have hcond : rulesSetName env c = false := by
    cases c with
    | str n => have hn : env.schemas n = some cschema := hs; simp [rulesSetName, hn]
    | _ => rfl
  simp only [hSchema, hc, hcond, Bool.false_eq_true, if_false, bind, Except.bind, hr, hs, pure, Except.pure, hrec] at h
  split at h <;> (simp only [Except.ok.injEq] at h; subst h; simp [*])

/-- **sequence `schema`**: every item is validated against the rule set as a
    document `{index: item}`; the index crumb of the synthetic schema is removed -/
theorem C10_schema_sequence (env : Env) (rec : Rec) (ctx : Ctx) (schema doc : Val) (f : Key)
    (c : Val) (tup : Bool) (xs : List Val) (upd : Bool) (o : HOut) (cerrs : List Err)
    (hc : c.isNone = false)
    (hrec : rec (ctx.child doc { allowUnknown := some ctx.cfg.allowUnknown } (some f) [f, kS "schema"])
              (.dict ((List.range xs.length).map (fun i => (Key.i (Int.ofNat i), c))))
              (.dict (Val.enumDict xs)) upd = .ok cerrs)
    (h : hSchema env rec ctx schema doc f c (.seq tup xs) upd = .ok o) :
    o.errs = if cerrs.isEmpty then [] else
      [{ code := Code.SEQUENCE_SCHEMA, rule := some "schema", info := [],
         kids := dropSpL ctx.schemaPath.length [2] cerrs }] := by
  simp only [hSchema, hc, Bool.false_eq_true, if_false, bind, Except.bind, pure, Except.pure, hrec] at h
  split at h <;> (simp only [Except.ok.injEq] at h; subst h; simp [*])

/-- **valuesrules**: every value is validated against the rule set, `update` passed on -/
theorem C10_valuesrules (env : Env) (rec : Rec) (ctx : Ctx) (schema doc : Val) (f : Key)
    (c : Val) (kvs : List (Key × Val)) (upd : Bool) (specs : List ESpec) (cerrs : List Err)
    (hrec : rec (ctx.child doc {} (some f) [f, kS "valuesrules"])
              (.dict ((Val.dkeys kvs).map (fun k => (k, c)))) (.dict kvs) upd = .ok cerrs)
    (h : hValuesrules env rec ctx schema doc f c (.dict kvs) upd = .ok specs) :
    specs = if cerrs.isEmpty then [] else
      [{ code := Code.VALUESRULES, rule := some "valuesrules", info := [],
         kids := dropSpL ctx.schemaPath.length [2] cerrs }] := by
  simp only [hValuesrules, bind, Except.bind, pure, Except.pure, hrec] at h
  split at h <;> (simp only [Except.ok.injEq] at h; subst h; simp [*])

/-- **keysrules**: every key is validated as a value against the rule set
    (`update` is not passed on: the synthetic document is never partial) -/
theorem C10_keysrules (env : Env) (rec : Rec) (ctx : Ctx) (schema doc : Val) (f : Key)
    (c : Val) (kvs : List (Key × Val)) (specs : List ESpec) (cerrs : List Err)
    (hrec : rec (ctx.child doc {} (some f) [f, kS "keysrules"])
              (.dict ((Val.dkeys kvs).map (fun k => (k, c))))
              (.dict ((Val.dkeys kvs).map (fun k => (k, k.toVal)))) false = .ok cerrs)
    (h : hKeysrules env rec ctx schema doc f c (.dict kvs) = .ok specs) :
    specs = if cerrs.isEmpty then [] else
      [{ code := Code.KEYSRULES, rule := some "keysrules", info := [],
         kids := dropSpL ctx.schemaPath.length [2] cerrs }] := by
  simp only [hKeysrules, bind, Except.bind, pure, Except.pure, hrec] at h
  split at h <;> (simp only [Except.ok.injEq] at h; subst h; simp [*])

/-- **items**: item `i` is validated against definition `i`, `update` passed on; no crumb removed -/
theorem C10_items (env : Env) (rec : Rec) (ctx : Ctx) (schema doc : Val) (f : Key)
    (tupc tupv : Bool) (defs xs : List Val) (upd : Bool) (specs : List ESpec) (cerrs : List Err)
    (hl : defs.length = xs.length)
    (hrec : rec (ctx.child doc {} (some f) [f, kS "items"])
              (.dict (Val.enumDict defs)) (.dict (Val.enumDict xs)) upd = .ok cerrs)
    (h : hItems env rec ctx schema doc f (.seq tupc defs) (.seq tupv xs) upd = .ok specs) :
    specs = if cerrs.isEmpty then [] else
      [{ code := Code.BAD_ITEMS, rule := some "items", info := [], kids := cerrs }] := by
  simp only [hItems, Val.isSized, Val.isIterable, Bool.and_self, Bool.not_true, Bool.false_eq_true, if_false,
    liftPy, Val.pyLen?, Val.pyIter?, bind, Except.bind, pure, Except.pure, hl, bne_self_eq_false, hrec] at h
  split at h <;> (simp only [Except.ok.injEq] at h; subst h; simp [*])

/-- the proved part of path equivariance: the error that `_error` builds for a
    field depends on the context only through the path prefixes -/
theorem C10_equivariant_partial (env : Env) (ctx : Ctx) (p q : List Key) (schema doc : Val) (f : Key)
    (code : Nat) (rule : Option String) (info : List Val) (kids : List Err) (e : Err)
    (h : mkErr env ctx schema doc f code rule info kids = .ok e) :
    ∃ e', mkErr env { ctx with docPath := p ++ ctx.docPath, schemaPath := q ++ ctx.schemaPath }
            schema doc f code rule info kids = .ok e' ∧
          e'.dp = p ++ e.dp ∧ (e.spStr = false → e'.sp = q ++ e.sp) ∧ e'.code = e.code ∧
          e'.value = e.value ∧ e'.constraint = e.constraint := by
  unfold mkErr at h ⊢
  cases rule with
  | none =>
    simp only [pure, Except.pure, Except.ok.injEq] at h
    subst h
    exact ⟨_, rfl, by simp [Err.dp], by simp [Err.sp], rfl, rfl, rfl⟩
  | some r =>
    simp only [bind, Except.bind] at h ⊢
    cases hf : fieldRules env schema f "_error" with
    | error x => simp [hf] at h
    | ok rs =>
      simp only [hf] at h ⊢
      repeat' (split at h)
      all_goals first
        | (simp only [pure, Except.pure, Except.ok.injEq] at h; subst h
           simp_all [Err.dp, Err.sp, Err.spStr, Err.code, Err.value, Err.constraint, pure, Except.pure])
        | (simp [raisePy] at h; done)

/-- **path equivariance.**  For every environment, tables, fuel, schema, document, flags
    and every child context: extending the document path by `dp` and the schema path by
    `sp` at the front changes nothing but the paths of the reported errors. -/
theorem C10_equivariant (env : Env) (t : Tables) (n : Nat) (dp sp : List Key) (ctx : Ctx) (schema doc : Val)
    (upd : Bool) (hne : ctx.schemaPath ≠ []) :
    validate0 env t n (pp dp sp ctx) schema doc upd = (validate0 env t n ctx schema doc upd).map (preL dp sp) :=
  validate0_equiv env t n dp sp ctx schema doc upd hne

/-- the child validator of a field, detached from its parent: paths start at the field -/
def detach (ctx : Ctx) (doc : Val) (ov : Overrides) (f : Key) (sc : List Key) : Ctx :=
  { ctx.child doc ov (some f) sc with docPath := [], schemaPath := sc }

/-- **the errors beneath a field are those of the detached validation, prefixed by the
    field's path** — for `schema`, `items`, `valuesrules`, `keysrules` (the crumbs `sc`
    are never empty), with the overrides `ov` of the rule. -/
theorem C10_detached (env : Env) (t : Tables) (n : Nat) (ctx : Ctx) (doc : Val) (ov : Overrides) (f : Key)
    (sc : List Key) (hsc : sc ≠ []) (schema sub : Val) (upd : Bool) :
    validate0 env t n (ctx.child doc ov (some f) sc) schema sub upd =
    (validate0 env t n (detach ctx doc ov f sc) schema sub upd).map (preL (ctx.docPath ++ [f]) ctx.schemaPath) := by
  have h := C10_equivariant env t n (ctx.docPath ++ [f]) ctx.schemaPath (detach ctx doc ov f sc) schema sub upd hsc
  have he : pp (ctx.docPath ++ [f]) ctx.schemaPath (detach ctx doc ov f sc) = ctx.child doc ov (some f) sc := by
    simp [pp, detach, Ctx.child]
  rw [he] at h
  exact h

/-- the detached validator has the class-independent parts of the child: configuration,
    root document, child flag -/
theorem C10_detached_keeps (ctx : Ctx) (doc : Val) (ov : Overrides) (f : Key) (sc : List Key) :
    (detach ctx doc ov f sc).cfg = (ctx.child doc ov (some f) sc).cfg ∧
    (detach ctx doc ov f sc).root = (ctx.child doc ov (some f) sc).root ∧
    (detach ctx doc ov f sc).isChild = true ∧ (detach ctx doc ov f sc).docPath = [] := by
  simp [detach, Ctx.child]

/-! ### non-vacuity: an instance with errors at two levels, evaluated by the kernel -/

def C10_exEnv : Env :=
  { rx := fun _ _ => none, coerce := Family.coerce, hasCoercer := fun _ => false, setter := fun _ _ => .other "x",
    hasSetter := fun _ => false, checker := fun _ _ => none, rulesSets := fun _ => none, schemas := fun _ => none }
def C10_exSchema : Val := .dict [(.s "a", .dict [(.s "type", .str "integer")]),
  (.s "l", .dict [(.s "type", .str "list"), (.s "schema", .dict [(.s "type", .str "string")])])]
def C10_exDoc : Val := .dict [(.s "a", .str "x"), (.s "l", .seq false [.int 1, .str "ok"])]
def C10_exCtx : Ctx := { cfg := {}, docPath := [], schemaPath := [.s "f", .s "schema"], isChild := true }

/-- the paths of the reported errors and of their child errors: document paths, schema paths,
    document paths of the children, schema paths of the children -/
def C10_paths_of (r : M (List Err)) : List (List (List Key)) :=
  match r with
  | .ok es => [es.map (·.dp), es.map (·.sp), es.flatMap (fun e => e.kids.map (·.dp)), es.flatMap (fun e => e.kids.map (·.sp))]
  | .error _ => []

def C10_exCheck : Bool :=
  decide (C10_paths_of (validate0 C10_exEnv Extracted.tables 5 C10_exCtx C10_exSchema C10_exDoc false) =
    [[[.s "a"], [.s "l"]],
     [[.s "f", .s "schema", .s "a", .s "type"], [.s "f", .s "schema", .s "l", .s "schema"]],
     [[.s "l", .i 0]],
     [[.s "f", .s "schema", .s "l", .s "schema", .s "type"]]]) &&
  decide (C10_paths_of (validate0 C10_exEnv Extracted.tables 5 (pp [.s "p", .i 3] [.s "q"] C10_exCtx) C10_exSchema C10_exDoc false) =
    [[[.s "p", .i 3, .s "a"], [.s "p", .i 3, .s "l"]],
     [[.s "q", .s "f", .s "schema", .s "a", .s "type"], [.s "q", .s "f", .s "schema", .s "l", .s "schema"]],
     [[.s "p", .i 3, .s "l", .i 0]],
     [[.s "q", .s "f", .s "schema", .s "l", .s "schema", .s "type"]]])

example : C10_exCheck = true := by decide +kernel

end Cerberus
