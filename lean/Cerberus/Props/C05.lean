/-
  C05 — the caller's document and the validator's schema are never modified.

  Model: `Cerberus.Heap` / `hnormalize` (Model/Heap.lean): normalization replayed on a
  heap of mutable cells with the write targets of the code (`self.document =
  copy(document)`, `mapping[field] = …`, `del mapping[field]`, the copy made by
  `__normalize_mapping_per_keysrules`, the fresh containers built from a child
  validator's result).

  Proved here, for every environment, fuel, context, schema, heap and document
  reference — no bound on nesting, on the number of fields or on the heap:
    * `C05_frame`   every cell that existed before the call is the same cell after it
                    (so the caller's document, every object nested in it at any depth,
                    and everything else the caller can reach is unmodified);
    * `C05_fresh`   the processed document is a cell allocated by the call — a distinct
                    object from the input;
    * `C05_input_value` the value of every pre-existing reference is unchanged (the
                    frame lifted through `reify`);
    * `C05_no_normalize` with `normalize=False` the processed document equals the input
                    (state machine of Model/Api.lean);
    * `C05_schema_kept` validate / validated / normalized leave the schema held by the
                    validator as it was (state machine).
  The model is functional in the schema: the schema, the defaults in it and the registry
  entries are values, so "a rule handler writes into the schema" is not expressible in
  it; that half is decided on the real objects by the oracle of harness/props/c05.py
  (deep snapshot of `dict(validator.schema)` and object identities before/after).
  That the heap model computes what the code computes is checked by the port
  (`reify ∘ hnormalize` = the real normalized document, and the sharing map).
-/
import Cerberus.Model.Heap
import Cerberus.Model.Api
namespace Cerberus
namespace Heap

/-- nothing below `n0` was written and nothing was deallocated -/
def Pres (n0 : Nat) (h h' : Heap) : Prop := h.size ≤ h'.size ∧ ∀ r, r < n0 → h'.get r = h.get r

theorem Pres.refl (n0 : Nat) (h : Heap) : Pres n0 h h := ⟨Nat.le_refl _, fun _ _ => rfl⟩

theorem Pres.trans {n0 : Nat} {a b c : Heap} (h1 : Pres n0 a b) (h2 : Pres n0 b c) : Pres n0 a c :=
  ⟨Nat.le_trans h1.1 h2.1, fun r hr => (h2.2 r hr).trans (h1.2 r hr)⟩

theorem Pres.mono {n0 n1 : Nat} {a b : Heap} (h : Pres n1 a b) (hle : n0 ≤ n1) : Pres n0 a b :=
  ⟨h.1, fun r hr => h.2 r (Nat.lt_of_lt_of_le hr hle)⟩

theorem alloc_pres {n0 : Nat} (h : Heap) (c : Cell) (hn : n0 ≤ h.size) : Pres n0 h (h.alloc c).1 := by
  refine ⟨by simp [alloc, size], fun r hr => ?_⟩
  have hr' : r < h.cells.length := Nat.lt_of_lt_of_le hr hn
  simp [alloc, get, List.getD_eq_getElem?_getD, List.getElem?_append_left hr']

@[simp] theorem alloc_ref (h : Heap) (c : Cell) : (h.alloc c).2 = h.size := rfl

@[simp] theorem alloc_size (h : Heap) (c : Cell) : (h.alloc c).1.size = h.size + 1 := by simp [alloc, size]

theorem setCell_pres {n0 : Nat} (h : Heap) (d : Ref) (c : Cell) (hd : n0 ≤ d) : Pres n0 h (h.setCell d c) := by
  refine ⟨by simp [setCell, size], fun r hr => ?_⟩
  have hne : d ≠ r := Nat.ne_of_gt (Nat.lt_of_lt_of_le hr hd)
  simp [setCell, get, List.getD_eq_getElem?_getD, List.getElem?_set_ne hne]

theorem setItem_pres {n0 : Nat} (h : Heap) (d : Ref) (k : Key) (v : Ref) (hd : n0 ≤ d) : Pres n0 h (h.setItem d k v) := by
  unfold setItem
  split
  · exact setCell_pres h d _ hd
  · exact Pres.refl _ _

theorem delItem_pres {n0 : Nat} (h : Heap) (d : Ref) (k : Key) (hd : n0 ≤ d) : Pres n0 h (h.delItem d k) := by
  unfold delItem
  split
  · exact setCell_pres h d _ hd
  · exact Pres.refl _ _

theorem copy_pres {n0 : Nat} (h : Heap) (r : Ref) (hn : n0 ≤ h.size) : Pres n0 h (h.copy r).1 := alloc_pres h _ hn

@[simp] theorem copy_ref (h : Heap) (r : Ref) : (h.copy r).2 = h.size := rfl

/- allocating a whole value writes nothing that existed -/
mutual
theorem allocVal_pres : ∀ (v : Val) (h : Heap), Pres h.size h (allocVal h v).1
  | .seq t xs, h => by
    unfold allocVal
    have h1 := allocList_pres xs h
    exact Pres.trans h1 ((alloc_pres _ _ h1.1))
  | .dict kvs, h => by
    unfold allocVal
    have h1 := allocEnts_pres kvs h
    exact Pres.trans h1 ((alloc_pres _ _ h1.1))
  | .none, h => by unfold allocVal; exact alloc_pres _ _ (Nat.le_refl _)
  | .bool _, h => by unfold allocVal; exact alloc_pres _ _ (Nat.le_refl _)
  | .int _, h => by unfold allocVal; exact alloc_pres _ _ (Nat.le_refl _)
  | .flt _ _, h => by unfold allocVal; exact alloc_pres _ _ (Nat.le_refl _)
  | .str _, h => by unfold allocVal; exact alloc_pres _ _ (Nat.le_refl _)
  | .fn _, h => by unfold allocVal; exact alloc_pres _ _ (Nat.le_refl _)
theorem allocList_pres : ∀ (xs : List Val) (h : Heap), Pres h.size h (allocList h xs).1
  | [], h => by unfold allocList; exact Pres.refl _ _
  | x :: xs, h => by
    unfold allocList
    have h1 := allocVal_pres x h
    have h2 := allocList_pres xs (allocVal h x).1
    exact Pres.trans h1 (h2.mono h1.1)
theorem allocEnts_pres : ∀ (kvs : List (Key × Val)) (h : Heap), Pres h.size h (allocEnts h kvs).1
  | [], h => by unfold allocEnts; exact Pres.refl _ _
  | (k, v) :: r, h => by
    unfold allocEnts
    have h1 := allocVal_pres v h
    have h2 := allocEnts_pres r (allocVal h v).1
    exact Pres.trans h1 (h2.mono h1.1)
end

end Heap

namespace HN
open Heap V N

/-! ### every pass writes only to `m` and to cells it allocated -/

theorem hStoreNew_pres {n0 : Nat} (h : Heap) (m : Ref) (k : Key) (v : Val) (hn : n0 ≤ h.size) (hm : n0 ≤ m) :
    Pres n0 h (hStoreNew h m k v) := by
  unfold hStoreNew
  exact Pres.trans ((allocVal_pres v h).mono hn) (setItem_pres _ _ _ _ hm)

theorem hRenameWrite_pres {n0 : Nat} (h : Heap) (m : Ref) (f : Key) (b a : List (Key × Val)) (hm : n0 ≤ m) :
    Pres n0 h (hRenameWrite h m f b a) := by
  unfold hRenameWrite
  repeat' split
  all_goals first
    | exact Pres.refl _ _
    | exact Pres.trans (setItem_pres _ _ _ _ hm) (delItem_pres _ _ _ hm)
    | exact delItem_pres _ _ _ hm

theorem hRenameFields_pres {n0 : Nat} (env : Env) (ctx : Ctx) (schema : Val) (rs : RSchema) (m : Ref) (hm : n0 ≤ m) :
    ∀ (fs : List Key) (s s' : HState), hRenameFields env ctx schema rs m fs s = .ok s' → Pres n0 s.h s'.h
  | [], s, s', h => by
    simp only [hRenameFields, Except.ok.injEq] at h
    subst h; exact Pres.refl _ _
  | f :: r, s, s', h => by
    simp only [hRenameFields] at h
    split at h
    · cases h
    · exact Pres.trans (hRenameWrite_pres _ _ _ _ _ hm) (hRenameFields_pres env ctx schema rs m hm r _ s' h)

theorem hPurge_pres {n0 : Nat} (m : Ref) (hm : n0 ≤ m) : ∀ (drop : List Key) (h : Heap), Pres n0 h (hPurge m drop h)
  | [], h => Pres.refl _ _
  | k :: r, h => by
    have := hPurge_pres m hm r (h.delItem m k)
    simp only [hPurge, List.foldl_cons] at this ⊢
    exact Pres.trans (delItem_pres _ _ _ hm) this

theorem hDefaultsWrite_pres {n0 : Nat} (m : Ref) (b : List (Key × Val)) (acc : Heap) (kv : Key × Val)
    (hn : n0 ≤ acc.size) (hm : n0 ≤ m) : Pres n0 acc (hDefaultsWrite m b acc kv) := by
  unfold hDefaultsWrite
  repeat' split
  all_goals first
    | exact Pres.refl _ _
    | exact hStoreNew_pres _ _ _ _ hn hm

theorem foldDefaults_pres {n0 : Nat} (m : Ref) (b : List (Key × Val)) (hm : n0 ≤ m) :
    ∀ (l : List (Key × Val)) (acc : Heap), n0 ≤ acc.size → Pres n0 acc (l.foldl (hDefaultsWrite m b) acc)
  | [], acc, _ => Pres.refl _ _
  | kv :: r, acc, hn => by
    have h1 := hDefaultsWrite_pres m b acc kv hn hm
    have h2 := foldDefaults_pres m b hm r _ (Nat.le_trans hn h1.1)
    simp only [List.foldl_cons]
    exact Pres.trans h1 h2

theorem hDefaults_pres {n0 : Nat} (env : Env) (ctx : Ctx) (schema : Val) (rs : RSchema) (m : Ref) (s s' : HState)
    (hn : n0 ≤ s.h.size) (hm : n0 ≤ m) (h : hDefaults env ctx schema rs m s = .ok s') : Pres n0 s.h s'.h := by
  unfold hDefaults at h
  split at h
  · cases h
  · simp only [Except.ok.injEq] at h
    subst h
    exact foldDefaults_pres m _ hm _ _ hn

theorem hCoerceWrite_pres {n0 : Nat} (h : Heap) (m : Ref) (f : Key) (b a : List (Key × Val))
    (hn : n0 ≤ h.size) (hm : n0 ≤ m) : Pres n0 h (hCoerceWrite h m f b a) := by
  unfold hCoerceWrite
  repeat' split
  all_goals first
    | exact Pres.refl _ _
    | exact hStoreNew_pres _ _ _ _ hn hm

theorem hCoerce_pres {n0 : Nat} (env : Env) (ctx : Ctx) (schema : Val) (rs : RSchema) (m : Ref) (hm : n0 ≤ m) :
    ∀ (fs : List Key) (s s' : HState), n0 ≤ s.h.size → hCoerce env ctx schema rs m fs s = .ok s' → Pres n0 s.h s'.h
  | [], s, s', _, h => by
    simp only [hCoerce, Except.ok.injEq] at h
    subst h; exact Pres.refl _ _
  | f :: r, s, s', hn, h => by
    simp only [hCoerce] at h
    split at h
    · cases h
    · have h1 := hCoerceWrite_pres s.h m f (mval s.h m) (by assumption : NState).m hn hm
      exact Pres.trans h1 (hCoerce_pres env ctx schema rs m hm r _ s' (Nat.le_trans hn h1.1) h)

theorem hRenameKeyStep_pres {n0 : Nat} (cp : Ref) (h h' : Heap) (kv : Key × Val) (hc : n0 ≤ cp)
    (hs : hRenameKeyStep cp h kv = .ok h') : Pres n0 h h' := by
  unfold hRenameKeyStep at hs
  repeat' (split at hs)
  all_goals first
    | (simp only [Except.ok.injEq] at hs; subst hs
       first
         | exact Pres.refl _ _
         | exact setItem_pres _ _ _ _ hc
         | exact Pres.trans (setItem_pres _ _ _ _ hc) (delItem_pres _ _ _ hc))
    | cases hs

theorem hRenameKeys_pres {n0 : Nat} (cp : Ref) (hc : n0 ≤ cp) :
    ∀ (l : List (Key × Val)) (h h' : Heap), hRenameKeys cp l h = .ok h' → Pres n0 h h'
  | [], h, h', hs => by
    simp only [hRenameKeys, Except.ok.injEq] at hs
    subst hs; exact Pres.refl _ _
  | kv :: r, h, h', hs => by
    simp only [hRenameKeys] at hs
    split at hs
    · cases hs
    · rename_i h1 heq
      exact Pres.trans (hRenameKeyStep_pres cp h h1 kv hc heq) (hRenameKeys_pres cp hc r h1 h' hs)

theorem hKeysrules_pres {n0 : Nat} (recN : RecN) (ctx : Ctx) (m : Ref) (f : Key) (c : Val) (s s' : HState)
    (hn : n0 ≤ s.h.size) (hm : n0 ≤ m) (h : hKeysrules recN ctx m f c s = .ok s') : Pres n0 s.h s'.h := by
  unfold hKeysrules at h
  split at h
  · simp only [Except.ok.injEq] at h; subst h; exact Pres.refl _ _
  · split at h
    · cases h
    · split at h
      · cases h
      · rename_i nested _ _ res cerrs _ _ h3 heq
        simp only [Except.ok.injEq] at h
        subst h
        have h1 := copy_pres (n0 := n0) s.h nested hn
        have h2 := setItem_pres (n0 := n0) (s.h.copy nested).1 m f (s.h.copy nested).2 hm
        have h3' := hRenameKeys_pres (n0 := n0) (s.h.copy nested).2 (by simpa using hn) res _ h3 heq
        exact Pres.trans h1 (Pres.trans h2 h3')

/-- what the induction over the fuel provides for the child validators -/
def HFrame (hrec : HRecN) : Prop :=
  ∀ ctx schema h doc h' res errs, hrec ctx schema h doc = .ok (h', res, errs) → Pres h.size h h' ∧ h.size ≤ res

theorem hChildMapping_pres {n0 : Nat} (hrec : HRecN) (hf : HFrame hrec) (cctx : Ctx) (cschema : Val) (m : Ref) (f : Key)
    (nested : Ref) (dropIdx : List Nat) (base : Nat) (s s' : HState) (hn : n0 ≤ s.h.size) (hm : n0 ≤ m)
    (h : hChildMapping hrec cctx cschema m f nested dropIdx base s = .ok s') : Pres n0 s.h s'.h := by
  unfold hChildMapping at h
  split at h
  · rename_i h1 res cerrs heq
    simp only [Except.ok.injEq] at h
    subst h
    exact Pres.trans ((hf _ _ _ _ _ _ _ heq).1.mono hn) (setItem_pres _ _ _ _ hm)
  · simp only [Except.ok.injEq] at h; subst h; exact Pres.refl _ _
  · cases h

theorem hChildSeq_pres {n0 : Nat} (hrec : HRecN) (hf : HFrame hrec) (cctx : Ctx) (cschema : Val) (m : Ref) (f : Key)
    (tup : Bool) (items : List Ref) (base : Nat) (s s' : HState) (hn : n0 ≤ s.h.size) (hm : n0 ≤ m)
    (h : hChildSeq hrec cctx cschema m f tup items base s = .ok s') : Pres n0 s.h s'.h := by
  unfold hChildSeq at h
  split at h
  · rename_i h1 res cerrs heq
    simp only [Except.ok.injEq] at h
    subst h
    have p0 := alloc_pres (n0 := n0) s.h (.dict (indexEnts items)) hn
    have p1 := (hf _ _ _ _ _ _ _ heq).1
    have hn1 : n0 ≤ (s.h.alloc (.dict (indexEnts items))).1.size := Nat.le_trans hn p0.1
    have p1' := p1.mono hn1
    have hn2 : n0 ≤ h1.size := Nat.le_trans hn1 p1.1
    exact Pres.trans p0 (Pres.trans p1' (Pres.trans (alloc_pres _ _ hn2) (setItem_pres _ _ _ _ hm)))
  · simp only [Except.ok.injEq] at h; subst h; exact Pres.refl _ _
  · cases h

theorem hDictKeys_pres {n0 : Nat} (recN : RecN) (ctx : Ctx) (own : Option Val) (m : Ref) (f : Key) (s s' : HState)
    (hn : n0 ≤ s.h.size) (hm : n0 ≤ m) (h : hDictKeys recN ctx own m f s = .ok s') : Pres n0 s.h s'.h := by
  unfold hDictKeys at h
  split at h
  · exact hKeysrules_pres recN ctx m f _ s s' hn hm h
  · simp only [Except.ok.injEq] at h; subst h; exact Pres.refl _ _

theorem hDictValues_pres {n0 : Nat} (hrec : HRecN) (hf : HFrame hrec) (ctx : Ctx) (own : Option Val) (m : Ref) (f : Key)
    (cur : Ref) (s s' : HState) (hn : n0 ≤ s.h.size) (hm : n0 ≤ m)
    (h : hDictValues hrec ctx own m f cur s = .ok s') : Pres n0 s.h s'.h := by
  unfold hDictValues at h
  split at h
  · exact hChildMapping_pres hrec hf _ _ m f cur _ _ s s' hn hm h
  · simp only [Except.ok.injEq] at h; subst h; exact Pres.refl _ _

theorem hDictSchema_pres {n0 : Nat} (env : Env) (hrec : HRecN) (hf : HFrame hrec) (ctx : Ctx) (own : Option Val) (m : Ref)
    (f : Key) (cur : Ref) (s s' : HState) (hn : n0 ≤ s.h.size) (hm : n0 ≤ m)
    (h : hDictSchema env hrec ctx own m f cur s = .ok s') : Pres n0 s.h s'.h := by
  unfold hDictSchema at h
  simp only at h
  repeat' (split at h)
  all_goals first
    | exact hChildMapping_pres hrec hf _ _ m f cur _ _ s s' hn hm h
    | (simp only [Except.ok.injEq] at h; subst h; exact Pres.refl _ _)

theorem hDictField_pres {n0 : Nat} (env : Env) (recN : RecN) (hrec : HRecN) (hf : HFrame hrec) (ctx : Ctx)
    (own : Option Val) (m : Ref) (f : Key) (vref : Ref) (s s' : HState) (hn : n0 ≤ s.h.size) (hm : n0 ≤ m)
    (h : hDictField env recN hrec ctx own m f vref s = .ok s') : Pres n0 s.h s'.h := by
  unfold hDictField at h
  split at h
  · cases h
  · rename_i s1 e1
    split at h
    · cases h
    · rename_i s2 e2
      have p1 := hDictKeys_pres recN ctx own m f s s1 hn hm e1
      have hn1 := Nat.le_trans hn p1.1
      have p2 := hDictValues_pres hrec hf ctx own m f _ s1 s2 hn1 hm e2
      have hn2 := Nat.le_trans hn1 p2.1
      have p3 := hDictSchema_pres env hrec hf ctx own m f _ s2 s' hn2 hm h
      exact Pres.trans p1 (Pres.trans p2 p3)

theorem hSeqField_pres {n0 : Nat} (env : Env) (hrec : HRecN) (hf : HFrame hrec) (ctx : Ctx) (own : Option Val) (m : Ref) (f : Key)
    (tup : Bool) (items : List Ref) (s s' : HState) (hn : n0 ≤ s.h.size) (hm : n0 ≤ m)
    (h : hSeqField env hrec ctx own m f tup items s = .ok s') : Pres n0 s.h s'.h := by
  unfold hSeqField at h
  repeat' (split at h)
  all_goals first
    | exact hChildSeq_pres hrec hf _ _ m f tup items _ s s' hn hm h
    | (simp only [Except.ok.injEq] at h; subst h; exact Pres.refl _ _)
    | cases h

theorem hContainerField_pres {n0 : Nat} (env : Env) (recN : RecN) (hrec : HRecN) (hf : HFrame hrec) (ctx : Ctx)
    (rs : RSchema) (m : Ref) (f : Key) (s s' : HState) (hn : n0 ≤ s.h.size) (hm : n0 ≤ m)
    (h : hContainerField env recN hrec ctx rs m f s = .ok s') : Pres n0 s.h s'.h := by
  unfold hContainerField at h
  repeat' (split at h)
  all_goals first
    | exact hDictField_pres env recN hrec hf ctx _ m f _ s s' hn hm h
    | exact hSeqField_pres env hrec hf ctx _ m f _ _ s s' hn hm h
    | (simp only [Except.ok.injEq] at h; subst h; exact Pres.refl _ _)
    | cases h

theorem hContainers_pres {n0 : Nat} (env : Env) (recN : RecN) (hrec : HRecN) (hf : HFrame hrec) (ctx : Ctx)
    (rs : RSchema) (m : Ref) (hm : n0 ≤ m) :
    ∀ (fs : List Key) (s s' : HState), n0 ≤ s.h.size → hContainers env recN hrec ctx rs m fs s = .ok s' → Pres n0 s.h s'.h
  | [], s, s', _, h => by
    simp only [hContainers, Except.ok.injEq] at h
    subst h; exact Pres.refl _ _
  | f :: r, s, s', hn, h => by
    simp only [hContainers] at h
    split at h
    · cases h
    · rename_i s1 e1
      have p1 := hContainerField_pres env recN hrec hf ctx rs m f s s1 hn hm e1
      exact Pres.trans p1 (hContainers_pres env recN hrec hf ctx rs m hm r s1 s' (Nat.le_trans hn p1.1) h)

theorem hPurges_pres {n0 : Nat} (ctx : Ctx) (rs : RSchema) (m : Ref) (h h' : Heap) (hm : n0 ≤ m)
    (hs : hPurges ctx rs m h = .ok h') : Pres n0 h h' := by
  unfold hPurges at hs
  simp only at hs
  repeat' (split at hs)
  all_goals first
    | (simp only [Except.ok.injEq] at hs; subst hs
       first
         | exact Pres.refl _ _
         | exact hPurge_pres m hm _ _
         | exact Pres.trans (hPurge_pres m hm _ _) (hPurge_pres m hm _ _))
    | cases hs

theorem hPasses_pres {n0 : Nat} (env : Env) (recN : RecN) (hrec : HRecN) (hf : HFrame hrec) (ctx : Ctx) (schema : Val)
    (rs : RSchema) (m : Ref) (h0 : Heap) (s' : HState) (hn : n0 ≤ h0.size) (hm : n0 ≤ m)
    (h : hPasses env recN hrec ctx schema rs m h0 = .ok s') : Pres n0 h0 s'.h := by
  unfold hPasses at h
  split at h
  · cases h
  · rename_i s1 e1
    split at h
    · cases h
    · rename_i h3 e3
      split at h
      · cases h
      · rename_i ro _
        split at h
        · cases h
        · rename_i s5 e5
          split at h
          · cases h
          · rename_i s6 e6
            have p1 := hRenameFields_pres env ctx schema rs m hm _ _ s1 e1
            have p3 := hPurges_pres ctx rs m s1.h h3 hm e3
            have hn3 : n0 ≤ h3.size := Nat.le_trans hn (Nat.le_trans p1.1 p3.1)
            have p5 := hDefaults_pres env ctx schema rs m _ s5 hn3 hm e5
            have hn5 : n0 ≤ s5.h.size := Nat.le_trans hn3 p5.1
            have p6 := hCoerce_pres env ctx schema rs m hm _ s5 s6 hn5 e6
            have hn6 : n0 ≤ s6.h.size := Nat.le_trans hn5 p6.1
            have p7 := hContainers_pres env recN hrec hf ctx rs m hm _ s6 s' hn6 h
            exact Pres.trans p1 (Pres.trans p3 (Pres.trans p5 (Pres.trans p6 p7)))

theorem hnormalizeMapping_frame (env : Env) (recN : RecN) (hrec : HRecN) (hf : HFrame hrec) :
    HFrame (hnormalizeMapping env recN hrec) := by
  intro ctx schema h doc h' res errs hs
  unfold hnormalizeMapping at hs
  split at hs
  · cases hs
  · split at hs
    · cases hs
    · rename_i _ rs _ _ s7 e7
      simp only [Except.ok.injEq, Prod.mk.injEq] at hs
      obtain ⟨rfl, rfl, rfl⟩ := hs
      have p0 := copy_pres (n0 := h.size) h doc (Nat.le_refl _)
      have p := hPasses_pres (n0 := h.size) env recN hrec hf ctx schema rs _ _ s7 p0.1 (Nat.le_refl _) e7
      exact ⟨Pres.trans p0 p, Nat.le_refl _⟩

end HN

open Heap HN

theorem hnormalize_frame (env : Env) : ∀ fuel, HFrame (hnormalize env fuel)
  | 0 => by intro ctx schema h doc h' res errs hs; simp [hnormalize] at hs
  | n + 1 => by
    have ih := hnormalize_frame env n
    intro ctx schema h doc h' res errs hs
    simp only [hnormalize] at hs
    exact hnormalizeMapping_frame env _ _ ih ctx schema h doc h' res errs hs

/-- **C05 (frame).**  Whatever the schema, the options, the registries, the callables and
    the document: every object that existed when `normalized` (hence `validate`,
    `validated`) was called — the caller's document and everything nested in it at any
    depth included — is the same cell afterwards.  No bound on depth or size. -/
theorem C05_frame (env : Env) (fuel : Nat) (ctx : Ctx) (schema : Val) (h : Heap) (doc : Ref)
    (h' : Heap) (res : Ref) (errs : List Err)
    (hs : hnormalize env fuel ctx schema h doc = .ok (h', res, errs)) :
    ∀ r, r < h.size → h'.get r = h.get r :=
  (hnormalize_frame env fuel ctx schema h doc h' res errs hs).1.2

/-- **C05 (distinct object).**  The processed document is a cell allocated by the call. -/
theorem C05_fresh (env : Env) (fuel : Nat) (ctx : Ctx) (schema : Val) (h : Heap) (doc : Ref)
    (h' : Heap) (res : Ref) (errs : List Err)
    (hs : hnormalize env fuel ctx schema h doc = .ok (h', res, errs)) (hd : doc < h.size) :
    res ≠ doc ∧ h.size ≤ res := by
  have := (hnormalize_frame env fuel ctx schema h doc h' res errs hs).2
  exact ⟨Nat.ne_of_gt (Nat.lt_of_lt_of_le hd this), this⟩

/-- the value a reference stands for depends only on cells reachable from it; if no
    pre-existing cell changed and all references in pre-existing cells point to
    pre-existing cells, every pre-existing value is unchanged -/
def Heap.Closed (h : Heap) : Prop :=
  ∀ r, r < h.size →
    match h.get r with
    | .leaf _ => True
    | .seq _ rs => ∀ x ∈ rs, x < h.size
    | .dict es => ∀ kr ∈ es, kr.2 < h.size

theorem reify_frame (h h' : Heap) (hc : h.Closed) (hp : ∀ r, r < h.size → h'.get r = h.get r) :
    ∀ (n : Nat) (r : Ref), r < h.size → h'.reify n r = h.reify n r
  | 0, _, _ => rfl
  | n + 1, r, hr => by
    have hcr := hc r hr
    simp only [Heap.reify, hp r hr]
    cases hg : h.get r with
    | leaf v => rfl
    | seq t rs =>
      simp only [hg] at hcr
      simp only [Val.seq.injEq, true_and]
      exact List.map_congr_left (fun x hx => reify_frame h h' hc hp n x (hcr x hx))
    | dict es =>
      simp only [hg] at hcr
      simp only [Val.dict.injEq]
      exact List.map_congr_left (fun kr hk => by rw [reify_frame h h' hc hp n kr.2 (hcr kr hk)])

/-- **C05 (deep equality).**  On a heap whose objects only reference existing objects
    (every Python heap), the *value* of the caller's document — and of every other
    existing object — is the same after the call, at every depth. -/
theorem C05_input_value (env : Env) (fuel : Nat) (ctx : Ctx) (schema : Val) (h : Heap) (doc : Ref)
    (h' : Heap) (res : Ref) (errs : List Err) (hc : h.Closed)
    (hs : hnormalize env fuel ctx schema h doc = .ok (h', res, errs)) :
    ∀ (n : Nat) (r : Ref), r < h.size → h'.reify n r = h.reify n r :=
  reify_frame h h' hc (C05_frame env fuel ctx schema h doc h' res errs hs)

/-! ### the state machine: `normalize=False`, and the schema held by the validator -/
open Api

theorem initProcessing_document (accept : Val → Option Val) (s s1 : VState) (doc : Val) (schema : Option Val)
    (h : initProcessing accept s doc schema = .ok s1) : s1.document = some doc ∧ ∃ kvs, doc = .dict kvs := by
  unfold initProcessing at h
  split at h
  · rename_i s2 e2
    unfold checkDoc at h
    split at h
    · simp only [Except.ok.injEq] at h
      subst h
      refine ⟨?_, _, rfl⟩
      unfold resolveSchemaArg at e2
      repeat' (split at e2)
      all_goals first
        | (simp only [Except.ok.injEq] at e2; subst e2; rfl)
        | cases e2
    · cases h
  · cases h

theorem afterInitError_document (accept : Val → Option Val) (s : VState) (doc : Val) (schema : Option Val) :
    (afterInitError accept s doc schema).document = some doc := by
  unfold afterInitError
  split
  · rename_i s2 e2
    unfold resolveSchemaArg at e2
    repeat' (split at e2)
    all_goals first
      | (simp only [Except.ok.injEq] at e2; subst e2; rfl)
      | cases e2
  · rfl

/-- **C05 (normalize=False).**  With `normalize=False` the processed document is the
    input document, whatever the schema and the outcome (verdict or exception). -/
theorem C05_no_normalize (env : Env) (t : Tables) (accept : Val → Option Val) (fuel : Nat) (s : VState)
    (doc : Val) (schema : Option Val) (upd : Bool) :
    (step env t accept fuel s (.validate doc schema upd false)).1.document = some doc := by
  have key : (doValidate env t accept fuel s doc schema upd false).1.document = some doc := by
    unfold doValidate
    simp only
    split
    · exact afterInitError_document _ _ _ _
    · rename_i s1 e1
      obtain ⟨hd, kvs, rfl⟩ := initProcessing_document _ _ _ _ _ e1
      cases fuel with
      | zero => simpa using hd
      | succ f =>
        simp only [Bool.false_eq_true, if_false]
        cases V.validateMapping env t (validate0 env t f) { cfg := s1.cfg } (s1.schema.getD (.dict [])) (.dict kvs) upd
            s1.errors s1.unrequired with
        | error e => simpa [bind, Except.bind] using hd
        | ok es => simp [bind, Except.bind, pure, Except.pure, docKvs]
  simp only [step]
  generalize doValidate env t accept fuel s doc schema upd false = r at key ⊢
  obtain ⟨s', res⟩ := r
  cases res <;> simpa using key

theorem initProcessing_schema (accept : Val → Option Val) (s s1 : VState) (doc : Val) (a : Val)
    (hs : s.schema = some a) (h : initProcessing accept s doc none = .ok s1) : s1.schema = some a := by
  unfold initProcessing at h
  split at h
  · rename_i s2 e2
    unfold checkDoc at h
    split at h
    · simp only [Except.ok.injEq] at h
      subst h
      unfold resolveSchemaArg at e2
      simp only [reset, hs] at e2
      simp only [Except.ok.injEq] at e2
      subst e2
      rfl
    · cases h
  · cases h

theorem afterInitError_schema (accept : Val → Option Val) (s : VState) (doc : Val) (a : Val)
    (hs : s.schema = some a) : (afterInitError accept s doc none).schema = some a := by
  unfold afterInitError resolveSchemaArg
  simp only [reset, hs]

/-- **C05 (schema held).**  `validate`, `validated` and `normalized` without a schema
    argument leave the schema held by the validator exactly as it was — for every
    document, option set and outcome. -/
theorem C05_schema_kept (env : Env) (t : Tables) (accept : Val → Option Val) (fuel : Nat) (s : VState)
    (a : Val) (hs : s.schema = some a) (doc : Val) (upd norm always : Bool) :
    (step env t accept fuel s (.validate doc none upd norm)).1.schema = some a ∧
    (step env t accept fuel s (.validated doc none upd norm always)).1.schema = some a ∧
    (step env t accept fuel s (.normalized doc none always)).1.schema = some a := by
  have kv : (doValidate env t accept fuel s doc none upd norm).1.schema = some a := by
    unfold doValidate
    simp only
    split
    · exact afterInitError_schema _ _ _ _ (by exact hs)
    · rename_i s1 e1
      have h1 := initProcessing_schema accept _ s1 doc a (by exact hs) e1
      split <;> simpa using h1
  have kn : (doNormalized env accept fuel s doc none).1.schema = some a := by
    unfold doNormalized
    split
    · exact afterInitError_schema _ _ _ _ hs
    · rename_i s1 e1
      have h1 := initProcessing_schema accept _ s1 doc a hs e1
      simp only
      split <;> simpa using h1
  refine ⟨?_, ?_, ?_⟩
  · simp only [step]
    generalize doValidate env t accept fuel s doc none upd norm = r at kv ⊢
    obtain ⟨s', res⟩ := r
    cases res <;> simpa using kv
  · simp only [step]
    generalize doValidate env t accept fuel s doc none upd norm = r at kv ⊢
    obtain ⟨s', res⟩ := r
    cases res <;> simpa using kv
  · simp only [step]
    generalize doNormalized env accept fuel s doc none = r at kn ⊢
    obtain ⟨s', res⟩ := r
    cases res <;> simpa using kn

/-! ### non-vacuity: a run that renames, coerces below the top level and keeps the input -/

def exSchema : Val :=
  .dict [(.s "a", .dict [(.s "rename", .str "b")]),
         (.s "d", .dict [(.s "type", .str "dict"),
                         (.s "schema", .dict [(.s "x", .dict [(.s "default", .int 7)])])])]
def exDoc : Val := .dict [(.s "a", .int 1), (.s "d", .dict [])]
def exEnv : Env :=
  { rx := fun _ _ => none, coerce := Family.coerce, hasCoercer := fun _ => false, setter := fun _ _ => .other "x",
    hasSetter := fun _ => false, checker := fun _ _ => none, rulesSets := fun _ => none, schemas := fun _ => none }

/-- the heap run succeeds, returns a new object whose value differs from the input
    (renamed key, default inserted below the top level), and the input still reifies
    to the original document -/
def exCheck : Bool :=
  let hd := (Heap.mk []).allocVal exDoc
  match hnormalize exEnv 8 { cfg := {} } exSchema hd.1 hd.2 with
  | .ok (h', res, _) =>
      decide (hd.2 < res) && Val.pyEq (h'.reify 8 hd.2) exDoc &&
      Val.pyEq (h'.reify 8 res) (.dict [(.s "d", .dict [(.s "x", .int 7)]), (.s "b", .int 1)]) &&
      !(Val.pyEq (h'.reify 8 res) exDoc)
  | .error _ => false

example : exCheck = true := by decide +kernel

end Cerberus
