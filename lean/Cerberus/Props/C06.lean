/-
  C06 — validate, validated, normalized and errors agree with one another.

  Model: `Cerberus.Api` (state machine over validate / validated / normalized /
  errors) on top of `normalize`, `validate0` and `Render.render`.

  Proved here, for every environment, schema, configuration, document and flags:
  the return conventions (`C06_verdict`, `C06_validated`, `C06_normalized`), that
  `validate` with normalization records the normalization errors first and ends
  with the normalized document (`C06_normalizes_first`), and that the rendering is
  empty iff no error is recorded for well-shaped error lists (`C06_errors_empty`).
  The decomposition clause (validate = normalization errors + validate of the
  normalized document without normalization, for schemas without `readonly`):
  `C06_decompose_partial` is the half that holds for every schema (normalization errors
  first, then the validation of the normalized document on the same instance, marker
  set); `C06_decompose` is the full clause for tables in which the rule `readonly` is
  never queued (`V.NoReadonly`): the second part *is* a separate
  `validate(normalized(d), normalize=False)` — Proofs/Marker.lean shows that the
  `_is_normalized` marker and the errors recorded so far are read by the `readonly`
  handler only, at every depth.  `C06_queue_without_readonly` is the bridge to schemas:
  a rule set that does not name `readonly` has the same queue under the real tables and
  under the tables with `readonly` removed (`C06_readonly_not_mandatory` on the extracted
  tables).  That a schema without `readonly` at any depth therefore validates identically
  under both tables is the composition of this bridge over all nested rule sets; it is
  checked by the port and the oracle (harness/props/c06.py), not proved.
-/
import Cerberus.Model.Api
import Cerberus.Proofs.Validate
import Cerberus.Proofs.Marker
import Cerberus.Props.C13
namespace Cerberus
open Api

/-- **validate returns True iff no error was recorded** -/
theorem C06_verdict (env : Env) (t : Tables) (accept : Val → Option Val) (fuel : Nat) (s : VState)
    (doc : Val) (schema : Option Val) (upd norm : Bool) (b : Bool)
    (h : (step env t accept fuel s (.validate doc schema upd norm)).2.ret = .bool b) :
    b = (step env t accept fuel s (.validate doc schema upd norm)).2.errors.isEmpty := by
  simp only [step] at h ⊢
  generalize hd : doValidate env t accept fuel s doc schema upd norm = r at h ⊢
  obtain ⟨s', res⟩ := r
  cases res with
  | error e => simp [obsOf] at h
  | ok b' =>
    simp only [obsOf, Ret.bool.injEq] at h ⊢
    subst h
    -- the verdict is computed from the very list that is stored
    simp only [doValidate] at hd
    split at hd
    · simp at hd
    · split at hd
      · simp only [Prod.mk.injEq, Except.ok.injEq] at hd
        obtain ⟨h1, h2⟩ := hd
        subst h1 h2
        rfl
      · simp at hd

/-- **validated returns None exactly when validation failed** (unless the
    document is always returned) -/
theorem C06_validated (env : Env) (t : Tables) (accept : Val → Option Val) (fuel : Nat) (s : VState)
    (doc : Val) (schema : Option Val) (upd norm always : Bool) :
    let rv := step env t accept fuel s (.validate doc schema upd norm)
    let rd := step env t accept fuel s (.validated doc schema upd norm always)
    (∀ e, rv.2.ret = .raised e → rd.2.ret = .raised e) ∧
    (∀ b, rv.2.ret = .bool b →
      rd.2.ret = .doc (if !b && !always then none else rd.1.document) ∧ rd.1 = rv.1) := by
  simp only [step]
  generalize doValidate env t accept fuel s doc schema upd norm = r
  obtain ⟨s', res⟩ := r
  cases res with
  | error e => simp [obsOf]
  | ok b => simp [obsOf]

/-- **normalized returns None exactly when normalization recorded an error**
    (unless the document is always returned) -/
theorem C06_normalized (env : Env) (t : Tables) (accept : Val → Option Val) (fuel : Nat) (s : VState)
    (doc : Val) (schema : Option Val) (always : Bool) (d : Option Val)
    (h : (step env t accept fuel s (.normalized doc schema always)).2.ret = .doc d) :
    let r := step env t accept fuel s (.normalized doc schema always)
    (d = none ↔ (r.2.errors.isEmpty = false ∧ always = false) ∨ r.1.document = none) := by
  simp only [step] at h ⊢
  generalize doNormalized env accept fuel s doc schema = r at h ⊢
  obtain ⟨s', res⟩ := r
  cases res with
  | error e => simp [obsOf] at h
  | ok u =>
    simp only [obsOf, Ret.doc.injEq] at h ⊢
    subst h
    cases he : s'.errors.isEmpty <;> cases always <;> simp [he]

/-- `validate(…, normalize=True)` is normalization followed by validation of the
    normalized document on the same instance: the normalization errors come
    first in the recorded list and the processed document is the normalized one -/
theorem C06_normalizes_first (env : Env) (t : Tables) (fuel : Nat) (ctx : Ctx) (schema : Val)
    (doc : List (Key × Val)) (upd : Bool) (m : List (Key × Val)) (es : List Err)
    (h : validateN env t fuel ctx schema doc upd = .ok (m, es)) :
    ∃ nerrs, normalize env fuel ctx schema doc = .ok (m, nerrs) ∧ ∃ rest, es = nerrs ++ rest := by
  simp only [validateN, validateNS] at h
  cases hn : normalize env fuel ctx schema doc with
  | error e => simp [hn, bind, Except.bind] at h
  | ok r =>
    obtain ⟨m', nerrs⟩ := r
    simp only [hn, bind, Except.bind] at h
    cases fuel with
    | zero => simp at h
    | succ f =>
      simp only [List.nil_append] at h
      cases hv : V.validateMapping env t (validate0 env t f)
          { ctx with cfg := { ctx.cfg with isNormalized := true } } schema (Val.dict m') upd nerrs [] with
      | error e => simp [hv] at h
      | ok errs =>
        simp only [hv, pure, Except.pure, Except.ok.injEq, Prod.mk.injEq] at h
        obtain ⟨h1, h2⟩ := h
        subst h1 h2
        exact ⟨nerrs, rfl, V.validateMapping_prefix _ _ _ _ _ _ _ _ _ _ hv⟩

/-- what is proved of the decomposition clause: the recorded errors of
    `validate(d)` are the normalization errors of `normalized(d)` followed by the
    errors of validating the normalized document *on the same instance* (with the
    `_is_normalized` marker set), and the processed document is `normalized(d)`.
    That the second part equals a separate `validate(normalized(d),
    normalize=False)` for readonly-free schemas is decided by port and oracle. -/
theorem C06_decompose_partial (env : Env) (t : Tables) (f : Nat) (ctx : Ctx) (schema : Val)
    (doc : List (Key × Val)) (upd : Bool) (m : List (Key × Val)) (es : List Err)
    (h : validateN env t (f + 1) ctx schema doc upd = .ok (m, es)) :
    ∃ nerrs, normalize env (f + 1) ctx schema doc = .ok (m, nerrs) ∧
      V.validateMapping env t (validate0 env t f)
        { ctx with cfg := { ctx.cfg with isNormalized := true } } schema (.dict m) upd nerrs [] = .ok es := by
  simp only [validateN, validateNS] at h
  cases hn : normalize env (f + 1) ctx schema doc with
  | error e => simp [hn, bind, Except.bind] at h
  | ok r =>
    obtain ⟨m', nerrs⟩ := r
    simp only [hn, bind, Except.bind, List.nil_append] at h
    cases hv : V.validateMapping env t (validate0 env t f)
        { ctx with cfg := { ctx.cfg with isNormalized := true } } schema (Val.dict m') upd nerrs [] with
    | error e => simp [hv] at h
    | ok errs =>
      simp only [hv, pure, Except.pure, Except.ok.injEq, Prod.mk.injEq] at h
      obtain ⟨h1, h2⟩ := h
      subst h1 h2
      exact ⟨nerrs, rfl, hv⟩

/-- tables in which the rule `readonly` never enters a queue -/
def Tables.withoutReadonly (t : Tables) : Tables :=
  { t with priority := t.priority.filter (fun x => x != "readonly"),
           mandatory := t.mandatory.filter (fun x => x != "readonly"),
           nonQueue := "readonly" :: t.nonQueue }

theorem noReadonly_withoutReadonly (t : Tables) : V.NoReadonly t.withoutReadonly := by
  intro names h
  simp only [V.buildQueue, Tables.withoutReadonly, List.mem_append, List.mem_filter, List.mem_eraseDups,
    List.contains_cons] at h
  rcases h with (h | h) | h
  · simp at h
  · simp at h
  · simp at h

/-- **the decomposition clause.**  With tables in which `readonly` is never queued:
    `validate(d)` records exactly the normalization errors of `normalized(d)` followed by
    the errors of a separate `validate(normalized(d), normalize=False)`, and ends with the
    same processed document — for every schema, option set, document and `update`. -/
theorem C06_decompose (env : Env) (t : Tables) (ht : V.NoReadonly t) (f : Nat) (ctx : Ctx) (schema : Val)
    (doc : List (Key × Val)) (upd : Bool) (m : List (Key × Val)) (es : List Err)
    (h : validateN env t (f + 1) ctx schema doc upd = .ok (m, es)) :
    ∃ nerrs verrs, normalize env (f + 1) ctx schema doc = .ok (m, nerrs) ∧
      validate0 env t (f + 1) ctx schema (.dict m) upd = .ok verrs ∧ es = nerrs ++ verrs := by
  obtain ⟨nerrs, hn, hv⟩ := C06_decompose_partial env t f ctx schema doc upd m es h
  have hs := V.validateMapping_sn env t ht (validate0 env t f) (V.validate0_insens env t ht f) true ctx schema
    (.dict m) upd nerrs []
  have hv' : V.validateMapping env t (validate0 env t f) (V.sn true ctx) schema (.dict m) upd nerrs [] = .ok es := hv
  rw [hs] at hv'
  cases hr : V.validateMapping env t (validate0 env t f) ctx schema (.dict m) upd [] [] with
  | error e => rw [hr] at hv'; simp [Except.map] at hv'
  | ok verrs =>
    rw [hr] at hv'
    simp only [Except.map, Except.ok.injEq] at hv'
    exact ⟨nerrs, verrs, hn, by simp [validate0, hr], hv'.symm⟩

/-- … and conversely: the two separate calls determine `validate(d)` -/
theorem C06_compose (env : Env) (t : Tables) (ht : V.NoReadonly t) (f : Nat) (ctx : Ctx) (schema : Val)
    (doc : List (Key × Val)) (upd : Bool) (m : List (Key × Val)) (nerrs verrs : List Err)
    (hn : normalize env (f + 1) ctx schema doc = .ok (m, nerrs))
    (hv : validate0 env t (f + 1) ctx schema (.dict m) upd = .ok verrs) :
    validateN env t (f + 1) ctx schema doc upd = .ok (m, nerrs ++ verrs) := by
  have hs := V.validateMapping_sn env t ht (validate0 env t f) (V.validate0_insens env t ht f) true ctx schema
    (.dict m) upd nerrs []
  simp only [validate0] at hv
  rw [hv] at hs
  have hs0 : V.validateMapping env t (validate0 env t f) (V.sn true ctx) schema (.dict m) upd nerrs [] =
      .ok (nerrs ++ verrs) := by simpa [Except.map] using hs
  have hs' : V.validateMapping env t (validate0 env t f) { ctx with cfg := { ctx.cfg with isNormalized := true } }
      schema (.dict m) upd nerrs [] = .ok (nerrs ++ verrs) := hs0
  simp only [validateN, validateNS, hn, bind, Except.bind, List.nil_append, hs', pure, Except.pure]

/-- the bridge to schemas: a rule set that does not name `readonly` has the same queue under
    tables `t` (in which `readonly` is not mandatory) and under `t.withoutReadonly` -/
theorem C06_queue_without_readonly (t : Tables) (names : List String)
    (hm : "readonly" ∉ t.mandatory) (hn : "readonly" ∉ names) :
    V.buildQueue t.withoutReadonly names = V.buildQueue t names := by
  have hq1 : ((t.priority.filter (fun x => x != "readonly")).filter
      (fun x => names.contains x || (t.mandatory.filter (fun x => x != "readonly")).contains x)) =
      t.priority.filter (fun x => names.contains x || t.mandatory.contains x) := by
    rw [List.filter_filter]
    apply List.filter_congr
    intro x _
    by_cases hx : x = "readonly"
    · subst hx
      simp
      exact ⟨hn, hm⟩
    · have : (t.mandatory.filter (fun x => x != "readonly")).contains x = t.mandatory.contains x := by
        cases hc : t.mandatory.contains x
        · have : x ∉ t.mandatory := by simpa using hc
          simp [this]
        · have : x ∈ t.mandatory := by simpa using hc
          simp [this, hx]
      simp [hx, this]
  have hmand : t.mandatory.filter (fun x => x != "readonly") = t.mandatory := by
    apply List.filter_eq_self.mpr
    intro x hx
    have : x ≠ "readonly" := fun e => hm (e ▸ hx)
    simpa using this
  simp only [V.buildQueue, Tables.withoutReadonly]
  rw [hq1, hmand]
  congr 2
  apply List.filter_congr
  intro x hx
  have : x ≠ "readonly" := fun e => hn (e ▸ hx)
  simp [this]

/-- in the tables extracted from the live class `readonly` is not mandatory -/
theorem C06_readonly_not_mandatory : "readonly" ∉ Extracted.tables.mandatory := by decide

/-- **the errors property is empty iff no error is recorded** — for recorded
    lists in which every error contributes a message (`1 ≤ nMsg e`: group errors
    carry children, plain codes have templates) -/
theorem C06_errors_empty (env : Env) (t : Tables) (accept : Val → Option Val) (fuel : Nat) (s : VState) (tr : PT)
    (h : (step env t accept fuel s .readErrors).2.ret = .rendered tr)
    (hm : ∀ e ∈ s.errors, e.isLogic = false → e.isGroup = false → t.messageCodes.contains e.code = true)
    (hpos : ∀ e ∈ s.errors, 1 ≤ Render.nMsg e) :
    tr.isEmpty = s.errors.isEmpty := by
  simp only [step] at h
  split at h
  · rename_i tr' hr
    simp only [obsOf, Ret.rendered.injEq] at h
    subst h
    exact C13_empty _ _ _ hr hm hpos
  · simp [obsOf] at h

end Cerberus
