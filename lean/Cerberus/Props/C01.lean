/-
  C01 — validation verdict and error set follow the documented rule semantics.

  The reference interpreter of the rules is `Cerberus.validate0`
  (Model/Validate.lean), tied to the implementation by the `validate0` port.
  This file proves the part of the statement that is about *mechanism*: that the
  rule queue with drop lists computes the documented short-circuit semantics.

  * `C01_tables`   — the tables extracted from the live code on this run meet the
                     conditions the semantics needs (priority order, what a `None`
                     value and an empty value skip, which rules are never queued);
  * `C01_queue`    — for handlers that drop nothing selectively, running the queue
                     is the same as evaluating the not-yet-dropped rules one after
                     the other, each against the same value, until one of them ends
                     the evaluation of the field;
  * `C01_handlers` — only `nullable`, `readonly`, `type` and `empty` drop rules
                     selectively: every other rule handler of the model returns an
                     empty drop list;
  * `C01_verdict`  — the verdict is True iff no error was recorded;
  * `C01_required_update` — with `update=True` the required-fields pass adds nothing.
-/
import Cerberus.Proofs.Validate
import Cerberus.Model.Api
import Cerberus.Extracted
import Cerberus.Model.RefTables
namespace Cerberus
open V

/-! ### the extracted tables -/

/-- rules whose handler does *not* ignore `None` and therefore must be skipped for `None` -/
def mustDropOnNone : List String :=
  ["allowed", "forbidden", "type", "anyof", "allof", "noneof", "oneof", "items"]
/-- rules that are documented to apply to `None` values as well -/
def mustRunOnNone : List String := ["readonly", "check_with", "dependencies", "excludes"]
/-- the documented effect of an empty value -/
def documentedDropOnEmpty : List String :=
  ["allowed", "forbidden", "items", "minlength", "maxlength", "regex", "check_with"]
/-- rules that are not validation rules of a field's value -/
def mustNotQueue : List String :=
  ["allow_unknown", "require_all", "meta", "required", "coerce", "default", "default_setter",
   "purge_unknown", "rename", "rename_handler"]
def validationRuleNames : List String :=
  ["nullable", "readonly", "type", "empty", "allowed", "forbidden", "contains", "min", "max", "minlength",
   "maxlength", "regex", "dependencies", "excludes", "items", "schema", "keysrules", "valuesrules",
   "anyof", "allof", "noneof", "oneof", "check_with"]

/-- what the semantics needs of the tables; *semantic* conditions (inclusions),
    not list equality, so that an equivalent rewrite of the code keeps them true -/
def Tables.Adequate (t : Tables) : Prop :=
  t.priority = ["nullable", "readonly", "type", "empty"] ∧
  t.mandatory = ["nullable"] ∧
  (∀ r ∈ mustDropOnNone, r ∈ t.dropOnNone) ∧
  (∀ r ∈ mustRunOnNone, r ∉ t.dropOnNone) ∧
  (∀ r ∈ documentedDropOnEmpty, r ∈ t.dropOnEmpty) ∧
  (∀ r ∈ t.dropOnEmpty, r ∈ documentedDropOnEmpty) ∧
  (∀ r ∈ mustNotQueue, r ∈ t.nonQueue) ∧
  (∀ r ∈ validationRuleNames, r ∉ t.nonQueue) ∧
  t.typeFailDropsAll = true

instance (t : Tables) : Decidable t.Adequate := by unfold Tables.Adequate; exact inferInstance

/-- **the tables extracted from the live code on this run are adequate** -/
theorem C01_tables : Extracted.tables.Adequate := by decide

/-- the reference tables used by the C01 port are adequate as well -/
theorem C01_ref_tables : refTables.Adequate := by decide

/-- the extracted type table is the documented one (on every type name and constructor class) -/
theorem C01_type_table :
    ∀ name ∈ ["binary", "boolean", "container", "date", "datetime", "dict", "float", "integer", "list",
              "number", "set", "string", "nope"],
      ∀ c ∈ [Val.Ctor.none, .bool, .int, .flt, .str, .list, .tuple, .dict, .fn],
        (Tables.lookupS Extracted.tables.typeTable name).map (fun r => Tables.lookupC r c) =
        (Tables.lookupS refTables.typeTable name).map (fun r => Tables.lookupC r c) := by
  decide

/-- the documented type table, on the constructor classes of the value universe -/
theorem C01_types :
    (Extracted.tables.typeMatches "integer" (.bool true) = some true) ∧
    (Extracted.tables.typeMatches "integer" (.flt 3 1) = some false) ∧
    (Extracted.tables.typeMatches "number" (.bool true) = some false) ∧
    (Extracted.tables.typeMatches "number" (.flt 3 1) = some true) ∧
    (Extracted.tables.typeMatches "float" (.int 1) = some true) ∧
    (Extracted.tables.typeMatches "string" (.str "a") = some true) ∧
    (Extracted.tables.typeMatches "list" (.str "a") = some false) ∧
    (Extracted.tables.typeMatches "list" (.seq true []) = some true) ∧
    (Extracted.tables.typeMatches "dict" (.dict []) = some true) ∧
    (Extracted.tables.typeMatches "container" (.str "a") = some false) ∧
    (Extracted.tables.typeMatches "container" (.dict []) = some true) ∧
    (Extracted.tables.typeMatches "boolean" (.int 1) = some false) ∧
    (Extracted.tables.typeMatches "nope" (.int 1) = none) := by decide

/-! ### the queue -/

/-- the loop without drop lists: rules are evaluated in order, each on the errors
    recorded so far, until one ends the evaluation of the field -/
def runPlain (h : List Err → String → M (HOut × List Err)) : List String → QState → M QState
  | [], s => .ok s
  | r :: rs, s =>
    if s.stopped then runPlain h rs s
    else
      match h s.errs r with
      | .error e => .error e
      | .ok (o, es) =>
        runPlain h rs { errs := s.errs ++ es, dropped := s.dropped ++ o.drop,
                        stopped := o.dropAll, unreq := s.unreq ++ o.unreq }

/-- **the queue with drop lists is the documented short-circuit semantics**: once
    the rules that drop selectively have run, the remaining queue is just the
    rules that were not dropped, evaluated one after the other -/
theorem C01_queue (h : List Err → String → M (HOut × List Err)) :
    ∀ (q : List String) (s : QState),
      (∀ r ∈ q, ∀ sofar o es, h sofar r = .ok (o, es) → o.drop = []) →
      runQueue h q s = runPlain h (q.filter (fun r => !s.dropped.contains r)) s
  | [], s, _ => by simp [runQueue, runPlain]
  | r :: rs, s, hnd => by
    have ih := fun s' => C01_queue h rs s' (fun r' hr' => hnd r' (by simp [hr']))
    simp only [runQueue, List.filter_cons]
    by_cases hst : s.stopped = true
    · simp only [hst, Bool.true_or, if_true]
      rw [ih s]
      by_cases hd : s.dropped.contains r = true
      · simp only [hd, Bool.not_true, Bool.false_eq_true, if_false]
      · simp only [hd, Bool.not_false, if_true, runPlain, hst]
    · have hst' : s.stopped = false := by simpa using hst
      by_cases hd : s.dropped.contains r = true
      · simp only [hst', hd, Bool.or_true, if_true, Bool.not_true, Bool.false_eq_true, if_false]
        exact ih s
      · have hd' : s.dropped.contains r = false := by simpa using hd
        simp only [hst', hd', Bool.or_false, Bool.false_eq_true, if_false, Bool.not_false, if_true, runPlain]
        cases hh : h s.errs r with
        | error e => rfl
        | ok oe =>
          obtain ⟨o, es⟩ := oe
          have := hnd r (by simp) s.errs o es hh
          simp only [this, List.append_nil]
          rw [ih]

/-! ### which handlers drop -/

theorem errsOnly_out {x : M (List ESpec)} {o : HOut} (h : errsOnly x = .ok o) :
    o.drop = [] ∧ o.dropAll = false ∧ o.unreq = [] := by
  unfold errsOnly at h
  split at h
  · simp only [Except.ok.injEq] at h; subst h; exact ⟨rfl, rfl, rfl⟩
  · simp at h

theorem hExcludes_drop (env : Env) (ctx : Ctx) (schema doc : Val) (f : Key) (c v : Val) (o : HOut)
    (h : hExcludes env ctx schema doc f c v = .ok o) : o.drop = [] ∧ o.dropAll = false := by
  unfold hExcludes at h
  simp only [bind, Except.bind, pure, Except.pure] at h
  repeat' (split at h)
  all_goals first
    | (cases h; exact ⟨rfl, rfl⟩)
    | (simp at h; done)

theorem hSchema_drop (env : Env) (rec : Rec) (ctx : Ctx) (schema doc : Val) (f : Key) (c v : Val)
    (upd : Bool) (o : HOut) (h : hSchema env rec ctx schema doc f c v upd = .ok o) : o.drop = [] := by
  unfold hSchema at h
  simp only [bind, Except.bind, pure, Except.pure] at h
  repeat' (split at h)
  all_goals first
    | (simp only [Except.ok.injEq] at h; subst h; rfl)
    | (simp at h; done)
    | (cases h; rfl)

/-- **only the four priority rules drop selectively** -/
theorem C01_handlers (env : Env) (t : Tables) (rec : Rec) (ctx : Ctx) (schema doc : Val) (upd : Bool)
    (f : Key) (defs v : Val) (sofar : List Err) (rule : String) (o : HOut)
    (hr : rule ∉ ["nullable", "readonly", "type", "empty"])
    (h : handler env t rec ctx schema doc upd f defs v sofar rule = .ok o) : o.drop = [] := by
  unfold handler at h
  split at h
  all_goals first
    | (exfalso; simp at hr; done)
    | exact (errsOnly_out h).1
    | exact (hExcludes_drop _ _ _ _ _ _ _ _ h).1
    | exact hSchema_drop _ _ _ _ _ _ _ _ _ _ h
    | (simp [raisePy] at h; done)
    | (simp only [] at h
       split at h
       · simp only [Except.ok.injEq] at h; subst h; rfl
       · simp [raisePy] at h)

/-! ### verdict and update -/

/-- **the verdict is True iff no error was recorded** (by construction of `validate`) -/
theorem C01_verdict (env : Env) (t : Tables) (accept : Val → Option Val) (fuel : Nat) (s : VState)
    (doc : Val) (schema : Option Val) (upd : Bool) (s' : VState) (b : Bool)
    (h : Api.doValidate env t accept fuel s doc schema upd false = (s', .ok b)) :
    b = s'.errors.isEmpty := by
  simp only [Api.doValidate] at h
  split at h
  · simp at h
  · split at h
    · simp only [Prod.mk.injEq, Except.ok.injEq] at h
      obtain ⟨h1, h2⟩ := h
      subst h1 h2
      rfl
    · simp at h

/-- with `update=True` missing required fields are not reported: the errors are
    exactly those of the per-field loop -/
theorem C01_required_update (env : Env) (t : Tables) (rec : Rec) (ctx : Ctx)
    (dkvs skvs : List (Key × Val)) (doc : Val) (pre : List Err) (u : List Key) (errs : List Err)
    (h : validateResolved env t rec ctx skvs doc dkvs true pre u = .ok errs) :
    ∃ s, validateFields env t rec ctx (.dict skvs) skvs doc true dkvs { errs := pre, unreq := u } = .ok s
      ∧ errs = s.errs := by
  simp only [validateResolved] at h
  split at h
  · simp at h
  · rename_i s hs'
    simp only [if_true, Except.ok.injEq] at h
    exact ⟨s, hs', h.symm⟩

end Cerberus
