/-
  C17 — default setters resolve in dependency order and always terminate.

  Model: `Cerberus.Setters` — the work list of `__normalize_default_fields`
  (pop the first pending field; `KeyError` → re-queue at the end; any other
  exception → error for that field; remember the pending tuple after every
  step, a repeat → error for every pending field and stop), for an *arbitrary*
  setter family (`setter : Key → mapping → ok v | keyError | other msg`).

  Proved here for every setter family, every pending list and every mapping:
  termination within `n(n+3)/2` iterations (`C17_terminates`), every pending
  field ends with a value or with an error (`C17_total`), an exception other
  than `KeyError` touches the failing field only (`C17_other_exc`).
  The least-fixpoint / order-independence clause is *not* proved here
  (`C17_lfp_partial` states what is: a field resolved by the loop had its
  setter succeed on a mapping reachable by the loop); it is decided by the
  port and the independent least-fixpoint oracle (exhaustively for <= 3 fields).
-/
import Cerberus.Proofs.Setters
namespace Cerberus
open Setters

theorem need_zero_eq_bound (n : Nat) : need n 0 = bound n := by
  cases n with
  | zero => rfl
  | succ m => simp only [need, bound]; omega

/-- **normalization of defaults always terminates**: the fuel `bound n = n(n+3)/2`
    is never exhausted, whatever the setters do -/
theorem C17_terminates (setter : Key → List (Key × Val) → SetterResult)
    (pending : List Key) (mapping : List (Key × Val)) :
    (resolve setter pending mapping).isSome = true := by
  unfold resolve
  apply run_isSome setter _ _ 0
  · constructor
    · simp
    · intro i h1 h2; simp [init] at h1 h2; omega
  · simp only [init, need_zero_eq_bound]
    exact Nat.le_refl _

theorem dlookup_dset_self (m : List (Key × Val)) (k : Key) (v : Val) :
    Val.dlookup (Val.dset m k v) k = some v := by
  induction m with
  | nil => simp [Val.dset, Val.dlookup]
  | cons hd tl ih =>
    obtain ⟨k', v'⟩ := hd
    simp only [Val.dset]
    by_cases h : k' = k
    · simp [h, Val.dlookup]
    · simp [h, Val.dlookup, ih]

theorem dlookup_dset_other (m : List (Key × Val)) (k q : Key) (v : Val) (h : q ≠ k) :
    Val.dlookup (Val.dset m k v) q = Val.dlookup m q := by
  induction m with
  | nil =>
    have : ¬ k = q := fun e => h e.symm
    simp [Val.dset, Val.dlookup, this]
  | cons hd tl ih =>
    obtain ⟨k', v'⟩ := hd
    simp only [Val.dset]
    by_cases h1 : k' = k
    · subst h1
      have : ¬ k' = q := fun e => h e.symm
      simp [Val.dlookup, this]
    · simp only [h1, if_false, Val.dlookup]
      split
      · rfl
      · exact ih

/-- a field is accounted for: still pending, failed, or holding a value -/
def Accounted (s : SState) (f : Key) : Prop :=
  f ∈ s.pending ∨ f ∈ s.failed ∨ (Val.dlookup s.mapping f).isSome = true

theorem accounted_iter (setter : Key → List (Key × Val) → SetterResult) (s : SState)
    (f : Key) (rest : List Key) (hp : s.pending = f :: rest) (g : Key) (hg : Accounted s g) :
    let r := iter setter s f rest
    (r.2 = true → g ∈ r.1.failed ∨ (Val.dlookup r.1.mapping g).isSome = true) ∧
    (r.2 = false → Accounted r.1 g) := by
  unfold Accounted at hg ⊢
  rw [hp] at hg
  cases hs : setter f s.mapping with
  | ok v =>
    have ha : apply1 setter s f rest = (rest, Val.dset s.mapping f v, s.failed) := by simp [apply1, hs]
    simp only [iter, ha, record]
    by_cases hk : s.known.contains rest = true <;>
      simp only [hk, if_true, if_false, Bool.false_eq_true]
    all_goals
      by_cases hgf : g = f
      · subst hgf; simp [dlookup_dset_self]
      · rw [dlookup_dset_other _ _ _ _ hgf]
        rcases hg with h | h | h
        · have : g ∈ rest := by simpa [hgf] using h
          simp [this]
        · simp [h]
        · simp [h]
  | keyError =>
    have ha : apply1 setter s f rest = (rest ++ [f], s.mapping, s.failed) := by simp [apply1, hs]
    simp only [iter, ha, record]
    by_cases hk : s.known.contains (rest ++ [f]) = true <;>
      simp only [hk, if_true, if_false, Bool.false_eq_true]
    all_goals
      rcases hg with h | h | h
      · have : g ∈ rest ∨ g = f := by
          rcases List.mem_cons.mp h with h | h
          · right; exact h
          · left; exact h
        rcases this with h | h <;> simp [h]
      · simp [h]
      · simp [h]
  | other msg =>
    have ha : apply1 setter s f rest = (rest, s.mapping, s.failed ++ [f]) := by simp [apply1, hs]
    simp only [iter, ha, record]
    by_cases hk : s.known.contains rest = true <;>
      simp only [hk, if_true, if_false, Bool.false_eq_true]
    all_goals
      rcases hg with h | h | h
      · rcases List.mem_cons.mp h with h | h <;> simp [h]
      · simp [h]
      · simp [h]

theorem accounted_run (setter : Key → List (Key × Val) → SetterResult) :
    ∀ (fuel : Nat) (s s' : SState) (g : Key), Accounted s g → run setter fuel s = some s' →
      g ∈ s'.failed ∨ (Val.dlookup s'.mapping g).isSome = true := by
  intro fuel
  induction fuel with
  | zero =>
    intro s s' g hg h
    cases hp : s.pending with
    | nil =>
      rw [run_nil setter 0 s hp] at h
      injection h with h; subst h
      unfold Accounted at hg
      simpa [hp] using hg
    | cons f rest => simp [run, hp] at h
  | succ n ih =>
    intro s s' g hg h
    cases hp : s.pending with
    | nil =>
      rw [run_nil setter (n + 1) s hp] at h
      injection h with h; subst h
      unfold Accounted at hg
      simpa [hp] using hg
    | cons f rest =>
      rw [run] at h
      simp only [hp] at h
      have := accounted_iter setter s f rest hp g hg
      simp only at this
      by_cases hb : (iter setter s f rest).2 = true
      · simp only [hb, if_true, Option.some.injEq] at h
        subst h
        exact this.1 hb
      · simp only [hb, Bool.false_eq_true, if_false] at h
        exact ih _ _ g (this.2 (by simpa using hb)) h

/-- **every pending field ends with a value or with a "default cannot be set" error** -/
theorem C17_total (setter : Key → List (Key × Val) → SetterResult)
    (pending : List Key) (mapping : List (Key × Val)) (s' : SState)
    (h : resolve setter pending mapping = some s') (g : Key) (hg : g ∈ pending) :
    g ∈ s'.failed ∨ (Val.dlookup s'.mapping g).isSome = true :=
  accounted_run setter _ _ s' g (Or.inl (by simpa [init] using hg)) h

/-- **a setter that raises any other exception produces an error for its own
    field only**: the mapping is untouched, the field leaves the work list, and
    exactly that field is appended to the failed fields -/
theorem C17_other_exc (setter : Key → List (Key × Val) → SetterResult) (s : SState)
    (f : Key) (rest : List Key) (msg : String) (h : setter f s.mapping = .other msg) :
    apply1 setter s f rest = (rest, s.mapping, s.failed ++ [f]) := by
  simp [apply1, h]

/-- a `KeyError` re-queues the field at the end and changes nothing else -/
theorem C17_keyerror_requeues (setter : Key → List (Key × Val) → SetterResult) (s : SState)
    (f : Key) (rest : List Key) (h : setter f s.mapping = .keyError) :
    apply1 setter s f rest = (rest ++ [f], s.mapping, s.failed) := by
  simp [apply1, h]

/-- what is proved of the fixpoint clause: a value is only ever stored for the
    field whose setter returned it, on the mapping current at that moment -/
theorem C17_lfp_partial (setter : Key → List (Key × Val) → SetterResult) (s : SState)
    (f : Key) (rest : List Key) (v : Val) (h : setter f s.mapping = .ok v) :
    apply1 setter s f rest = (rest, Val.dset s.mapping f v, s.failed) := by
  simp [apply1, h]

/-! ### non-vacuity: the F16 chain (-1 ← -2 ← 'c') resolves; a 2-cycle fails for both -/
def C17_chain : Key → List (Key × Val) → SetterResult
  | .i (-1), m => match Val.dlookup m (.i (-2)) with | some v => .ok v | none => .keyError
  | .i (-2), m => match Val.dlookup m (.s "c") with | some v => .ok v | none => .keyError
  | _, _ => .ok (.int 1)

example : (resolve C17_chain [.i (-1), .i (-2), .s "c"] []).map (·.failed) = some [] := by decide
example : (resolve C17_chain [.i (-1), .i (-2), .s "c"] []).map (·.mapping.length) = some 3 := by decide

def C17_cycle : Key → List (Key × Val) → SetterResult
  | .s "a", m => match Val.dlookup m (.s "b") with | some v => .ok v | none => .keyError
  | _, m => match Val.dlookup m (.s "a") with | some v => .ok v | none => .keyError

example : (resolve C17_cycle [.s "a", .s "b"] []).map (·.failed.length) = some 2 := by decide

end Cerberus
