/-
  C17 — default setters resolve in dependency order and always terminate.

  Model: `Cerberus.Setters` — the work list of `__normalize_default_fields`
  (pop the first pending field; `KeyError` → re-queue at the end; any other
  exception → error for that field; remember the pending tuple after every
  step, a repeat → error for every pending field and stop), for an *arbitrary*
  setter family (`setter : Key → mapping → ok v | keyError | other msg`).

  Proved here for every setter family, every pending list and every mapping:
  termination within `n(n+3)/2` iterations (`C17_terminates`), every pending
  field ends with a value or with an error (`C17_total`), an exception other
  than `KeyError` touches the failing field only (`C17_other_exc`).
  For setters that read other fields (`DepSetter`: `deps f` are looked up in the
  mapping, a missing one raises `KeyError`) the loop computes the least fixpoint
  (`C17_lfp`): a pending field receives a value iff it is obtainable (`Reach`), and
  a 'default cannot be set' error iff it is not — whatever the order of the pending
  fields (`C17_order_independent`).  The proof (Proofs/SettersLfp.lean) shows that the
  cycle check can only fire after the run of `KeyError`s went once around the pending
  tuple, i.e. after every pending setter failed on the current mapping.
  The values themselves are whatever the setters compute (`val`); that they do not
  depend on the order either is decided by the port and the least-fixpoint oracle.
-/
import Cerberus.Proofs.Setters
import Cerberus.Proofs.SettersLfp
namespace Cerberus
open Setters

theorem need_zero_eq_bound (n : Nat) : need n 0 = bound n := by
  cases n with
  | zero => rfl
  | succ m => simp only [need, bound]; omega

/-- **normalization of defaults always terminates**: the fuel `bound n = n(n+3)/2`
    is never exhausted, whatever the setters do -/
theorem C17_terminates (setter : Key → List (Key × Val) → SetterResult)
    (pending : List Key) (mapping : List (Key × Val)) :
    (resolve setter pending mapping).isSome = true := by
  unfold resolve
  apply run_isSome setter _ _ 0
  · constructor
    · simp
    · intro i h1 h2; simp [init] at h1 h2; omega
  · simp only [init, need_zero_eq_bound]
    exact Nat.le_refl _

theorem dlookup_dset_self (m : List (Key × Val)) (k : Key) (v : Val) :
    Val.dlookup (Val.dset m k v) k = some v := by
  induction m with
  | nil => simp [Val.dset, Val.dlookup]
  | cons hd tl ih =>
    obtain ⟨k', v'⟩ := hd
    simp only [Val.dset]
    by_cases h : k' = k
    · simp [h, Val.dlookup]
    · simp [h, Val.dlookup, ih]

theorem dlookup_dset_other (m : List (Key × Val)) (k q : Key) (v : Val) (h : q ≠ k) :
    Val.dlookup (Val.dset m k v) q = Val.dlookup m q := by
  induction m with
  | nil =>
    have : ¬ k = q := fun e => h e.symm
    simp [Val.dset, Val.dlookup, this]
  | cons hd tl ih =>
    obtain ⟨k', v'⟩ := hd
    simp only [Val.dset]
    by_cases h1 : k' = k
    · subst h1
      have : ¬ k' = q := fun e => h e.symm
      simp [Val.dlookup, this]
    · simp only [h1, if_false, Val.dlookup]
      split
      · rfl
      · exact ih

/-- a field is accounted for: still pending, failed, or holding a value -/
def Accounted (s : SState) (f : Key) : Prop :=
  f ∈ s.pending ∨ f ∈ s.failed ∨ (Val.dlookup s.mapping f).isSome = true

theorem accounted_iter (setter : Key → List (Key × Val) → SetterResult) (s : SState)
    (f : Key) (rest : List Key) (hp : s.pending = f :: rest) (g : Key) (hg : Accounted s g) :
    let r := iter setter s f rest
    (r.2 = true → g ∈ r.1.failed ∨ (Val.dlookup r.1.mapping g).isSome = true) ∧
    (r.2 = false → Accounted r.1 g) := by
  unfold Accounted at hg ⊢
  rw [hp] at hg
  cases hs : setter f s.mapping with
  | ok v =>
    have ha : apply1 setter s f rest = (rest, Val.dset s.mapping f v, s.failed) := by simp [apply1, hs]
    simp only [iter, ha, record]
    by_cases hk : s.known.contains rest = true <;>
      simp only [hk, if_true, if_false, Bool.false_eq_true]
    all_goals
      by_cases hgf : g = f
      · subst hgf; simp [dlookup_dset_self]
      · rw [dlookup_dset_other _ _ _ _ hgf]
        rcases hg with h | h | h
        · have : g ∈ rest := by simpa [hgf] using h
          simp [this]
        · simp [h]
        · simp [h]
  | keyError =>
    have ha : apply1 setter s f rest = (rest ++ [f], s.mapping, s.failed) := by simp [apply1, hs]
    simp only [iter, ha, record]
    by_cases hk : s.known.contains (rest ++ [f]) = true <;>
      simp only [hk, if_true, if_false, Bool.false_eq_true]
    all_goals
      rcases hg with h | h | h
      · have : g ∈ rest ∨ g = f := by
          rcases List.mem_cons.mp h with h | h
          · right; exact h
          · left; exact h
        rcases this with h | h <;> simp [h]
      · simp [h]
      · simp [h]
  | other msg =>
    have ha : apply1 setter s f rest = (rest, s.mapping, s.failed ++ [f]) := by simp [apply1, hs]
    simp only [iter, ha, record]
    by_cases hk : s.known.contains rest = true <;>
      simp only [hk, if_true, if_false, Bool.false_eq_true]
    all_goals
      rcases hg with h | h | h
      · rcases List.mem_cons.mp h with h | h <;> simp [h]
      · simp [h]
      · simp [h]

theorem accounted_run (setter : Key → List (Key × Val) → SetterResult) :
    ∀ (fuel : Nat) (s s' : SState) (g : Key), Accounted s g → run setter fuel s = some s' →
      g ∈ s'.failed ∨ (Val.dlookup s'.mapping g).isSome = true := by
  intro fuel
  induction fuel with
  | zero =>
    intro s s' g hg h
    cases hp : s.pending with
    | nil =>
      rw [run_nil setter 0 s hp] at h
      injection h with h; subst h
      unfold Accounted at hg
      simpa [hp] using hg
    | cons f rest => simp [run, hp] at h
  | succ n ih =>
    intro s s' g hg h
    cases hp : s.pending with
    | nil =>
      rw [run_nil setter (n + 1) s hp] at h
      injection h with h; subst h
      unfold Accounted at hg
      simpa [hp] using hg
    | cons f rest =>
      rw [run] at h
      simp only [hp] at h
      have := accounted_iter setter s f rest hp g hg
      simp only at this
      by_cases hb : (iter setter s f rest).2 = true
      · simp only [hb, if_true, Option.some.injEq] at h
        subst h
        exact this.1 hb
      · simp only [hb, Bool.false_eq_true, if_false] at h
        exact ih _ _ g (this.2 (by simpa using hb)) h

/-- **every pending field ends with a value or with a "default cannot be set" error** -/
theorem C17_total (setter : Key → List (Key × Val) → SetterResult)
    (pending : List Key) (mapping : List (Key × Val)) (s' : SState)
    (h : resolve setter pending mapping = some s') (g : Key) (hg : g ∈ pending) :
    g ∈ s'.failed ∨ (Val.dlookup s'.mapping g).isSome = true :=
  accounted_run setter _ _ s' g (Or.inl (by simpa [init] using hg)) h

/-- **a setter that raises any other exception produces an error for its own
    field only**: the mapping is untouched, the field leaves the work list, and
    exactly that field is appended to the failed fields -/
theorem C17_other_exc (setter : Key → List (Key × Val) → SetterResult) (s : SState)
    (f : Key) (rest : List Key) (msg : String) (h : setter f s.mapping = .other msg) :
    apply1 setter s f rest = (rest, s.mapping, s.failed ++ [f]) := by
  simp [apply1, h]

/-- a `KeyError` re-queues the field at the end and changes nothing else -/
theorem C17_keyerror_requeues (setter : Key → List (Key × Val) → SetterResult) (s : SState)
    (f : Key) (rest : List Key) (h : setter f s.mapping = .keyError) :
    apply1 setter s f rest = (rest ++ [f], s.mapping, s.failed) := by
  simp [apply1, h]

/-- what is proved of the fixpoint clause: a value is only ever stored for the
    field whose setter returned it, on the mapping current at that moment -/
theorem C17_lfp_partial (setter : Key → List (Key × Val) → SetterResult) (s : SState)
    (f : Key) (rest : List Key) (v : Val) (h : setter f s.mapping = .ok v) :
    apply1 setter s f rest = (rest, Val.dset s.mapping f v, s.failed) := by
  simp [apply1, h]

/-- **least fixpoint.**  For every dependency structure, every list of distinct pending
    fields (none of them in the mapping yet) and every mapping: the loop terminates with
    exactly the obtainable fields set and exactly the others reported. -/
theorem C17_lfp (d : DepSetter) (pending : List Key) (mapping : List (Key × Val))
    (hnd : pending.Nodup) (hmiss : ∀ f, f ∈ pending → Val.dhas mapping f = false) :
    ∃ s, resolve d.setter pending mapping = some s ∧ s.pending = [] ∧
      (∀ f, f ∈ pending → (Val.dhas s.mapping f = true ↔ Reach d mapping pending f)) ∧
      (∀ f, f ∈ pending → (f ∈ s.failed ↔ ¬ Reach d mapping pending f)) ∧
      (∀ k, Val.dhas mapping k = true → Val.dhas s.mapping k = true) ∧
      (∀ k, Val.dhas s.mapping k = true → Reach d mapping pending k) ∧
      (∀ f, f ∈ s.failed → f ∈ pending) := by
  have hsome := C17_terminates d.setter pending mapping
  cases hr : resolve d.setter pending mapping with
  | none => rw [hr] at hsome; cases hsome
  | some s =>
    have fin := run_final d mapping pending _ _ pending 0 false s (init_inv d mapping pending hnd hmiss) hr
    exact ⟨s, rfl, fin.done, fin.resolved, fin.failed, fin.keep, fin.sound, fin.failedIn⟩

theorem reach_congr (d : DepSetter) (m0 : List (Key × Val)) (p p' : List Key) (h : ∀ x, x ∈ p ↔ x ∈ p')
    (k : Key) (hk : Reach d m0 p k) : Reach d m0 p' k := by
  induction hk with
  | present hp => exact Reach.present hp
  | step hin _ ih => exact Reach.step ((h _).mp hin) ih

/-- **order independence.**  Two orders of the same pending fields give the same set of
    resolved fields and the same set of failed fields. -/
theorem C17_order_independent (d : DepSetter) (p p' : List Key) (mapping : List (Key × Val))
    (hnd : p.Nodup) (hnd' : p'.Nodup) (hperm : ∀ x, x ∈ p ↔ x ∈ p')
    (hmiss : ∀ f, f ∈ p → Val.dhas mapping f = false) :
    ∃ s s', resolve d.setter p mapping = some s ∧ resolve d.setter p' mapping = some s' ∧
      (∀ k, Val.dhas s.mapping k = Val.dhas s'.mapping k) ∧ (∀ f, f ∈ s.failed ↔ f ∈ s'.failed) := by
  have hmiss' : ∀ f, f ∈ p' → Val.dhas mapping f = false := fun f hf => hmiss f ((hperm f).mpr hf)
  obtain ⟨s, hs, hpend, hres, hfail, hkeep, hsound, hfin⟩ := C17_lfp d p mapping hnd hmiss
  obtain ⟨s', hs', hpend', hres', hfail', hkeep', hsound', hfin'⟩ := C17_lfp d p' mapping hnd' hmiss'
  have hr : ∀ k, Reach d mapping p k ↔ Reach d mapping p' k :=
    fun k => ⟨reach_congr d mapping p p' hperm k, reach_congr d mapping p' p (fun x => (hperm x).symm) k⟩
  -- a key of the result is an old key or a pending field that is reachable
  have key : ∀ (q : List Key) (t : SState), (∀ f, f ∈ q → (Val.dhas t.mapping f = true ↔ Reach d mapping q f)) →
      (∀ k, Val.dhas mapping k = true → Val.dhas t.mapping k = true) →
      (∀ k, Val.dhas t.mapping k = true → Reach d mapping q k) →
      ∀ k, (Val.dhas t.mapping k = true ↔ Reach d mapping q k) := by
    intro q t h1 h2 h3 k
    refine ⟨h3 k, fun hk => ?_⟩
    cases hk with
    | present hp => exact h2 k hp
    | step hin hd => exact (h1 k hin).mpr (Reach.step hin hd)
  refine ⟨s, s', hs, hs', fun k => ?_, fun f => ?_⟩
  · have a := key p s hres hkeep hsound k
    have b := key p' s' hres' hkeep' hsound' k
    cases h1 : Val.dhas s.mapping k <;> cases h2 : Val.dhas s'.mapping k <;> simp_all
  · constructor
    · intro hf
      have hp := hfin f hf
      exact (hfail' f ((hperm f).mp hp)).mpr (fun hr' => (hfail f hp).mp hf ((hr f).mpr hr'))
    · intro hf
      have hp' := hfin' f hf
      have hp := (hperm f).mpr hp'
      exact (hfail f hp).mpr (fun hr0 => (hfail' f hp').mp hf ((hr f).mp hr0))

/-! ### non-vacuity: the F16 chain (-1 ← -2 ← 'c') resolves; a 2-cycle fails for both -/
def C17_chain : Key → List (Key × Val) → SetterResult
  | .i (-1), m => match Val.dlookup m (.i (-2)) with | some v => .ok v | none => .keyError
  | .i (-2), m => match Val.dlookup m (.s "c") with | some v => .ok v | none => .keyError
  | _, _ => .ok (.int 1)

example : (resolve C17_chain [.i (-1), .i (-2), .s "c"] []).map (·.failed) = some [] := by decide
example : (resolve C17_chain [.i (-1), .i (-2), .s "c"] []).map (·.mapping.length) = some 3 := by decide

def C17_cycle : Key → List (Key × Val) → SetterResult
  | .s "a", m => match Val.dlookup m (.s "b") with | some v => .ok v | none => .keyError
  | _, m => match Val.dlookup m (.s "a") with | some v => .ok v | none => .keyError

example : (resolve C17_cycle [.s "a", .s "b"] []).map (·.failed.length) = some 2 := by decide

/-! a dependency structure with a chain (a ← b ← c), a cycle (x ↔ y) and a field behind the cycle (z):
    the chain resolves, cycle and follower fail, in both orders -/
def C17_exDeps : DepSetter :=
  { deps := fun f => match f with
      | .s "a" => [.s "b"] | .s "b" => [.s "c"] | .s "x" => [.s "y"] | .s "y" => [.s "x"]
      | .s "z" => [.s "x", .s "c"] | _ => []
    val := fun _ _ => .int 1 }

example : (resolve C17_exDeps.setter [.s "x", .s "a", .s "y", .s "z", .s "b", .s "c"] []).map
    (fun s => (s.failed, Val.dkeys s.mapping)) = some ([.s "y", .s "z", .s "x"], [.s "c", .s "b", .s "a"]) := by decide
example : (resolve C17_exDeps.setter [.s "c", .s "z", .s "b", .s "y", .s "a", .s "x"] []).map
    (fun s => (s.failed, Val.dkeys s.mapping)) = some ([.s "x", .s "z", .s "y"], [.s "c", .s "b", .s "a"]) := by decide
example : [Key.s "x", .s "a", .s "y", .s "z", .s "b", .s "c"].Nodup := by decide

end Cerberus
