/-
  C14 — registry references behave exactly like the inlined definition.

  Model: `Env.resolveRulesSet` / `Env.resolveSchema` (= `_resolve_rules_set`,
  `_resolve_schema`) with the registries as part of the environment, and every use
  site of the validation and normalization models.

  Proved here, for every environment (module-level and validator-bound registries
  alike: the environment is whatever registry the validator uses), every document:
  * `C14_resolved_view`, `C14_field_references` — validation looks at a schema only
    through `resolvedFields` (the field mapping with every field's rule set
    dereferenced): two schemas with the same resolved view — in particular a schema
    and the same schema with any subset of its field rule sets (or the whole schema)
    replaced by names of registry entries holding them — produce the same outcome,
    errors included;
  * `C14_bulk_reference` — a rule set handed to a child validator *by name*
    (`keysrules`, `valuesrules`, list `schema`, `items` member, `allow_unknown`) is
    dereferenced by the child exactly as a field definition is: the child's resolved
    view is that of the inlined rule set;
  * `C14_subschema_reference` — a mapping `schema` given by name makes the same
    child call as the inlined sub-schema;
  * `C14_definitions` — the rule queue of a field runs on the dereferenced rule set;
  * `C14_acceptance` — schema validation dereferences a field's rules-set name before
    checking it (and rejects a dangling one);
  * `C14_recursive` (kernel-evaluated) — self-referential definitions are accepted
    and validation of documents nested 0‥6 deep terminates with the fuel
    `documents depth + 3`, reporting the error planted at depth 4.
  * `C14_self_reference_accepted` (kernel-evaluated) — rules sets that refer to themselves
    from within a `schema` mapping (directly, through a list of mappings, through an *of
    definition) are accepted, and a malformed one of that shape is still rejected (F36).
  * `C14_fuel_irrelevant` — the fuel with which the model ties the recursion through child
    validators (and so through self-referential definitions) is only a termination device:
    an answer other than "out of fuel" obtained with some fuel is the answer for every larger
    fuel, for every environment (registries of any shape), schema and document — so
    "terminates" can be read as "some fuel suffices", and the ports may pick any fuel that does.
  * `C14_witness_items_on_string` (kernel-checked negation, by induction on the fuel) — the
    termination clause of the property is *false*: the rules set `lst = {'items': ['lst']}`
    applied to the one-character string `"x"` never answers, because a one-character string is
    its own only item (known finding F37; the code raises RecursionError).  Found while
    looking for a termination measure: the size of the document does not decrease through
    `items` on a string.
  Termination for every finite document *without such strings* under arbitrary self-referential
  registries is not proved (no measure argument yet); it is decided by the port and
  oracle on recursive definitions applied to documents of depth <= 6.
-/
import Cerberus.Proofs.Validate
import Cerberus.Proofs.Fuel
import Cerberus.Model.Schema
import Cerberus.Extracted
namespace Cerberus
open V

/-- **validation sees a schema only through its resolved view** -/
theorem C14_resolved_view (env : Env) (t : Tables) (rec : Rec) (ctx : Ctx) (s₁ s₂ doc : Val) (upd : Bool)
    (pre : List Err) (u : List Key) (h : resolvedFields env s₁ = resolvedFields env s₂) :
    validateMapping env t rec ctx s₁ doc upd pre u = validateMapping env t rec ctx s₂ doc upd pre u := by
  simp only [validateMapping, h]

/-- replacing a field's rule set by the name of a registry entry that holds it does
    not change the resolved view -/
theorem resolved_entry (env : Env) (f : Key) (name : String) (d : List (Key × Val))
    (h : env.rulesSets name = some (.dict d)) :
    (env.resolveRulesSet (.str name)).getD (.str name) = (env.resolveRulesSet (.dict d)).getD (.dict d) := by
  simp [Env.resolveRulesSet, h]

/-- **field definitions by reference**: a schema in which any subset of the field
    rule sets is replaced by names of registry entries holding them validates exactly
    like the inline schema -/
theorem C14_field_references (env : Env) (t : Tables) (rec : Rec) (ctx : Ctx) (doc : Val) (upd : Bool)
    (pre : List Err) (u : List Key) (inline refd : List (Key × Val))
    (hlen : inline.length = refd.length)
    (h : ∀ i (hi : i < inline.length),
        (refd[i]'(hlen ▸ hi)).1 = inline[i].1 ∧
        ((refd[i]'(hlen ▸ hi)).2 = inline[i].2 ∨
         ∃ name d, (refd[i]'(hlen ▸ hi)).2 = .str name ∧ inline[i].2 = .dict d ∧ env.rulesSets name = some (.dict d))) :
    validateMapping env t rec ctx (.dict refd) doc upd pre u =
    validateMapping env t rec ctx (.dict inline) doc upd pre u := by
  apply C14_resolved_view
  simp only [resolvedFields, Env.resolveSchema]
  congr 1
  apply List.ext_getElem
  · simp [hlen]
  · intro i h1 h2
    simp only [List.getElem_map]
    have hi : i < inline.length := by simpa using h2
    obtain ⟨hk, hv⟩ := h i hi
    rcases hv with hv | ⟨name, d, hr, hin, hreg⟩
    · rw [hk, hv]
    · rw [hk, hr, hin]
      simp [Env.resolveRulesSet, hreg]

/-- a whole schema given by name (schema registry) -/
theorem C14_schema_reference (env : Env) (t : Tables) (rec : Rec) (ctx : Ctx) (doc : Val) (upd : Bool)
    (pre : List Err) (u : List Key) (name : String) (fields : List (Key × Val))
    (h : env.schemas name = some (.dict fields)) :
    validateMapping env t rec ctx (.str name) doc upd pre u =
    validateMapping env t rec ctx (.dict fields) doc upd pre u := by
  apply C14_resolved_view
  simp [resolvedFields, Env.resolveSchema, h]

/-- **bulk rule sets by reference**: the child schema `{key: name, …}` built for
    keysrules / valuesrules / a list schema / an items member has the resolved view
    of `{key: definition, …}` -/
theorem C14_bulk_reference (env : Env) (keys : List Key) (name : String) (d : List (Key × Val))
    (h : env.rulesSets name = some (.dict d)) :
    resolvedFields env (.dict (keys.map (fun k => (k, Val.str name)))) =
    resolvedFields env (.dict (keys.map (fun k => (k, Val.dict d)))) := by
  simp [resolvedFields, Env.resolveSchema, Env.resolveRulesSet, h, List.map_map, Function.comp_def]

/-- **the rule queue of a field runs on the dereferenced rule set** -/
theorem C14_definitions (env : Env) (t : Tables) (rec : Rec) (ctx : Ctx) (schema doc : Val) (upd : Bool)
    (f : Key) (v : Val) (s : QState) (name : String) (d : List (Key × Val))
    (h : env.rulesSets name = some (.dict d)) :
    validateDefinitions env t rec ctx schema doc upd f (.str name) v s =
    validateDefinitions env t rec ctx schema doc upd f (.dict d) v s := by
  simp [validateDefinitions, Env.resolveRulesSet, h]

/-- **a mapping sub-schema by reference** makes the same child call as the inlined one -/
theorem C14_subschema_reference (env : Env) (name : String) (fields : List (Key × Val))
    (h : env.schemas name = some (.dict fields)) :
    env.resolveSchema (.str name) = env.resolveSchema (.dict fields) := by
  simp [Env.resolveSchema, h]

/-- **schema validation dereferences field definitions** (and a dangling name stays a
    string, which the rule-set type check rejects) -/
theorem C14_acceptance (cls : Cls) (t : Tables) (regsR regsS : String → Option Val) (fuel : Nat)
    (f : Key) (name : String) (d : Val) (rest : List (Key × Val)) (h : regsR name = some d) :
    S.acceptFields cls t regsR regsS fuel ((f, .str name) :: rest) =
    S.acceptFields cls t regsR regsS fuel ((f, d) :: rest) ∨
    (∃ n, d = .str n) := by
  cases d with
  | str n => exact Or.inr ⟨n, rfl⟩
  | _ => left; simp [S.acceptFields, h]

/-! ### recursive definitions (kernel-evaluated) -/

def C14_env : Env :=
  { rx := fun _ _ => none, coerce := Family.coerce, hasCoercer := fun _ => false,
    setter := fun _ _ => .other "", hasSetter := fun _ => false, checker := fun _ _ => none,
    rulesSets := fun n => if n == "nest" then some (.dict [(.s "type", .str "dict"), (.s "valuesrules", .str "nest")]) else none,
    schemas := fun n => if n == "tree" then
      some (.dict [(.s "v", .dict [(.s "type", .str "integer")]),
                   (.s "kids", .dict [(.s "type", .str "list"),
                      (.s "schema", .dict [(.s "type", .str "dict"), (.s "schema", .str "tree")])])]) else none }

/-- a chain of `kids` of the given depth; the node at depth 4 holds a string instead of an integer -/
def C14_doc : Nat → Nat → Val
  | 0, lvl => .dict [(.s "v", if lvl == 4 then .str "bad" else .int lvl)]
  | d + 1, lvl => .dict [(.s "v", if lvl == 4 then .str "bad" else .int lvl),
                         (.s "kids", .seq false [C14_doc d (lvl + 1)])]

def C14_result (depth : Nat) : Option Nat :=
  match validate0 C14_env Extracted.tables (2 * depth + 3) { cfg := {} } (.str "tree") (C14_doc depth 0) false with
  | .ok es => some (flatten es).length
  | .error _ => none

set_option maxRecDepth 100000 in
/-- **self-referential definitions terminate** on documents of depth 0‥6 and report
    exactly the planted error chain (one group error per level down to depth 4) -/
theorem C14_recursive :
    (List.range 7).map C14_result = [some 0, some 0, some 0, some 0, some 9, some 9, some 9] := by
  decide +kernel

/-! ### a name used as the `schema` of a list field (F33, F33b) -/

/-- a name of the rules-set registry is left to the child validator, in normalization as in validation -/
theorem C14_sequence_schema_rules_set (env : Env) (name : String) (d : Val) (h : env.rulesSets name = some d) :
    N.seqConstraint env (.str name) = .str name := by
  simp [N.seqConstraint, h]

/-- a name of the schema registry only: the items are normalized against the definition, like the inline schema -/
theorem C14_sequence_schema_reference (env : Env) (name : String) (d : Val)
    (hr : env.rulesSets name = none) (hs : env.schemas name = some d) :
    N.seqConstraint env (.str name) = d := by
  simp [N.seqConstraint, hr, hs]

/-! ### the fuel is only a termination device -/

/-- **an answer does not depend on the fuel**: whatever the registries hold (self-referential or not), if
    validating with `n` units of fuel gives an answer — a list of errors or a Python exception — then every
    larger amount of fuel gives the same answer (`Proofs/Fuel.lean`: every function of the validation
    model is monotone in its recursive callback for the order in which "out of fuel" is least) -/
theorem C14_fuel_irrelevant (env : Env) (t : Tables) (n m : Nat) (hnm : n ≤ m) (ctx : Ctx) (schema doc : Val)
    (upd : Bool) (h : validate0 env t n ctx schema doc upd ≠ .error .fuel) :
    validate0 env t m ctx schema doc upd = validate0 env t n ctx schema doc upd :=
  validate0_stable env t n m hnm ctx schema doc upd h

/-- the same for normalization followed by validation (`validate(doc)` with its default `normalize=True`) -/
theorem C14_fuel_irrelevant_processing (env : Env) (t : Tables) (n m : Nat) (hnm : n ≤ m) (ctx : Ctx) (schema : Val)
    (doc : List (Key × Val)) (upd : Bool) (h : validateN env t n ctx schema doc upd ≠ .error .fuel) :
    validateN env t m ctx schema doc upd = validateN env t n ctx schema doc upd :=
  validateN_stable env t n m hnm ctx schema doc upd h

/-- does the recursive `tree` definition answer on the chain of depth `depth` with `n` units of fuel? -/
def C14_answers (n depth : Nat) : Bool :=
  match validate0 C14_env Extracted.tables n { cfg := {} } (.str "tree") (C14_doc depth 0) false with
  | .error .fuel => false
  | _ => true

set_option maxRecDepth 100000 in
/-- the hypothesis of `C14_fuel_irrelevant` is met by the recursive definition (9 units suffice for depth 3), and
    it is not vacuous: with too little fuel the model does run out -/
theorem C14_fuel_instance : C14_answers 9 3 = true ∧ C14_answers 2 3 = false := by
  decide +kernel

/-! ### a self-referential definition that does not terminate (kernel-checked negation; known finding F37) -/

/-- the rules set `lst` = `{'items': ['lst']}` -/
def C14_itemsEnv : Env :=
  { rx := fun _ _ => none, coerce := Family.coerce, hasCoercer := fun _ => false,
    setter := fun _ _ => .other "", hasSetter := fun _ => false, checker := fun _ _ => none,
    rulesSets := fun n => if n == "lst" then some (.dict [(.s "items", .seq false [.str "lst"])]) else none,
    schemas := fun _ => none }

def C14_lstDef : Val := .dict [(.s "items", .seq false [.str "lst"])]

/-- one level of the descent: the field `k` (given by the reference `lst`) holds the one-character string `"x"`;
    the `items` rule hands `{0: "x"}` with the schema `{0: 'lst'}` to a child validator -/
macro "c14_items_level " k:term " with " ih:term : tactic => `(tactic|
  (have hrs : C14_itemsEnv.resolveRulesSet (.str "lst") = some C14_lstDef := rfl
   have hrs2 : C14_itemsEnv.resolveRulesSet C14_lstDef = some C14_lstDef := rfl
   have hsc : C14_itemsEnv.resolveSchema (.dict [($k, .str "lst")]) = some (.dict [($k, .str "lst")]) := rfl
   have hl : Val.dlookup [($k, C14_lstDef)] $k = some C14_lstDef := rfl
   have hq : buildQueue Extracted.tables ["items"] = ["nullable", "items"] := by decide
   have hlen1 : Val.pyLen? "_validate_items" (Val.seq false [Val.str "lst"]) = .ok 1 := rfl
   have hlen2 : Val.pyLen? "_validate_items" (Val.str "x") = .ok 1 := rfl
   have hit1 : Val.pyIter? "_validate_items" (Val.seq false [Val.str "lst"]) = .ok [Val.str "lst"] := rfl
   have hit2 : Val.pyIter? "_validate_items" (Val.str "x") = .ok [Val.str "x"] := rfl
   have he1 : Val.enumDict [Val.str "lst"] = [(Key.i 0, Val.str "lst")] := rfl
   have he2 : Val.enumDict [Val.str "x"] = [(Key.i 0, Val.str "x")] := rfl
   have hnames : ruleNames C14_lstDef = .ok ["items"] := rfl
   have hget1 : C14_lstDef.dget? (kS "nullable") = none := rfl
   have hget2 : C14_lstDef.dget? (kS "items") = some (Val.seq false [Val.str "lst"]) := rfl
   have hn : C14_lstDef.isNone = false := rfl
   have hx : (Val.str "x").isNone = false := rfl
   simp only [validate0, validateMapping, resolvedFields, hsc, List.map, hrs, Option.getD, validateResolved,
     validateFields, validateField]
   simp [hl, hn, hx, validateDefinitions, hrs2, hnames, hq, runQueue, runRule, handler, hNullable, hget2,
     pure, Except.pure, buildErrs, errsOnly, hItems, Val.isSized, Val.isIterable, hlen1, hlen2, hit1, hit2, he1, he2,
     liftPy, bind, Except.bind, $ih:term]))

set_option linter.unusedSimpArgs false in
/-- below the field: whatever the fuel, the validation of `{0: "x"}` against `{0: 'lst'}` runs out of it -/
theorem C14_items_descent : ∀ (n : Nat) (ctx : Ctx) (upd : Bool),
    validate0 C14_itemsEnv Extracted.tables n ctx (.dict [(.i 0, .str "lst")]) (.dict [(.i 0, .str "x")]) upd = .error .fuel
  | 0, _, _ => rfl
  | n + 1, ctx, upd => by
    have ih := C14_items_descent n
    c14_items_level (Key.i 0) with ih

set_option linter.unusedSimpArgs false in
/-- **the statement "self-referential definitions terminate on every finite document" is false of the model (and
    of the code: `Validator({'a': 'lst'}).validate({'a': 'x'})` with `lst = {'items': ['lst']}` raises
    `RecursionError`)**: a one-character string is its own only item, so the `items` rule of the self-referential
    rules set descends for ever; no amount of fuel gives an answer -/
theorem C14_witness_items_on_string (n : Nat) (ctx : Ctx) (upd : Bool) :
    validate0 C14_itemsEnv Extracted.tables n ctx (.dict [(.s "a", .str "lst")]) (.dict [(.s "a", .str "x")]) upd
      = .error .fuel := by
  cases n with
  | zero => rfl
  | succ n =>
    have ih := C14_items_descent n
    c14_items_level (Key.s "a") with ih

/-! ### rules sets that refer to themselves from within a `schema` mapping (kernel-evaluated; finding F36) -/

def C14_cls : Cls :=
  { rules := Extracted.metaSchemaFields, validationRules := Extracted.validationRules, types := Extracted.typeNames }

/-- `selfmap` refers to itself as a field definition of its own sub-schema, `selflist` through a list of
    mappings, `selfof` through an *of definition; `broken` does the same but also uses an unknown rule -/
def C14_regs (n : String) : Option Val :=
  if n == "selfmap" then
    some (.dict [(.s "type", .str "dict"),
                 (.s "schema", .dict [(.s "x", .str "selfmap"), (.s "n", .dict [(.s "type", .str "integer")])])])
  else if n == "selflist" then
    some (.dict [(.s "type", .str "list"),
                 (.s "schema", .dict [(.s "type", .str "dict"), (.s "schema", .dict [(.s "y", .str "selflist")])])])
  else if n == "selfof" then
    some (.dict [(.s "anyof", .seq false [.dict [(.s "type", .str "integer")],
                   .dict [(.s "type", .str "dict"), (.s "schema", .dict [(.s "y", .str "selfof")])]])])
  else if n == "bintree" then
    some (.dict [(.s "type", .str "dict"),
                 (.s "schema", .dict [(.s "value", .dict [(.s "type", .str "integer")]),
                                      (.s "left", .str "bintree"), (.s "right", .str "bintree")])])
  else if n == "broken" then
    some (.dict [(.s "type", .str "dict"),
                 (.s "schema", .dict [(.s "x", .str "broken"), (.s "z", .dict [(.s "no_such_rule", .int 1)])])])
  else none

def C14_accepts (fields : List (Key × Val)) : Bool :=
  match S.acceptSchema C14_cls Extracted.metaTables C14_regs (fun _ => none) (.dict fields) with
  | .accepted _ => true
  | _ => false

set_option maxRecDepth 100000 in
/-- **self-referential rules sets are accepted** (the check of a definition that is already being checked
    further up is not started again), at the top level and below a sub-schema, and a malformed
    self-referential definition is still rejected -/
theorem C14_self_reference_accepted :
    C14_accepts [(.s "a", .str "selfmap")] = true ∧
    C14_accepts [(.s "a", .str "selflist"), (.s "b", .str "selfof")] = true ∧
    C14_accepts [(.s "a", .dict [(.s "type", .str "dict"), (.s "schema", .dict [(.s "b", .str "selfmap")])])] = true ∧
    C14_accepts [(.s "root", .str "bintree")] = true ∧
    C14_accepts [(.s "a", .str "broken")] = false ∧
    C14_accepts [(.s "a", .dict [(.s "type", .str "dict"), (.s "schema", .dict [(.s "b", .str "broken")])])] = false := by
  decide +kernel

end Cerberus
