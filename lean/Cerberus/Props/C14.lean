/-
  C14 — registry references behave exactly like the inlined definition.

  Model: `Env.resolveRulesSet` / `Env.resolveSchema` (= `_resolve_rules_set`,
  `_resolve_schema`) with the registries as part of the environment, and every use
  site of the validation and normalization models.

  Proved here, for every environment (module-level and validator-bound registries
  alike: the environment is whatever registry the validator uses), every document:
  * `C14_resolved_view`, `C14_field_references` — validation looks at a schema only
    through `resolvedFields` (the field mapping with every field's rule set
    dereferenced): two schemas with the same resolved view — in particular a schema
    and the same schema with any subset of its field rule sets (or the whole schema)
    replaced by names of registry entries holding them — produce the same outcome,
    errors included;
  * `C14_bulk_reference` — a rule set handed to a child validator *by name*
    (`keysrules`, `valuesrules`, list `schema`, `items` member, `allow_unknown`) is
    dereferenced by the child exactly as a field definition is: the child's resolved
    view is that of the inlined rule set;
  * `C14_subschema_reference` — a mapping `schema` given by name makes the same
    child call as the inlined sub-schema;
  * `C14_definitions` — the rule queue of a field runs on the dereferenced rule set;
  * `C14_acceptance` — schema validation dereferences a field's rules-set name before
    checking it (and rejects a dangling one);
  * `C14_recursive` (kernel-evaluated) — self-referential definitions are accepted
    and validation of documents nested 0‥6 deep terminates with the fuel
    `documents depth + 3`, reporting the error planted at depth 4.
  Termination for *every* finite document under arbitrary self-referential
  registries is not proved (no measure argument yet); it is decided by the port and
  oracle on recursive definitions applied to documents of depth <= 6.
-/
import Cerberus.Proofs.Validate
import Cerberus.Model.Schema
import Cerberus.Extracted
namespace Cerberus
open V

/-- **validation sees a schema only through its resolved view** -/
theorem C14_resolved_view (env : Env) (t : Tables) (rec : Rec) (ctx : Ctx) (s₁ s₂ doc : Val) (upd : Bool)
    (pre : List Err) (u : List Key) (h : resolvedFields env s₁ = resolvedFields env s₂) :
    validateMapping env t rec ctx s₁ doc upd pre u = validateMapping env t rec ctx s₂ doc upd pre u := by
  simp only [validateMapping, h]

/-- replacing a field's rule set by the name of a registry entry that holds it does
    not change the resolved view -/
theorem resolved_entry (env : Env) (f : Key) (name : String) (d : List (Key × Val))
    (h : env.rulesSets name = some (.dict d)) :
    (env.resolveRulesSet (.str name)).getD (.str name) = (env.resolveRulesSet (.dict d)).getD (.dict d) := by
  simp [Env.resolveRulesSet, h]

/-- **field definitions by reference**: a schema in which any subset of the field
    rule sets is replaced by names of registry entries holding them validates exactly
    like the inline schema -/
theorem C14_field_references (env : Env) (t : Tables) (rec : Rec) (ctx : Ctx) (doc : Val) (upd : Bool)
    (pre : List Err) (u : List Key) (inline refd : List (Key × Val))
    (hlen : inline.length = refd.length)
    (h : ∀ i (hi : i < inline.length),
        (refd[i]'(hlen ▸ hi)).1 = inline[i].1 ∧
        ((refd[i]'(hlen ▸ hi)).2 = inline[i].2 ∨
         ∃ name d, (refd[i]'(hlen ▸ hi)).2 = .str name ∧ inline[i].2 = .dict d ∧ env.rulesSets name = some (.dict d))) :
    validateMapping env t rec ctx (.dict refd) doc upd pre u =
    validateMapping env t rec ctx (.dict inline) doc upd pre u := by
  apply C14_resolved_view
  simp only [resolvedFields, Env.resolveSchema]
  congr 1
  apply List.ext_getElem
  · simp [hlen]
  · intro i h1 h2
    simp only [List.getElem_map]
    have hi : i < inline.length := by simpa using h2
    obtain ⟨hk, hv⟩ := h i hi
    rcases hv with hv | ⟨name, d, hr, hin, hreg⟩
    · rw [hk, hv]
    · rw [hk, hr, hin]
      simp [Env.resolveRulesSet, hreg]

/-- a whole schema given by name (schema registry) -/
theorem C14_schema_reference (env : Env) (t : Tables) (rec : Rec) (ctx : Ctx) (doc : Val) (upd : Bool)
    (pre : List Err) (u : List Key) (name : String) (fields : List (Key × Val))
    (h : env.schemas name = some (.dict fields)) :
    validateMapping env t rec ctx (.str name) doc upd pre u =
    validateMapping env t rec ctx (.dict fields) doc upd pre u := by
  apply C14_resolved_view
  simp [resolvedFields, Env.resolveSchema, h]

/-- **bulk rule sets by reference**: the child schema `{key: name, …}` built for
    keysrules / valuesrules / a list schema / an items member has the resolved view
    of `{key: definition, …}` -/
theorem C14_bulk_reference (env : Env) (keys : List Key) (name : String) (d : List (Key × Val))
    (h : env.rulesSets name = some (.dict d)) :
    resolvedFields env (.dict (keys.map (fun k => (k, Val.str name)))) =
    resolvedFields env (.dict (keys.map (fun k => (k, Val.dict d)))) := by
  simp [resolvedFields, Env.resolveSchema, Env.resolveRulesSet, h, List.map_map, Function.comp_def]

/-- **the rule queue of a field runs on the dereferenced rule set** -/
theorem C14_definitions (env : Env) (t : Tables) (rec : Rec) (ctx : Ctx) (schema doc : Val) (upd : Bool)
    (f : Key) (v : Val) (s : QState) (name : String) (d : List (Key × Val))
    (h : env.rulesSets name = some (.dict d)) :
    validateDefinitions env t rec ctx schema doc upd f (.str name) v s =
    validateDefinitions env t rec ctx schema doc upd f (.dict d) v s := by
  simp [validateDefinitions, Env.resolveRulesSet, h]

/-- **a mapping sub-schema by reference** makes the same child call as the inlined one -/
theorem C14_subschema_reference (env : Env) (name : String) (fields : List (Key × Val))
    (h : env.schemas name = some (.dict fields)) :
    env.resolveSchema (.str name) = env.resolveSchema (.dict fields) := by
  simp [Env.resolveSchema, h]

/-- **schema validation dereferences field definitions** (and a dangling name stays a
    string, which the rule-set type check rejects) -/
theorem C14_acceptance (cls : Cls) (t : Tables) (regsR regsS : String → Option Val) (fuel : Nat)
    (f : Key) (name : String) (d : Val) (rest : List (Key × Val)) (h : regsR name = some d) :
    S.acceptFields cls t regsR regsS fuel ((f, .str name) :: rest) =
    S.acceptFields cls t regsR regsS fuel ((f, d) :: rest) ∨
    (∃ n, d = .str n) := by
  cases d with
  | str n => exact Or.inr ⟨n, rfl⟩
  | _ => left; simp [S.acceptFields, h]

/-! ### recursive definitions (kernel-evaluated) -/

def C14_env : Env :=
  { rx := fun _ _ => none, coerce := Family.coerce, hasCoercer := fun _ => false,
    setter := fun _ _ => .other "", hasSetter := fun _ => false, checker := fun _ _ => none,
    rulesSets := fun n => if n == "nest" then some (.dict [(.s "type", .str "dict"), (.s "valuesrules", .str "nest")]) else none,
    schemas := fun n => if n == "tree" then
      some (.dict [(.s "v", .dict [(.s "type", .str "integer")]),
                   (.s "kids", .dict [(.s "type", .str "list"),
                      (.s "schema", .dict [(.s "type", .str "dict"), (.s "schema", .str "tree")])])]) else none }

/-- a chain of `kids` of the given depth; the node at depth 4 holds a string instead of an integer -/
def C14_doc : Nat → Nat → Val
  | 0, lvl => .dict [(.s "v", if lvl == 4 then .str "bad" else .int lvl)]
  | d + 1, lvl => .dict [(.s "v", if lvl == 4 then .str "bad" else .int lvl),
                         (.s "kids", .seq false [C14_doc d (lvl + 1)])]

def C14_result (depth : Nat) : Option Nat :=
  match validate0 C14_env Extracted.tables (2 * depth + 3) { cfg := {} } (.str "tree") (C14_doc depth 0) false with
  | .ok es => some (flatten es).length
  | .error _ => none

set_option maxRecDepth 100000 in
/-- **self-referential definitions terminate** on documents of depth 0‥6 and report
    exactly the planted error chain (one group error per level down to depth 4) -/
theorem C14_recursive :
    (List.range 7).map C14_result = [some 0, some 0, some 0, some 0, some 9, some 9, some 9] := by
  decide +kernel

end Cerberus
