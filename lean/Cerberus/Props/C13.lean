/-
  C13 — the `errors` property is a pure and complete rendering of the errors.

  Model: `Cerberus.Render` (`BasicErrorHandler.__call__/add/_insert_*/_rewrite_*`
  and the purge of empty dicts) as a function from the recorded error list to
  the pretty tree; a message is abstracted to a tag naming its error.

  Purity (reading twice gives equal results; recorded errors are not altered) is
  a statement about Python object mutation (`deepcopy`); in a functional model
  it holds by construction, so it is *not* claimed as a theorem: it is decided
  by the port and the oracle on the real objects (harness/props/c13.py).
-/
import Cerberus.Proofs.Render
import Cerberus.Proofs.RenderKeys
import Cerberus.Extracted
namespace Cerberus
open Render

/- every error of the forest, at any depth, whatever its flags -/
mutual
def allErrs1 : Err → List Err
  | .mk d s b c r k v i ks => Err.mk d s b c r k v i ks :: allErrs ks
def allErrs : List Err → List Err
  | [] => []
  | e :: es => allErrs1 e ++ allErrs es
end

theorem code_rw {e e' : Err} {off : Nat} {dp : List Key} (h : rw off dp e = .ok e') : e'.code = e.code := by
  obtain ⟨d, s, b, c, r, k, v, i, ks⟩ := e
  simp only [rw] at h
  split at h
  · obtain ⟨ks', _, h2⟩ := bind_ok h
    simp only [pure, Except.pure, Except.ok.injEq] at h2
    subst h2; rfl
  · split at h
    · obtain ⟨ks', _, h2⟩ := bind_ok h
      simp only [pure, Except.pure, Except.ok.injEq] at h2
      subst h2; rfl
    · simp only [pure, Except.pure, Except.ok.injEq] at h
      subst h; rfl

theorem nMsg_of_flags (e : Err) :
    nMsg e = if e.isLogic then 1 + nMsgL e.kids else if e.isGroup then nMsgL e.kids else 1 := by
  obtain ⟨d, s, b, c, r, k, v, i, ks⟩ := e
  simp [nMsg, Err.kids]

/-- one `add(error)`: the number of messages grows by what the error contributes -/
theorem count_addErr (hasMsg : Nat → Bool) (t t' : PT) (e : Err)
    (h : addErr hasMsg t e = .ok t')
    (hm : e.isLogic = false → e.isGroup = false → hasMsg e.code = true) :
    t'.count = t.count + nMsg e := by
  simp only [addErr] at h
  obtain ⟨e', h1, h2⟩ := bind_ok h
  have hc := code_rw h1
  have hn := nMsg_rw e 0 e.dp e' h1
  have hl : e'.isLogic = e.isLogic := by simp [Err.isLogic, hc]
  have hg : e'.isGroup = e.isGroup := by simp [Err.isGroup, hc]
  rw [← hn, nMsg_of_flags]
  by_cases l : e.isLogic = true
  · simp only [hl, l, if_true] at h2 ⊢
    have := count_insLogic e' t t' h2
    omega
  · have l' : e.isLogic = false := by simpa using l
    simp only [hl, l', Bool.false_eq_true, if_false] at h2 ⊢
    by_cases g : e.isGroup = true
    · simp only [hg, g, if_true] at h2 ⊢
      exact count_insGroup e' t t' h2
    · have g' : e.isGroup = false := by simpa using g
      have := hm l' g'
      simp only [hg, g', Bool.false_eq_true, if_false, hc, this, if_true] at h2 ⊢
      exact count_insertAt h2

/-- **nothing dropped, nothing duplicated**: after rendering, the tree holds
    exactly one message per non-group error and per *of error of the forest
    (counted by `nMsgL`, see `C13_count_flatten`). -/
theorem C13_count (hasMsg : Nat → Bool) :
    ∀ (es : List Err) (t t' : PT), render hasMsg es t = .ok t' →
      (∀ e ∈ es, e.isLogic = false → e.isGroup = false → hasMsg e.code = true) →
      t'.count = t.count + nMsgL es
  | [], t, t', h, _ => by
    simp only [render, pure, Except.pure, Except.ok.injEq] at h
    subst h; simp [nMsgL]
  | e :: es, t, t', h, hm => by
    simp only [render] at h
    obtain ⟨t1, h1, h2⟩ := bind_ok h
    have c1 := count_addErr hasMsg t t1 e h1 (hm e (by simp))
    have c2 := C13_count hasMsg es t1 t' h2 (fun x hx => hm x (by simp [hx]))
    simp only [nMsgL]
    omega

mutual
theorem nMsg_flat :
    ∀ (e : Err), (∀ x ∈ allErrs1 e, x.isLogic = true → x.isGroup = true) →
      nMsg e = (e.flat.filter (fun x => !x.isGroup)).length + (e.flat.filter (·.isLogic)).length
  | .mk d s b c r k v i ks, h => by
    have hself := h (Err.mk d s b c r k v i ks) (by simp [allErrs1])
    have hk := nMsgL_flat ks (fun x hx => h x (by simp [allErrs1, hx]))
    simp only [nMsg, Err.flat]
    by_cases l : (Err.mk d s b c r k v i ks).isLogic = true
    · have g := hself l
      simp [l, g, hk]; omega
    · by_cases g : (Err.mk d s b c r k v i ks).isGroup = true
      · simp [l, g, hk]
      · simp [l, g]
theorem nMsgL_flat :
    ∀ (es : List Err), (∀ x ∈ allErrs es, x.isLogic = true → x.isGroup = true) →
      nMsgL es = ((flatten es).filter (fun x => !x.isGroup)).length + ((flatten es).filter (·.isLogic)).length
  | [], _ => by simp [nMsgL, flatten]
  | e :: es, h => by
    simp only [nMsgL, flatten, List.filter_append, List.length_append]
    rw [nMsg_flat e (fun x hx => h x (by simp [allErrs, hx])),
        nMsgL_flat es (fun x hx => h x (by simp [allErrs, hx]))]
    omega
end

/-- the count of `C13_count`, in the words of the property: number of
    non-group errors plus number of *of errors among the reported errors and
    all their nested child errors -/
theorem C13_count_flatten (hasMsg : Nat → Bool) (es : List Err) (t' : PT)
    (h : render hasMsg es PT.empty = .ok t')
    (hm : ∀ e ∈ es, e.isLogic = false → e.isGroup = false → hasMsg e.code = true)
    (hlg : ∀ x ∈ allErrs es, x.isLogic = true → x.isGroup = true) :
    t'.count = ((flatten es).filter (fun x => !x.isGroup)).length
               + ((flatten es).filter (·.isLogic)).length := by
  have := C13_count hasMsg es PT.empty t' h hm
  rw [nMsgL_flat es hlg] at this
  simpa [PT.empty, PT.count, PT.countL] using this

theorem count_zero_of_isEmpty (t : PT) (h : t.isEmpty = true) : t.count = 0 := by
  obtain ⟨ents⟩ := t
  cases ents with
  | nil => rfl
  | cons _ _ => simp [PT.isEmpty, PT.ents] at h

/-- **empty iff there are no errors** (for forests in which every reported
    error contributes at least one message: group errors carry children) -/
theorem C13_empty (hasMsg : Nat → Bool) (es : List Err) (t' : PT)
    (h : render hasMsg es PT.empty = .ok t')
    (hm : ∀ e ∈ es, e.isLogic = false → e.isGroup = false → hasMsg e.code = true)
    (hpos : ∀ e ∈ es, 1 ≤ nMsg e) :
    t'.isEmpty = es.isEmpty := by
  cases es with
  | nil =>
    simp only [render, pure, Except.pure, Except.ok.injEq] at h
    subst h; rfl
  | cons e es =>
    have c := C13_count hasMsg (e :: es) PT.empty t' h hm
    have p := hpos e (by simp)
    simp only [nMsgL] at c
    cases hh : t'.isEmpty with
    | false => rfl
    | true =>
      have := count_zero_of_isEmpty t' hh
      omega

/-- **top-level keys.**  The keys of the rendering are exactly the first document-path
    elements of the recorded errors that yield a message (`topMsgs`: an *of error always,
    a group error through its children, any other error when the handler has a template
    for its code) — no other key appears, none is missing. -/
theorem C13_keys (hasMsg : Nat → Bool) (es : List Err) (t' : PT)
    (h : render hasMsg es PT.empty = .ok t') (hne : ∀ e, e ∈ es → e.dp ≠ []) :
    ∀ k, k ∈ t'.keys ↔ ∃ e, e ∈ es ∧ 0 < topMsgs hasMsg e ∧ e.dp.head? = some k := by
  intro k
  have := keys_render hasMsg es PT.empty t' h hne k
  simpa [PT.keys, PT.empty, PT.ents] using this

/-- … in the words of the property, when every recorded error yields a message (the
    handler knows every code, group errors have children): the top-level keys are exactly
    the first document-path elements of the recorded errors. -/
theorem C13_keys_all (hasMsg : Nat → Bool) (es : List Err) (t' : PT)
    (h : render hasMsg es PT.empty = .ok t') (hne : ∀ e, e ∈ es → e.dp ≠ [])
    (hall : ∀ e, e ∈ es → 0 < topMsgs hasMsg e) :
    ∀ k, k ∈ t'.keys ↔ ∃ e, e ∈ es ∧ e.dp.head? = some k := by
  intro k
  rw [C13_keys hasMsg es t' h hne k]
  constructor
  · rintro ⟨e, he, _, hk⟩; exact ⟨e, he, hk⟩
  · rintro ⟨e, he, hk⟩; exact ⟨e, he, hall e he, hk⟩

/-- every error definition that the validator files directly (it has a rule, or
    is CUSTOM / UNKNOWN_FIELD) and that is not a group error has a message
    template — checked on the tables extracted from the live code -/
theorem C13_messages :
    ∀ d ∈ Extracted.errorDefs,
      (d.2.2.isSome || d.2.1 == 0 || d.2.1 == 3) = true → (d.2.1 &&& 0x80 == 0) = true →
        Extracted.messageCodes.contains d.2.1 = true := by
  decide

/-- in the extracted error definitions every *of code is also a group code -/
theorem C13_codes :
    ∀ d ∈ Extracted.errorDefs, (d.2.1 &&& 0x10 != 0) = true → d.2.2.isSome = true →
      (d.2.1 &&& 0x80 != 0) = true := by
  decide

/-! ### non-vacuity -/
def C13_sample : List Err :=
  [ .mk [.s "a"] [.s "a", .s "anyof"] false 0x93 (some "anyof") .none .none [.int 0, .int 2]
      [ .mk [.s "a"] [.s "a", .s "anyof", .i 0, .s "type"] false 0x24 (some "type") .none .none [] [],
        .mk [.s "a"] [.s "a", .s "anyof", .i 1, .s "schema"] false 0x81 (some "schema") .none .none []
          [ .mk [.s "a", .s "x"] [.s "a", .s "anyof", .i 1, .s "schema", .s "x", .s "min"] false 0x42 (some "min")
              .none .none [] [] ] ],
    .mk [.s "b"] [] false 0x03 none .none .none [] [] ]

example : (match render (fun c => Extracted.messageCodes.contains c) C13_sample PT.empty with
           | .ok t => t.count | .error _ => 0) = 4 := by decide
example : ∀ x ∈ allErrs C13_sample, x.isLogic = true → x.isGroup = true := by decide
example : ∀ e ∈ C13_sample, 1 ≤ nMsg e := by decide
example : (match render (fun c => Extracted.messageCodes.contains c) C13_sample PT.empty with
           | .ok t => t.keys | .error _ => []) = [.s "a", .s "b"] := by decide
example : (∀ e, e ∈ C13_sample → e.dp ≠ []) ∧
    (∀ e, e ∈ C13_sample → 0 < topMsgs (fun c => Extracted.messageCodes.contains c) e) := by decide

end Cerberus
