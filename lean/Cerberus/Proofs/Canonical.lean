/-
  The three rewriting passes of `expand` on one rule set, one after the other: the result has no rule name with a
  space, no `<operator>_<rule>` shorthand and no deprecated rule name, and it is a fixed point of the three passes.
-/
import Cerberus.Proofs.Logical
namespace Cerberus
namespace S

/-- the passes on one rule set (no recursion into constraints); `none` = a pass raised -/
def canonRules (rules : List (Key × Val)) : Option (List (Key × Val)) :=
  let b := expandLogicalRules (normalizeNames rules)
  if b.2 then none else renameRules b.1

theorem ofStep_keys (st : List (Key × Val) × Bool) (n : String) :
    ∀ q, q ∈ Val.dkeys (ofStep st n).1 → q ∈ Val.dkeys st.1 ∨ ∃ op, op ∈ ofPrefixes ∧ q = .s op := by
  intro q hq
  unfold ofStep at hq
  split at hq
  · exact Or.inl hq
  · split at hq
    · rename_i op rule c hsp _
      have hop : op ∈ ofPrefixes := splitOfChars_mem n.toList ofPrefixes op rule hsp
      split at hq
      · rcases dkeys_dset_mem _ _ _ _ hq with h | h
        · exact Or.inl h
        · exact Or.inr ⟨op, hop, h⟩
      · have h1 := dkeys_ddel_sub _ _ q hq
        rcases dkeys_dset_mem _ _ _ _ h1 with h | h
        · rcases dkeys_dset_mem _ _ _ _ h with h' | h'
          · exact Or.inl h'
          · exact Or.inr ⟨op, hop, h'⟩
        · exact Or.inr ⟨op, hop, h⟩
    · exact Or.inl hq

theorem foldl_ofStep_keys (todo : List String) : ∀ (st : List (Key × Val) × Bool),
    ∀ q, q ∈ Val.dkeys (todo.foldl ofStep st).1 → q ∈ Val.dkeys st.1 ∨ ∃ op, op ∈ ofPrefixes ∧ q = .s op := by
  induction todo with
  | nil => intro st q hq; exact Or.inl hq
  | cons n rest ih =>
    intro st q hq
    rcases ih (ofStep st n) q hq with h | h
    · exact ofStep_keys st n q h
    · exact Or.inr h

theorem expandLogicalRules_keys (rules : List (Key × Val)) :
    ∀ q, q ∈ Val.dkeys (expandLogicalRules rules).1 → q ∈ Val.dkeys rules ∨ ∃ op, op ∈ ofPrefixes ∧ q = .s op := by
  rw [expandLogicalRules_eq]; exact foldl_ofStep_keys _ _

theorem renameStep_keys (acc out : List (Key × Val)) (p : String × String) (h : renameStep acc p = some out) :
    ∀ q, q ∈ Val.dkeys out → q ∈ Val.dkeys acc ∨ q = .s p.2 := by
  intro q hq
  unfold renameStep at h
  split at h
  · cases h; exact Or.inl hq
  · split at h
    · cases h
    · cases h
      exact dkeys_dset_mem _ _ _ _ (dkeys_ddel_sub _ _ q hq)

theorem renameRules_keys (rules out : List (Key × Val)) (h : renameRules rules = some out) :
    ∀ q, q ∈ Val.dkeys out → q ∈ Val.dkeys rules ∨ q ∈ [Key.s "keysrules", .s "check_with", .s "valuesrules"] := by
  rw [renameRules_steps] at h
  cases h1 : renameStep rules ("keyschema", "keysrules") with
  | none => simp [h1] at h
  | some a =>
    cases h2 : renameStep a ("validator", "check_with") with
    | none => simp [h1, h2] at h
    | some b =>
      simp only [h1, h2, Option.bind] at h
      intro q hq
      rcases renameStep_keys b out _ h q hq with hb | hb
      · rcases renameStep_keys a b _ h2 q hb with ha | ha
        · rcases renameStep_keys rules a _ h1 q ha with hr | hr
          · exact Or.inl hr
          · exact Or.inr (by simp [hr])
        · exact Or.inr (by simp [ha])
      · exact Or.inr (by simp [hb])

/-- the canonical form of a rule set -/
structure CanonicalRules (out : List (Key × Val)) : Prop where
  nodup : (Val.dkeys out).Nodup
  noSpace : ∀ q, q ∈ Val.dkeys out → spacedKey q = false
  noShorthand : ∀ q, q ∈ Val.dkeys out → ofKey q = false
  noDeprecated : Val.dlookup out (.s "keyschema") = Option.none ∧ Val.dlookup out (.s "validator") = Option.none ∧
    Val.dlookup out (.s "valueschema") = Option.none

theorem spaced_of_prefix (op : String) (h : op ∈ ofPrefixes) : spacedKey (.s op) = false ∧ ofKey (.s op) = false := by
  simp only [ofPrefixes, List.mem_cons, List.mem_nil_iff, or_false] at h
  rcases h with e | e | e | e <;> subst e <;> exact ⟨by decide, by decide⟩

/-- **the three passes produce a canonical rule set** -/
theorem canonRules_canonical (rules out : List (Key × Val)) (hnd : (Val.dkeys rules).Nodup)
    (h : canonRules rules = some out) : CanonicalRules out := by
  unfold canonRules at h
  simp only at h
  split at h
  · cases h
  · rename_i hflag
    have hflag' : (expandLogicalRules (normalizeNames rules)).2 = false := by simpa using hflag
    obtain ⟨n1, n2⟩ := normalizeNames_complete rules hnd
    obtain ⟨l1, l2⟩ := expandLogicalRules_complete _ n1 hflag'
    obtain ⟨r1, r2, r3, r4, _⟩ := renameRules_complete _ out l1 h
    have hkeys := renameRules_keys _ out h
    have lkeys := expandLogicalRules_keys (normalizeNames rules)
    refine ⟨r4, ?_, ?_, r1, r2, r3⟩
    · intro q hq
      rcases hkeys q hq with hq1 | hq1
      · rcases lkeys q hq1 with hq2 | ⟨op, hop, e⟩
        · exact n2 q hq2
        · subst e; exact (spaced_of_prefix op hop).1
      · simp only [List.mem_cons, List.mem_nil_iff, or_false] at hq1
        rcases hq1 with e | e | e <;> subst e <;> decide
    · intro q hq
      rcases hkeys q hq with hq1 | hq1
      · exact l2 q hq1
      · simp only [List.mem_cons, List.mem_nil_iff, or_false] at hq1
        rcases hq1 with e | e | e <;> subst e <;> decide

/-- **a canonical rule set is a fixed point of the three passes** -/
theorem canonRules_fixed (out : List (Key × Val)) (hc : CanonicalRules out) : canonRules out = some out := by
  have h1 : normalizeNames out = out := by
    rw [normalizeNames_eq]
    generalize hL : List.filterMap _ out = L
    have : L = [] := by
      rw [← hL, List.filterMap_eq_nil_iff]
      intro kv hkv
      have hq := hc.noSpace kv.1 (List.mem_map.mpr ⟨kv, hkv, rfl⟩)
      cases hk : kv.1 with
      | i _ => rfl
      | s n => simp only [hk, spacedKey] at hq; simp [hq]
    rw [this]; rfl
  have h2 : expandLogicalRules out = (out, false) := by
    rw [expandLogicalRules_eq]
    generalize hL : List.filterMap _ out = L
    have : L = [] := by
      rw [← hL, List.filterMap_eq_nil_iff]
      intro kv hkv
      have hq := hc.noShorthand kv.1 (List.mem_map.mpr ⟨kv, hkv, rfl⟩)
      cases hk : kv.1 with
      | i _ => rfl
      | s n => simp only [hk, ofKey] at hq; simp [hq]
    rw [this]; rfl
  unfold canonRules
  simp only [h1, h2, Bool.false_eq_true, if_false]
  rw [renameRules_steps, renameStep_absent out _ hc.noDeprecated.1]
  simp only [Option.bind]
  rw [renameStep_absent out _ hc.noDeprecated.2.1]
  simp only [Option.bind]
  exact renameStep_absent out _ hc.noDeprecated.2.2

/-- **idempotence**: the passes applied to their own result change nothing -/
theorem canonRules_idempotent (rules out : List (Key × Val)) (hnd : (Val.dkeys rules).Nodup)
    (h : canonRules rules = some out) : canonRules out = some out :=
  canonRules_fixed out (canonRules_canonical rules out hnd h)

end S
end Cerberus
