/-
  The work list of default setters computes the least fixpoint of the dependency
  relation, for every order of the pending fields.

  `DepSetter`: a setter reads the fields `deps f` of the mapping (`document[dep]`, a
  missing one raises `KeyError`) and computes a value from them.  `Reach` is the least
  fixpoint: the fields present at the start, and every pending field all of whose
  inputs are reachable.
-/
import Cerberus.Proofs.Setters
namespace Cerberus
namespace Setters

structure DepSetter where
  deps : Key → List Key
  val : Key → List (Key × Val) → Val

def DepSetter.setter (d : DepSetter) (f : Key) (m : List (Key × Val)) : SetterResult :=
  if (d.deps f).all (fun g => Val.dhas m g) then .ok (d.val f m) else .keyError

/-- the least fixpoint: obtainable fields -/
inductive Reach (d : DepSetter) (m0 : List (Key × Val)) (p0 : List Key) : Key → Prop
  | present {k : Key} : Val.dhas m0 k = true → Reach d m0 p0 k
  | step {f : Key} : f ∈ p0 → (∀ g, g ∈ d.deps f → Reach d m0 p0 g) → Reach d m0 p0 f

theorem dlookup_dset_self' (m : List (Key × Val)) (k : Key) (v : Val) :
    Val.dlookup (Val.dset m k v) k = some v := by
  induction m with
  | nil => simp [Val.dset, Val.dlookup]
  | cons hd tl ih =>
    obtain ⟨k', v'⟩ := hd
    simp only [Val.dset]
    by_cases h : k' = k
    · simp [h, Val.dlookup]
    · simp [h, Val.dlookup, ih]

theorem dlookup_dset_other' (m : List (Key × Val)) (k q : Key) (v : Val) (h : q ≠ k) :
    Val.dlookup (Val.dset m k v) q = Val.dlookup m q := by
  induction m with
  | nil =>
    have : ¬ k = q := fun e => h e.symm
    simp [Val.dset, Val.dlookup, this]
  | cons hd tl ih =>
    obtain ⟨k', v'⟩ := hd
    simp only [Val.dset]
    by_cases h1 : k' = k
    · subst h1
      have : ¬ k' = q := fun e => h e.symm
      simp [Val.dlookup, this]
    · by_cases h2 : k' = q
      · subst h2
        simp [h1, Val.dlookup]
      · simp [h1, h2, Val.dlookup, ih]

theorem dhas_dset (m : List (Key × Val)) (k q : Key) (v : Val) :
    Val.dhas (Val.dset m k v) q = (decide (q = k) || Val.dhas m q) := by
  by_cases h : q = k
  · subst h; simp [Val.dhas, dlookup_dset_self']
  · simp [Val.dhas, dlookup_dset_other' m k q v h, h]

/-- the invariant of the loop; `start`, `c`, `base` are ghosts: the pending tuple when the
    current run of `KeyError`s began, how many there were since, and whether that tuple
    itself was recorded (it is after a successful setter, it is not at the very start) -/
structure LInv (d : DepSetter) (m0 : List (Key × Val)) (p0 : List Key) (s : SState)
    (start : List Key) (c : Nat) (base : Bool) : Prop where
  pend : s.pending = start.rotate c
  nodup : start.Nodup
  knownSame : ∀ q, q ∈ s.known → q.length = start.length →
    ∃ j, j ≤ c ∧ (base = true ∨ 1 ≤ j) ∧ q = start.rotate j
  knownLen : ∀ q, q ∈ s.known → start.length ≤ q.length
  tried : ∀ j, j < c → ∀ f, (start.rotate j).head? = some f → d.setter f s.mapping = .keyError
  nofail : s.failed = []
  sound : ∀ k, Val.dhas s.mapping k = true → Reach d m0 p0 k
  part : ∀ f, f ∈ p0 → f ∈ s.pending ∨ Val.dhas s.mapping f = true
  pendIn : ∀ f, f ∈ s.pending → f ∈ p0 ∧ Val.dhas s.mapping f = false
  keep : ∀ k, Val.dhas m0 k = true → Val.dhas s.mapping k = true

structure Final (d : DepSetter) (m0 : List (Key × Val)) (p0 : List Key) (s' : SState) : Prop where
  resolved : ∀ f, f ∈ p0 → (Val.dhas s'.mapping f = true ↔ Reach d m0 p0 f)
  failed : ∀ f, f ∈ p0 → (f ∈ s'.failed ↔ ¬ Reach d m0 p0 f)
  keep : ∀ k, Val.dhas m0 k = true → Val.dhas s'.mapping k = true
  sound : ∀ k, Val.dhas s'.mapping k = true → Reach d m0 p0 k
  done : s'.pending = []
  failedIn : ∀ f, f ∈ s'.failed → f ∈ p0

theorem setter_ok_of_all (d : DepSetter) (f : Key) (m : List (Key × Val))
    (h : ∀ g, g ∈ d.deps f → Val.dhas m g = true) : d.setter f m = .ok (d.val f m) := by
  unfold DepSetter.setter
  have : (d.deps f).all (fun g => Val.dhas m g) = true := by
    simp only [List.all_eq_true]; exact h
  simp [this]

/-- the loop ended through the cycle check -/
theorem final_of_break (d : DepSetter) (m0 : List (Key × Val)) (p0 : List Key) (s : SState)
    (start : List Key) (c : Nat) (base : Bool) (f : Key) (rest : List Key)
    (inv : LInv d m0 p0 s start c base) (hp : s.pending = f :: rest)
    (hke : d.setter f s.mapping = .keyError) (hmem : rest ++ [f] ∈ s.known) :
    Final d m0 p0 { pending := [], mapping := s.mapping, failed := s.failed ++ (rest ++ [f]), known := s.known,
                    steps := s.steps + 1 } := by
  have hrot : start.rotate c = f :: rest := by rw [← inv.pend, hp]
  have hne : start ≠ [] := by
    intro h; rw [h, List.rotate_nil] at hrot; cases hrot
  have hlen : (f :: rest).length = start.length := by rw [← hrot, List.length_rotate]
  have hnext : rest ++ [f] = start.rotate (c + 1) := by
    rw [← List.rotate_rotate, hrot, rotate_one_cons]
  -- the repeated tuple is an earlier rotation: the run of KeyErrors went once around
  obtain ⟨j, hj, _, hq⟩ := inv.knownSame _ hmem (by simpa using hlen)
  have hmod := inv.nodup.rotate_congr hne _ _ (hq.symm.trans hnext).symm
  have hn : start.length ≤ c + 1 := by
    by_contra hlt
    have h1 : c + 1 < start.length := by omega
    have h2 : j < start.length := by omega
    rw [Nat.mod_eq_of_lt h1, Nat.mod_eq_of_lt h2] at hmod
    omega
  -- hence every pending field was tried on the current mapping
  have allTried : ∀ x, x ∈ start → d.setter x s.mapping = .keyError := by
    intro x hx
    obtain ⟨i, hi, rfl⟩ := List.getElem_of_mem hx
    have hic : i ≤ c := by omega
    rcases Nat.lt_or_ge i c with h | h
    · exact inv.tried i h _ (by rw [List.head?_rotate hi]; simp [hi])
    · have : i = c := by omega
      subst this
      have hh : (start.rotate i).head? = some start[i] := by rw [List.head?_rotate hi]; simp [hi]
      rw [hrot] at hh
      simp only [List.head?_cons, Option.some.injEq] at hh
      rw [← hh]; exact hke
  have closed : ∀ k, Reach d m0 p0 k → Val.dhas s.mapping k = true := by
    intro k hk
    induction hk with
    | present h => exact inv.keep _ h
    | @step f' hin _ ih =>
      rcases inv.part f' hin with hpend | hhas
      · have hx : f' ∈ start := by
          rw [inv.pend] at hpend; exact List.mem_rotate.mp hpend
        have h1 := allTried f' hx
        rw [setter_ok_of_all d f' s.mapping ih] at h1
        cases h1
      · exact hhas
  have hperm : ∀ x, x ∈ rest ++ [f] ↔ x ∈ s.pending := by
    intro x; rw [hp]; simp [or_comm]
  refine ⟨fun f' _ => ⟨inv.sound f', closed f'⟩, fun f' hin => ?_, inv.keep, inv.sound, rfl, fun f' hf => ?_⟩
  swap
  · simp only [inv.nofail, List.nil_append] at hf
    exact (inv.pendIn f' ((hperm f').mp hf)).1
  simp only [inv.nofail, List.nil_append]
  rw [hperm]
  constructor
  · intro hpend hr
    have := (inv.pendIn f' hpend).2
    rw [closed f' hr] at this
    cases this
  · intro hnr
    rcases inv.part f' hin with h | h
    · exact h
    · exact absurd (inv.sound f' h) hnr

theorem run_final (d : DepSetter) (m0 : List (Key × Val)) (p0 : List Key) :
    ∀ (fuel : Nat) (s : SState) (start : List Key) (c : Nat) (base : Bool) (s' : SState),
      LInv d m0 p0 s start c base → run d.setter fuel s = some s' → Final d m0 p0 s' := by
  intro fuel
  induction fuel with
  | zero =>
    intro s start c base s' inv hrun
    cases hp : s.pending with
    | nil =>
      rw [run_nil d.setter 0 s hp] at hrun
      cases hrun
      refine ⟨fun f hin => ⟨inv.sound f, fun _ => ?_⟩, fun f hin => ?_, inv.keep, inv.sound, hp,
              fun f hf => by rw [inv.nofail] at hf; cases hf⟩
      · rcases inv.part f hin with h | h
        · rw [hp] at h; cases h
        · exact h
      · rw [inv.nofail]
        constructor
        · intro h; cases h
        · intro hnr
          rcases inv.part f hin with h | h
          · rw [hp] at h; cases h
          · exact absurd (inv.sound f h) hnr
    | cons f rest =>
      rw [run] at hrun
      simp [hp] at hrun
  | succ n ih =>
    intro s start c base s' inv hrun
    cases hp : s.pending with
    | nil =>
      rw [run_nil d.setter (n + 1) s hp] at hrun
      cases hrun
      refine ⟨fun f hin => ⟨inv.sound f, fun _ => ?_⟩, fun f hin => ?_, inv.keep, inv.sound, hp,
              fun f hf => by rw [inv.nofail] at hf; cases hf⟩
      · rcases inv.part f hin with h | h
        · rw [hp] at h; cases h
        · exact h
      · rw [inv.nofail]
        constructor
        · intro h; cases h
        · intro hnr
          rcases inv.part f hin with h | h
          · rw [hp] at h; cases h
          · exact absurd (inv.sound f h) hnr
    | cons f rest =>
      have hrot : start.rotate c = f :: rest := by rw [← inv.pend, hp]
      have hlen : rest.length + 1 = start.length := by
        have := congrArg List.length hrot
        rw [List.length_rotate] at this
        simpa using this.symm
      have hnd : (f :: rest).Nodup := by rw [← hrot]; exact List.nodup_rotate.mpr inv.nodup
      rw [run] at hrun
      simp only [hp, iter] at hrun
      by_cases hall : (d.deps f).all (fun g => Val.dhas s.mapping g) = true
      · -- the setter of `f` succeeds: `f` leaves the pending list
        have hset : d.setter f s.mapping = .ok (d.val f s.mapping) := by simp [DepSetter.setter, hall]
        have hnot : s.known.contains rest = false := by
          by_contra hc
          have hm : rest ∈ s.known := by simpa using hc
          have := inv.knownLen _ hm
          omega
        simp only [apply1, hset, record, hnot, Bool.false_eq_true, if_false] at hrun
        refine ih _ rest 0 true s' ?_ hrun
        have hdeps : ∀ g, g ∈ d.deps f → Val.dhas s.mapping g = true := by
          simpa [List.all_eq_true] using hall
        constructor
        · simp
        · exact (List.nodup_cons.mp hnd).2
        · intro q hq hql
          simp only [List.mem_cons] at hq
          rcases hq with rfl | hq
          · exact ⟨0, Nat.le_refl _, Or.inl rfl, by simp⟩
          · have := inv.knownLen _ hq; omega
        · intro q hq
          simp only [List.mem_cons] at hq
          rcases hq with rfl | hq
          · exact Nat.le_refl _
          · have := inv.knownLen _ hq; omega
        · intro j hj; cases hj
        · exact inv.nofail
        · intro k hk
          simp only [dhas_dset, Bool.or_eq_true, decide_eq_true_eq] at hk
          rcases hk with rfl | hk
          · exact Reach.step (inv.pendIn k (by rw [hp]; simp)).1 (fun g hg => inv.sound g (hdeps g hg))
          · exact inv.sound k hk
        · intro f' hin
          simp only [dhas_dset, Bool.or_eq_true, decide_eq_true_eq]
          rcases inv.part f' hin with h | h
          · rw [hp] at h
            simp only [List.mem_cons] at h
            rcases h with rfl | h
            · exact Or.inr (Or.inl rfl)
            · exact Or.inl h
          · exact Or.inr (Or.inr h)
        · intro f' hin
          have hm : f' ∈ s.pending := by rw [hp]; exact List.mem_cons_of_mem _ hin
          refine ⟨(inv.pendIn f' hm).1, ?_⟩
          have hne : f' ≠ f := by
            intro e; subst e
            exact (List.nodup_cons.mp hnd).1 hin
          simp [dhas_dset, hne, (inv.pendIn f' hm).2]
        · intro k hk
          simp [dhas_dset, inv.keep k hk]
      · -- `KeyError`: `f` is queued again
        have hset : d.setter f s.mapping = .keyError := by simp [DepSetter.setter, hall]
        simp only [apply1, hset, record] at hrun
        by_cases hc : s.known.contains (rest ++ [f]) = true
        · simp only [hc, if_true, Option.some.injEq] at hrun
          subst hrun
          exact final_of_break d m0 p0 s start c base f rest inv hp hset (by simpa using hc)
        · simp only [hc, Bool.false_eq_true, if_false] at hrun
          refine ih _ start (c + 1) base s' ?_ hrun
          have hnext : rest ++ [f] = start.rotate (c + 1) := by
            rw [← List.rotate_rotate, hrot, rotate_one_cons]
          constructor
          · exact hnext
          · exact inv.nodup
          · intro q hq hql
            simp only [List.mem_cons] at hq
            rcases hq with rfl | hq
            · exact ⟨c + 1, Nat.le_refl _, Or.inr (by omega), hnext⟩
            · obtain ⟨j, hj, hb, hqe⟩ := inv.knownSame q hq hql
              exact ⟨j, by omega, hb, hqe⟩
          · intro q hq
            simp only [List.mem_cons] at hq
            rcases hq with rfl | hq
            · simp; omega
            · exact inv.knownLen q hq
          · intro j hj f' hh
            rcases Nat.lt_or_ge j c with h | h
            · exact inv.tried j h f' hh
            · have : j = c := by omega
              subst this
              rw [hrot] at hh
              simp only [List.head?_cons, Option.some.injEq] at hh
              rw [← hh]; exact hset
          · exact inv.nofail
          · exact inv.sound
          · intro f' hin
            rcases inv.part f' hin with h | h
            · left
              rw [hp] at h
              simp only [List.mem_cons] at h
              simp only [List.mem_append, List.mem_singleton]
              rcases h with rfl | h
              · exact Or.inr rfl
              · exact Or.inl h
            · exact Or.inr h
          · intro f' hin
            apply inv.pendIn f'
            rw [hp]
            simp only [List.mem_append, List.mem_singleton] at hin
            rcases hin with h | rfl
            · exact List.mem_cons_of_mem _ h
            · simp
          · exact inv.keep

theorem init_inv (d : DepSetter) (m0 : List (Key × Val)) (p0 : List Key)
    (hnd : p0.Nodup) (hmiss : ∀ f, f ∈ p0 → Val.dhas m0 f = false) :
    LInv d m0 p0 (init p0 m0) p0 0 false := by
  constructor
  · simp [init]
  · exact hnd
  · intro q hq; simp [init] at hq
  · intro q hq; simp [init] at hq
  · intro j hj; cases hj
  · rfl
  · intro k hk; exact Reach.present hk
  · intro f hf; exact Or.inl hf
  · intro f hf; exact ⟨hf, hmiss f hf⟩
  · intro k hk; exact hk

end Setters
end Cerberus
