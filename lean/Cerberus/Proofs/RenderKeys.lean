/-
  The top-level keys of the rendered error tree: every `add(error)` contributes at most
  one key — the first element of the error's document path — and contributes it exactly
  when the error yields at least one message.
-/
import Cerberus.Proofs.Render
namespace Cerberus
namespace Render

def addKey (ks : List Key) (k : Key) : List Key := if k ∈ ks then ks else ks ++ [k]

theorem mem_addKey (ks : List Key) (k x : Key) : x ∈ addKey ks k ↔ x ∈ ks ∨ x = k := by
  unfold addKey
  split
  · constructor
    · intro h; exact Or.inl h
    · rintro (h | rfl)
      · exact h
      · assumption
  · simp

theorem addKey_idem (ks : List Key) (k : Key) : addKey (addKey ks k) k = addKey ks k := by
  have : k ∈ addKey ks k := (mem_addKey ks k k).mpr (Or.inr rfl)
  show (if k ∈ addKey ks k then addKey ks k else addKey ks k ++ [k]) = addKey ks k
  rw [if_pos this]

theorem nMsg_flags (e : Err) :
    nMsg e = if e.isLogic then 1 + nMsgL e.kids else if e.isGroup then nMsgL e.kids else 1 := by
  obtain ⟨d, s, b, c, r, k, v, i, ks⟩ := e
  simp [nMsg, Err.kids]

/- every error that will be inserted (down the *of / group structure) has a document path
   starting with `k0` -/
mutual
def headIs (k0 : Key) : Err → Prop
  | .mk d s b c r k v i ks =>
      d.head? = some k0 ∧
      (((Err.mk d s b c r k v i ks).isLogic = true ∨ (Err.mk d s b c r k v i ks).isGroup = true) → headIsL k0 ks)
def headIsL (k0 : Key) : List Err → Prop
  | [] => True
  | k :: ks => headIs k0 k ∧ headIsL k0 ks
end

theorem headIsL_append (k0 : Key) (a b : List Err) : headIsL k0 (a ++ b) ↔ headIsL k0 a ∧ headIsL k0 b := by
  induction a with
  | nil => simp [headIsL]
  | cons x xs ih => simp [headIsL, ih, and_assoc]

theorem headIsL_filter (k0 : Key) (p : Err → Bool) (l : List Err) (h : headIsL k0 l) : headIsL k0 (l.filter p) := by
  induction l with
  | nil => simpa using h
  | cons x xs ih =>
    simp only [headIsL] at h
    by_cases hp : p x = true
    · simp only [List.filter_cons, hp, if_true, headIsL]; exact ⟨h.1, ih h.2⟩
    · simp only [List.filter_cons, hp, Bool.false_eq_true, if_false]; exact ih h.2

theorem headIsL_regroupF (k0 : Key) (key : Err → Option Key) :
    ∀ (n : Nat) (ks : List Err), headIsL k0 ks → headIsL k0 (regroupF key n ks)
  | 0, _, _ => by simp [regroupF, headIsL]
  | n + 1, [], _ => by simp [regroupF, headIsL]
  | n + 1, k :: ks, h => by
    simp only [headIsL] at h
    simp only [regroupF]
    rw [headIsL_append]
    refine ⟨?_, headIsL_regroupF k0 key n _ (headIsL_filter k0 _ ks h.2)⟩
    simp only [headIsL]
    exact ⟨h.1, headIsL_filter k0 _ ks h.2⟩

theorem head_append (pdp x : List Key) (k0 : Key) (h : pdp.head? = some k0) : (pdp ++ x).head? = some k0 := by
  cases pdp with
  | nil => simp at h
  | cons a r => simpa using h

mutual
theorem headIs_rw :
    ∀ (e : Err) (off : Nat) (dp : List Key) (e' : Err) (k0 : Key),
      rw off dp e = .ok e' → dp.head? = some k0 → headIs k0 e'
  | .mk d s b c r k v i ks, off, dp, e', k0, h, hd => by
    simp only [rw] at h
    by_cases hl : (Err.mk d s b c r k v i ks).isLogic = true
    · simp only [hl, if_true] at h
      obtain ⟨ks', h1, h2⟩ := bind_ok h
      simp only [pure, Except.pure, Except.ok.injEq] at h2
      subst h2
      simp only [headIs]
      exact ⟨hd, fun _ => headIsL_regroupF k0 _ _ _ (headIsL_rwLogicL ks _ _ _ _ _ _ k0 h1 hd)⟩
    · simp only [hl, Bool.false_eq_true, if_false] at h
      by_cases hg : (Err.mk d s b c r k v i ks).isGroup = true
      · simp only [hg, if_true] at h
        obtain ⟨ks', h1, h2⟩ := bind_ok h
        simp only [pure, Except.pure, Except.ok.injEq] at h2
        subst h2
        simp only [headIs]
        exact ⟨hd, fun _ => headIsL_rwGroupL ks _ _ _ _ k0 h1 hd⟩
      · simp only [hg, Bool.false_eq_true, if_false, pure, Except.pure, Except.ok.injEq] at h
        subst h
        simp only [headIs]
        refine ⟨hd, fun hh => ?_⟩
        have hl' : (Err.mk dp s b c r k v i ks).isLogic = false := by simpa [Err.isLogic, Err.code] using hl
        have hg' : (Err.mk dp s b c r k v i ks).isGroup = false := by simpa [Err.isGroup, Err.code] using hg
        rcases hh with hh | hh
        · rw [hl'] at hh; cases hh
        · rw [hg'] at hh; cases hh
theorem headIsL_rwGroupL :
    ∀ (ks : List Err) (off cs : Nat) (pdp : List Key) (ks' : List Err) (k0 : Key),
      rwGroupL off cs pdp ks = .ok ks' → pdp.head? = some k0 → headIsL k0 ks'
  | [], _, _, _, ks', _, h, _ => by
    simp only [rwGroupL, pure, Except.pure, Except.ok.injEq] at h
    subst h; simp [headIsL]
  | k :: ks, off, cs, pdp, ks', k0, h, hd => by
    simp only [rwGroupL] at h
    obtain ⟨k', h1, h2⟩ := bind_ok h
    obtain ⟨r, h3, h4⟩ := bind_ok h2
    simp only [pure, Except.pure, Except.ok.injEq] at h4
    subst h4
    simp only [headIsL]
    exact ⟨headIs_rw k _ _ _ k0 h1 (head_append pdp _ k0 hd), headIsL_rwGroupL ks _ _ _ _ k0 h3 hd⟩
theorem headIsL_rwLogicL :
    ∀ (ks : List Err) (off cs : Nat) (pdp : List Key) (spLen : Nat) (rule : String) (ks' : List Err) (k0 : Key),
      rwLogicL off cs pdp spLen rule ks = .ok ks' → pdp.head? = some k0 → headIsL k0 ks'
  | [], _, _, _, _, _, ks', _, h, _ => by
    simp only [rwLogicL, pure, Except.pure, Except.ok.injEq] at h
    subst h; simp [headIsL]
  | k :: ks, off, cs, pdp, spLen, rule, ks', k0, h, hd => by
    simp only [rwLogicL] at h
    split at h
    · simp [throw, throwThe, MonadExceptOf.throw] at h
    · obtain ⟨k', h1, h2⟩ := bind_ok h
      obtain ⟨r, h3, h4⟩ := bind_ok h2
      simp only [pure, Except.pure, Except.ok.injEq] at h4
      subst h4
      simp only [headIsL]
      refine ⟨headIs_rw k _ _ _ k0 h1 ?_, headIsL_rwLogicL ks _ _ _ _ _ _ k0 h3 hd⟩
      rw [List.append_assoc]
      exact head_append pdp _ k0 hd
end

theorem keys_insertAt {t t' : PT} {p : List Key} {m : String} {k0 : Key}
    (h : insertAt t p m = .ok t') (hd : p.head? = some k0) : t'.keys = addKey t.keys k0 := by
  cases p with
  | nil => simp at hd
  | cons k r =>
    simp only [List.head?_cons, Option.some.injEq] at hd
    subst hd
    simp only [insertAt, pure, Except.pure, Except.ok.injEq] at h
    subst h
    exact PT.keys_ins _ _ _ _

theorem headIs_dp {k0 : Key} {e : Err} (h : headIs k0 e) : e.dp.head? = some k0 := by
  obtain ⟨d, s, b, c, r, k, v, i, ks⟩ := e
  exact h.1

theorem headIs_kids {k0 : Key} {e : Err} (h : headIs k0 e) (hf : e.isLogic = true ∨ e.isGroup = true) :
    headIsL k0 e.kids := by
  obtain ⟨d, s, b, c, r, k, v, i, ks⟩ := e
  exact h.2 hf

/-- the keys after inserting children that contribute `n` messages -/
def keysAfter (ks : List Key) (k0 : Key) (n : Nat) : List Key := if n = 0 then ks else addKey ks k0

theorem keysAfter_add (ks : List Key) (k0 : Key) (a b : Nat) :
    keysAfter (keysAfter ks k0 a) k0 b = keysAfter ks k0 (a + b) := by
  unfold keysAfter
  by_cases ha : a = 0 <;> by_cases hb : b = 0 <;> simp [ha, hb, addKey_idem]

theorem keysAfter_pos (ks : List Key) (k0 : Key) (n : Nat) (h : 0 < n) : keysAfter ks k0 n = addKey ks k0 := by
  unfold keysAfter; simp [Nat.ne_of_gt h]

mutual
theorem keys_insLogic :
    ∀ (e : Err) (t t' : PT) (k0 : Key), insLogic t e = .ok t' → headIs k0 e → e.isLogic = true →
      t'.keys = addKey t.keys k0
  | .mk d s b c r k v i ks, t, t', k0, h, hh, hl => by
    simp only [insLogic] at h
    obtain ⟨t1, h1, h2⟩ := bind_ok h
    have c1 := keys_insertAt h1 hh.1
    have c2 := keys_insKidsL ks _ t1 t' k0 h2 (hh.2 (Or.inl hl))
    rw [c2, c1]
    unfold keysAfter
    split
    · rfl
    · exact addKey_idem _ _
theorem keys_insGroup :
    ∀ (e : Err) (t t' : PT) (k0 : Key), insGroup t e = .ok t' → headIs k0 e → e.isGroup = true →
      t'.keys = keysAfter t.keys k0 (nMsgL e.kids)
  | .mk d s b c r k v i ks, t, t', k0, h, hh, hg => by
    simp only [insGroup] at h
    exact keys_insKidsG ks t t' k0 h (hh.2 (Or.inr hg))
theorem keys_insKidsL :
    ∀ (ks : List Err) (f : Option Key) (t t' : PT) (k0 : Key), insKidsL f t ks = .ok t' → headIsL k0 ks →
      t'.keys = keysAfter t.keys k0 (nMsgL ks)
  | [], f, t, t', k0, h, _ => by
    simp only [insKidsL, pure, Except.pure, Except.ok.injEq] at h
    subst h; simp [nMsgL, keysAfter]
  | k :: ks, f, t, t', k0, h, hh => by
    simp only [insKidsL] at h
    obtain ⟨t1, h1, h2⟩ := bind_ok h
    simp only [headIsL] at hh
    have c2 := keys_insKidsL ks f t1 t' k0 h2 hh.2
    have c1 : t1.keys = keysAfter t.keys k0 (nMsg k) := by
      by_cases l : k.isLogic = true
      · simp only [l, if_true] at h1
        rw [keys_insLogic k t t1 k0 h1 hh.1 l, nMsg_flags, if_pos l]
        exact (keysAfter_pos _ _ _ (by omega)).symm
      · have l' : k.isLogic = false := by simpa using l
        simp only [l', Bool.false_eq_true, if_false] at h1
        by_cases g : k.isGroup = true
        · simp only [g, if_true] at h1
          rw [keys_insGroup k t t1 k0 h1 hh.1 g, nMsg_flags, if_neg l, if_pos g]
        · have g' : k.isGroup = false := by simpa using g
          simp only [g', Bool.false_eq_true, if_false] at h1
          rw [keys_insertAt h1 (headIs_dp hh.1), nMsg_flags, if_neg l, if_neg g]
          exact (keysAfter_pos _ _ _ (by omega)).symm
    rw [c2, c1, keysAfter_add]
    simp only [nMsgL]
theorem keys_insKidsG :
    ∀ (ks : List Err) (t t' : PT) (k0 : Key), insKidsG t ks = .ok t' → headIsL k0 ks →
      t'.keys = keysAfter t.keys k0 (nMsgL ks)
  | [], t, t', k0, h, _ => by
    simp only [insKidsG, pure, Except.pure, Except.ok.injEq] at h
    subst h; simp [nMsgL, keysAfter]
  | k :: ks, t, t', k0, h, hh => by
    simp only [insKidsG] at h
    obtain ⟨t1, h1, h2⟩ := bind_ok h
    simp only [headIsL] at hh
    have c2 := keys_insKidsG ks t1 t' k0 h2 hh.2
    have c1 : t1.keys = keysAfter t.keys k0 (nMsg k) := by
      by_cases l : k.isLogic = true
      · simp only [l, if_true] at h1
        rw [keys_insLogic k t t1 k0 h1 hh.1 l, nMsg_flags, if_pos l]
        exact (keysAfter_pos _ _ _ (by omega)).symm
      · have l' : k.isLogic = false := by simpa using l
        simp only [l', Bool.false_eq_true, if_false] at h1
        by_cases g : k.isGroup = true
        · simp only [g, if_true] at h1
          rw [keys_insGroup k t t1 k0 h1 hh.1 g, nMsg_flags, if_neg l, if_pos g]
        · have g' : k.isGroup = false := by simpa using g
          simp only [g', Bool.false_eq_true, if_false] at h1
          rw [keys_insertAt h1 (headIs_dp hh.1), nMsg_flags, if_neg l, if_neg g]
          exact (keysAfter_pos _ _ _ (by omega)).symm
    rw [c2, c1, keysAfter_add]
    simp only [nMsgL]
end

/-- the number of messages a top-level error yields: *of and group errors as counted by
    `nMsg`, any other error one message if the handler has a template for its code -/
def topMsgs (hasMsg : Nat → Bool) (e : Err) : Nat :=
  if e.isLogic = true ∨ e.isGroup = true then nMsg e else if hasMsg e.code then 1 else 0

theorem code_rw' {e e' : Err} {off : Nat} {dp : List Key} (h : rw off dp e = .ok e') : e'.code = e.code := by
  obtain ⟨d, s, b, c, r, k, v, i, ks⟩ := e
  simp only [rw] at h
  split at h
  · obtain ⟨ks', _, h2⟩ := bind_ok h
    simp only [pure, Except.pure, Except.ok.injEq] at h2
    subst h2; rfl
  · split at h
    · obtain ⟨ks', _, h2⟩ := bind_ok h
      simp only [pure, Except.pure, Except.ok.injEq] at h2
      subst h2; rfl
    · simp only [pure, Except.pure, Except.ok.injEq] at h
      subst h; rfl

/-- one `add(error)` -/
theorem keys_addErr (hasMsg : Nat → Bool) (t t' : PT) (e : Err) (k0 : Key)
    (h : addErr hasMsg t e = .ok t') (hd : e.dp.head? = some k0) :
    t'.keys = keysAfter t.keys k0 (topMsgs hasMsg e) := by
  simp only [addErr] at h
  obtain ⟨e', h1, h2⟩ := bind_ok h
  have hc := code_rw' h1
  have hn := nMsg_rw e 0 e.dp e' h1
  have hh := headIs_rw e 0 e.dp e' k0 h1 hd
  have hl : e'.isLogic = e.isLogic := by simp [Err.isLogic, hc]
  have hg : e'.isGroup = e.isGroup := by simp [Err.isGroup, hc]
  unfold topMsgs
  by_cases l : e.isLogic = true
  · simp only [hl, l, if_true] at h2
    rw [keys_insLogic e' t t' k0 h2 hh (by rw [hl]; exact l)]
    simp only [l, true_or, if_true]
    rw [nMsg_flags, if_pos l]
    exact (keysAfter_pos _ _ _ (by omega)).symm
  · have l' : e.isLogic = false := by simpa using l
    simp only [hl, l', Bool.false_eq_true, if_false] at h2
    by_cases g : e.isGroup = true
    · simp only [hg, g, if_true] at h2
      rw [keys_insGroup e' t t' k0 h2 hh (by rw [hg]; exact g)]
      simp only [l', g, Bool.false_eq_true, false_or, if_true]
      rw [← hn, nMsg_flags e', hl, hg, if_neg l, if_pos g]
    · have g' : e.isGroup = false := by simpa using g
      simp only [hg, g', Bool.false_eq_true, if_false, hc] at h2
      simp only [l', g', Bool.false_eq_true, or_self, if_false]
      by_cases hm : hasMsg e.code = true
      · simp only [hm, if_true] at h2 ⊢
        rw [keys_insertAt h2 (headIs_dp hh)]
        exact (keysAfter_pos _ _ _ (by omega)).symm
      · have hm' : hasMsg e.code = false := by simpa using hm
        simp only [hm', Bool.false_eq_true, if_false, pure, Except.pure, Except.ok.injEq] at h2 ⊢
        subst h2
        simp [keysAfter]

/-- the whole rendering -/
theorem keys_render (hasMsg : Nat → Bool) :
    ∀ (es : List Err) (t t' : PT), render hasMsg es t = .ok t' → (∀ e, e ∈ es → e.dp ≠ []) →
      ∀ k, k ∈ t'.keys ↔ k ∈ t.keys ∨ ∃ e, e ∈ es ∧ 0 < topMsgs hasMsg e ∧ e.dp.head? = some k
  | [], t, t', h, _, k => by
    simp only [render, pure, Except.pure, Except.ok.injEq] at h
    subst h; simp
  | e :: es, t, t', h, hne, k => by
    simp only [render] at h
    obtain ⟨t1, h1, h2⟩ := bind_ok h
    have ih := keys_render hasMsg es t1 t' h2 (fun x hx => hne x (by simp [hx])) k
    obtain ⟨k0, hk0⟩ : ∃ k0, e.dp.head? = some k0 := by
      have := hne e (by simp)
      cases hd : e.dp with
      | nil => exact absurd hd this
      | cons a r => exact ⟨a, rfl⟩
    have c1 := keys_addErr hasMsg t t1 e k0 h1 hk0
    rw [ih, c1]
    unfold keysAfter
    by_cases hz : topMsgs hasMsg e = 0
    · simp only [hz, if_true, List.mem_cons, exists_eq_or_imp, Nat.lt_irrefl, false_and, false_or]
    · simp only [hz, if_false, mem_addKey, List.mem_cons, exists_eq_or_imp]
      have hpos : 0 < topMsgs hasMsg e := Nat.pos_of_ne_zero hz
      constructor
      · rintro ((h | rfl) | h)
        · exact Or.inl h
        · exact Or.inr (Or.inl ⟨hpos, hk0⟩)
        · exact Or.inr (Or.inr h)
      · rintro (h | ⟨_, h⟩ | h)
        · exact Or.inl (Or.inl h)
        · rw [hk0] at h; exact Or.inl (Or.inr (Option.some.inj h).symm)
        · exact Or.inr h

end Render
end Cerberus
