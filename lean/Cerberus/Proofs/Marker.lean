/-
  The `_is_normalized` marker and the errors recorded so far are read by exactly one
  rule handler, `readonly`.  A validation in which that rule is never queued is therefore
  insensitive to both.
-/
import Cerberus.Proofs.Validate
namespace Cerberus
namespace V

/-- the context with the marker set to `b` -/
def sn (b : Bool) (ctx : Ctx) : Ctx := { ctx with cfg := { ctx.cfg with isNormalized := b } }

theorem sn_child (b : Bool) (ctx : Ctx) (doc : Val) (ov : Overrides) (dc : Option Key) (sc : List Key) :
    (sn b ctx).child doc ov dc sc = sn b (ctx.child doc ov dc sc) := rfl

/-- the recursive call does not look at the marker -/
def RecInsens (rec : Rec) : Prop := ∀ b ctx s d u, rec (sn b ctx) s d u = rec ctx s d u

@[simp] theorem sn_docPath (b : Bool) (ctx : Ctx) : (sn b ctx).docPath = ctx.docPath := rfl
@[simp] theorem sn_schemaPath (b : Bool) (ctx : Ctx) : (sn b ctx).schemaPath = ctx.schemaPath := rfl
@[simp] theorem sn_root (b : Bool) (ctx : Ctx) : (sn b ctx).root = ctx.root := rfl
@[simp] theorem sn_isChild (b : Bool) (ctx : Ctx) : (sn b ctx).isChild = ctx.isChild := rfl
@[simp] theorem sn_allowUnknown (b : Bool) (ctx : Ctx) : (sn b ctx).cfg.allowUnknown = ctx.cfg.allowUnknown := rfl
@[simp] theorem sn_requireAll (b : Bool) (ctx : Ctx) : (sn b ctx).cfg.requireAll = ctx.cfg.requireAll := rfl
@[simp] theorem sn_ignoreNone (b : Bool) (ctx : Ctx) : (sn b ctx).cfg.ignoreNone = ctx.cfg.ignoreNone := rfl

theorem lookupField_sn (b : Bool) (ctx : Ctx) (doc : Val) (name : String) :
    lookupField (sn b ctx) doc name = lookupField ctx doc name := rfl

theorem depsSequence_sn (b : Bool) (ctx : Ctx) (doc : Val) :
    ∀ xs, depsSequence (sn b ctx) doc xs = depsSequence ctx doc xs
  | [] => rfl
  | d :: ds => by
    simp only [depsSequence, lookupField_sn, depsSequence_sn b ctx doc ds]

theorem depsMapping_sn (b : Bool) (ctx : Ctx) (doc : Val) :
    ∀ kvs, depsMapping (sn b ctx) doc kvs = depsMapping ctx doc kvs
  | [] => rfl
  | (k, vals) :: r => by
    have ih := depsMapping_sn b ctx doc r
    cases k with
    | s name => show (do let rest ← depsMapping (sn b ctx) doc r; _) = (do let rest ← depsMapping ctx doc r; _); rw [ih]; rfl
    | i n => rfl

theorem hDependencies_sn (env : Env) (b : Bool) (ctx : Ctx) (schema doc : Val) (f : Key) (c v : Val) :
    hDependencies env (sn b ctx) schema doc f c v = hDependencies env ctx schema doc f c v := by
  simp only [hDependencies, depsSequence_sn, depsMapping_sn]

section
variable (env : Env) (rec : Rec) (hrec : RecInsens rec) (b : Bool) (ctx : Ctx)
include hrec

theorem rec_child_sn (doc : Val) (ov : Overrides) (dc : Option Key) (sc : List Key) (s d : Val) (u : Bool) :
    rec ((sn b ctx).child doc ov dc sc) s d u = rec (ctx.child doc ov dc sc) s d u := by
  rw [sn_child]; exact hrec b _ s d u

theorem hItems_sn (schema doc : Val) (f : Key) (c v : Val) (upd : Bool) :
    hItems env rec (sn b ctx) schema doc f c v upd = hItems env rec ctx schema doc f c v upd := by
  simp only [hItems, rec_child_sn rec hrec b ctx]

theorem hSchema_sn (schema doc : Val) (f : Key) (c v : Val) (upd : Bool) :
    hSchema env rec (sn b ctx) schema doc f c v upd = hSchema env rec ctx schema doc f c v upd := by
  simp only [hSchema, rec_child_sn rec hrec b ctx, sn_schemaPath, sn_allowUnknown, sn_requireAll]

theorem hKeysrules_sn (schema doc : Val) (f : Key) (c v : Val) :
    hKeysrules env rec (sn b ctx) schema doc f c v = hKeysrules env rec ctx schema doc f c v := by
  simp only [hKeysrules, rec_child_sn rec hrec b ctx, sn_schemaPath]

theorem hValuesrules_sn (schema doc : Val) (f : Key) (c v : Val) (upd : Bool) :
    hValuesrules env rec (sn b ctx) schema doc f c v upd = hValuesrules env rec ctx schema doc f c v upd := by
  simp only [hValuesrules, rec_child_sn rec hrec b ctx, sn_schemaPath]

theorem defChild_sn (doc : Val) (f : Key) (op : String) (upd : Bool) (rs : Val) (i : Nat) (d : Val) :
    defChild rec (sn b ctx) doc f op upd rs i d = defChild rec ctx doc f op upd rs i d := by
  cases d <;> simp only [defChild, rec_child_sn rec hrec b ctx, defRules, sn_allowUnknown]

theorem logicalDefs_sn (doc : Val) (f : Key) (op : String) (upd : Bool) (rs : Val) :
    ∀ (i : Nat) (ds : List Val), logicalDefs rec (sn b ctx) doc f op upd rs i ds = logicalDefs rec ctx doc f op upd rs i ds
  | _, [] => rfl
  | i, d :: ds => by
    simp only [logicalDefs, defChild_sn rec hrec b ctx, logicalDefs_sn doc f op upd rs (i + 1) ds, sn_schemaPath]

theorem hLogical_sn (schema doc : Val) (f : Key) (op : String) (code : Nat) (c v : Val) (upd : Bool) :
    hLogical env rec (sn b ctx) schema doc f op code c v upd = hLogical env rec ctx schema doc f op code c v upd := by
  simp only [hLogical, logicalDefs_sn rec hrec b ctx]

end

theorem handler_sn (env : Env) (t : Tables) (rec : Rec) (hrec : RecInsens rec) (b : Bool) (ctx : Ctx)
    (schema doc : Val) (upd : Bool) (f : Key) (defs v : Val) (sofar sofar' : List Err) (rule : String)
    (hr : rule ≠ "readonly") :
    handler env t rec (sn b ctx) schema doc upd f defs v sofar rule =
    handler env t rec ctx schema doc upd f defs v sofar' rule := by
  unfold handler
  split
  all_goals first
    | rfl
    | exact absurd rfl hr
    | simp only [hDependencies_sn, hItems_sn env rec hrec b ctx, hSchema_sn env rec hrec b ctx,
        hKeysrules_sn env rec hrec b ctx, hValuesrules_sn env rec hrec b ctx, hLogical_sn env rec hrec b ctx]


theorem mkErr_sn (env : Env) (b : Bool) (ctx : Ctx) (schema doc : Val) (f : Key) (code : Nat) (rule : Option String)
    (info : List Val) (kids : List Err) :
    mkErr env (sn b ctx) schema doc f code rule info kids = mkErr env ctx schema doc f code rule info kids := rfl

theorem buildErrs_sn (env : Env) (b : Bool) (ctx : Ctx) (schema doc : Val) (f : Key) :
    ∀ es, buildErrs env (sn b ctx) schema doc f es = buildErrs env ctx schema doc f es
  | [] => rfl
  | e :: r => by
    simp only [buildErrs, mkErr_sn, buildErrs_sn env b ctx schema doc f r]

theorem runRule_sn (env : Env) (t : Tables) (rec : Rec) (hrec : RecInsens rec) (b : Bool) (ctx : Ctx)
    (schema doc : Val) (upd : Bool) (f : Key) (defs v : Val) (sofar sofar' : List Err) (rule : String)
    (hr : rule ≠ "readonly") :
    runRule env t rec (sn b ctx) schema doc upd f defs v sofar rule =
    runRule env t rec ctx schema doc upd f defs v sofar' rule := by
  simp only [runRule, handler_sn env t rec hrec b ctx schema doc upd f defs v sofar sofar' rule hr, buildErrs_sn]

/-- the rule `readonly` is never queued -/
def NoReadonly (t : Tables) : Prop := ∀ names, "readonly" ∉ buildQueue t names

theorem runQueue_congr (h h' : List Err → String → M (HOut × List Err)) :
    ∀ (q : List String) (s : QState), (∀ r, r ∈ q → ∀ so, h so r = h' so r) → runQueue h q s = runQueue h' q s
  | [], _, _ => rfl
  | r :: rs, s, hh => by
    simp only [runQueue]
    split
    · exact runQueue_congr h h' rs s (fun x hx => hh x (List.mem_cons_of_mem _ hx))
    · rw [hh r (by simp) s.errs]
      split
      · rfl
      · exact runQueue_congr h h' rs _ (fun x hx => hh x (List.mem_cons_of_mem _ hx))

/-- prepend `pre` to the errors of a result -/
def lift (pre : List Err) (x : M QState) : M QState :=
  match x with
  | .ok r => .ok { r with errs := pre ++ r.errs }
  | .error e => .error e

theorem lift_lift (a b : List Err) (x : M QState) : lift a (lift b x) = lift (a ++ b) x := by
  cases x <;> simp [lift, List.append_assoc]

/-- handlers that ignore the errors so far: the errors are purely accumulated -/
theorem runQueue_shift (h : List Err → String → M (HOut × List Err)) :
    ∀ (q : List String) (s : QState), (∀ r, r ∈ q → ∀ so so', h so r = h so' r) →
      runQueue h q s = lift s.errs (runQueue h q { s with errs := [] })
  | [], s, _ => by simp [runQueue, lift]
  | r :: rs, s, hh => by
    have hh' : ∀ x, x ∈ rs → ∀ so so', h so x = h so' x := fun x hx => hh x (List.mem_cons_of_mem _ hx)
    simp only [runQueue]
    split
    · exact runQueue_shift h rs s hh'
    · rw [hh r (by simp) s.errs []]
      cases hr : h [] r with
      | error e => simp [lift]
      | ok p =>
        obtain ⟨o, es⟩ := p
        simp only
        rw [runQueue_shift h rs _ hh', runQueue_shift h rs { errs := [] ++ es, dropped := _, stopped := _, unreq := _ } hh']
        simp only [lift_lift, List.nil_append]

section
variable (env : Env) (t : Tables) (ht : NoReadonly t) (rec : Rec) (hrec : RecInsens rec) (b : Bool) (ctx : Ctx)
include ht hrec

theorem validateDefinitions_sn (schema doc : Val) (upd : Bool) (f : Key) (definitions v : Val) (s : QState) :
    validateDefinitions env t rec (sn b ctx) schema doc upd f definitions v s =
    validateDefinitions env t rec ctx schema doc upd f definitions v s := by
  simp only [validateDefinitions, sn_isChild, sn_schemaPath]
  split
  · rfl
  · split
    · rfl
    · rename_i _ defs _ _ names _
      apply runQueue_congr
      intro r hr so
      exact runRule_sn env t rec hrec b ctx schema doc upd f defs v so so r (fun e => ht names (e ▸ hr))

theorem validateDefinitions_shift (schema doc : Val) (upd : Bool) (f : Key) (definitions v : Val) (s : QState) :
    validateDefinitions env t rec ctx schema doc upd f definitions v s =
    lift s.errs (validateDefinitions env t rec ctx schema doc upd f definitions v { s with errs := [] }) := by
  simp only [validateDefinitions]
  split
  · split <;> simp [lift, raisePy]
  · split
    · simp [lift]
    · rename_i _ defs _ _ names _
      rw [runQueue_shift _ _ { s with dropped := [], stopped := false }]
      intro r hr so so'
      have hne : r ≠ "readonly" := fun e => ht names (e ▸ hr)
      have h1 := runRule_sn env t rec hrec false ctx schema doc upd f defs v so so' r hne
      have h2 := runRule_sn env t rec hrec false ctx schema doc upd f defs v so so r hne
      rw [← h2, h1]

omit ht in
theorem validateUnknown_sn (doc : Val) (f : Key) (v : Val) :
    validateUnknown rec (sn b ctx) doc f v = validateUnknown rec ctx doc f v := by
  simp only [validateUnknown, sn_allowUnknown, sn_isChild, sn_docPath, sn_schemaPath, rec_child_sn rec hrec b ctx]
  rfl

theorem validateField_sn (schema : Val) (skvs : List (Key × Val)) (doc : Val) (upd : Bool) (f : Key) (v : Val) (s : QState) :
    validateField env t rec (sn b ctx) schema skvs doc upd f v s = validateField env t rec ctx schema skvs doc upd f v s := by
  simp only [validateField, sn_ignoreNone, validateUnknown_sn rec hrec b ctx,
    validateDefinitions_sn env t ht rec hrec b ctx]

theorem validateField_shift (schema : Val) (skvs : List (Key × Val)) (doc : Val) (upd : Bool) (f : Key) (v : Val) (s : QState) :
    validateField env t rec ctx schema skvs doc upd f v s =
    lift s.errs (validateField env t rec ctx schema skvs doc upd f v { s with errs := [] }) := by
  simp only [validateField]
  split
  · simp [lift]
  · split
    · split
      · split <;> simp [lift]
      · exact validateDefinitions_shift env t ht rec hrec ctx schema doc upd f _ v s
    · split <;> simp [lift]

theorem validateFields_sn (schema : Val) (skvs : List (Key × Val)) (doc : Val) (upd : Bool) :
    ∀ (kvs : List (Key × Val)) (s : QState),
      validateFields env t rec (sn b ctx) schema skvs doc upd kvs s = validateFields env t rec ctx schema skvs doc upd kvs s
  | [], _ => rfl
  | (f, v) :: r, s => by
    simp only [validateFields, validateField_sn env t ht rec hrec b ctx]
    split
    · rfl
    · exact validateFields_sn schema skvs doc upd r _

theorem validateFields_shift (schema : Val) (skvs : List (Key × Val)) (doc : Val) (upd : Bool) :
    ∀ (kvs : List (Key × Val)) (s : QState),
      validateFields env t rec ctx schema skvs doc upd kvs s =
      lift s.errs (validateFields env t rec ctx schema skvs doc upd kvs { s with errs := [] })
  | [], s => by simp [validateFields, lift]
  | (f, v) :: r, s => by
    simp only [validateFields]
    rw [validateField_shift env t ht rec hrec ctx schema skvs doc upd f v s]
    cases hf : validateField env t rec ctx schema skvs doc upd f v { s with errs := [] } with
    | error e => simp [lift]
    | ok s1 =>
      have e1 := validateFields_shift schema skvs doc upd r { s1 with errs := s.errs ++ s1.errs }
      have e2 := validateFields_shift schema skvs doc upd r s1
      dsimp only at e1
      show validateFields env t rec ctx schema skvs doc upd r { s1 with errs := s.errs ++ s1.errs } =
           lift s.errs (validateFields env t rec ctx schema skvs doc upd r s1)
      rw [e1, e2, lift_lift]

end

theorem requiredOf_sn (env : Env) (b : Bool) (ctx : Ctx) :
    ∀ skvs, requiredOf env (sn b ctx) skvs = requiredOf env ctx skvs
  | [] => rfl
  | (f, d) :: r => by
    have h1 : isRequired env (sn b ctx) d = isRequired env ctx d := rfl
    simp only [requiredOf, h1, requiredOf_sn env b ctx r]

theorem mapM_mkErr_sn (env : Env) (b : Bool) (ctx : Ctx) (schema doc : Val) :
    ∀ (l : List Key), l.mapM (fun f => mkErr env (sn b ctx) schema doc f Code.REQUIRED_FIELD (some "required") [] []) =
      l.mapM (fun f => mkErr env ctx schema doc f Code.REQUIRED_FIELD (some "required") [] []) := by
  intro l; rfl

theorem validateRequired_sn (env : Env) (b : Bool) (ctx : Ctx) (schema : Val) (skvs : List (Key × Val)) (doc : Val)
    (dkvs : List (Key × Val)) (unreq : List Key) :
    validateRequired env (sn b ctx) schema skvs doc dkvs unreq = validateRequired env ctx schema skvs doc dkvs unreq := by
  simp only [validateRequired, requiredOf_sn, sn_ignoreNone, mapM_mkErr_sn]
  rfl

section
variable (env : Env) (t : Tables) (ht : NoReadonly t) (rec : Rec) (hrec : RecInsens rec)
include ht hrec

theorem validateResolved_sn (b : Bool) (ctx : Ctx) (skvs : List (Key × Val)) (doc : Val) (dkvs : List (Key × Val)) (upd : Bool)
    (pre : List Err) (unreq0 : List Key) :
    validateResolved env t rec (sn b ctx) skvs doc dkvs upd pre unreq0 =
    validateResolved env t rec ctx skvs doc dkvs upd pre unreq0 := by
  simp only [validateResolved, validateFields_sn env t ht rec hrec b ctx, validateRequired_sn]

/-- the errors present before the validation are a prefix that nothing reads -/
theorem validateResolved_shift (ctx : Ctx) (skvs : List (Key × Val)) (doc : Val) (dkvs : List (Key × Val)) (upd : Bool)
    (pre : List Err) (unreq0 : List Key) :
    validateResolved env t rec ctx skvs doc dkvs upd pre unreq0 =
    (validateResolved env t rec ctx skvs doc dkvs upd [] unreq0).map (fun es => pre ++ es) := by
  simp only [validateResolved]
  rw [validateFields_shift env t ht rec hrec ctx (.dict skvs) skvs doc upd dkvs { errs := pre, unreq := unreq0 }]
  cases hf : validateFields env t rec ctx (.dict skvs) skvs doc upd dkvs { errs := [], unreq := unreq0 } with
  | error e => simp [lift, Except.map]
  | ok s1 =>
    simp only [lift]
    split
    · simp [Except.map]
    · split <;> simp [Except.map, List.append_assoc]

theorem validateMapping_sn (b : Bool) (ctx : Ctx) (schema doc : Val) (upd : Bool) (pre : List Err) (unreq0 : List Key) :
    validateMapping env t rec (sn b ctx) schema doc upd pre unreq0 =
    (validateMapping env t rec ctx schema doc upd [] unreq0).map (fun es => pre ++ es) := by
  simp only [validateMapping]
  split
  · split
    · rw [validateResolved_sn env t ht rec hrec b ctx, validateResolved_shift env t ht rec hrec ctx]
    · rfl
  · rfl

end

/-- validation does not look at the marker when `readonly` is never queued -/
theorem validate0_insens (env : Env) (t : Tables) (ht : NoReadonly t) : ∀ n, RecInsens (validate0 env t n)
  | 0 => fun _ _ _ _ _ => rfl
  | n + 1 => by
    intro b ctx s d u
    simp only [validate0]
    rw [validateMapping_sn env t ht (validate0 env t n) (validate0_insens env t ht n) b ctx s d u [] []]
    cases validateMapping env t (validate0 env t n) ctx s d u [] [] <;> simp [Except.map]

end V
end Cerberus
