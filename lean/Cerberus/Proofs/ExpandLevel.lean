/-
  One level of `expand`: every rule set of the expanded field mapping is canonical.
-/
import Cerberus.Proofs.Canonical
namespace Cerberus
namespace S

theorem mem_dkeys_of_dlookup (m : List (Key × Val)) (k : Key) (v : Val) (h : Val.dlookup m k = some v) : k ∈ Val.dkeys m := by
  by_cases hk : k ∈ Val.dkeys m
  · exact hk
  · rw [dlookup_none_of_not_mem m k hk] at h; cases h

theorem dkeys_dset_present (m : List (Key × Val)) (k : Key) (v w : Val) (h : Val.dlookup m k = some w) :
    Val.dkeys (Val.dset m k v) = Val.dkeys m := by
  rw [dkeys_dset, if_pos (mem_dkeys_of_dlookup m k w h)]

theorem foldlM_keys {α} (step : List (Key × Val) → α → Option (List (Key × Val)))
    (hstep : ∀ acc r acc', step acc r = some acc' → Val.dkeys acc' = Val.dkeys acc) :
    ∀ (l : List α) (init out : List (Key × Val)), l.foldlM step init = some out → Val.dkeys out = Val.dkeys init
  | [], init, out, h => by simp [List.foldlM, pure] at h; rw [h]
  | r :: rest, init, out, h => by
    simp only [List.foldlM, bind, Option.bind] at h
    cases hs : step init r with
    | none => simp [hs] at h
    | some acc' =>
      simp only [hs] at h
      rw [foldlM_keys step hstep rest acc' out h, hstep init r acc' hs]

theorem setExpanded_keys (rs out : List (Key × Val)) (rule : String) (e : Option Val) (w : Val)
    (hp : Val.dlookup rs (.s rule) = some w) (h : setExpanded rs rule e = some out) : Val.dkeys out = Val.dkeys rs := by
  unfold setExpanded at h
  split at h
  · cases h; exact dkeys_dset_present _ _ _ _ hp
  · cases h

variable (expF : List (Key × Val) → Option (List (Key × Val)))

theorem subSchemaRule_keys (rs out : List (Key × Val)) (h : subSchemaRule expF rs = some out) :
    Val.dkeys out = Val.dkeys rs := by
  unfold subSchemaRule at h
  split at h
  · rename_i sub hsub
    split at h
    · split at h
      · exact setExpanded_keys _ _ _ _ _ hsub h
      · cases h; rfl
    · exact setExpanded_keys _ _ _ _ _ hsub h
  · cases h; rfl

theorem subBulkStep_keys (acc : List (Key × Val)) (r : String) (out : List (Key × Val))
    (h : subBulkStep expF acc r = some out) : Val.dkeys out = Val.dkeys acc := by
  unfold subBulkStep at h
  split at h
  · rename_i c hc; exact setExpanded_keys _ _ _ _ _ hc h
  · cases h; rfl

theorem subAllowUnknown_keys (rs out : List (Key × Val)) (h : subAllowUnknown expF rs = some out) :
    Val.dkeys out = Val.dkeys rs := by
  unfold subAllowUnknown at h
  split at h
  · rename_i au hau; exact setExpanded_keys _ _ _ _ _ hau h
  · cases h; rfl

theorem subListStep_keys (acc : List (Key × Val)) (r : String) (out : List (Key × Val))
    (h : subListStep expF acc r = some out) : Val.dkeys out = Val.dkeys acc := by
  unfold subListStep at h
  split at h
  · rename_i c hc
    split at h
    · exact setExpanded_keys _ _ _ _ _ hc h
    · cases h; rfl
  · cases h; rfl

/-- the recursive step rewrites constraints only: the rule names of the rule set stay as they are -/
theorem subschemasWith_keys (rs out : List (Key × Val)) (h : subschemasWith expF rs = some out) :
    Val.dkeys out = Val.dkeys rs := by
  unfold subschemasWith at h
  cases h1 : subSchemaRule expF rs with
  | none => simp [h1] at h
  | some rs1 =>
    simp only [h1, Option.bind] at h
    cases h2 : List.foldlM (subBulkStep expF) rs1 ["keysrules", "valuesrules", "keyschema", "valueschema"] with
    | none => simp [h2] at h
    | some rs2 =>
      simp only [h2] at h
      cases h3 : subAllowUnknown expF rs2 with
      | none => simp [h3] at h
      | some rs3 =>
        simp only [h3] at h
        rw [foldlM_keys _ (subListStep_keys expF) _ _ _ h, subAllowUnknown_keys expF _ _ h3,
          foldlM_keys _ (subBulkStep_keys expF) _ _ _ h2, subSchemaRule_keys expF _ _ h1]

omit expF in
theorem expandLogical_mem : ∀ (l l' : List (Key × Val)), expandLogical l = (l', false) →
    ∀ b, b ∈ l' → ∃ a, a ∈ l ∧
      (match a.2 with
       | .dict rs => b = (a.1, .dict (expandLogicalRules rs).1) ∧ (expandLogicalRules rs).2 = false
       | _ => b = a)
  | [], l', h, b, hb => by simp [expandLogical] at h; subst h; cases hb
  | (f, rules) :: rest, l', h, b, hb => by
    unfold expandLogical at h
    split at h
    · rename_i rs
      simp only at h
      split at h
      · injection h with _ h2; cases h2
      · rename_i hab
        cases hr : expandLogical rest with
        | mk rest' ab' =>
          simp only [hr] at h
          injection h with h1 h2
          subst h1; subst h2
          rcases List.mem_cons.mp hb with e | e
          · subst e
            exact ⟨(f, .dict rs), by simp, by simp; simpa using hab⟩
          · obtain ⟨a, ha, hR⟩ := expandLogical_mem rest rest' hr b e
            exact ⟨a, List.mem_cons_of_mem _ ha, hR⟩
    · cases hr : expandLogical rest with
      | mk rest' ab' =>
        simp only [hr] at h
        injection h with h1 h2
        subst h1; subst h2
        rcases List.mem_cons.mp hb with e | e
        · subst e; exact ⟨(f, _), List.mem_cons_self, rfl⟩
        · obtain ⟨a, ha, hR⟩ := expandLogical_mem rest rest' hr b e
          exact ⟨a, List.mem_cons_of_mem _ ha, hR⟩
    · cases hr : expandLogical rest with
      | mk rest' ab' =>
        simp only [hr] at h
        injection h with h1 h2
        subst h1; subst h2
        rcases List.mem_cons.mp hb with e | e
        · subst e; exact ⟨(f, _), List.mem_cons_self, rfl⟩
        · obtain ⟨a, ha, hR⟩ := expandLogical_mem rest rest' hr b e
          exact ⟨a, List.mem_cons_of_mem _ ha, hR⟩
    · injection h with _ h2; cases h2

omit expF in
theorem mapM_mem {α β} (g : α → Option β) : ∀ (l : List α) (l' : List β), l.mapM g = some l' →
    ∀ b, b ∈ l' → ∃ a, a ∈ l ∧ g a = some b
  | [], l', h, b, hb => by simp at h; subst h; cases hb
  | x :: rest, l', h, b, hb => by
    rw [List.mapM_cons] at h
    cases hx : g x with
    | none => simp [hx] at h
    | some y =>
      cases hr : rest.mapM g with
      | none => simp [hx, hr] at h
      | some ys =>
        simp [hx, hr] at h
        subst h
        rcases List.mem_cons.mp hb with e | e
        · subst e; exact ⟨x, List.mem_cons_self, hx⟩
        · obtain ⟨a, ha, hg⟩ := mapM_mem g rest ys hr b e
          exact ⟨a, List.mem_cons_of_mem _ ha, hg⟩

omit expF in
theorem renameFields_mem : ∀ (l l' : List (Key × Val)), renameFields l = some l' →
    ∀ b, b ∈ l' → ∃ a, a ∈ l ∧
      (match a.2 with
       | .dict rs => ∃ rs', renameRules rs = some rs' ∧ b = (a.1, .dict rs')
       | _ => b = a)
  | [], l', h, b, hb => by simp [renameFields] at h; subst h; cases hb
  | (f, rules) :: rest, l', h, b, hb => by
    unfold renameFields at h
    split at h
    · rename_i rs
      split at h
      · rename_i rs' rest' h1 h2
        cases h
        rcases List.mem_cons.mp hb with e | e
        · subst e; exact ⟨(f, .dict rs), List.mem_cons_self, rs', h1, rfl⟩
        · obtain ⟨a, ha, hR⟩ := renameFields_mem rest rest' h2 b e
          exact ⟨a, List.mem_cons_of_mem _ ha, hR⟩
      · cases h
    · rename_i hnd
      cases hr : renameFields rest with
      | none => simp [hr] at h
      | some rest' =>
        simp [hr] at h
        subst h
        rcases List.mem_cons.mp hb with e | e
        · subst e
          refine ⟨(f, rules), List.mem_cons_self, ?_⟩
          cases rules with
          | dict rs => exact absurd rfl (hnd rs)
          | _ => rfl
        · obtain ⟨a, ha, hR⟩ := renameFields_mem rest rest' hr b e
          exact ⟨a, List.mem_cons_of_mem _ ha, hR⟩

omit expF in
/-- the canonical form depends on the rule names only: a rule set with the keys of a canonical one … -/
theorem canonical_of_stage (rs mid out : List (Key × Val)) (hnd : (Val.dkeys rs).Nodup)
    (hflag : (expandLogicalRules (normalizeNames rs)).2 = false)
    (hmid : Val.dkeys mid = Val.dkeys (expandLogicalRules (normalizeNames rs)).1)
    (h : renameRules mid = some out) : CanonicalRules out := by
  obtain ⟨n1, n2⟩ := normalizeNames_complete rs hnd
  obtain ⟨l1, l2⟩ := expandLogicalRules_complete _ n1 hflag
  have m1 : (Val.dkeys mid).Nodup := hmid ▸ l1
  obtain ⟨r1, r2, r3, r4, _⟩ := renameRules_complete mid out m1 h
  have hkeys := renameRules_keys mid out h
  have lkeys := expandLogicalRules_keys (normalizeNames rs)
  refine ⟨r4, ?_, ?_, r1, r2, r3⟩
  · intro q hq
    rcases hkeys q hq with hq1 | hq1
    · rw [hmid] at hq1
      rcases lkeys q hq1 with hq2 | ⟨op, hop, e⟩
      · exact n2 q hq2
      · subst e; exact (spaced_of_prefix op hop).1
    · simp only [List.mem_cons, List.mem_nil_iff, or_false] at hq1
      rcases hq1 with e | e | e <;> subst e <;> decide
  · intro q hq
    rcases hkeys q hq with hq1 | hq1
    · rw [hmid] at hq1; exact l2 q hq1
    · simp only [List.mem_cons, List.mem_nil_iff, or_false] at hq1
      rcases hq1 with e | e | e <;> subst e <;> decide

omit expF in
/-- **one level of `expand`**: when the passes complete, every rule set of the expanded field mapping is canonical -/
theorem expandFields_level (n : Nat) (fields out : List (Key × Val))
    (hnd : ∀ f rs, (f, Val.dict rs) ∈ fields → (Val.dkeys rs).Nodup)
    (hfin : (expandLogical (fields.map (fun kv => match kv.2 with
      | .dict rs => (kv.1, Val.dict (normalizeNames rs)) | _ => kv))).2 = false)
    (h : expandFields (n + 1) fields = some out) :
    ∀ f rs, (f, Val.dict rs) ∈ out → CanonicalRules rs := by
  intro f rs hmem
  unfold expandFields at h
  simp only at h
  generalize hnamed : fields.map (fun kv => match kv.2 with
      | .dict rs => (kv.1, Val.dict (normalizeNames rs)) | _ => kv) = named at h hfin
  cases hl : expandLogical named with
  | mk logical aborted =>
    rw [hl] at hfin h
    simp only at hfin
    subst hfin
    simp only [Bool.false_eq_true, if_false] at h
    generalize hs : List.mapM (m := Option) _ logical = subsOpt at h
    cases subsOpt with
    | none => simp at h
    | some subs =>
      simp only at h
      -- trace the rule set back through the stages
      obtain ⟨c, hc, hR⟩ := renameFields_mem subs out h _ hmem
      obtain ⟨b, hb, hg⟩ := mapM_mem _ logical subs hs c hc
      obtain ⟨a, ha, hL⟩ := expandLogical_mem named logical hl b hb
      rw [← hnamed] at ha
      obtain ⟨a0, ha0, ea⟩ := List.mem_map.mp ha
      -- the original entry is a rule set, and so are all its descendants
      obtain ⟨f0, v0⟩ := a0
      cases v0 with
      | dict rs0 =>
        simp only at ea
        subst ea
        simp only at hL
        obtain ⟨eb, hflag⟩ := hL
        subst eb
        simp only [Option.bind] at hg
        cases hsub : subschemasWith (expandFields n) (expandLogicalRules (normalizeNames rs0)).1 with
        | none => simp [hsub] at hg
        | some mid =>
          simp only [hsub] at hg
          cases hg
          simp only at hR
          obtain ⟨rs', hren, e⟩ := hR
          injection e with e1 e2
          injection e2 with e3
          subst e3
          exact canonical_of_stage rs0 mid rs (hnd f0 rs0 ha0) hflag
            (subschemasWith_keys _ _ _ hsub) hren
      | _ =>
        -- a field that is not a rule set stays what it is at every stage: it cannot become `(f, .dict rs)`
        simp only at ea
        subst ea
        simp only at hL
        subst hL
        simp only at hg
        cases hg
        simp only at hR
        cases hR

end S
end Cerberus
