/-
  Termination of the default-setter work list, for every setter family.
-/
import Cerberus.Model.Setters
import Mathlib.Data.List.Rotate
namespace Cerberus
namespace Setters

/-- streak invariant: the last `c` rotations of the pending tuple are known -/
def Inv (p : List Key) (K : List (List Key)) (c : Nat) : Prop :=
  c ≤ p.length ∧ ∀ i, p.length - c < i → i ≤ p.length → p.rotate i ∈ K

/-- fuel needed from a state with `m` pending fields and a streak of length `c` -/
def need (m c : Nat) : Nat :=
  match m with
  | 0 => 0
  | m' + 1 => bound m' + (m' + 1 - c) + 1

theorem rotate_one_cons (f : Key) (rest : List Key) : (f :: rest).rotate 1 = rest ++ [f] := by
  simp [List.rotate_cons_succ]

theorem run_nil (setter : Key → List (Key × Val) → SetterResult) (fuel : Nat) (s : SState)
    (h : s.pending = []) : run setter fuel s = some s := by
  cases fuel <;> simp [run, h]

theorem apply1_fst (setter : Key → List (Key × Val) → SetterResult) (s : SState) (f : Key)
    (rest : List Key) :
    (apply1 setter s f rest).1 = rest ∨ (apply1 setter s f rest).1 = rest ++ [f] := by
  unfold apply1
  cases setter f s.mapping <;> simp

/-- progress step: the pending list lost its head -/
theorem step_removed (setter : Key → List (Key × Val) → SetterResult) (n : Nat)
    (ih : ∀ (s : SState) (c : Nat), Inv s.pending s.known c →
      need s.pending.length c ≤ n → (run setter n s).isSome = true)
    (s : SState) (c : Nat) (f : Key) (rest : List Key) (m' : List (Key × Val)) (fl : List Key)
    (hneed : bound rest.length + (rest.length + 1 - c) + 1 ≤ n + 1) :
    (if (record s rest m' fl).2 = true then some (record s rest m' fl).1
      else run setter n (record s rest m' fl).1).isSome = true := by
  unfold record
  split
  · simp
  · simp only [Bool.false_eq_true, if_false]
    apply ih _ 0
    · constructor
      · simp
      · intro i h1 h2; simp at h1 h2; omega
    · simp only
      cases rest with
      | nil => simp [need]
      | cons g rest' =>
        simp only [List.length_cons, need, bound] at hneed ⊢
        omega

/-- rotation step: the head was re-queued at the end -/
theorem step_rotated (setter : Key → List (Key × Val) → SetterResult) (n : Nat)
    (ih : ∀ (s : SState) (c : Nat), Inv s.pending s.known c →
      need s.pending.length c ≤ n → (run setter n s).isSome = true)
    (s : SState) (c : Nat) (f : Key) (rest : List Key) (m' : List (Key × Val)) (fl : List Key)
    (hc : c ≤ rest.length + 1)
    (hK : ∀ (i : ℕ), rest.length + 1 - c < i → i ≤ rest.length + 1 → (f :: rest).rotate i ∈ s.known)
    (hneed : bound rest.length + (rest.length + 1 - c) + 1 ≤ n + 1) :
    (if (record s (rest ++ [f]) m' fl).2 = true then some (record s (rest ++ [f]) m' fl).1
      else run setter n (record s (rest ++ [f]) m' fl).1).isSome = true := by
  unfold record
  split
  · simp
  · rename_i hnot
    simp only [Bool.false_eq_true, if_false]
    have hnotmem : rest ++ [f] ∉ s.known := by
      intro hm
      apply hnot
      simp [hm]
    have hclt : c < rest.length + 1 := by
      by_contra hge
      have hceq : c = rest.length + 1 := by omega
      have := hK 1 (by omega) (by omega)
      rw [rotate_one_cons] at this
      exact hnotmem this
    apply ih _ (c + 1)
    · constructor
      · simp; omega
      · intro i h1 h2
        simp only [List.length_append, List.length_cons, List.length_nil] at h1 h2
        rw [← rotate_one_cons, List.rotate_rotate]
        by_cases hi : i = rest.length + 1
        · subst hi
          have : (f :: rest).rotate (1 + (rest.length + 1)) = (f :: rest).rotate 1 := by
            rw [Nat.add_comm, ← List.rotate_rotate]
            have := List.rotate_length (f :: rest)
            simp only [List.length_cons] at this
            rw [this]
          rw [this]
          simp
        · have h3 := hK (1 + i) (by omega) (by omega)
          simp [h3]
    · simp only [List.length_append, List.length_cons, List.length_nil, need]
      omega

theorem step_any (setter : Key → List (Key × Val) → SetterResult) (n : Nat)
    (ih : ∀ (s : SState) (c : Nat), Inv s.pending s.known c →
      need s.pending.length c ≤ n → (run setter n s).isSome = true)
    (s : SState) (c : Nat) (f : Key) (rest : List Key)
    (r : List Key × List (Key × Val) × List Key)
    (h1 : r.1 = rest ∨ r.1 = rest ++ [f])
    (hc : c ≤ rest.length + 1)
    (hK : ∀ (i : ℕ), rest.length + 1 - c < i → i ≤ rest.length + 1 → (f :: rest).rotate i ∈ s.known)
    (hneed : bound rest.length + (rest.length + 1 - c) + 1 ≤ n + 1) :
    (if (record s r.1 r.2.1 r.2.2).2 = true then some (record s r.1 r.2.1 r.2.2).1
      else run setter n (record s r.1 r.2.1 r.2.2).1).isSome = true := by
  obtain ⟨r1, m', fl⟩ := r
  simp only at h1 ⊢
  rcases h1 with h1 | h1
  · subst h1; exact step_removed setter n ih s c f r1 m' fl hneed
  · subst h1; exact step_rotated setter n ih s c f rest m' fl hc hK hneed

theorem run_isSome (setter : Key → List (Key × Val) → SetterResult) :
    ∀ (fuel : Nat) (s : SState) (c : Nat), Inv s.pending s.known c →
      need s.pending.length c ≤ fuel → (run setter fuel s).isSome = true := by
  intro fuel
  induction fuel with
  | zero =>
    intro s c hinv hneed
    cases hp : s.pending with
    | nil => simp [run_nil setter 0 s hp]
    | cons f rest =>
      simp only [hp, List.length_cons, need] at hneed
      omega
  | succ n ih =>
    intro s c hinv hneed
    cases hp : s.pending with
    | nil => simp [run_nil setter (n + 1) s hp]
    | cons f rest =>
      obtain ⟨hc, hK⟩ := hinv
      simp only [hp, List.length_cons] at hc hK hneed
      simp only [need] at hneed
      rw [run]
      simp only [hp, iter]
      exact step_any setter n ih s c f rest _ (apply1_fst setter s f rest) hc hK hneed

end Setters
end Cerberus
