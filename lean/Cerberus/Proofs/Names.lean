/-
  `_normalize_rulenames`: after the pass no rule name of the rule set contains a space.
-/
import Cerberus.Proofs.Rename
namespace Cerberus
namespace S

theorem hasSpace_underscored (n : String) : hasSpace (underscored n) = false := by
  unfold hasSpace underscored
  simp only [String.toList_ofList]
  rw [Bool.eq_false_iff]
  intro h
  rw [List.contains_iff_mem] at h
  obtain ⟨c, _, hc⟩ := List.mem_map.mp h
  split at hc
  · exact absurd hc (by decide)
  · rename_i hne; exact hne hc

/-- a key is "spaced" when it is a string with a space -/
def spacedKey (k : Key) : Bool := match k with | .s n => hasSpace n | _ => false

theorem dkeys_ddel_mem (m : List (Key × Val)) (k q : Key) (hnd : (Val.dkeys m).Nodup) :
    q ∈ Val.dkeys (Val.ddel m k) → q ∈ Val.dkeys m ∧ q ≠ k := by
  induction m with
  | nil => intro h; simp [Val.ddel, Val.dkeys] at h
  | cons hd tl ih =>
    obtain ⟨k', v'⟩ := hd
    simp only [Val.dkeys, List.map_cons, List.nodup_cons] at hnd
    simp only [Val.ddel]
    by_cases h1 : k' = k
    · subst h1
      simp only [if_true, Val.dkeys, List.map_cons, List.mem_cons]
      intro hq
      exact ⟨Or.inr hq, fun e => hnd.1 (e ▸ hq)⟩
    · simp only [h1, if_false, Val.dkeys, List.map_cons, List.mem_cons]
      rintro (h | h)
      · exact ⟨Or.inl h, fun e => h1 (h ▸ e)⟩
      · have := ih (by simpa [Val.dkeys] using hnd.2) (by simpa [Val.dkeys] using h)
        exact ⟨Or.inr (by simpa [Val.dkeys] using this.1), this.2⟩

theorem dkeys_dset_mem (m : List (Key × Val)) (k q : Key) (v : Val) :
    q ∈ Val.dkeys (Val.dset m k v) → q ∈ Val.dkeys m ∨ q = k := by
  rw [dkeys_dset]
  split
  · exact Or.inl
  · intro h; simpa using h

/-- one step of the pass -/
def nameStep (acc : List (Key × Val)) (n : String) : List (Key × Val) :=
  match Val.dlookup acc (.s n) with
  | some v => Val.dset (Val.ddel acc (.s n)) (.s (underscored n)) v
  | none => acc

theorem nameStep_spec (acc : List (Key × Val)) (n : String) (hnd : (Val.dkeys acc).Nodup) :
    (Val.dkeys (nameStep acc n)).Nodup ∧
    ∀ q, q ∈ Val.dkeys (nameStep acc n) → spacedKey q = true → q ∈ Val.dkeys acc ∧ q ≠ .s n := by
  unfold nameStep
  split
  · rename_i v hv
    refine ⟨nodup_dset _ _ _ (nodup_ddel _ _ hnd), ?_⟩
    intro q hq hs
    rcases dkeys_dset_mem _ _ _ _ hq with h | h
    · exact dkeys_ddel_mem acc _ q hnd h
    · subst h
      simp [spacedKey, hasSpace_underscored] at hs
  · rename_i hnone
    refine ⟨hnd, fun q hq _ => ⟨hq, ?_⟩⟩
    intro e
    subst e
    have : Val.dlookup acc (Key.s n) ≠ Option.none := by
      clear hnone
      induction acc with
      | nil => simp [Val.dkeys] at hq
      | cons hd tl ih =>
        obtain ⟨k', v'⟩ := hd
        simp only [Val.dkeys, List.map_cons, List.mem_cons] at hq
        simp only [Val.dkeys, List.map_cons, List.nodup_cons] at hnd
        by_cases h1 : k' = Key.s n
        · simp [Val.dlookup, h1]
        · simp only [Val.dlookup, h1, if_false]
          rcases hq with h | h
          · exact absurd h.symm h1
          · exact ih (by simpa [Val.dkeys] using hnd.2) (by simpa [Val.dkeys] using h)
    exact this hnone

theorem foldl_nameStep (todo : List String) : ∀ (acc : List (Key × Val)), (Val.dkeys acc).Nodup →
    (Val.dkeys (todo.foldl nameStep acc)).Nodup ∧
    ∀ q, q ∈ Val.dkeys (todo.foldl nameStep acc) → spacedKey q = true →
      q ∈ Val.dkeys acc ∧ ∀ n, n ∈ todo → q ≠ .s n := by
  induction todo with
  | nil => intro acc hnd; exact ⟨hnd, fun q hq _ => ⟨hq, by simp⟩⟩
  | cons n rest ih =>
    intro acc hnd
    obtain ⟨h1, h2⟩ := nameStep_spec acc n hnd
    obtain ⟨h3, h4⟩ := ih (nameStep acc n) h1
    refine ⟨h3, ?_⟩
    intro q hq hs
    obtain ⟨h5, h6⟩ := h4 q hq hs
    obtain ⟨h7, h8⟩ := h2 q h5 hs
    refine ⟨h7, ?_⟩
    intro m hm
    rcases List.mem_cons.mp hm with e | e
    · subst e; exact h8
    · exact h6 m e

theorem normalizeNames_eq (rules : List (Key × Val)) :
    normalizeNames rules =
      (rules.filterMap (fun kv => match kv.1 with | .s n => if hasSpace n then some n else none | _ => none)).foldl
        nameStep rules := rfl

/-- **after the pass no rule name has a space** (and the keys are still distinct) -/
theorem normalizeNames_complete (rules : List (Key × Val)) (hnd : (Val.dkeys rules).Nodup) :
    (Val.dkeys (normalizeNames rules)).Nodup ∧
    ∀ q, q ∈ Val.dkeys (normalizeNames rules) → spacedKey q = false := by
  rw [normalizeNames_eq]
  obtain ⟨h1, h2⟩ := foldl_nameStep _ rules hnd
  refine ⟨h1, ?_⟩
  intro q hq
  cases hs : spacedKey q with
  | false => rfl
  | true =>
    exfalso
    obtain ⟨h3, h4⟩ := h2 q hq hs
    cases q with
    | i _ => simp [spacedKey] at hs
    | s n =>
      refine h4 n ?_ rfl
      simp only [List.mem_filterMap]
      obtain ⟨kv, hkv, hk⟩ := List.mem_map.mp h3
      refine ⟨kv, hkv, ?_⟩
      simp only [spacedKey] at hs
      simp [hk, hs]

/-- **a second pass changes nothing** -/
theorem normalizeNames_idempotent (rules : List (Key × Val)) (hnd : (Val.dkeys rules).Nodup) :
    normalizeNames (normalizeNames rules) = normalizeNames rules := by
  obtain ⟨_, h⟩ := normalizeNames_complete rules hnd
  generalize normalizeNames rules = out at h
  rw [normalizeNames_eq]
  have : out.filterMap (fun kv => match kv.1 with | .s n => if hasSpace n then some n else none | _ => none) = [] := by
    rw [List.filterMap_eq_nil_iff]
    intro kv hkv
    have hq := h kv.1 (List.mem_map.mpr ⟨kv, hkv, rfl⟩)
    cases hk : kv.1 with
    | i _ => rfl
    | s n => simp only [hk, spacedKey] at hq; simp [hq]
  rw [this]; rfl

end S
end Cerberus
