/-
  Fuel.  `validate0` ties the recursion through child validators with a fuel parameter and
  answers `.error .fuel` when it runs out.  This file shows that the fuel is only a
  termination device: every function of the validation model is monotone in its recursive
  callback with respect to the flat order in which `.error .fuel` is the least element, so a
  result other than `.error .fuel` obtained with some fuel is the result for every larger
  fuel.
-/
import Cerberus.Proofs.Validate
import Cerberus.Model.Normalize
namespace Cerberus
namespace V

/-- the flat order on results: running out of fuel is below everything -/
def Fle {α} (a b : M α) : Prop := a = .error .fuel ∨ a = b

theorem Fle.refl {α} (a : M α) : Fle a a := Or.inr rfl
theorem Fle.bot {α} (b : M α) : Fle (.error .fuel) b := Or.inl rfl

theorem Fle.trans {α} {a b c : M α} (h1 : Fle a b) (h2 : Fle b c) : Fle a c := by
  rcases h1 with h | h
  · exact Or.inl h
  · subst h; exact h2

theorem Fle.bind {α β} {a b : M α} {f g : α → M β} (h : Fle a b) (hf : ∀ x, Fle (f x) (g x)) :
    Fle (a >>= f) (b >>= g) := by
  rcases h with h | h
  · subst h; exact Or.inl rfl
  · subst h
    cases a with
    | error e => exact Or.inr rfl
    | ok x => exact hf x

theorem Fle.ite {α} (c : Prop) [Decidable c] {a a' b b' : M α} (h1 : Fle a a') (h2 : Fle b b') :
    Fle (if c then a else b) (if c then a' else b') := by
  split <;> assumption

/-- the two sides inspect two related results by the same `match`: either the first is out of fuel
    (and so is the whole left side), or they are the same result -/
macro "fle_on " h:term : tactic => `(tactic|
  (have hfle := $h
   rcases hfle with h | h
   · rw [h]; exact Or.inl rfl
   rw [h]))

/-- the second callback answers wherever the first does -/
def RecLe (r1 r2 : Rec) : Prop := ∀ c s d u, Fle (r1 c s d u) (r2 c s d u)

section
variable (env : Env) (t : Tables) (r1 r2 : Rec) (hle : RecLe r1 r2)
include hle

/-- both sides are the same program up to the callback: walk through the binds and branches -/
macro "fle_walk" : tactic => `(tactic| repeat (first
    | exact Fle.refl _
    | exact hle _ _ _ _
    | apply Fle.bind
    | apply Fle.ite
    | intro _))

theorem hItems_le (ctx : Ctx) (schema doc : Val) (f : Key) (c v : Val) (upd : Bool) :
    Fle (hItems env r1 ctx schema doc f c v upd) (hItems env r2 ctx schema doc f c v upd) := by
  unfold hItems
  fle_walk

theorem hKeysrules_le (ctx : Ctx) (schema doc : Val) (f : Key) (c v : Val) :
    Fle (hKeysrules env r1 ctx schema doc f c v) (hKeysrules env r2 ctx schema doc f c v) := by
  unfold hKeysrules
  cases v <;> fle_walk

theorem hValuesrules_le (ctx : Ctx) (schema doc : Val) (f : Key) (c v : Val) (upd : Bool) :
    Fle (hValuesrules env r1 ctx schema doc f c v upd) (hValuesrules env r2 ctx schema doc f c v upd) := by
  unfold hValuesrules
  cases v <;> fle_walk

/-- the two sides differ in one call of the callback, whose result is inspected by a `match`:
    name the two results and relate them -/
macro "fle_call" r1:ident r2:ident hle:ident : tactic => `(tactic|
  (generalize hr1 : $r1 _ _ _ _ = a
   generalize hr2 : $r2 _ _ _ _ = b
   have hab : Fle a b := by rw [← hr1, ← hr2]; exact $hle _ _ _ _
   clear hr1 hr2
   rcases hab with h | h <;> subst h
   · exact Or.inl rfl
   · exact Fle.refl _))

theorem hSchema_le (ctx : Ctx) (schema doc : Val) (f : Key) (c v : Val) (upd : Bool) :
    Fle (hSchema env r1 ctx schema doc f c v upd) (hSchema env r2 ctx schema doc f c v upd) := by
  unfold hSchema
  cases v <;> fle_walk
  dsimp only
  split
  · simp only [pure_bind]
    fle_call r1 r2 hle
  · exact Fle.refl _

theorem defChild_le (ctx : Ctx) (doc : Val) (f : Key) (op : String) (upd : Bool) (rs : Val) (i : Nat) (d : Val) :
    Fle (defChild r1 ctx doc f op upd rs i d) (defChild r2 ctx doc f op upd rs i d) := by
  unfold defChild
  cases d <;> fle_walk

theorem logicalDefs_le (ctx : Ctx) (doc : Val) (f : Key) (op : String) (upd : Bool) (rs : Val) :
    ∀ (i : Nat) (ds : List Val),
      Fle (logicalDefs r1 ctx doc f op upd rs i ds) (logicalDefs r2 ctx doc f op upd rs i ds)
  | _, [] => Fle.refl _
  | i, d :: ds => by
    unfold logicalDefs
    fle_on (defChild_le r1 r2 hle ctx doc f op upd rs i d)
    split
    · exact Fle.refl _
    · fle_on (logicalDefs_le ctx doc f op upd rs (i + 1) ds)
      exact Fle.refl _

theorem hLogical_le (ctx : Ctx) (schema doc : Val) (f : Key) (op : String) (code : Nat) (c v : Val) (upd : Bool) :
    Fle (hLogical env r1 ctx schema doc f op code c v upd) (hLogical env r2 ctx schema doc f op code c v upd) := by
  unfold hLogical
  dsimp only
  split
  · exact Fle.refl _
  · split
    · exact Fle.refl _
    · rename_i x1 defs h1 x2 rs h2
      fle_on (logicalDefs_le r1 r2 hle ctx doc f op upd rs 0 defs)
      exact Fle.refl _

omit hle in
theorem errsOnly_le {a b : M (List ESpec)} (h : Fle a b) : Fle (errsOnly a) (errsOnly b) := by
  rcases h with h | h
  · subst h; exact Or.inl rfl
  · subst h; exact Fle.refl _

theorem handler_le (ctx : Ctx) (schema doc : Val) (upd : Bool) (f : Key) (defs v : Val) (sofar : List Err)
    (rule : String) :
    Fle (handler env t r1 ctx schema doc upd f defs v sofar rule)
        (handler env t r2 ctx schema doc upd f defs v sofar rule) := by
  unfold handler
  dsimp only
  split
  all_goals first
    | exact Fle.refl _
    | exact hSchema_le env r1 r2 hle ..
    | exact errsOnly_le (hItems_le env r1 r2 hle ..)
    | exact errsOnly_le (hKeysrules_le env r1 r2 hle ..)
    | exact errsOnly_le (hValuesrules_le env r1 r2 hle ..)
    | exact errsOnly_le (hLogical_le env r1 r2 hle ..)

theorem runRule_le (ctx : Ctx) (schema doc : Val) (upd : Bool) (f : Key) (defs v : Val) (sofar : List Err)
    (rule : String) :
    Fle (runRule env t r1 ctx schema doc upd f defs v sofar rule)
        (runRule env t r2 ctx schema doc upd f defs v sofar rule) := by
  unfold runRule
  fle_on (handler_le env t r1 r2 hle ctx schema doc upd f defs v sofar rule)
  exact Fle.refl _

omit hle in
theorem runQueue_le (h1 h2 : List Err → String → M (HOut × List Err)) (hh : ∀ es r, Fle (h1 es r) (h2 es r)) :
    ∀ (q : List String) (s : QState), Fle (runQueue h1 q s) (runQueue h2 q s)
  | [], s => Fle.refl _
  | r :: rs, s => by
    unfold runQueue
    split
    · exact runQueue_le h1 h2 hh rs s
    · fle_on (hh s.errs r)
      split
      · exact Fle.refl _
      · exact runQueue_le h1 h2 hh rs _

theorem validateDefinitions_le (ctx : Ctx) (schema doc : Val) (upd : Bool) (f : Key) (definitions v : Val)
    (s : QState) :
    Fle (validateDefinitions env t r1 ctx schema doc upd f definitions v s)
        (validateDefinitions env t r2 ctx schema doc upd f definitions v s) := by
  unfold validateDefinitions
  split
  · exact Fle.refl _
  · split
    · exact Fle.refl _
    · exact runQueue_le _ _ (fun es r => runRule_le env t r1 r2 hle ctx schema doc upd f _ v es r) _ _

theorem validateUnknown_le (ctx : Ctx) (doc : Val) (f : Key) (v : Val) :
    Fle (validateUnknown r1 ctx doc f v) (validateUnknown r2 ctx doc f v) := by
  unfold validateUnknown
  fle_walk

theorem validateField_le (ctx : Ctx) (schema : Val) (skvs : List (Key × Val)) (doc : Val) (upd : Bool) (f : Key)
    (v : Val) (s : QState) :
    Fle (validateField env t r1 ctx schema skvs doc upd f v s)
        (validateField env t r2 ctx schema skvs doc upd f v s) := by
  unfold validateField
  split
  · exact Fle.refl _
  · split
    · split
      · fle_on (validateUnknown_le r1 r2 hle ctx doc f v)
        exact Fle.refl _
      · exact validateDefinitions_le env t r1 r2 hle ..
    · fle_on (validateUnknown_le r1 r2 hle ctx doc f v)
      exact Fle.refl _

theorem validateFields_le (ctx : Ctx) (schema : Val) (skvs : List (Key × Val)) (doc : Val) (upd : Bool) :
    ∀ (kvs : List (Key × Val)) (s : QState),
      Fle (validateFields env t r1 ctx schema skvs doc upd kvs s) (validateFields env t r2 ctx schema skvs doc upd kvs s)
  | [], s => Fle.refl _
  | (f, v) :: r, s => by
    unfold validateFields
    fle_on (validateField_le env t r1 r2 hle ctx schema skvs doc upd f v s)
    split
    · exact Fle.refl _
    · exact validateFields_le ctx schema skvs doc upd r _

theorem validateResolved_le (ctx : Ctx) (skvs : List (Key × Val)) (doc : Val) (dkvs : List (Key × Val)) (upd : Bool)
    (pre : List Err) (unreq0 : List Key) :
    Fle (validateResolved env t r1 ctx skvs doc dkvs upd pre unreq0)
        (validateResolved env t r2 ctx skvs doc dkvs upd pre unreq0) := by
  unfold validateResolved
  fle_on (validateFields_le env t r1 r2 hle ctx (.dict skvs) skvs doc upd dkvs { errs := pre, unreq := unreq0 })
  exact Fle.refl _

theorem validateMapping_le (ctx : Ctx) (schema doc : Val) (upd : Bool) (pre : List Err) (unreq0 : List Key) :
    Fle (validateMapping env t r1 ctx schema doc upd pre unreq0)
        (validateMapping env t r2 ctx schema doc upd pre unreq0) := by
  unfold validateMapping
  split
  · split
    · exact validateResolved_le env t r1 r2 hle ..
    · exact Fle.refl _
  · exact Fle.refl _

end
end V

open V in
/-- **more fuel never changes an answer**: the validation with `n` units of fuel is below the one with `n + 1` -/
theorem validate0_step (env : Env) (t : Tables) : ∀ n, RecLe (validate0 env t n) (validate0 env t (n + 1))
  | 0 => fun _ _ _ _ => Fle.bot _
  | n + 1 => fun ctx s d u => by
    show Fle (validateMapping env t (validate0 env t n) ctx s d u [] [])
             (validateMapping env t (validate0 env t (n + 1)) ctx s d u [] [])
    exact validateMapping_le env t _ _ (validate0_step env t n) ctx s d u [] []

open V in
theorem validate0_mono (env : Env) (t : Tables) (n k : Nat) : RecLe (validate0 env t n) (validate0 env t (n + k)) := by
  induction k with
  | zero => exact fun _ _ _ _ => Fle.refl _
  | succ k ih => exact fun c s d u => Fle.trans (ih c s d u) (validate0_step env t (n + k) c s d u)

open V in
/-- a result other than "out of fuel" is the result for every larger fuel -/
theorem validate0_stable (env : Env) (t : Tables) (n m : Nat) (hnm : n ≤ m) (ctx : Ctx) (s d : Val) (u : Bool)
    (h : validate0 env t n ctx s d u ≠ .error .fuel) :
    validate0 env t m ctx s d u = validate0 env t n ctx s d u := by
  obtain ⟨k, rfl⟩ := Nat.exists_eq_add_of_le hnm
  rcases validate0_mono env t n k ctx s d u with h' | h'
  · exact absurd h' h
  · exact h'.symm


/-! ### normalization -/

namespace N
open V

/-- the second callback answers wherever the first does -/
def RecNLe (r1 r2 : RecN) : Prop := ∀ c s d, Fle (r1 c s d) (r2 c s d)

section
variable (env : Env) (r1 r2 : RecN) (hleN : RecNLe r1 r2)
include hleN

macro "fle_walkN" : tactic => `(tactic| repeat (first
    | exact Fle.refl _
    | exact hleN _ _ _
    | apply Fle.bind
    | apply Fle.ite
    | intro _))

theorem keysrulesChild_le (ctx : Ctx) (m : List (Key × Val)) (f : Key) (c : Val) (sub : List (Key × Val)) :
    Fle (keysrulesChild r1 ctx m f c sub) (keysrulesChild r2 ctx m f c sub) := by
  unfold keysrulesChild
  fle_on (hleN (ctx.child (.dict m) {} (some f) [f, kS "keysrules"])
          (.dict ((Val.dkeys sub).map (fun k => (k, c)))) ((Val.dkeys sub).map (fun k => (k, k.toVal))))
  exact Fle.refl _

theorem keysrulesPass_le (ctx : Ctx) (s : NState) (f : Key) (c : Val) (sub : List (Key × Val)) :
    Fle (keysrulesPass r1 ctx s f c sub) (keysrulesPass r2 ctx s f c sub) := by
  unfold keysrulesPass
  fle_on (keysrulesChild_le r1 r2 hleN ctx s.m f c sub)
  exact Fle.refl _

theorem valuesrulesPass_le (ctx : Ctx) (s : NState) (f : Key) (c : Val) (sub : List (Key × Val)) :
    Fle (valuesrulesPass r1 ctx s f c sub) (valuesrulesPass r2 ctx s f c sub) := by
  unfold valuesrulesPass
  fle_walkN

theorem mappingSchemaPass_le (ctx : Ctx) (s : NState) (f : Key) (own : Option Val) (sub : List (Key × Val)) :
    Fle (mappingSchemaPass env r1 ctx s f own sub) (mappingSchemaPass env r2 ctx s f own sub) := by
  unfold mappingSchemaPass
  dsimp only
  generalize hc : ctx.child _ _ _ _ = cctx
  generalize hs : get _ "schema" _ = cs
  fle_on (hleN cctx cs sub)
  exact Fle.refl _

theorem seqPass_le (ctx : Ctx) (s : NState) (f : Key) (tup : Bool) (rule : String) (cschema : List (Key × Val))
    (xs : List Val) :
    Fle (seqPass r1 ctx s f tup rule cschema xs) (seqPass r2 ctx s f tup rule cschema xs) := by
  unfold seqPass
  fle_on (hleN (ctx.child (.dict s.m) {} (some f) [f, kS rule]) (.dict cschema) (Val.enumDict xs))
  exact Fle.refl _

theorem containers_le (ctx : Ctx) (rs : RSchema) :
    ∀ (fs : List Key) (s : NState), Fle (containers env r1 ctx rs fs s) (containers env r2 ctx rs fs s)
  | [], s => Fle.refl _
  | f :: r, s => by
    unfold containers
    dsimp only
    repeat (first
      | exact Fle.refl _
      | exact containers_le ctx rs r _
      | exact keysrulesPass_le r1 r2 hleN ..
      | exact valuesrulesPass_le r1 r2 hleN ..
      | exact mappingSchemaPass_le env r1 r2 hleN ..
      | exact seqPass_le r1 r2 hleN ..
      | apply Fle.bind
      | apply Fle.ite
      | intro _
      | split)

theorem normalizeMapping_le (ctx : Ctx) (schema : Val) (doc : List (Key × Val)) :
    Fle (normalizeMapping env r1 ctx schema doc) (normalizeMapping env r2 ctx schema doc) := by
  unfold normalizeMapping
  dsimp only
  split
  all_goals repeat (first
    | exact Fle.refl _
    | exact containers_le env r1 r2 hleN ..
    | apply Fle.bind
    | apply Fle.ite
    | intro _)

end
end N

open V N in
/-- **more fuel never changes a normalization either** -/
theorem normalize_step (env : Env) : ∀ n, RecNLe (normalize env n) (normalize env (n + 1))
  | 0 => fun _ _ _ => Fle.bot _
  | n + 1 => fun ctx s d => by
    show Fle (normalizeMapping env (normalize env n) ctx s d) (normalizeMapping env (normalize env (n + 1)) ctx s d)
    exact normalizeMapping_le env _ _ (normalize_step env n) ctx s d

open V N in
theorem normalize_mono (env : Env) (n k : Nat) : RecNLe (normalize env n) (normalize env (n + k)) := by
  induction k with
  | zero => exact fun _ _ _ => Fle.refl _
  | succ k ih => exact fun c s d => Fle.trans (ih c s d) (normalize_step env (n + k) c s d)

open V N in
/-- a normalization result other than "out of fuel" is the result for every larger fuel -/
theorem normalize_stable (env : Env) (n m : Nat) (hnm : n ≤ m) (ctx : Ctx) (s : Val) (d : List (Key × Val))
    (h : normalize env n ctx s d ≠ .error .fuel) :
    normalize env m ctx s d = normalize env n ctx s d := by
  obtain ⟨k, rfl⟩ := Nat.exists_eq_add_of_le hnm
  rcases normalize_mono env n k ctx s d with h' | h'
  · exact absurd h' h
  · exact h'.symm

open V N in
/-- the whole processing (`validate(doc, normalize=True)`): one more unit of fuel never changes an answer -/
theorem validateNS_step (env : Env) (t : Tables) (ctx : Ctx) (s : Val) (d : List (Key × Val)) (u : Bool)
    (pre : List Err) (un : List Key) :
    ∀ n, Fle (validateNS env t n ctx s d u pre un) (validateNS env t (n + 1) ctx s d u pre un)
  | 0 => Fle.bot _
  | n + 1 => by
    unfold validateNS
    apply Fle.bind (normalize_step env (n + 1) ctx s d)
    intro p
    dsimp only
    apply Fle.bind
    · exact validateMapping_le env t _ _ (validate0_step env t n) ..
    · intro _; exact Fle.refl _

open V N in
/-- a result of the whole processing other than "out of fuel" is the result for every larger fuel -/
theorem validateN_stable (env : Env) (t : Tables) (n m : Nat) (hnm : n ≤ m) (ctx : Ctx) (s : Val)
    (d : List (Key × Val)) (u : Bool) (h : validateN env t n ctx s d u ≠ .error .fuel) :
    validateN env t m ctx s d u = validateN env t n ctx s d u := by
  obtain ⟨k, rfl⟩ := Nat.exists_eq_add_of_le hnm
  have mono : ∀ k, Fle (validateN env t n ctx s d u) (validateN env t (n + k) ctx s d u) := by
    intro k
    induction k with
    | zero => exact Fle.refl _
    | succ k ih => exact Fle.trans ih (validateNS_step env t ctx s d u [] [] (n + k))
  rcases mono k with h' | h'
  · exact absurd h' h
  · exact h'.symm

end Cerberus
