/-
  Structural lemmas about the validation model: the error list of one validator
  instance only ever grows by appending.
-/
import Cerberus.Model.Validate
namespace Cerberus
namespace V

theorem bind_ok' {α β} {x : M α} {f : α → M β} {b : β}
    (h : (x >>= f) = .ok b) : ∃ a, x = .ok a ∧ f a = .ok b := by
  cases x with
  | error e => simp [bind, Except.bind] at h
  | ok a => exact ⟨a, rfl, by simpa [bind, Except.bind] using h⟩

theorem runQueue_prefix (h : List Err → String → M (HOut × List Err)) :
    ∀ (q : List String) (s s' : QState), runQueue h q s = .ok s' → ∃ r, s'.errs = s.errs ++ r
  | [], s, s', hq => by
    simp only [runQueue, Except.ok.injEq] at hq
    subst hq; exact ⟨[], by simp⟩
  | r :: rs, s, s', hq => by
    simp only [runQueue] at hq
    split at hq
    · exact runQueue_prefix h rs s s' hq
    · split at hq
      · simp at hq
      · rename_i o es _
        obtain ⟨r', hr⟩ := runQueue_prefix h rs _ s' hq
        simp only at hr
        exact ⟨es ++ r', by simp [hr]⟩

theorem validateDefinitions_prefix (env : Env) (t : Tables) (rec : Rec) (ctx : Ctx) (schema doc : Val)
    (upd : Bool) (f : Key) (definitions v : Val) (s s' : QState)
    (h : validateDefinitions env t rec ctx schema doc upd f definitions v s = .ok s') :
    ∃ r, s'.errs = s.errs ++ r := by
  simp only [validateDefinitions] at h
  split at h
  · split at h <;> simp [raisePy] at h
  · split at h
    · simp at h
    · obtain ⟨r, hr⟩ := runQueue_prefix _ _ _ _ h
      exact ⟨r, hr⟩

theorem validateField_prefix (env : Env) (t : Tables) (rec : Rec) (ctx : Ctx) (schema : Val)
    (skvs : List (Key × Val)) (doc : Val) (upd : Bool) (f : Key) (v : Val) (s s' : QState)
    (h : validateField env t rec ctx schema skvs doc upd f v s = .ok s') :
    ∃ r, s'.errs = s.errs ++ r := by
  simp only [validateField] at h
  split at h
  · simp only [Except.ok.injEq] at h; subst h; exact ⟨[], by simp⟩
  · split at h
    · split at h
      · split at h
        · simp at h
        · simp only [Except.ok.injEq] at h; subst h; exact ⟨_, rfl⟩
      · exact validateDefinitions_prefix _ _ _ _ _ _ _ _ _ _ _ _ h
    · split at h
      · simp at h
      · simp only [Except.ok.injEq] at h; subst h; exact ⟨_, rfl⟩

theorem validateFields_prefix (env : Env) (t : Tables) (rec : Rec) (ctx : Ctx) (schema : Val)
    (skvs : List (Key × Val)) (doc : Val) (upd : Bool) :
    ∀ (fs : List (Key × Val)) (s s' : QState),
      validateFields env t rec ctx schema skvs doc upd fs s = .ok s' → ∃ r, s'.errs = s.errs ++ r
  | [], s, s', h => by
    simp only [validateFields, Except.ok.injEq] at h
    subst h; exact ⟨[], by simp⟩
  | (f, v) :: r, s, s', h => by
    simp only [validateFields] at h
    split at h
    · simp at h
    · rename_i s1 h1
      obtain ⟨r1, hr1⟩ := validateField_prefix _ _ _ _ _ _ _ _ _ _ _ _ h1
      obtain ⟨r2, hr2⟩ := validateFields_prefix env t rec ctx schema skvs doc upd r s1 s' h
      exact ⟨r1 ++ r2, by simp [hr2, hr1]⟩

theorem validateResolved_prefix (env : Env) (t : Tables) (rec : Rec) (ctx : Ctx) (skvs : List (Key × Val))
    (doc : Val) (dkvs : List (Key × Val)) (upd : Bool) (pre : List Err) (unreq0 : List Key) (errs : List Err)
    (h : validateResolved env t rec ctx skvs doc dkvs upd pre unreq0 = .ok errs) :
    ∃ r, errs = pre ++ r := by
  simp only [validateResolved] at h
  split at h
  · simp at h
  · rename_i s hs
    obtain ⟨r, hr⟩ := validateFields_prefix _ _ _ _ _ _ _ _ _ _ _ hs
    simp only at hr
    split at h
    · simp only [Except.ok.injEq] at h; subst h; exact ⟨r, hr⟩
    · split at h
      · simp at h
      · rename_i req _
        simp only [Except.ok.injEq] at h; subst h; exact ⟨r ++ req, by simp [hr]⟩

/-- validation only ever appends to the error list it starts from -/
theorem validateMapping_prefix (env : Env) (t : Tables) (rec : Rec) (ctx : Ctx) (schema doc : Val)
    (upd : Bool) (pre : List Err) (unreq0 : List Key) (errs : List Err)
    (h : validateMapping env t rec ctx schema doc upd pre unreq0 = .ok errs) :
    ∃ r, errs = pre ++ r := by
  simp only [validateMapping] at h
  split at h
  · split at h
    · exact validateResolved_prefix _ _ _ _ _ _ _ _ _ _ _ h
    · simp [raisePy] at h
  · simp [raisePy] at h

end V
end Cerberus
