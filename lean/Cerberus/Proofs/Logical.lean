/-
  `_expand_logical_shortcuts` on one rule set: when the pass completes, no `<operator>_<rule>` key is left.
-/
import Cerberus.Proofs.Names
namespace Cerberus
namespace S

/-- a key is a shorthand when it is a string that starts with `<operator>_` -/
def ofKey (k : Key) : Bool := match k with | .s n => (splitOf n).isSome | _ => false

theorem splitOfChars_mem (cs : List Char) : ∀ (ps : List String) (op rule : String),
    splitOfChars cs ps = some (op, rule) → op ∈ ps
  | [], _, _, h => by simp [splitOfChars] at h
  | p :: ps, op, rule, h => by
    simp only [splitOfChars] at h
    split at h
    · injection h with h; injection h with h1 _; subst h1; simp
    · exact List.mem_cons_of_mem _ (splitOfChars_mem cs ps op rule h)

theorem splitOf_op (n op rule : String) (h : splitOf n = some (op, rule)) : splitOf op = none := by
  have hm := splitOfChars_mem n.toList ofPrefixes op rule h
  simp only [ofPrefixes, List.mem_cons, List.mem_nil_iff, or_false] at hm
  rcases hm with e | e | e | e <;> subst e <;> decide

/-- one step of the pass -/
def ofStep (st : List (Key × Val) × Bool) (n : String) : List (Key × Val) × Bool :=
  if st.2 then st else
  match splitOf n, Val.dlookup st.1 (.s n) with
  | some (op, rule), some c =>
    let r1 := Val.dset st.1 (.s op) (.seq false [])
    match iterConstraint c with
    | none => (r1, true)
    | some xs =>
      let r2 := Val.dset r1 (.s op) (.seq false (xs.map (fun x => .dict [(.s rule, x)])))
      (Val.ddel r2 (.s n), false)
  | _, _ => st

theorem expandLogicalRules_eq (rules : List (Key × Val)) :
    expandLogicalRules rules =
      (rules.filterMap (fun kv => match kv.1 with
        | .s n => if (splitOf n).isSome then some n else none | _ => none)).foldl ofStep (rules, false) := rfl

theorem dlookup_ne_none_of_mem (m : List (Key × Val)) (k : Key) (h : k ∈ Val.dkeys m) : Val.dlookup m k ≠ Option.none := by
  induction m with
  | nil => simp [Val.dkeys] at h
  | cons hd tl ih =>
    obtain ⟨k', v'⟩ := hd
    simp only [Val.dkeys, List.map_cons, List.mem_cons] at h
    by_cases h1 : k' = k
    · simp [Val.dlookup, h1]
    · simp only [Val.dlookup, h1, if_false]
      rcases h with h | h
      · exact absurd h.symm h1
      · exact ih (by simpa [Val.dkeys] using h)

theorem ofStep_spec (acc : List (Key × Val)) (n : String) (hnd : (Val.dkeys acc).Nodup)
    (hfin : (ofStep (acc, false) n).2 = false) :
    (Val.dkeys (ofStep (acc, false) n).1).Nodup ∧
    ∀ q, q ∈ Val.dkeys (ofStep (acc, false) n).1 → ofKey q = true → q ∈ Val.dkeys acc ∧ (ofKey (.s n) = true → q ≠ .s n) := by
  unfold ofStep at hfin ⊢
  simp only [Bool.false_eq_true, if_false] at hfin ⊢
  split
  · rename_i op rule c hsp hlk
    simp only [hsp, hlk] at hfin
    split
    · rename_i hit; simp [hit] at hfin
    · rename_i xs hit
      refine ⟨nodup_ddel _ _ (nodup_dset _ _ _ (nodup_dset _ _ _ hnd)), ?_⟩
      intro q hq hs
      obtain ⟨h1, h2⟩ := dkeys_ddel_mem _ _ q (nodup_dset _ _ _ (nodup_dset _ _ _ hnd)) hq
      refine ⟨?_, fun _ => h2⟩
      rcases dkeys_dset_mem _ _ _ _ h1 with h | h
      · rcases dkeys_dset_mem _ _ _ _ h with h' | h'
        · exact h'
        · subst h'; simp [ofKey, splitOf_op n op rule hsp] at hs
      · subst h; simp [ofKey, splitOf_op n op rule hsp] at hs
  · rename_i hno
    refine ⟨hnd, fun q hq hs => ⟨hq, ?_⟩⟩
    intro hn e
    subst e
    simp only [ofKey] at hn
    cases hsp : splitOf n with
    | none => simp [hsp] at hn
    | some pr =>
      cases hlk : Val.dlookup acc (Key.s n) with
      | none => exact dlookup_ne_none_of_mem acc _ hq hlk
      | some c => exact hno pr.1 pr.2 c (by simp [hsp]) hlk

theorem ofStep_flag (st : List (Key × Val) × Bool) (n : String) (h : st.2 = true) : ofStep st n = st := by
  simp [ofStep, h]

theorem foldl_ofStep_flag (todo : List String) (st : List (Key × Val) × Bool) (h : st.2 = true) :
    (todo.foldl ofStep st).2 = true := by
  induction todo generalizing st with
  | nil => exact h
  | cons n rest ih => simp only [List.foldl_cons]; rw [ofStep_flag st n h]; exact ih st h

theorem foldl_ofStep (todo : List String) (hof : ∀ n, n ∈ todo → ofKey (.s n) = true) :
    ∀ (acc : List (Key × Val)), (Val.dkeys acc).Nodup → (todo.foldl ofStep (acc, false)).2 = false →
    (Val.dkeys (todo.foldl ofStep (acc, false)).1).Nodup ∧
    ∀ q, q ∈ Val.dkeys (todo.foldl ofStep (acc, false)).1 → ofKey q = true →
      q ∈ Val.dkeys acc ∧ ∀ n, n ∈ todo → q ≠ .s n := by
  induction todo with
  | nil => intro acc hnd _; exact ⟨hnd, fun q hq _ => ⟨hq, by simp⟩⟩
  | cons n rest ih =>
    intro acc hnd hfin
    simp only [List.foldl_cons] at hfin ⊢
    have hflag : (ofStep (acc, false) n).2 = false := by
      cases hb : (ofStep (acc, false) n).2 with
      | false => rfl
      | true => rw [foldl_ofStep_flag rest _ hb] at hfin; cases hfin
    obtain ⟨h1, h2⟩ := ofStep_spec acc n hnd hflag
    have hst : ofStep (acc, false) n = ((ofStep (acc, false) n).1, false) :=
      Prod.ext rfl hflag
    rw [hst] at hfin ⊢
    obtain ⟨h3, h4⟩ := ih (fun m hm => hof m (List.mem_cons_of_mem _ hm)) _ h1 hfin
    refine ⟨h3, ?_⟩
    intro q hq hs
    obtain ⟨h5, h6⟩ := h4 q hq hs
    obtain ⟨h7, h8⟩ := h2 q h5 hs
    refine ⟨h7, ?_⟩
    intro m hm
    rcases List.mem_cons.mp hm with e | e
    · subst e; exact h8 (hof m (by simp))
    · exact h6 m e

/-- **when the pass completes, no shorthand key is left** (and the keys are still distinct) -/
theorem expandLogicalRules_complete (rules : List (Key × Val)) (hnd : (Val.dkeys rules).Nodup)
    (hfin : (expandLogicalRules rules).2 = false) :
    (Val.dkeys (expandLogicalRules rules).1).Nodup ∧
    ∀ q, q ∈ Val.dkeys (expandLogicalRules rules).1 → ofKey q = false := by
  rw [expandLogicalRules_eq] at hfin ⊢
  have hof : ∀ n, n ∈ rules.filterMap (fun kv => match kv.1 with
      | .s n => if (splitOf n).isSome then some n else none | _ => none) → ofKey (.s n) = true := by
    intro n hn
    obtain ⟨kv, _, hk⟩ := List.mem_filterMap.mp hn
    cases hk1 : kv.1 with
    | i _ => simp [hk1] at hk
    | s m =>
      simp only [hk1] at hk
      split at hk
      · rename_i hsome; injection hk with e; subst e; simpa [ofKey] using hsome
      · cases hk
  obtain ⟨h1, h2⟩ := foldl_ofStep _ hof rules hnd hfin
  refine ⟨h1, ?_⟩
  intro q hq
  cases hs : ofKey q with
  | false => rfl
  | true =>
    exfalso
    obtain ⟨h3, h4⟩ := h2 q hq hs
    cases q with
    | i _ => simp [ofKey] at hs
    | s n =>
      refine h4 n ?_ rfl
      simp only [List.mem_filterMap]
      obtain ⟨kv, hkv, hk⟩ := List.mem_map.mp h3
      refine ⟨kv, hkv, ?_⟩
      simp only [ofKey] at hs
      simp [hk, hs]

end S
end Cerberus
