/-
  `_rename_deprecated_rulenames`: after the pass no deprecated rule name is left in the rule set, everything else is
  where it was, and a second pass changes nothing.
-/
import Cerberus.Model.Schema
import Cerberus.Proofs.SettersLfp
namespace Cerberus
namespace S

theorem dlookup_ddel_other (m : List (Key × Val)) (k q : Key) (h : q ≠ k) :
    Val.dlookup (Val.ddel m k) q = Val.dlookup m q := by
  induction m with
  | nil => rfl
  | cons hd tl ih =>
    obtain ⟨k', v'⟩ := hd
    simp only [Val.ddel]
    by_cases h1 : k' = k
    · subst h1
      have : ¬ k' = q := fun e => h e.symm
      simp [Val.dlookup, this]
    · by_cases h2 : k' = q
      · subst h2
        simp [h1, Val.dlookup]
      · simp [h1, h2, Val.dlookup, ih]

theorem dlookup_none_of_not_mem (m : List (Key × Val)) (k : Key) (h : k ∉ Val.dkeys m) : Val.dlookup m k = Option.none := by
  induction m with
  | nil => rfl
  | cons hd tl ih =>
    obtain ⟨k', v'⟩ := hd
    simp only [Val.dkeys, List.map_cons, List.mem_cons, not_or] at h
    have h1 : ¬ k' = k := fun e => h.1 e.symm
    simp only [Val.dlookup, h1, if_false]
    exact ih (by simpa [Val.dkeys] using h.2)

theorem dlookup_ddel_self (m : List (Key × Val)) (k : Key) (h : (Val.dkeys m).Nodup) : Val.dlookup (Val.ddel m k) k = Option.none := by
  induction m with
  | nil => rfl
  | cons hd tl ih =>
    obtain ⟨k', v'⟩ := hd
    simp only [Val.dkeys, List.map_cons, List.nodup_cons] at h
    simp only [Val.ddel]
    by_cases h1 : k' = k
    · subst h1
      simp only [if_true]
      exact dlookup_none_of_not_mem tl k' (by simpa [Val.dkeys] using h.1)
    · simp only [h1, if_false, Val.dlookup]
      exact ih (by simpa [Val.dkeys] using h.2)

theorem dkeys_dset (m : List (Key × Val)) (k : Key) (v : Val) :
    Val.dkeys (Val.dset m k v) = if k ∈ Val.dkeys m then Val.dkeys m else Val.dkeys m ++ [k] := by
  induction m with
  | nil => simp [Val.dset, Val.dkeys]
  | cons hd tl ih =>
    obtain ⟨k', v'⟩ := hd
    simp only [Val.dset]
    by_cases h1 : k' = k
    · subst h1; simp [Val.dkeys]
    · have h1' : ¬ k = k' := fun e => h1 e.symm
      simp only [h1, if_false, Val.dkeys, List.map_cons, List.mem_cons, h1', false_or] at ih ⊢
      rw [ih]
      split <;> rename_i hm <;> simp [hm]

theorem nodup_dset (m : List (Key × Val)) (k : Key) (v : Val) (h : (Val.dkeys m).Nodup) : (Val.dkeys (Val.dset m k v)).Nodup := by
  rw [dkeys_dset]
  split
  · exact h
  · rename_i hk
    exact List.nodup_append.mpr ⟨h, by simp, by intro a ha b hb; simp at hb; subst hb; intro e; subst e; exact hk ha⟩

theorem dkeys_ddel_sub (m : List (Key × Val)) (k : Key) : ∀ q, q ∈ Val.dkeys (Val.ddel m k) → q ∈ Val.dkeys m := by
  induction m with
  | nil => intro q h; exact h
  | cons hd tl ih =>
    obtain ⟨k', v'⟩ := hd
    intro q
    simp only [Val.ddel]
    by_cases h1 : k' = k
    · simp only [h1, if_true, Val.dkeys, List.map_cons, List.mem_cons]; exact Or.inr
    · simp only [h1, if_false, Val.dkeys, List.map_cons, List.mem_cons]
      rintro (h | h)
      · exact Or.inl h
      · exact Or.inr (ih q (by simpa [Val.dkeys] using h))

theorem nodup_ddel (m : List (Key × Val)) (k : Key) (h : (Val.dkeys m).Nodup) : (Val.dkeys (Val.ddel m k)).Nodup := by
  induction m with
  | nil => exact h
  | cons hd tl ih =>
    obtain ⟨k', v'⟩ := hd
    simp only [Val.dkeys, List.map_cons, List.nodup_cons] at h
    simp only [Val.ddel]
    by_cases h1 : k' = k
    · simp only [h1, if_true]; simpa [Val.dkeys] using h.2
    · simp only [h1, if_false, Val.dkeys, List.map_cons, List.nodup_cons]
      refine ⟨fun hm => h.1 ?_, by simpa [Val.dkeys] using ih (by simpa [Val.dkeys] using h.2)⟩
      have := dkeys_ddel_sub tl k k' (by simpa [Val.dkeys] using hm)
      simpa [Val.dkeys] using this

/-- one step of the pass: the pair (old name, new name) -/
def renameStep (acc : List (Key × Val)) (p : String × String) : Option (List (Key × Val)) :=
  match Val.dlookup acc (.s p.1) with
  | none => some acc
  | some v =>
    if Val.dhas acc (.s p.2) then none
    else some (Val.ddel (Val.dset acc (.s p.2) v) (.s p.1))

theorem renameRules_eq (rules : List (Key × Val)) : renameRules rules = deprecated.foldlM renameStep rules := rfl

theorem renameStep_spec (acc acc' : List (Key × Val)) (p : String × String) (hne : p.1 ≠ p.2)
    (hnd : (Val.dkeys acc).Nodup) (h : renameStep acc p = some acc') :
    Val.dlookup acc' (.s p.1) = Option.none ∧ (Val.dkeys acc').Nodup ∧
    (∀ q : Key, q ≠ .s p.1 → q ≠ .s p.2 → Val.dlookup acc' q = Val.dlookup acc q) := by
  unfold renameStep at h
  split at h
  · rename_i hnone
    cases h
    exact ⟨hnone, hnd, fun _ _ _ => rfl⟩
  · rename_i v hv
    split at h
    · cases h
    · cases h
      have hk : (Key.s p.1) ≠ (Key.s p.2) := by intro e; injection e with e'; exact hne e'
      refine ⟨dlookup_ddel_self _ _ (nodup_dset _ _ _ hnd), nodup_ddel _ _ (nodup_dset _ _ _ hnd), ?_⟩
      intro q h1 h2
      rw [dlookup_ddel_other _ _ _ h1, Setters.dlookup_dset_other' _ _ _ _ h2]

theorem renameStep_absent (acc : List (Key × Val)) (p : String × String) (h : Val.dlookup acc (.s p.1) = Option.none) :
    renameStep acc p = some acc := by
  simp [renameStep, h]

/-- the pass on one rule set, unfolded: three steps -/
theorem renameRules_steps (rules : List (Key × Val)) :
    renameRules rules =
      (renameStep rules ("keyschema", "keysrules")).bind fun a =>
      (renameStep a ("validator", "check_with")).bind fun b =>
      renameStep b ("valueschema", "valuesrules") := by
  rw [renameRules_eq]
  simp only [deprecated, List.foldlM, bind, Option.bind]
  cases renameStep rules ("keyschema", "keysrules") with
  | none => rfl
  | some a =>
    simp only
    cases renameStep a ("validator", "check_with") with
    | none => rfl
    | some b =>
      simp only
      cases renameStep b ("valueschema", "valuesrules") <;> rfl

/-- **after the pass no deprecated name is left**, the keys stay distinct, and every rule whose name is neither a
    deprecated name nor its replacement is where it was -/
theorem renameRules_complete (rules out : List (Key × Val)) (hnd : (Val.dkeys rules).Nodup)
    (h : renameRules rules = some out) :
    Val.dlookup out (.s "keyschema") = Option.none ∧ Val.dlookup out (.s "validator") = Option.none ∧
    Val.dlookup out (.s "valueschema") = Option.none ∧ (Val.dkeys out).Nodup ∧
    (∀ q : Key, q ∉ [Key.s "keyschema", .s "keysrules", .s "validator", .s "check_with", .s "valueschema", .s "valuesrules"] →
      Val.dlookup out q = Val.dlookup rules q) := by
  rw [renameRules_steps] at h
  cases h1 : renameStep rules ("keyschema", "keysrules") with
  | none => simp [h1] at h
  | some a =>
    cases h2 : renameStep a ("validator", "check_with") with
    | none => simp [h1, h2] at h
    | some b =>
      simp only [h1, h2, Option.bind] at h
      obtain ⟨a1, a2, a3⟩ := renameStep_spec rules a _ (by decide) hnd h1
      obtain ⟨b1, b2, b3⟩ := renameStep_spec a b _ (by decide) a2 h2
      obtain ⟨c1, c2, c3⟩ := renameStep_spec b out _ (by decide) b2 h
      refine ⟨?_, ?_, c1, c2, ?_⟩
      · rw [c3 _ (by decide) (by decide), b3 _ (by decide) (by decide)]; exact a1
      · rw [c3 _ (by decide) (by decide)]; exact b1
      · intro q hq
        simp only [List.mem_cons, List.mem_nil_iff, or_false, not_or] at hq
        rw [c3 q hq.2.2.2.2.1 hq.2.2.2.2.2, b3 q hq.2.2.1 hq.2.2.2.1, a3 q hq.1 hq.2.1]

/-- **a second pass changes nothing** -/
theorem renameRules_idempotent (rules out : List (Key × Val)) (hnd : (Val.dkeys rules).Nodup)
    (h : renameRules rules = some out) : renameRules out = some out := by
  obtain ⟨h1, h2, h3, _, _⟩ := renameRules_complete rules out hnd h
  rw [renameRules_steps, renameStep_absent out _ h1]
  simp only [Option.bind]
  rw [renameStep_absent out _ h2]
  simp only [Option.bind]
  exact renameStep_absent out _ h3

end S
end Cerberus
