/-
  Helper lemmas about `PT` and the rendering functions.
-/
import Cerberus.Model.Render
namespace Cerberus

namespace PT

theorem countL_upsert (f : List String × PT → List String × PT)
    (ents : List (Key × List String × PT)) (k : Key) (n : Nat)
    (hf : ∀ x, (f x).1.length + (f x).2.count = x.1.length + x.2.count + n) :
    countL (upsert f ents k) = countL ents + n := by
  induction ents with
  | nil =>
    have := hf ([], empty)
    have he : (empty : PT).count = 0 := rfl
    simp only [upsert, countL]
    simp only [List.length_nil, he] at this
    omega
  | cons hd tl ih =>
    obtain ⟨k', ms, sub⟩ := hd
    simp only [upsert]
    split
    · have := hf (ms, sub)
      simp only [countL]
      simp only at this
      omega
    · simp only [countL]
      omega

/-- inserting one message adds exactly one message -/
theorem count_ins (t : PT) (k : Key) (p : List Key) (m : String) :
    (t.ins k p m).count = t.count + 1 := by
  induction p generalizing t k with
  | nil =>
    obtain ⟨ents⟩ := t
    simp only [ins, count]
    apply countL_upsert
    intro x
    simp
    omega
  | cons k2 p ih =>
    obtain ⟨ents⟩ := t
    simp only [ins, count]
    apply countL_upsert
    intro x
    simp only [ih]
    omega

theorem keys_upsert (f : List String × PT → List String × PT)
    (ents : List (Key × List String × PT)) (k : Key) :
    (upsert f ents k).map (·.1) =
      if k ∈ ents.map (·.1) then ents.map (·.1) else ents.map (·.1) ++ [k] := by
  induction ents with
  | nil => simp [upsert]
  | cons hd tl ih =>
    obtain ⟨k', x⟩ := hd
    simp only [upsert]
    by_cases h : k' = k
    · subst h; simp
    · have h' : ¬ k = k' := fun e => h e.symm
      simp only [h, if_false, List.map_cons, List.mem_cons, h', false_or]
      rw [ih]
      split <;> simp

/-- an insertion adds its first path element as a top-level key, and nothing else -/
theorem keys_ins (t : PT) (k : Key) (p : List Key) (m : String) :
    (t.ins k p m).keys = if k ∈ t.keys then t.keys else t.keys ++ [k] := by
  obtain ⟨ents⟩ := t
  cases p with
  | nil => simp only [ins, keys, PT.ents]; exact keys_upsert _ _ _
  | cons k2 p => simp only [ins, keys, PT.ents]; exact keys_upsert _ _ _

end PT

namespace Render

/-! ### how many messages an (already rewritten) error contributes -/
mutual
/-- messages contributed by an error when it is a *child* (or a top-level logic / group error) -/
def nMsg : Err → Nat
  | .mk d s b c r k v i ks =>
      let e := Err.mk d s b c r k v i ks
      if e.isLogic then 1 + nMsgL ks else if e.isGroup then nMsgL ks else 1
def nMsgL : List Err → Nat
  | [] => 0
  | k :: ks => nMsg k + nMsgL ks
end

theorem count_insertAt {t t' : PT} {p : List Key} {m : String}
    (h : insertAt t p m = .ok t') : t'.count = t.count + 1 := by
  cases p with
  | nil => simp [insertAt, throw, throwThe, MonadExceptOf.throw] at h
  | cons k r =>
    simp only [insertAt, pure, Except.pure, Except.ok.injEq] at h
    subst h
    exact PT.count_ins _ _ _ _

theorem bind_ok {ε α β} {x : Except ε α} {f : α → Except ε β} {b : β}
    (h : (x >>= f) = .ok b) : ∃ a, x = .ok a ∧ f a = .ok b := by
  cases x with
  | error e => simp [bind, Except.bind] at h
  | ok a => exact ⟨a, rfl, by simpa [bind, Except.bind] using h⟩

mutual
theorem count_insLogic :
    ∀ (e : Err) (t t' : PT), insLogic t e = .ok t' → t'.count = t.count + 1 + nMsgL e.kids
  | .mk d s b c r k v i ks, t, t', h => by
    simp only [insLogic] at h
    obtain ⟨t1, h1, h2⟩ := bind_ok h
    have c1 := count_insertAt h1
    have c2 := count_insKidsL ks _ t1 t' h2
    simp only [Err.kids]
    omega
theorem count_insGroup :
    ∀ (e : Err) (t t' : PT), insGroup t e = .ok t' → t'.count = t.count + nMsgL e.kids
  | .mk d s b c r k v i ks, t, t', h => by
    simp only [insGroup] at h
    have c2 := count_insKidsG ks t t' h
    simp only [Err.kids]
    omega
theorem count_insKidsL :
    ∀ (ks : List Err) (f : Option Key) (t t' : PT), insKidsL f t ks = .ok t' → t'.count = t.count + nMsgL ks
  | [], f, t, t', h => by
    simp only [insKidsL, pure, Except.pure, Except.ok.injEq] at h
    subst h; simp [nMsgL]
  | k :: ks, f, t, t', h => by
    simp only [insKidsL] at h
    obtain ⟨t1, h1, h2⟩ := bind_ok h
    have c2 := count_insKidsL ks f t1 t' h2
    have c1 : t1.count = t.count + nMsg k := by
      cases hk : k with
      | mk d s b c r kk v i kks =>
        subst hk
        simp only [nMsg]
        by_cases hl : (Err.mk d s b c r kk v i kks).isLogic = true
        · simp only [hl, if_true] at h1 ⊢
          have := count_insLogic _ t t1 h1
          simp only [Err.kids] at this
          omega
        · simp only [hl, Bool.false_eq_true, if_false] at h1 ⊢
          by_cases hg : (Err.mk d s b c r kk v i kks).isGroup = true
          · simp only [hg, if_true] at h1 ⊢
            have := count_insGroup _ t t1 h1
            simp only [Err.kids] at this
            omega
          · simp only [hg, Bool.false_eq_true, if_false] at h1 ⊢
            exact count_insertAt h1
    simp only [nMsgL]
    omega
theorem count_insKidsG :
    ∀ (ks : List Err) (t t' : PT), insKidsG t ks = .ok t' → t'.count = t.count + nMsgL ks
  | [], t, t', h => by
    simp only [insKidsG, pure, Except.pure, Except.ok.injEq] at h
    subst h; simp [nMsgL]
  | k :: ks, t, t', h => by
    simp only [insKidsG] at h
    obtain ⟨t1, h1, h2⟩ := bind_ok h
    have c2 := count_insKidsG ks t1 t' h2
    have c1 : t1.count = t.count + nMsg k := by
      cases hk : k with
      | mk d s b c r kk v i kks =>
        subst hk
        simp only [nMsg]
        by_cases hl : (Err.mk d s b c r kk v i kks).isLogic = true
        · simp only [hl, if_true] at h1 ⊢
          have := count_insLogic _ t t1 h1
          simp only [Err.kids] at this
          omega
        · simp only [hl, Bool.false_eq_true, if_false] at h1 ⊢
          by_cases hg : (Err.mk d s b c r kk v i kks).isGroup = true
          · simp only [hg, if_true] at h1 ⊢
            have := count_insGroup _ t t1 h1
            simp only [Err.kids] at this
            omega
          · simp only [hg, Bool.false_eq_true, if_false] at h1 ⊢
            exact count_insertAt h1
    simp only [nMsgL]
    omega
end

end Render
end Cerberus

namespace Cerberus
namespace Render

theorem nMsgL_append (a b : List Err) : nMsgL (a ++ b) = nMsgL a + nMsgL b := by
  induction a with
  | nil => simp [nMsgL]
  | cons x xs ih => simp only [List.cons_append, nMsgL, ih]; omega

theorem nMsgL_filter_split (p : Err → Bool) (l : List Err) :
    nMsgL (l.filter p) + nMsgL (l.filter (fun x => !p x)) = nMsgL l := by
  induction l with
  | nil => simp [nMsgL]
  | cons x xs ih =>
    simp only [List.filter_cons]
    cases hp : p x <;> simp [nMsgL] <;> omega

theorem nMsgL_regroupF (key : Err → Option Key) :
    ∀ (n : Nat) (l : List Err), l.length ≤ n → nMsgL (regroupF key n l) = nMsgL l
  | 0, l, h => by
    have : l = [] := List.eq_nil_of_length_eq_zero (by omega)
    subst this; simp [regroupF, nMsgL]
  | n + 1, [], _ => by simp [regroupF, nMsgL]
  | n + 1, k :: ks, h => by
    simp only [regroupF, List.cons_append, nMsgL, nMsgL_append]
    have hl : (ks.filter (fun x => !(key x == key k))).length ≤ n := by
      have := List.length_filter_le (fun x => !(key x == key k)) ks
      simp only [List.length_cons] at h
      omega
    rw [nMsgL_regroupF key n _ hl]
    have := nMsgL_filter_split (fun x => key x == key k) ks
    omega

theorem nMsgL_regroup (spLen : Nat) (ks : List Err) : nMsgL (regroup spLen ks) = nMsgL ks :=
  nMsgL_regroupF _ _ _ (Nat.le_refl _)

mutual
theorem nMsg_rw :
    ∀ (e : Err) (off : Nat) (dp : List Key) (e' : Err), rw off dp e = .ok e' → nMsg e' = nMsg e
  | .mk d s b c r k v i ks, off, dp, e', h => by
    simp only [rw] at h
    by_cases hl : (Err.mk d s b c r k v i ks).isLogic = true
    · simp only [hl, if_true] at h
      obtain ⟨ks', h1, h2⟩ := bind_ok h
      simp only [pure, Except.pure, Except.ok.injEq] at h2
      subst h2
      have hl' : (Err.mk dp s b c r k v i (regroup s.length ks')).isLogic = true := by
        simpa [Err.isLogic, Err.code] using hl
      simp only [nMsg, hl, hl', if_true, nMsgL_regroup]
      rw [nMsgL_rwLogicL ks _ _ _ _ _ _ h1]
    · simp only [hl, Bool.false_eq_true, if_false] at h
      have hl' : ∀ ks'', (Err.mk dp s b c r k v i ks'').isLogic = false := by
        intro ks''; simpa [Err.isLogic, Err.code] using hl
      by_cases hg : (Err.mk d s b c r k v i ks).isGroup = true
      · simp only [hg, if_true] at h
        obtain ⟨ks', h1, h2⟩ := bind_ok h
        simp only [pure, Except.pure, Except.ok.injEq] at h2
        subst h2
        have hg' : (Err.mk dp s b c r k v i ks').isGroup = true := by
          simpa [Err.isGroup, Err.code] using hg
        simp only [nMsg, hl, hl', hg, hg', Bool.false_eq_true, if_false, if_true]
        exact nMsgL_rwGroupL ks _ _ _ _ h1
      · simp only [hg, Bool.false_eq_true, if_false, pure, Except.pure, Except.ok.injEq] at h
        subst h
        have hg' : (Err.mk dp s b c r k v i ks).isGroup = false := by
          simpa [Err.isGroup, Err.code] using hg
        simp [nMsg, hl, hl', hg, hg']
theorem nMsgL_rwGroupL :
    ∀ (ks : List Err) (off cs : Nat) (pdp : List Key) (ks' : List Err),
      rwGroupL off cs pdp ks = .ok ks' → nMsgL ks' = nMsgL ks
  | [], _, _, _, ks', h => by
    simp only [rwGroupL, pure, Except.pure, Except.ok.injEq] at h
    subst h; rfl
  | k :: ks, off, cs, pdp, ks', h => by
    simp only [rwGroupL] at h
    obtain ⟨k', h1, h2⟩ := bind_ok h
    obtain ⟨r, h3, h4⟩ := bind_ok h2
    simp only [pure, Except.pure, Except.ok.injEq] at h4
    subst h4
    simp only [nMsgL]
    rw [nMsg_rw k _ _ _ h1, nMsgL_rwGroupL ks _ _ _ _ h3]
theorem nMsgL_rwLogicL :
    ∀ (ks : List Err) (off cs : Nat) (pdp : List Key) (spLen : Nat) (rule : String) (ks' : List Err),
      rwLogicL off cs pdp spLen rule ks = .ok ks' → nMsgL ks' = nMsgL ks
  | [], _, _, _, _, _, ks', h => by
    simp only [rwLogicL, pure, Except.pure, Except.ok.injEq] at h
    subst h; rfl
  | k :: ks, off, cs, pdp, spLen, rule, ks', h => by
    simp only [rwLogicL] at h
    split at h
    · simp [throw, throwThe, MonadExceptOf.throw] at h
    · obtain ⟨k', h1, h2⟩ := bind_ok h
      obtain ⟨r, h3, h4⟩ := bind_ok h2
      simp only [pure, Except.pure, Except.ok.injEq] at h4
      subst h4
      simp only [nMsgL]
      rw [nMsg_rw k _ _ _ h1, nMsgL_rwLogicL ks _ _ _ _ _ _ h3]
end

end Render
end Cerberus
