/-
  Helper lemmas about `Tree` (association-list tries).
-/
import Cerberus.Model.Tree
namespace Cerberus
namespace Tree

/- errors reachable by the tree's own insertion discipline: a group error's
   children are inserted only when the group error has a non-empty path -/
mutual
def flatT1 (kind : TreeKind) : Err → List Err
  | .mk d s b c r k v i ks =>
      let e := Err.mk d s b c r k v i ks
      e :: (if e.isGroup && !(kind.path e).isEmpty then flatT kind ks else [])
def flatT (kind : TreeKind) : List Err → List Err
  | [] => []
  | e :: es => flatT1 kind e ++ flatT kind es
end

theorem lookup_upsert (f : Tree → Tree) (d : List (Key × Tree)) (k q : Key) :
    lookup (upsert f d k) q =
      if q = k then some (f ((lookup d k).getD empty)) else lookup d q := by
  induction d with
  | nil =>
    simp only [upsert, lookup]
    by_cases h : q = k
    · subst h; simp
    · have : ¬ k = q := fun h' => h h'.symm
      simp [h, this]
  | cons hd tl ih =>
    obtain ⟨k', t⟩ := hd
    simp only [upsert]
    by_cases h1 : k' = k
    · subst h1
      simp only [if_true, lookup]
      by_cases h2 : k' = q
      · subst h2; simp
      · have : ¬ q = k' := fun h' => h2 h'.symm
        simp [h2, this]
    · simp only [h1, if_false, lookup]
      by_cases h2 : k' = q
      · subst h2
        simp [h1]
      · simp only [h2, if_false]
        exact ih

@[simp] theorem fetchNode_nil (t : Tree) : t.fetchNode [] = some t := by
  cases t; rfl

theorem fetchNode_cons (es : List Err) (d : List (Key × Tree)) (k : Key) (p : List Key) :
    (node es d).fetchNode (k :: p) =
      match lookup d k with
      | some t => t.fetchNode p
      | none => none := rfl

theorem fetchNode_empty_cons (k : Key) (p : List Key) : empty.fetchNode (k :: p) = none := rfl

theorem fetchErrs_empty (q : List Key) : empty.fetchErrs q = [] := by
  cases q <;> rfl

theorem fetchErrs_cons (es : List Err) (d : List (Key × Tree)) (k : Key) (q : List Key) :
    (node es d).fetchErrs (k :: q) = ((lookup d k).getD empty).fetchErrs q := by
  simp only [fetchErrs, fetchNode_cons]
  cases lookup d k with
  | none =>
    simp only [Option.getD_none]
    have := fetchErrs_empty q
    simp only [fetchErrs] at this
    rw [this]
  | some t => simp

/-- the errors stored at `q` after inserting `e` at `p` -/
theorem fetchErrs_insert (t : Tree) (p : List Key) (e : Err) (q : List Key) :
    (t.insert p e).fetchErrs q = t.fetchErrs q ++ (if q = p then [e] else []) := by
  induction p generalizing t q with
  | nil =>
    obtain ⟨es, d⟩ := t
    cases q with
    | nil => simp [insert, fetchErrs, errs]
    | cons k q => simp [insert, fetchErrs_cons]
  | cons k p ih =>
    obtain ⟨es, d⟩ := t
    cases q with
    | nil => simp [insert, fetchErrs, errs]
    | cons k' q =>
      simp only [insert, fetchErrs_cons, lookup_upsert]
      by_cases h : k' = k
      · subst h
        simp only [if_true, Option.getD_some]
        rw [ih]
        by_cases hq : q = p
        · simp [hq]
        · simp [hq]
      · have : ¬ (k' :: q = k :: p) := by
          intro hh; injection hh with h1 _; exact h h1
        simp [h, this]

/-- node existence after an insertion -/
theorem fetchNode_insert_isSome (t : Tree) (p : List Key) (e : Err) (q : List Key) :
    ((t.insert p e).fetchNode q).isSome = ((t.fetchNode q).isSome || q.isPrefixOf p) := by
  induction p generalizing t q with
  | nil =>
    obtain ⟨es, d⟩ := t
    cases q with
    | nil => simp [insert]
    | cons k q => simp [insert, fetchNode_cons, List.isPrefixOf]
  | cons k p ih =>
    obtain ⟨es, d⟩ := t
    cases q with
    | nil => simp [insert]
    | cons k' q =>
      simp only [insert, fetchNode_cons, lookup_upsert]
      by_cases h : k' = k
      · subst h
        simp only [if_true, List.isPrefixOf, beq_self_eq_true, Bool.true_and]
        rw [ih]
        cases hl : lookup d k' with
        | none =>
          simp only [Option.getD_none]
          cases q with
          | nil => simp [List.isPrefixOf]
          | cons a b => simp [fetchNode_empty_cons]
        | some t' => simp
      · have hb : (k' == k) = false := by simpa using h
        simp [h, List.isPrefixOf, hb]

end Tree
end Cerberus

namespace Cerberus
namespace Tree

mutual
theorem fetchErrs_add (kind : TreeKind) :
    ∀ (e : Err) (t : Tree) (q : List Key),
      (add kind t e).fetchErrs q = t.fetchErrs q ++ (flatT1 kind e).filter (fun x => kind.path x = q)
  | .mk d s b c r k v i ks, t, q => by
    simp only [add, flatT1]
    by_cases hg : ((Err.mk d s b c r k v i ks).isGroup && !(kind.path (Err.mk d s b c r k v i ks)).isEmpty) = true
    · simp only [hg, if_true]
      rw [fetchErrs_addL kind ks, fetchErrs_insert]
      by_cases hq : q = kind.path (Err.mk d s b c r k v i ks)
      · simp [hq]
      · have hq' : ¬ kind.path (Err.mk d s b c r k v i ks) = q := fun h => hq h.symm
        simp [hq, hq']
    · simp only [hg, Bool.false_eq_true, if_false]
      rw [fetchErrs_insert]
      by_cases hq : q = kind.path (Err.mk d s b c r k v i ks)
      · simp [hq]
      · have hq' : ¬ kind.path (Err.mk d s b c r k v i ks) = q := fun h => hq h.symm
        simp [hq, hq']
theorem fetchErrs_addL (kind : TreeKind) :
    ∀ (es : List Err) (t : Tree) (q : List Key),
      (addL kind t es).fetchErrs q = t.fetchErrs q ++ (flatT kind es).filter (fun x => kind.path x = q)
  | [], t, q => by simp [addL, flatT]
  | e :: es, t, q => by
    simp only [addL, flatT]
    rw [fetchErrs_addL kind es, fetchErrs_add kind e]
    simp [List.filter_append]
end

mutual
theorem node_add (kind : TreeKind) :
    ∀ (e : Err) (t : Tree) (q : List Key),
      ((add kind t e).fetchNode q).isSome =
        ((t.fetchNode q).isSome || (flatT1 kind e).any (fun x => q.isPrefixOf (kind.path x)))
  | .mk d s b c r k v i ks, t, q => by
    simp only [add, flatT1]
    by_cases hg : ((Err.mk d s b c r k v i ks).isGroup && !(kind.path (Err.mk d s b c r k v i ks)).isEmpty) = true
    · simp only [hg, if_true]
      rw [node_addL kind ks, fetchNode_insert_isSome]
      simp [List.any_cons, Bool.or_assoc]
    · simp only [hg, Bool.false_eq_true, if_false]
      rw [fetchNode_insert_isSome]
      simp [List.any_cons]
theorem node_addL (kind : TreeKind) :
    ∀ (es : List Err) (t : Tree) (q : List Key),
      ((addL kind t es).fetchNode q).isSome =
        ((t.fetchNode q).isSome || (flatT kind es).any (fun x => q.isPrefixOf (kind.path x)))
  | [], t, q => by simp [addL, flatT]
  | e :: es, t, q => by
    simp only [addL, flatT]
    rw [node_addL kind es, node_add kind e]
    simp [List.any_append, Bool.or_assoc]
end

/-- `flatT` coincides with plain flattening when every group error has a path -/
def GroupsHavePaths (kind : TreeKind) (es : List Err) : Prop :=
  ∀ e ∈ flatten es, e.isGroup = true → kind.path e ≠ []

end Tree
end Cerberus
