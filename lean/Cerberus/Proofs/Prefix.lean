/-
  Path equivariance of validation: a validator whose document path and schema path are
  extended at the front by `dp` / `sp` reports exactly the same errors, with `dp` / `sp`
  put in front of every path (at every depth of child errors).
-/
import Cerberus.Proofs.Validate
namespace Cerberus

/- prefix the paths of an error and of all its child errors -/
mutual
def Err.pre (dp sp : List Key) : Err → Err
  | .mk d s b c r k v i ks => .mk (dp ++ d) (if b then s else sp ++ s) b c r k v i (preL dp sp ks)
def preL (dp sp : List Key) : List Err → List Err
  | [] => []
  | e :: es => e.pre dp sp :: preL dp sp es
end

theorem preL_eq_map (dp sp : List Key) : ∀ es, preL dp sp es = es.map (Err.pre dp sp)
  | [] => rfl
  | e :: es => by simp [preL, preL_eq_map dp sp es]

theorem preL_append (dp sp : List Key) (a b : List Err) : preL dp sp (a ++ b) = preL dp sp a ++ preL dp sp b := by
  simp [preL_eq_map]

@[simp] theorem preL_nil (dp sp : List Key) : preL dp sp [] = [] := rfl

@[simp] theorem preL_isEmpty (dp sp : List Key) (es : List Err) : (preL dp sp es).isEmpty = es.isEmpty := by
  cases es <;> simp [preL]

@[simp] theorem pre_code (dp sp : List Key) (e : Err) : (e.pre dp sp).code = e.code := by
  cases e; rfl
@[simp] theorem pre_isGroup (dp sp : List Key) (e : Err) : (e.pre dp sp).isGroup = e.isGroup := by
  cases e; rfl
@[simp] theorem pre_dp (dp sp : List Key) (e : Err) : (e.pre dp sp).dp = dp ++ e.dp := by
  cases e; rfl

theorem isGroup_mk (d s : List Key) (b : Bool) (c : Nat) (r : Option String) (k v : Val) (i : List Val) (ks : List Err) :
    (Err.mk d s b c r k v i ks).isGroup = (c &&& 0x80 != 0) := rfl

namespace V

/-- the context with longer paths -/
def pp (dp sp : List Key) (ctx : Ctx) : Ctx :=
  { ctx with docPath := dp ++ ctx.docPath, schemaPath := sp ++ ctx.schemaPath }

@[simp] theorem pp_docPath (dp sp : List Key) (ctx : Ctx) : (pp dp sp ctx).docPath = dp ++ ctx.docPath := rfl
@[simp] theorem pp_schemaPath (dp sp : List Key) (ctx : Ctx) : (pp dp sp ctx).schemaPath = sp ++ ctx.schemaPath := rfl
@[simp] theorem pp_cfg (dp sp : List Key) (ctx : Ctx) : (pp dp sp ctx).cfg = ctx.cfg := rfl
@[simp] theorem pp_root (dp sp : List Key) (ctx : Ctx) : (pp dp sp ctx).root = ctx.root := rfl
@[simp] theorem pp_isChild (dp sp : List Key) (ctx : Ctx) : (pp dp sp ctx).isChild = ctx.isChild := rfl

theorem pp_child (dp sp : List Key) (ctx : Ctx) (doc : Val) (ov : Overrides) (dc : Option Key) (sc : List Key) :
    (pp dp sp ctx).child doc ov dc sc = pp dp sp (ctx.child doc ov dc sc) := by
  cases dc <;> simp only [pp, Ctx.child, List.append_assoc] <;> rfl

/-! ### `_drop_nodes_from_errorpaths` commutes with the prefix -/

theorem dropIdx_prefix {α} (sp s : List α) (j : Nat) : dropIdx (sp ++ s) (sp.length + j) = sp ++ dropIdx s j := by
  induction sp with
  | nil => simp
  | cons a r ih =>
    simp only [List.cons_append, List.length_cons]
    rw [show r.length + 1 + j = (r.length + j) + 1 by omega]
    simp [dropIdx, ih]

theorem dropIdxs_prefix {α} (sp : List α) : ∀ (idxs : List Nat) (s : List α),
    dropIdxs (sp ++ s) (idxs.map (sp.length + ·)) = sp ++ dropIdxs s idxs
  | [], s => rfl
  | j :: r, s => by
    simp only [dropIdxs, List.map_cons, List.foldl_cons]
    rw [dropIdx_prefix]
    exact dropIdxs_prefix sp r (dropIdx s j)

mutual
theorem dropSp_pre (dp sp : List Key) (base : Nat) (idxs : List Nat) :
    ∀ e : Err, (e.pre dp sp).dropSp (sp.length + base) idxs = (e.dropSp base idxs).pre dp sp
  | .mk d s b c r k v i ks => by
    have hk := dropSpL_pre dp sp base idxs ks
    have hm : idxs.map (fun x => sp.length + base + x) = (idxs.map (base + ·)).map (sp.length + ·) := by
      simp [List.map_map, Function.comp, Nat.add_assoc]
    by_cases g : (c &&& 0x80 != 0) = true <;> cases b <;>
      simp only [Err.pre, Err.dropSp, isGroup_mk, g, if_true, if_false, hk, Bool.false_eq_true, hm, dropIdxs_prefix]
theorem dropSpL_pre (dp sp : List Key) (base : Nat) (idxs : List Nat) :
    ∀ es : List Err, dropSpL (sp.length + base) idxs (preL dp sp es) = preL dp sp (dropSpL base idxs es)
  | [] => rfl
  | e :: es => by
    simp only [preL, dropSpL, dropSp_pre dp sp base idxs e, dropSpL_pre dp sp base idxs es]
end

/-! ### the query on the errors so far -/

mutual
theorem flat_pre (dp sp : List Key) : ∀ e : Err, (e.pre dp sp).flat = preL dp sp e.flat
  | .mk d s b c r k v i ks => by
    have hk := flatten_pre dp sp ks
    by_cases g : (c &&& 0x80 != 0) = true <;>
      simp only [Err.pre, Err.flat, isGroup_mk, g, if_true, if_false, preL, hk, Bool.false_eq_true]
theorem flatten_pre (dp sp : List Key) : ∀ es : List Err, flatten (preL dp sp es) = preL dp sp (flatten es)
  | [] => rfl
  | e :: es => by
    simp only [preL, flatten, flat_pre dp sp e, flatten_pre dp sp es, preL_append]
end

theorem hasErrAt_pre (dp sp : List Key) (errs : List Err) (path : List Key) (code : Nat) :
    hasErrAt (preL dp sp errs) (dp ++ path) code = hasErrAt errs path code := by
  unfold hasErrAt
  rw [flatten_pre, preL_eq_map, List.any_map]
  congr 1
  funext e
  simp only [Function.comp, pre_dp, pre_code]
  congr 1
  cases h : (e.dp == path)
  · have : e.dp ≠ path := by simpa using h
    simp [this]
  · have : e.dp = path := by simpa using h
    simp [this]

/-! ### pushing `Except.map` through the monad -/

theorem emap_bind {α β γ : Type} (x : M α) (g : α → β) (f : β → M γ) :
    (Except.map g x >>= f) = x >>= fun a => f (g a) := by
  cases x <;> rfl

theorem bind_emap {α β γ : Type} (x : M α) (f : α → M β) (h : β → γ) :
    Except.map h (x >>= f) = x >>= fun a => Except.map h (f a) := by
  cases x <;> rfl

theorem emap_pure {α β : Type} (a : α) (h : α → β) : Except.map h (pure a : M α) = pure (h a) := rfl
theorem emap_ok {α β : Type} (a : α) (h : α → β) : Except.map h (Except.ok a : M α) = Except.ok (h a) := rfl
theorem emap_error {α β : Type} (e : Exc) (h : α → β) : Except.map h (Except.error e : M α) = Except.error e := rfl
theorem emap_raise {α β : Type} (t s : String) (h : α → β) : Except.map h (raisePy t s : M α) = raisePy t s := rfl

/-! ### errors as handlers describe them -/

def ESpec.pre (dp sp : List Key) (e : ESpec) : ESpec := { e with kids := preL dp sp e.kids }
def HOut.pre (dp sp : List Key) (o : HOut) : HOut := { o with errs := o.errs.map (ESpec.pre dp sp) }

theorem mkErr_pp (env : Env) (dp sp : List Key) (ctx : Ctx) (schema doc : Val) (f : Key) (code : Nat)
    (rule : Option String) (info : List Val) (kids : List Err) :
    mkErr env (pp dp sp ctx) schema doc f code rule info (preL dp sp kids) =
    (mkErr env ctx schema doc f code rule info kids).map (Err.pre dp sp) := by
  unfold mkErr
  cases rule with
  | none => simp [pure, Except.pure, Except.map, Err.pre, List.append_assoc]
  | some r =>
    simp only [bind, Except.bind, pp_docPath, pp_schemaPath, pp_cfg]
    cases fieldRules env schema f "_error" with
    | error e => simp [Except.map]
    | ok rs =>
      simp only
      repeat' split
      all_goals simp_all [pure, Except.pure, Except.map, Err.pre, List.append_assoc, raisePy]

theorem buildErrs_pp (env : Env) (dp sp : List Key) (ctx : Ctx) (schema doc : Val) (f : Key) :
    ∀ specs : List ESpec, buildErrs env (pp dp sp ctx) schema doc f (specs.map (ESpec.pre dp sp)) =
      (buildErrs env ctx schema doc f specs).map (preL dp sp)
  | [] => rfl
  | e :: r => by
    simp only [List.map_cons, buildErrs, bind, Except.bind, ESpec.pre, mkErr_pp, buildErrs_pp env dp sp ctx schema doc f r]
    cases mkErr env ctx schema doc f e.code e.rule e.info e.kids with
    | error x => simp [Except.map]
    | ok e' =>
      cases buildErrs env ctx schema doc f r with
      | error x => simp [Except.map]
      | ok es => simp [Except.map, pure, Except.pure, preL]

/-- closes "`Except.map pre (h …) = h …`" for a handler whose error descriptions have no child errors -/
macro "nk_tac" : tactic => `(tactic| (
  simp only [emap_bind, bind_emap, emap_pure, emap_ok, emap_error, emap_raise, apply_ite (Except.map _),
    preL_nil, List.map_nil, List.map_cons, ESpec.pre, HOut.pre, liftPy, pure, Except.pure]
  try (repeat' split)
  all_goals first
    | rfl
    | simp [Except.map, ESpec.pre, HOut.pre, preL_nil, raisePy]))

section leaf
variable (dp sp : List Key)

theorem nk_hNullable (env : Env) (t : Tables) (ctx : Ctx) (schema doc : Val) (f : Key) (c : Option Val) (v : Val) :
    Except.map (HOut.pre dp sp) (hNullable env t ctx schema doc f c v) = hNullable env t ctx schema doc f c v := by
  unfold hNullable; nk_tac
theorem nk_hType (env : Env) (t : Tables) (ctx : Ctx) (schema doc : Val) (f : Key) (c v : Val) :
    Except.map (HOut.pre dp sp) (hType env t ctx schema doc f c v) = hType env t ctx schema doc f c v := by
  unfold hType; nk_tac
theorem nk_hEmpty (env : Env) (t : Tables) (ctx : Ctx) (schema doc : Val) (f : Key) (c v : Val) :
    Except.map (HOut.pre dp sp) (hEmpty env t ctx schema doc f c v) = hEmpty env t ctx schema doc f c v := by
  unfold hEmpty; nk_tac
theorem nk_hExcludes (env : Env) (ctx : Ctx) (schema doc : Val) (f : Key) (c v : Val) :
    Except.map (HOut.pre dp sp) (hExcludes env ctx schema doc f c v) = hExcludes env ctx schema doc f c v := by
  unfold hExcludes; nk_tac
theorem nk_hAllowed (env : Env) (ctx : Ctx) (schema doc : Val) (f : Key) (c v : Val) :
    Except.map (List.map (ESpec.pre dp sp)) (hAllowed env ctx schema doc f c v) = hAllowed env ctx schema doc f c v := by
  unfold hAllowed; nk_tac
theorem nk_hForbidden (env : Env) (ctx : Ctx) (schema doc : Val) (f : Key) (c v : Val) :
    Except.map (List.map (ESpec.pre dp sp)) (hForbidden env ctx schema doc f c v) = hForbidden env ctx schema doc f c v := by
  unfold hForbidden; nk_tac
theorem nk_hContains (env : Env) (ctx : Ctx) (schema doc : Val) (f : Key) (c v : Val) :
    Except.map (List.map (ESpec.pre dp sp)) (hContains env ctx schema doc f c v) = hContains env ctx schema doc f c v := by
  unfold hContains; nk_tac
theorem nk_hMin (env : Env) (ctx : Ctx) (schema doc : Val) (f : Key) (c v : Val) :
    Except.map (List.map (ESpec.pre dp sp)) (hMin env ctx schema doc f c v) = hMin env ctx schema doc f c v := by
  unfold hMin; nk_tac
theorem nk_hMax (env : Env) (ctx : Ctx) (schema doc : Val) (f : Key) (c v : Val) :
    Except.map (List.map (ESpec.pre dp sp)) (hMax env ctx schema doc f c v) = hMax env ctx schema doc f c v := by
  unfold hMax; nk_tac
theorem nk_hLength (env : Env) (ctx : Ctx) (schema doc : Val) (f : Key) (c v : Val) (b : Bool) :
    Except.map (List.map (ESpec.pre dp sp)) (hLength env ctx schema doc f c v b) = hLength env ctx schema doc f c v b := by
  unfold hLength; nk_tac
theorem nk_hRegex (env : Env) (ctx : Ctx) (schema doc : Val) (f : Key) (c v : Val) :
    Except.map (List.map (ESpec.pre dp sp)) (hRegex env ctx schema doc f c v) = hRegex env ctx schema doc f c v := by
  unfold hRegex; nk_tac

end leaf

/-- the recursive call is equivariant (for child contexts: the schema path is not empty) -/
def RecEquiv (rec : Rec) : Prop :=
  ∀ dp sp ctx s d u, ctx.schemaPath ≠ [] → rec (pp dp sp ctx) s d u = (rec ctx s d u).map (preL dp sp)

section
variable (env : Env) (rec : Rec) (hrec : RecEquiv rec) (dp sp : List Key) (ctx : Ctx)
include hrec

theorem rec_child_pp (doc : Val) (ov : Overrides) (dc : Option Key) (a b : Key) (s d : Val) (u : Bool) :
    rec ((pp dp sp ctx).child doc ov dc [a, b]) s d u = (rec (ctx.child doc ov dc [a, b]) s d u).map (preL dp sp) := by
  rw [pp_child]
  exact hrec dp sp _ s d u (by simp [Ctx.child])

theorem dropSpL_pp (x : List Key) (idxs : List Nat) (es : List Err) :
    dropSpL (sp ++ x).length idxs (preL dp sp es) = preL dp sp (dropSpL x.length idxs es) := by
  rw [List.length_append]; exact dropSpL_pre dp sp x.length idxs es

omit hrec in
theorem dropSpL_pp' (x : List Key) (idxs : List Nat) (es : List Err) :
    dropSpL (sp ++ x).length idxs (preL dp sp es) = preL dp sp (dropSpL x.length idxs es) := by
  rw [List.length_append]; exact dropSpL_pre dp sp x.length idxs es

theorem hItems_pp (schema doc : Val) (f : Key) (c v : Val) (upd : Bool) :
    hItems env rec (pp dp sp ctx) schema doc f c v upd =
    (hItems env rec ctx schema doc f c v upd).map (List.map (ESpec.pre dp sp)) := by
  simp only [hItems, rec_child_pp rec hrec dp sp ctx, emap_bind, bind_emap, emap_pure, apply_ite (Except.map _),
    preL_isEmpty, List.map_nil, List.map_cons, ESpec.pre, preL_nil]

theorem hKeysrules_pp (schema doc : Val) (f : Key) (c v : Val) :
    hKeysrules env rec (pp dp sp ctx) schema doc f c v =
    (hKeysrules env rec ctx schema doc f c v).map (List.map (ESpec.pre dp sp)) := by
  cases v <;>
  simp only [hKeysrules, rec_child_pp rec hrec dp sp ctx, emap_bind, bind_emap, emap_pure, apply_ite (Except.map _),
    preL_isEmpty, List.map_nil, List.map_cons, ESpec.pre, preL_nil, pp_schemaPath, dropSpL_pp' dp sp]

theorem hValuesrules_pp (schema doc : Val) (f : Key) (c v : Val) (upd : Bool) :
    hValuesrules env rec (pp dp sp ctx) schema doc f c v upd =
    (hValuesrules env rec ctx schema doc f c v upd).map (List.map (ESpec.pre dp sp)) := by
  cases v <;>
  simp only [hValuesrules, rec_child_pp rec hrec dp sp ctx, emap_bind, bind_emap, emap_pure, apply_ite (Except.map _),
    preL_isEmpty, List.map_nil, List.map_cons, ESpec.pre, preL_nil, pp_schemaPath, dropSpL_pp' dp sp]

theorem hSchema_pp (schema doc : Val) (f : Key) (c v : Val) (upd : Bool) :
    hSchema env rec (pp dp sp ctx) schema doc f c v upd =
    (hSchema env rec ctx schema doc f c v upd).map (HOut.pre dp sp) := by
  cases v <;>
  simp only [hSchema, rec_child_pp rec hrec dp sp ctx, emap_bind, bind_emap, emap_pure, apply_ite (Except.map _),
    preL_isEmpty, List.map_nil, List.map_cons, ESpec.pre, HOut.pre, preL_nil, pp_schemaPath, pp_cfg, dropSpL_pp' dp sp]
  rename_i kvs
  by_cases hn : c.isNone = true
  · simp only [hn, if_true]
  · simp only [hn, Bool.false_eq_true, if_false]
    cases fieldRules env schema f "__validate_schema_mapping" with
    | error e => rfl
    | ok rs =>
      simp only [bind, Except.bind]
      cases env.resolveSchema c with
      | none => rfl
      | some s0 =>
        simp only [pure, Except.pure, bind, Except.bind]
        generalize rec (ctx.child doc
            { allowUnknown := some ((rs.dget? (kS "allow_unknown")).getD ctx.cfg.allowUnknown),
              requireAll := some ((rs.dget? (kS "require_all")).getD ctx.cfg.requireAll) }
            (some f) [f, kS "schema"]) s0 (Val.dict kvs) upd = r
        cases r with
        | error x => cases x <;> simp [Except.map, HOut.pre, ESpec.pre]
        | ok cerrs =>
          by_cases he : cerrs.isEmpty = true <;> simp [Except.map, he, HOut.pre, ESpec.pre]

theorem defChild_pp (doc : Val) (f : Key) (op : String) (upd : Bool) (rs : Val) (i : Nat) (d : Val) :
    defChild rec (pp dp sp ctx) doc f op upd rs i d = (defChild rec ctx doc f op upd rs i d).map (preL dp sp) := by
  cases d with
  | dict dkvs =>
    simp only [defChild, defRules, pp_cfg, pp_child]
    exact hrec dp sp _ _ _ _ (by simp [Ctx.child])
  | _ => rfl

theorem logicalDefs_pp (doc : Val) (f : Key) (op : String) (upd : Bool) (rs : Val) :
    ∀ (i : Nat) (ds : List Val), logicalDefs rec (pp dp sp ctx) doc f op upd rs i ds =
      (logicalDefs rec ctx doc f op upd rs i ds).map (fun p => (p.1, preL dp sp p.2))
  | _, [] => rfl
  | i, d :: ds => by
    simp only [logicalDefs, defChild_pp rec hrec dp sp ctx, logicalDefs_pp doc f op upd rs (i + 1) ds, pp_schemaPath]
    cases defChild rec ctx doc f op upd rs i d with
    | error e => rfl
    | ok cerrs =>
      simp only [Except.map]
      cases logicalDefs rec ctx doc f op upd rs (i + 1) ds with
      | error e => rfl
      | ok p =>
        obtain ⟨n, es⟩ := p
        simp only [preL_isEmpty]
        split
        · rfl
        · simp only [dropSpL_pp' dp sp, preL_append]

theorem hLogical_pp (schema doc : Val) (f : Key) (op : String) (code : Nat) (c v : Val) (upd : Bool) :
    hLogical env rec (pp dp sp ctx) schema doc f op code c v upd =
    (hLogical env rec ctx schema doc f op code c v upd).map (List.map (ESpec.pre dp sp)) := by
  simp only [hLogical, logicalDefs_pp rec hrec dp sp ctx]
  cases Val.pyIter? "__validate_logical" c with
  | error x => rfl
  | ok defs =>
    simp only
    cases fieldRules env schema f "__validate_logical" with
    | error e => rfl
    | ok rs =>
      simp only
      cases logicalDefs rec ctx doc f op upd rs 0 defs with
      | error e => rfl
      | ok p =>
        obtain ⟨n, es⟩ := p
        simp only [Except.map]
        split <;> simp [ESpec.pre]

end

/-! ### handlers that read the context themselves -/

theorem hReadonly_pp (env : Env) (dp sp : List Key) (ctx : Ctx) (schema doc : Val) (f : Key) (c v : Val) (sofar : List Err) :
    hReadonly env (pp dp sp ctx) schema doc f c v (preL dp sp sofar) =
    (hReadonly env ctx schema doc f c v sofar).map (HOut.pre dp sp) := by
  simp only [hReadonly, pp_cfg, pp_docPath, List.append_assoc, hasErrAt_pre]
  nk_tac

theorem lookupField_pp (dp sp : List Key) (ctx : Ctx) (doc : Val) (name : String) :
    lookupField (pp dp sp ctx) doc name = lookupField ctx doc name := rfl

theorem depsSequence_pp (dp sp : List Key) (ctx : Ctx) (doc : Val) :
    ∀ xs, depsSequence (pp dp sp ctx) doc xs = depsSequence ctx doc xs
  | [] => rfl
  | d :: ds => by
    simp only [depsSequence, lookupField_pp, depsSequence_pp dp sp ctx doc ds]

theorem depsMapping_pp (dp sp : List Key) (ctx : Ctx) (doc : Val) :
    ∀ kvs, depsMapping (pp dp sp ctx) doc kvs = depsMapping ctx doc kvs
  | [] => rfl
  | (k, vals) :: r => by
    have ih := depsMapping_pp dp sp ctx doc r
    cases k with
    | s name => show (do let rest ← depsMapping (pp dp sp ctx) doc r; _) = (do let rest ← depsMapping ctx doc r; _); rw [ih]; rfl
    | i n => rfl

theorem hDependencies_pp (env : Env) (dp sp : List Key) (ctx : Ctx) (schema doc : Val) (f : Key) (c v : Val) :
    hDependencies env (pp dp sp ctx) schema doc f c v = hDependencies env ctx schema doc f c v := by
  simp only [hDependencies, depsSequence_pp, depsMapping_pp]

theorem nk_depsSequence (dp sp : List Key) (ctx : Ctx) (doc : Val) :
    ∀ xs, Except.map (List.map (ESpec.pre dp sp)) (depsSequence ctx doc xs) = depsSequence ctx doc xs
  | [] => rfl
  | d :: ds => by
    have ih := nk_depsSequence dp sp ctx doc ds
    simp only [depsSequence, bind, Except.bind]
    cases depName "_lookup_field" d with
    | error e => rfl
    | ok name =>
      simp only
      cases hr : depsSequence ctx doc ds with
      | error e => rfl
      | ok rest =>
        rw [hr] at ih
        simp only [Except.map, Except.ok.injEq] at ih
        simp only [pure, Except.pure, Except.map, List.map_append, ih]
        split <;> simp [ESpec.pre]

theorem nk_hDependencies (env : Env) (dp sp : List Key) (ctx : Ctx) (schema doc : Val) (f : Key) (c v : Val) :
    Except.map (List.map (ESpec.pre dp sp)) (hDependencies env ctx schema doc f c v) = hDependencies env ctx schema doc f c v := by
  unfold hDependencies
  split
  · exact nk_depsSequence dp sp ctx doc _
  · cases depsMapping ctx doc _ with
    | error e => rfl
    | ok bad => simp only; split <;> simp [Except.map, ESpec.pre]
  · rfl

theorem nk_checkOne (env : Env) (dp sp : List Key) (v c : Val) :
    Except.map (List.map (ESpec.pre dp sp)) (checkOne env v c) = checkOne env v c := by
  unfold checkOne
  split
  · split
    · simp [pure, Except.pure, Except.map, List.map_map, Function.comp, ESpec.pre, customSpec]
    · rfl
  · split
    · simp [pure, Except.pure, Except.map, List.map_map, Function.comp, ESpec.pre, customSpec]
    · rfl
  · rfl

theorem nk_checkAll (env : Env) (dp sp : List Key) (v : Val) :
    ∀ cs, Except.map (List.map (ESpec.pre dp sp)) (checkAll env v cs) = checkAll env v cs
  | [] => rfl
  | c :: cs => by
    have h1 := nk_checkOne env dp sp v c
    have h2 := nk_checkAll env dp sp v cs
    simp only [checkAll, bind, Except.bind]
    cases ha : checkOne env v c with
    | error e => rfl
    | ok a =>
      rw [ha] at h1
      simp only [Except.map, Except.ok.injEq] at h1
      cases hb : checkAll env v cs with
      | error e => rfl
      | ok b =>
        rw [hb] at h2
        simp only [Except.map, Except.ok.injEq] at h2
        simp [pure, Except.pure, Except.map, h1, h2]

theorem nk_hCheckWith (env : Env) (dp sp : List Key) (c v : Val) :
    Except.map (List.map (ESpec.pre dp sp)) (hCheckWith env c v) = hCheckWith env c v := by
  unfold hCheckWith
  split
  · exact nk_checkAll env dp sp v _
  · exact nk_checkOne env dp sp v c

theorem errsOnly_map (dp sp : List Key) (x : M (List ESpec)) :
    Except.map (HOut.pre dp sp) (errsOnly x) = errsOnly (Except.map (List.map (ESpec.pre dp sp)) x) := by
  cases x <;> rfl

/-! ### the dispatcher -/

theorem handler_pp (env : Env) (t : Tables) (rec : Rec) (hrec : RecEquiv rec) (dp sp : List Key) (ctx : Ctx)
    (schema doc : Val) (upd : Bool) (f : Key) (defs v : Val) (sofar : List Err) (rule : String) :
    handler env t rec (pp dp sp ctx) schema doc upd f defs v (preL dp sp sofar) rule =
    (handler env t rec ctx schema doc upd f defs v sofar rule).map (HOut.pre dp sp) := by
  unfold handler
  dsimp only
  split
  · exact (nk_hNullable dp sp env t ctx schema doc f _ v).symm
  · exact hReadonly_pp env dp sp ctx schema doc f _ v sofar
  · exact (nk_hType dp sp env t ctx schema doc f _ v).symm
  · exact (nk_hEmpty dp sp env t ctx schema doc f _ v).symm
  · rw [errsOnly_map, nk_hAllowed]; rfl
  · rw [errsOnly_map, nk_hForbidden]; rfl
  · rw [errsOnly_map, nk_hContains]; rfl
  · rw [errsOnly_map, nk_hMin]; rfl
  · rw [errsOnly_map, nk_hMax]; rfl
  · rw [errsOnly_map, nk_hLength]; rfl
  · rw [errsOnly_map, nk_hLength]; rfl
  · rw [errsOnly_map, nk_hRegex]; rfl
  · rw [errsOnly_map, nk_hDependencies, hDependencies_pp]
  · exact (nk_hExcludes dp sp env ctx schema doc f _ v).symm
  · rw [errsOnly_map, hItems_pp env rec hrec dp sp ctx]
  · exact hSchema_pp env rec hrec dp sp ctx schema doc f _ v upd
  · rw [errsOnly_map, hKeysrules_pp env rec hrec dp sp ctx]
  · rw [errsOnly_map, hValuesrules_pp env rec hrec dp sp ctx]
  · rw [errsOnly_map, hLogical_pp env rec hrec dp sp ctx]
  · rw [errsOnly_map, hLogical_pp env rec hrec dp sp ctx]
  · rw [errsOnly_map, hLogical_pp env rec hrec dp sp ctx]
  · rw [errsOnly_map, hLogical_pp env rec hrec dp sp ctx]
  · rw [errsOnly_map, nk_hCheckWith]
  · split
    · simp [Except.map, HOut.pre, List.map_map, Function.comp, ESpec.pre, customSpec]
    · rfl

theorem runRule_pp (env : Env) (t : Tables) (rec : Rec) (hrec : RecEquiv rec) (dp sp : List Key) (ctx : Ctx)
    (schema doc : Val) (upd : Bool) (f : Key) (defs v : Val) (sofar : List Err) (rule : String) :
    runRule env t rec (pp dp sp ctx) schema doc upd f defs v (preL dp sp sofar) rule =
    (runRule env t rec ctx schema doc upd f defs v sofar rule).map (fun p => (HOut.pre dp sp p.1, preL dp sp p.2)) := by
  simp only [runRule, handler_pp env t rec hrec dp sp ctx]
  cases handler env t rec ctx schema doc upd f defs v sofar rule with
  | error e => rfl
  | ok o =>
    simp only [Except.map, HOut.pre, buildErrs_pp]
    cases buildErrs env ctx schema doc f o.errs <;> rfl

/-- the state of the queue with every error prefixed -/
def QState.pre (dp sp : List Key) (s : QState) : QState := { s with errs := preL dp sp s.errs }

theorem runQueue_pp (dp sp : List Key) (h h' : List Err → String → M (HOut × List Err))
    (hh : ∀ so r, h' (preL dp sp so) r = (h so r).map (fun p => (HOut.pre dp sp p.1, preL dp sp p.2))) :
    ∀ (q : List String) (s : QState), runQueue h' q (QState.pre dp sp s) = (runQueue h q s).map (QState.pre dp sp)
  | [], s => rfl
  | r :: rs, s => by
    have ih := runQueue_pp dp sp h h' hh rs
    simp only [runQueue, QState.pre]
    by_cases hc : (s.stopped || s.dropped.contains r) = true
    · simp only [hc, if_true]
      exact ih s
    · simp only [hc, Bool.false_eq_true, if_false]
      rw [hh s.errs r]
      cases h s.errs r with
      | error e => rfl
      | ok p =>
        obtain ⟨o, es⟩ := p
        simp only [Except.map, HOut.pre]
        have := ih { errs := s.errs ++ es, dropped := s.dropped ++ o.drop, stopped := o.dropAll, unreq := s.unreq ++ o.unreq }
        simp only [QState.pre, preL_append] at this
        exact this

theorem getLast_append_ne (sp x : List Key) (h : x ≠ []) : (sp ++ x).getLast? = x.getLast? := by
  cases x with
  | nil => exact absurd rfl h
  | cons a r =>
    rw [List.getLast?_append]
    cases hl : (a :: r).getLast? with
    | none => simp at hl
    | some x => rfl

section
variable (env : Env) (t : Tables) (rec : Rec) (hrec : RecEquiv rec) (dp sp : List Key) (ctx : Ctx) (hne : ctx.schemaPath ≠ [])
include hrec hne

theorem validateDefinitions_pp (schema doc : Val) (upd : Bool) (f : Key) (definitions v : Val) (s : QState) :
    validateDefinitions env t rec (pp dp sp ctx) schema doc upd f definitions v (QState.pre dp sp s) =
    (validateDefinitions env t rec ctx schema doc upd f definitions v s).map (QState.pre dp sp) := by
  simp only [validateDefinitions, pp_isChild, pp_schemaPath, getLast_append_ne sp _ hne]
  split
  · split <;> rfl
  · split
    · rfl
    · rename_i _ defs _ _ names _
      exact runQueue_pp dp sp _ _ (fun so r => runRule_pp env t rec hrec dp sp ctx schema doc upd f defs v so r) _
        { s with dropped := [], stopped := false }

omit hne in
theorem validateUnknown_pp (doc : Val) (f : Key) (v : Val) :
    validateUnknown rec (pp dp sp ctx) doc f v = (validateUnknown rec ctx doc f v).map (preL dp sp) := by
  simp only [validateUnknown, pp_cfg, pp_isChild, pp_docPath, pp_schemaPath, pp_child]
  split
  · split
    · exact hrec dp sp _ _ _ _ (by simp [Ctx.child])
    · rfl
  · simp [pure, Except.pure, Except.map, preL, Err.pre, List.append_assoc]

theorem validateField_pp (schema : Val) (skvs : List (Key × Val)) (doc : Val) (upd : Bool) (f : Key) (v : Val) (s : QState) :
    validateField env t rec (pp dp sp ctx) schema skvs doc upd f v (QState.pre dp sp s) =
    (validateField env t rec ctx schema skvs doc upd f v s).map (QState.pre dp sp) := by
  simp only [validateField, pp_cfg, validateUnknown_pp rec hrec dp sp ctx,
    validateDefinitions_pp env t rec hrec dp sp ctx hne]
  split
  · rfl
  · split
    · split
      · cases validateUnknown rec ctx doc f v with
        | error e => rfl
        | ok es => simp [Except.map, QState.pre, preL_append]
      · rfl
    · cases validateUnknown rec ctx doc f v with
      | error e => rfl
      | ok es => simp [Except.map, QState.pre, preL_append]

theorem validateFields_pp (schema : Val) (skvs : List (Key × Val)) (doc : Val) (upd : Bool) :
    ∀ (kvs : List (Key × Val)) (s : QState),
      validateFields env t rec (pp dp sp ctx) schema skvs doc upd kvs (QState.pre dp sp s) =
      (validateFields env t rec ctx schema skvs doc upd kvs s).map (QState.pre dp sp)
  | [], s => rfl
  | (f, v) :: r, s => by
    simp only [validateFields, validateField_pp env t rec hrec dp sp ctx hne]
    cases validateField env t rec ctx schema skvs doc upd f v s with
    | error e => rfl
    | ok s1 =>
      simp only [Except.map]
      exact validateFields_pp schema skvs doc upd r s1

end

theorem requiredOf_pp (env : Env) (dp sp : List Key) (ctx : Ctx) (hne : ctx.schemaPath ≠ []) :
    ∀ skvs, requiredOf env (pp dp sp ctx) skvs = requiredOf env ctx skvs
  | [] => rfl
  | (f, d) :: r => by
    have h1 : isRequired env (pp dp sp ctx) d = isRequired env ctx d := by
      simp only [isRequired, pp_cfg, pp_isChild, pp_schemaPath, getLast_append_ne sp _ hne]
    simp only [requiredOf, h1, requiredOf_pp env dp sp ctx hne r]

theorem mapM_mkErr_pp (env : Env) (dp sp : List Key) (ctx : Ctx) (schema doc : Val) :
    ∀ (l : List Key), l.mapM (fun f => mkErr env (pp dp sp ctx) schema doc f Code.REQUIRED_FIELD (some "required") [] []) =
      (l.mapM (fun f => mkErr env ctx schema doc f Code.REQUIRED_FIELD (some "required") [] [])).map (preL dp sp)
  | [] => rfl
  | f :: r => by
    have h1 := mkErr_pp env dp sp ctx schema doc f Code.REQUIRED_FIELD (some "required") [] []
    simp only [preL_nil] at h1
    simp only [List.mapM_cons, h1, mapM_mkErr_pp env dp sp ctx schema doc r, bind, Except.bind]
    cases mkErr env ctx schema doc f Code.REQUIRED_FIELD (some "required") [] [] with
    | error e => rfl
    | ok e =>
      simp only [Except.map]
      cases List.mapM (fun f => mkErr env ctx schema doc f Code.REQUIRED_FIELD (some "required") [] []) r with
      | error e => rfl
      | ok es => simp [pure, Except.pure, preL]

theorem validateRequired_pp (env : Env) (dp sp : List Key) (ctx : Ctx) (hne : ctx.schemaPath ≠ []) (schema : Val)
    (skvs : List (Key × Val)) (doc : Val) (dkvs : List (Key × Val)) (unreq : List Key) :
    validateRequired env (pp dp sp ctx) schema skvs doc dkvs unreq =
    (validateRequired env ctx schema skvs doc dkvs unreq).map (preL dp sp) := by
  simp only [validateRequired, requiredOf_pp env dp sp ctx hne, pp_cfg, mapM_mkErr_pp, emap_bind, bind_emap, emap_pure,
    apply_ite (Except.map _), preL_append, preL_nil, pure_bind, List.append_nil]
  rfl

section
variable (env : Env) (t : Tables) (rec : Rec) (hrec : RecEquiv rec) (dp sp : List Key) (ctx : Ctx) (hne : ctx.schemaPath ≠ [])
include hrec hne

theorem validateResolved_pp (skvs : List (Key × Val)) (doc : Val) (dkvs : List (Key × Val)) (upd : Bool)
    (pre : List Err) (unreq0 : List Key) :
    validateResolved env t rec (pp dp sp ctx) skvs doc dkvs upd (preL dp sp pre) unreq0 =
    (validateResolved env t rec ctx skvs doc dkvs upd pre unreq0).map (preL dp sp) := by
  simp only [validateResolved]
  have hf := validateFields_pp env t rec hrec dp sp ctx hne (.dict skvs) skvs doc upd dkvs { errs := pre, unreq := unreq0 }
  simp only [QState.pre] at hf
  rw [hf]
  cases validateFields env t rec ctx (.dict skvs) skvs doc upd dkvs { errs := pre, unreq := unreq0 } with
  | error e => rfl
  | ok s =>
    simp only [Except.map, QState.pre]
    split
    · rfl
    · rw [validateRequired_pp env dp sp ctx hne]
      cases validateRequired env ctx (.dict skvs) skvs doc dkvs s.unreq with
      | error e => rfl
      | ok req => simp [Except.map, preL_append]

theorem validateMapping_pp (schema doc : Val) (upd : Bool) (pre : List Err) (unreq0 : List Key) :
    validateMapping env t rec (pp dp sp ctx) schema doc upd (preL dp sp pre) unreq0 =
    (validateMapping env t rec ctx schema doc upd pre unreq0).map (preL dp sp) := by
  simp only [validateMapping]
  split
  · split
    · exact validateResolved_pp env t rec hrec dp sp ctx hne _ _ _ _ _ _
    · rfl
  · rfl

end

/-- **path equivariance of validation** -/
theorem validate0_equiv (env : Env) (t : Tables) : ∀ n, RecEquiv (validate0 env t n)
  | 0 => fun _ _ _ _ _ _ _ => rfl
  | n + 1 => by
    intro dp sp ctx s d u hne
    simp only [validate0]
    have := validateMapping_pp env t (validate0 env t n) (validate0_equiv env t n) dp sp ctx hne s d u [] []
    simpa using this

end V
end Cerberus
