/-
  Cerberus.Model.Schema — the schema side (schema.py): expansion of shorthands,
  deprecated names and rule names with spaces; schema validation against the
  rule constraint schemas of the validator class; the entry points.

  Schema validation is *not* a separate checker: `acceptFields` runs the
  validation model `validate0` on the schema taken as a document, under the
  meta-schema of the class (`Cls.rules`, extracted from the live class), exactly
  as `DefinitionSchema._validate` runs a `SchemaValidator`.  Only the five
  `check_with` callbacks and the `logical` rule of `SchemaValidatorMixin` are
  modelled by hand; they call `validate0` recursively (fuel-indexed).
-/
import Cerberus.Model.Validate
namespace Cerberus

/-- what schema validation needs to know about a validator class -/
structure Cls where
  /-- `cls.rules`: rule name ↦ constraint schema (validation and normalization rules) -/
  rules : List (Key × Val)
  /-- names of `cls.validation_rules` (the only rules allowed inside *of definitions) -/
  validationRules : List String
  /-- `cls.types` -/
  types : List String
  deriving Inhabited

namespace S
open V

/-! ### expansion (`DefinitionSchema.expand`, after the repairs F25, F15b, F28) -/

def hasSpace (s : String) : Bool := s.toList.contains ' '
def underscored (s : String) : String := String.ofList (s.toList.map (fun c => if c = ' ' then '_' else c))

/-- `_normalize_rulenames` on one rule set -/
def normalizeNames (rules : List (Key × Val)) : List (Key × Val) :=
  let spaced := rules.filterMap (fun kv => match kv.1 with | .s n => if hasSpace n then some n else none | _ => none)
  spaced.foldl (fun acc n =>
    match Val.dlookup acc (.s n) with
    | some v => Val.dset (Val.ddel acc (.s n)) (.s (underscored n)) v
    | none => acc) rules

def ofPrefixes : List String := ["allof", "anyof", "noneof", "oneof"]

/-- `operator, rule = of_rule.split('_', 1)` for a key that starts with `<operator>_`:
    the split is at the *first* underscore, so the rule part may contain underscores -/
def splitOfChars (cs : List Char) : List String → Option (String × String)
  | [] => none
  | p :: ps =>
    if (p.toList ++ ['_']).isPrefixOf cs then some (p, String.ofList (cs.drop (p.toList.length + 1)))
    else splitOfChars cs ps

def splitOf (name : String) : Option (String × String) := splitOfChars name.toList ofPrefixes

/-- iteration of a constraint by `for value in rules[of_rule]`; `none` = `TypeError` -/
def iterConstraint : Val → Option (List Val)
  | .seq _ xs => some xs
  | .str s => some (s.toList.map (fun c => .str (String.singleton c)))
  | .dict kvs => some (kvs.map (fun kv => kv.1.toVal))
  | _ => none

/-- `_expand_logical_shortcuts` on one rule set; the flag reports an exception
    (which ends the expansion passes, leaving what was done so far) -/
def expandLogicalRules (rules : List (Key × Val)) : List (Key × Val) × Bool :=
  let ofKeys := rules.filterMap (fun kv => match kv.1 with
    | .s n => if (splitOf n).isSome then some n else none | _ => none)
  ofKeys.foldl (fun (st : List (Key × Val) × Bool) n =>
    if st.2 then st else
    match splitOf n, Val.dlookup st.1 (.s n) with
    | some (op, rule), some c =>
      let r1 := Val.dset st.1 (.s op) (.seq false [])
      match iterConstraint c with
      | none => (r1, true)
      | some xs =>
        let r2 := Val.dset r1 (.s op) (.seq false (xs.map (fun x => .dict [(.s rule, x)])))
        (Val.ddel r2 (.s n), false)
    | _, _ => st) (rules, false)

/-- pass over all fields; stops at the first exception -/
def expandLogical : List (Key × Val) → List (Key × Val) × Bool
  | [] => ([], false)
  | (f, rules) :: rest =>
    match rules with
    | .dict rs =>
      let (rs', ab) := expandLogicalRules rs
      if ab then ((f, .dict rs') :: rest, true)
      else
        let (rest', ab') := expandLogical rest
        ((f, .dict rs') :: rest', ab')
    | .str _ | .seq _ _ =>
      -- iterating a string gives single characters, a list its members: no shorthand among them
      let (rest', ab') := expandLogical rest
      ((f, rules) :: rest', ab')
    | _ => ((f, rules) :: rest, true)      -- `for x in rules` on a non-iterable: TypeError

def deprecated : List (String × String) :=
  [("keyschema", "keysrules"), ("validator", "check_with"), ("valueschema", "valuesrules")]

/-- `_rename_deprecated_rulenames` on one rule set; `none` = RuntimeError (old and new name both present) -/
def renameRules (rules : List (Key × Val)) : Option (List (Key × Val)) :=
  deprecated.foldlM (fun acc (p : String × String) =>
    match Val.dlookup acc (.s p.1) with
    | none => some acc
    | some v =>
      if Val.dhas acc (.s p.2) then none
      else some (Val.ddel (Val.dset acc (.s p.2) v) (.s p.1))) rules

def renameFields : List (Key × Val) → Option (List (Key × Val))
  | [] => some []
  | (f, rules) :: rest =>
    match rules with
    | .dict rs =>
      match renameRules rs, renameFields rest with
      | some rs', some rest' => some ((f, .dict rs') :: rest')
      | _, _ => none
    | _ => (renameFields rest).map (fun rest' => (f, rules) :: rest')

def isMappingSchema (sub : Val) : Bool :=
  match sub with
  | .dict kvs => kvs.all (fun kv => kv.2.isMapping)
  | _ => false

/-- `expand({0: x})[0]`, given the expansion of a field mapping -/
def expandOne (expF : List (Key × Val) → Option (List (Key × Val))) (x : Val) : Option Val :=
  match expF [(.i 0, x)] with
  | some [(_, y)] => some y
  | some _ => some x
  | none => none

/-- a constraint replaced by its expansion (when the expansion does not raise) -/
def setExpanded (rs : List (Key × Val)) (rule : String) (e : Option Val) : Option (List (Key × Val)) :=
  match e with
  | some v => some (Val.dset rs (.s rule) v)
  | none => none

/-- `_expand_subschemas`, (1): the `schema` rule -/
def subSchemaRule (expF : List (Key × Val) → Option (List (Key × Val))) (rs : List (Key × Val)) :
    Option (List (Key × Val)) :=
  match Val.dlookup rs (.s "schema") with
  | some sub =>
    if isMappingSchema sub then
      match sub with
      | .dict kvs => setExpanded rs "schema" ((expF kvs).map Val.dict)
      | _ => some rs
    else setExpanded rs "schema" (expandOne expF sub)
  | none => some rs

/-- (2a): the bulk rules -/
def subBulkStep (expF : List (Key × Val) → Option (List (Key × Val))) (acc : List (Key × Val)) (r : String) :
    Option (List (Key × Val)) :=
  match Val.dlookup acc (.s r) with
  | some c => setExpanded acc r (expandOne expF c)
  | none => some acc

/-- (2b): the rule set of the `allow_unknown` rule -/
def subAllowUnknown (expF : List (Key × Val) → Option (List (Key × Val))) (rs : List (Key × Val)) :
    Option (List (Key × Val)) :=
  match Val.dlookup rs (.s "allow_unknown") with
  | some (.dict au) => setExpanded rs "allow_unknown" (expandOne expF (.dict au))
  | _ => some rs

/-- (3): *of rules and items -/
def subListStep (expF : List (Key × Val) → Option (List (Key × Val))) (acc : List (Key × Val)) (r : String) :
    Option (List (Key × Val)) :=
  match Val.dlookup acc (.s r) with
  | some c =>
    match (if c.isSequence then iterConstraint c else none) with
    | some xs => setExpanded acc r ((xs.mapM (expandOne expF)).map (Val.seq false))
    | none => some acc
  | none => some acc

/-- `_expand_subschemas` on one rule set, given the expansion of a field mapping: the constraints of the rules that
    hold schemas or rule sets are expanded; the rule names stay as they are -/
def subschemasWith (expF : List (Key × Val) → Option (List (Key × Val))) (rs : List (Key × Val)) :
    Option (List (Key × Val)) :=
  (subSchemaRule expF rs).bind fun rs1 =>
  (["keysrules", "valuesrules", "keyschema", "valueschema"].foldlM (subBulkStep expF) rs1).bind fun rs2 =>
  (subAllowUnknown expF rs2).bind fun rs3 =>
  ["allof", "anyof", "items", "noneof", "oneof"].foldlM (subListStep expF) rs3

/-- `expand(schema)` on a field mapping; `none` = RuntimeError from the renaming of
    deprecated names.  Fuel bounds the nesting depth (never exhausted for
    `fuel > depth of the value`). -/
def expandFields : Nat → List (Key × Val) → Option (List (Key × Val))
  | 0, fields => some fields
  | n + 1, fields =>
    -- the three passes inside `try`
    let named := fields.map (fun kv => match kv.2 with
      | .dict rs => (kv.1, Val.dict (normalizeNames rs)) | _ => kv)
    let (logical, aborted) := expandLogical named
    let subs : Option (List (Key × Val)) :=
      if aborted then some logical
      else logical.mapM (fun kv => match kv.2 with
        | .dict rs => do pure (kv.1, Val.dict (← subschemasWith (expandFields n) rs))
        | _ => pure kv)
    match subs with
    | none => none
    | some s => renameFields s

mutual
def vdepth : Val → Nat
  | .seq _ xs => 1 + depthL xs
  | .dict kvs => 1 + depthD kvs
  | _ => 0
def depthL : List Val → Nat
  | [] => 0
  | x :: xs => max (vdepth x) (depthL xs)
def depthD : List (Key × Val) → Nat
  | [] => 0
  | (_, v) :: r => max (vdepth v) (depthD r)
end

/-- `DefinitionSchema.expand(schema)` -/
def expand (fields : List (Key × Val)) : Option (List (Key × Val)) :=
  expandFields (depthD fields + 2) fields

/-- `RulesSetRegistry._expand_definition` = `expand({0: definition})[0]` -/
def expandRulesSet (d : Val) : Option Val :=
  match expand [(.i 0, d)] with
  | some [(_, y)] => some y
  | some _ => some d
  | none => none

/-! ### schema validation -/

/-- `SchemaValidationSchema`: every field of the schema under test is an "unknown
    field" validated by these rules -/
def validationSchema (cls : Cls) : Val :=
  .dict [(.s "allow_unknown", .bool false), (.s "schema", .dict cls.rules), (.s "type", .str "dict")]

def verdict (r : M (List Err)) : List String :=
  match r with
  | .ok [] => []
  | .ok _ => ["invalid"]
  | .error _ => ["raised"]

/-- the environment of the `SchemaValidator`: its `check_with` callbacks and its
    `logical` rule call the validation model again, with less fuel.  `visR` /
    `visS` are the references already being checked (`known_*_refs`). -/
def metaEnv (cls : Cls) (t : Tables) (regsR regsS : String → Option Val) :
    Nat → (visR visS : List String) → Env
  | 0, _, _ =>
    { rx := fun _ _ => none, coerce := fun _ _ => .error "n/a", hasCoercer := fun _ => false,
      setter := fun _ _ => .other "n/a", hasSetter := fun _ => false,
      checker := fun _ _ => some ["fuel"], customRule := fun _ _ _ => some ["fuel"],
      rulesSets := fun _ => none, schemas := fun _ => none }
  | n + 1, visR, visS =>
    let sub (vr vs : List String) : Env := metaEnv cls t regsR regsS n vr vs
    -- a rule set validated against the rules of the target class
    let rulesOK (vr vs : List String) (allowed : List (Key × Val)) (rs : Val) : List String :=
      verdict (validate0 (sub vr vs) t n { cfg := { allowUnknown := .bool false }, isChild := true }
                 (.dict allowed) rs false)
    let bulk (v : Val) : List String :=
      match v with
      | .str name =>
        if visR.contains name then []
        else match regsR name with
          | none => ["Rules set definition not found."]
          | some d => rulesOK (name :: visR) visS cls.rules d
      | _ => rulesOK visR visS cls.rules v
    -- a field mapping: every field is validated by the rules for unknown fields
    -- fields given by reference are replaced by their definitions; a reference whose definition is being
    -- checked further up is left out, and the others are "known" while the mapping is checked
    let fieldsOK (vs : List String) (fields : List (Key × Val)) : List String :=
      let doc := fields.filterMap (fun kv => match kv.2 with
        | .str name => if visR.contains name then none else some (kv.1, (regsR name).getD .none)
        | _ => some kv)
      let fresh := fields.filterMap (fun kv => match kv.2 with
        | .str name => if visR.contains name then none else some name
        | _ => none)
      verdict (validate0 (sub (fresh ++ visR) vs) t n
                 { cfg := { allowUnknown := validationSchema cls }, isChild := true }
                 (.dict []) (.dict doc) false)
    let schemaCheck (v : Val) : List String :=
      match v with
      | .str name =>
        if visS.contains name then []
        else match regsS name with
          | some (.dict fields) => fieldsOK (name :: visS) fields
          | some _ => ["raised"]
          | none => ["Schema definition not found."]
      | .dict fields => fieldsOK visS fields
      | _ => ["raised"]
    { rx := fun _ _ => none, coerce := fun _ _ => .error "n/a", hasCoercer := fun _ => false,
      setter := fun _ _ => .other "n/a", hasSetter := fun _ => false,
      rulesSets := fun _ => none, schemas := fun _ => none,
      checker := fun name v =>
        match name with
        | "bulk_schema" => some (bulk v)
        | "schema" => some (schemaCheck v)
        | "items" =>
          match iterConstraint v with
          | some xs => some (xs.flatMap bulk)
          | none => some ["raised"]
        | "type" =>
          let names := match v with | .str _ => some [v] | _ => iterConstraint v
          match names with
          | some ns =>
            if ns.all Val.hashable then
              some (if ns.all (fun x => match x with | .str s => cls.types.contains s | _ => false) then []
                    else ["Unsupported types"])
            else some ["raised"]
          | none => some ["raised"]
        | "dependencies" =>
          match v with
          | .str _ => some []
          | .dict kvs =>
            match Val.dlookup kvs (.s "valuesrules") with
            | some x => some (if x.isSeqNotStr then [] else ["must be of list type"])
            | none => some []
          | .seq _ xs => some (if xs.all Val.isHashableABC then [] else ["All dependencies must be a hashable type."])
          | _ => some []
        | _ => none
      customRule := fun rule _ v =>
        if rule == "logical" then
          match (if v.isSequence then iterConstraint v else none) with
          | none => some ["must be of list type"]
          | some members =>
            some (members.flatMap (fun m =>
              match m with
              | .dict _ =>
                rulesOK visR visS (cls.rules.filter (fun kv => match kv.1 with
                  | .s r => cls.validationRules.contains r | _ => false)) m
              | _ => ["must be of list type"]))
        else none }

/-- the fuel that suffices for a schema of the given nesting depth and registries -/
def metaFuel (fields : List (Key × Val)) : Nat := 3 * (depthD fields + 2) + 12

/-- `DefinitionSchema._validate(schema)`: is the (expanded) field mapping accepted? -/
def acceptFields (cls : Cls) (t : Tables) (regsR regsS : String → Option Val) (fuel : Nat)
    (fields : List (Key × Val)) : Bool :=
  let test := fields.map (fun kv => match kv.2 with
    | .str name => (kv.1, (regsR name).getD kv.2)
    | _ => kv)
  (verdict (validate0 (metaEnv cls t regsR regsS fuel [] []) t fuel
              { cfg := { allowUnknown := validationSchema cls } } (.dict []) (.dict test) false)).isEmpty

/-- outcome of submitting a schema: the accepted (expanded) schema, `SchemaError`, or another exception -/
inductive Accept where
  | accepted (schema : Val)
  | schemaError
  | raised (type : String)
  deriving Inhabited

/-- `DefinitionSchema(validator, schema)` -/
def acceptSchema (cls : Cls) (t : Tables) (regsR regsS : String → Option Val) (raw : Val) : Accept :=
  let resolved : Option (List (Key × Val)) :=
    match raw with
    | .dict kvs => some kvs
    | .str name => match regsS name with | some (.dict kvs) => some kvs | _ => none
    | _ => none
  match resolved with
  | none => .schemaError
  | some fields =>
    match expand fields with
    | none => .raised "RuntimeError"
    | some e =>
      if acceptFields cls t regsR regsS (metaFuel e) e then .accepted (.dict e) else .schemaError

/-! ### entry points -/

/-- what an instance holds on the schema side -/
structure SchemaState where
  schema : Option Val
  allowUnknown : Val

inductive Entry where
  /-- constructor / `validator.schema = …` / the `schema` argument of validate, validated, normalized -/
  | whole (raw : Val)
  /-- `validator.schema[key] = rules` -/
  | setItem (key : Key) (rules : Val)
  /-- `validator.schema.update(fields)` -/
  | update (fields : Val)
  /-- `validator.allow_unknown = value` -/
  | allowUnknown (value : Val)

/-- one submission: the new state and the outcome.  A rejected submission
    leaves the state exactly as it was. -/
def submit (cls : Cls) (t : Tables) (regsR regsS : String → Option Val) (s : SchemaState) : Entry → SchemaState × Accept
  | .whole raw =>
    match acceptSchema cls t regsR regsS raw with
    | .accepted v => ({ s with schema := some v }, .accepted v)
    | r => (s, r)
  | .setItem key rules =>
    -- `value = expand({0: value})[0]; validate({key: value}); schema[key] = value`
    match s.schema with
    | some (.dict cur) =>
      match expand [(.i 0, rules)] with
      | none => (s, .raised "RuntimeError")
      | some [(_, e)] =>
        if acceptFields cls t regsR regsS (metaFuel [(key, e)]) [(key, e)]
        then ({ s with schema := some (.dict (Val.dset cur key e)) }, .accepted (.dict (Val.dset cur key e)))
        else (s, .schemaError)
      | some _ => (s, .schemaError)
    | _ => (s, .raised "TypeError")
  | .update fields =>
    -- `schema = expand(schema); new = copy + update; validate(new); self.schema = new`
    match s.schema, fields with
    | some (.dict cur), .dict fs =>
      match expand fs with
      | none => (s, .raised "RuntimeError")
      | some e =>
        let merged := e.foldl (fun acc kv => Val.dset acc kv.1 kv.2) cur
        if acceptFields cls t regsR regsS (metaFuel merged) merged
        then ({ s with schema := some (.dict merged) }, .accepted (.dict merged))
        else (s, .schemaError)
    | _, _ => (s, .raised "TypeError")
  | .allowUnknown value =>
    -- `DefinitionSchema(self, {'allow_unknown': value})` unless the value is a bool
    match value with
    | .bool _ => ({ s with allowUnknown := value }, .accepted value)
    | _ =>
      -- the submitted rule set is expanded in place, so the expanded form is what is stored
      match acceptSchema cls t regsR regsS (.dict [(.s "allow_unknown", value)]) with
      | .accepted (.dict [(_, e)]) => ({ s with allowUnknown := e }, .accepted e)
      | .accepted _ => ({ s with allowUnknown := value }, .accepted value)
      | r => (s, r)

end S
end Cerberus
