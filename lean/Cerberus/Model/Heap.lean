/-
  Cerberus.Model.Heap — normalization replayed on a heap of mutable Python objects,
  to talk about *which objects are written*.

  Values cannot express aliasing, so this model has cells (`dict` with references to
  its values, `seq` with references to its members, `leaf` for scalars and callables),
  `alloc` appends, `copy` allocates one cell with the same child references (Python's
  shallow `copy`), and the two write primitives `setItem` / `delItem`.  `hnormalize`
  mirrors `__normalize_mapping` pass by pass with the code's write targets:
    * `self.document = copy(document)` at entry, every pass then writes `mapping[...]`;
    * `__normalize_mapping_per_keysrules` renames keys in `mapping[field]` — in a copy
      (after the repair of F12);
    * the container passes store what a child validator returns (its own copy) or a
      freshly built sequence.
  *What* is written is computed from the reified values with the pure helpers of the
  functional model; the port checks `reify ∘ hnormalize = normalize` on every case.
-/
import Cerberus.Model.Normalize
namespace Cerberus

abbrev Ref := Nat

/- exact (structural) equality of values: `1`, `True` and `1.0` are three different values here -/
mutual
def Val.same : Val → Val → Bool
  | .none, .none => true
  | .bool a, .bool b => a == b
  | .int a, .int b => a == b
  | .flt m e, .flt m' e' => m == m' && e == e'
  | .str a, .str b => a == b
  | .fn a, .fn b => a == b
  | .seq t xs, .seq t' ys => t == t' && Val.sameL xs ys
  | .dict a, .dict b => Val.sameD a b
  | _, _ => false
def Val.sameL : List Val → List Val → Bool
  | [], [] => true
  | x :: xs, y :: ys => Val.same x y && Val.sameL xs ys
  | _, _ => false
def Val.sameD : List (Key × Val) → List (Key × Val) → Bool
  | [], [] => true
  | (k, x) :: xs, (k', y) :: ys => k == k' && Val.same x y && Val.sameD xs ys
  | _, _ => false
end

inductive Cell where
  | leaf (v : Val)                         -- None, bool, int, float, str, callable
  | seq (tup : Bool) (refs : List Ref)
  | dict (ents : List (Key × Ref))
  deriving Inhabited

structure Heap where
  cells : List Cell
  deriving Inhabited

namespace Heap

def size (h : Heap) : Nat := h.cells.length
def get (h : Heap) (r : Ref) : Cell := h.cells.getD r (.leaf .none)

def alloc (h : Heap) (c : Cell) : Heap × Ref := ({ cells := h.cells ++ [c] }, h.cells.length)

def setCell (h : Heap) (r : Ref) (c : Cell) : Heap := { cells := h.cells.set r c }

/- allocate a whole value, bottom-up -/
mutual
def allocVal (h : Heap) : Val → Heap × Ref
  | .seq t xs =>
    let (h1, rs) := allocList h xs
    h1.alloc (.seq t rs)
  | .dict kvs =>
    let (h1, es) := allocEnts h kvs
    h1.alloc (.dict es)
  | v => h.alloc (.leaf v)
def allocList (h : Heap) : List Val → Heap × List Ref
  | [] => (h, [])
  | x :: xs =>
    let (h1, r) := allocVal h x
    let (h2, rs) := allocList h1 xs
    (h2, r :: rs)
def allocEnts (h : Heap) : List (Key × Val) → Heap × List (Key × Ref)
  | [] => (h, [])
  | (k, v) :: r =>
    let (h1, rv) := allocVal h v
    let (h2, rs) := allocEnts h1 r
    (h2, (k, rv) :: rs)
end

/-- the value a reference stands for (fuel = nesting depth) -/
def reify (h : Heap) : Nat → Ref → Val
  | 0, _ => .none
  | n + 1, r =>
    match h.get r with
    | .leaf v => v
    | .seq t rs => .seq t (rs.map (reify h n))
    | .dict es => .dict (es.map (fun kr => (kr.1, reify h n kr.2)))

def lookupRef : List (Key × Ref) → Key → Option Ref
  | [], _ => none
  | (k, r) :: rest, q => if k = q then some r else lookupRef rest q

def setRef : List (Key × Ref) → Key → Ref → List (Key × Ref)
  | [], k, r => [(k, r)]
  | (k', r') :: rest, k, r => if k' = k then (k', r) :: rest else (k', r') :: setRef rest k r

def delRef : List (Key × Ref) → Key → List (Key × Ref)
  | [], _ => []
  | (k', r') :: rest, k => if k' = k then rest else (k', r') :: delRef rest k

/-- `d[k] = value` on the dict object `d` — a **write** to cell `d` -/
def setItem (h : Heap) (d : Ref) (k : Key) (v : Ref) : Heap :=
  match h.get d with
  | .dict es => h.setCell d (.dict (setRef es k v))
  | _ => h

/-- `del d[k]` — a **write** to cell `d` -/
def delItem (h : Heap) (d : Ref) (k : Key) : Heap :=
  match h.get d with
  | .dict es => h.setCell d (.dict (delRef es k))
  | _ => h

/-- `copy(obj)`: a new cell with the same child references -/
def copy (h : Heap) (r : Ref) : Heap × Ref := h.alloc (h.get r)

def ents (h : Heap) (d : Ref) : List (Key × Ref) :=
  match h.get d with | .dict es => es | _ => []

end Heap

/-- normalization of a child mapping on the heap: (heap, reference of the processed mapping, errors) -/
abbrev HRecN := Ctx → (schema : Val) → Heap → (doc : Ref) → M (Heap × Ref × List Err)

namespace HN
open V N

def depthFuel : Nat := 64

def rv (h : Heap) (r : Ref) : Val := h.reify depthFuel r

/-- the mapping as a value (for the pure helpers: error values, setters, coercers) -/
def mval (h : Heap) (m : Ref) : List (Key × Val) :=
  (h.ents m).map (fun kr => (kr.1, rv h kr.2))

structure HState where
  h : Heap
  errs : List Err := []

/-! passes; `m` is the reference of the mapping being normalized -/

/-- the write of the rename pass for field `f`: the reference moves to the new key of `m` -/
def hRenameWrite (h : Heap) (m : Ref) (f : Key) (before after : List (Key × Val)) : Heap :=
  match Heap.lookupRef (h.ents m) f with
  | none => h
  | some ref =>
    -- keys of the functional result that the functional input did not have = the new name
    match (after.filter (fun kv => !(Val.dhas before kv.1))).head? with
    | some (newKey, _) => (h.setItem m newKey ref).delItem m f
    | none =>
      if Val.dhas after f then h
      else
        -- renamed onto an existing key: that key now holds the moved reference
        match (after.filter (fun kv => !(Val.same kv.2 ((Val.dlookup before kv.1).getD .none)))).head? with
        | some (target, _) => (h.setItem m target ref).delItem m f
        | none => h.delItem m f

def hRenameFields (env : Env) (ctx : Ctx) (schema : Val) (rs : RSchema) (m : Ref) :
    List Key → HState → M HState
  | [], s => .ok s
  | f :: r, s =>
    -- the functional pass on this one field tells what the key becomes; the write is a move of the reference
    match renameFields env ctx schema rs [f] { m := mval s.h m, errs := s.errs } with
    | .error e => .error e
    | .ok st => hRenameFields env ctx schema rs m r { h := hRenameWrite s.h m f (mval s.h m) st.m, errs := st.errs }

def hPurge (m : Ref) (drop : List Key) (h : Heap) : Heap := drop.foldl (fun acc k => acc.delItem m k) h

/-- store a freshly allocated value under `k` of `m` -/
def hStoreNew (h : Heap) (m : Ref) (k : Key) (v : Val) : Heap :=
  ((h.allocVal v).1).setItem m k (h.allocVal v).2

def hDefaultsWrite (m : Ref) (before : List (Key × Val)) (acc : Heap) (kv : Key × Val) : Heap :=
  match Val.dlookup before kv.1 with
  | some old => if Val.same old kv.2 then acc else hStoreNew acc m kv.1 kv.2
  | none => hStoreNew acc m kv.1 kv.2

/-- defaults and default setters: new values are freshly allocated and stored in `m` -/
def hDefaults (env : Env) (ctx : Ctx) (schema : Val) (rs : RSchema) (m : Ref) (s : HState) : M HState :=
  match defaults env ctx schema rs { m := mval s.h m, errs := s.errs } with
  | .error e => .error e
  | .ok st => .ok { h := st.m.foldl (hDefaultsWrite m (mval s.h m)) s.h, errs := st.errs }

def hCoerceWrite (h : Heap) (m : Ref) (f : Key) (before after : List (Key × Val)) : Heap :=
  match Val.dlookup before f, Val.dlookup after f with
  | some a, some b => if Val.same a b then h else hStoreNew h m f b
  | _, _ => h

/-- coercion: `mapping[field] = coercer(mapping[field])` — the result is stored in `m` -/
def hCoerce (env : Env) (ctx : Ctx) (schema : Val) (rs : RSchema) (m : Ref) : List Key → HState → M HState
  | [], s => .ok s
  | f :: r, s =>
    match coerceFields env ctx schema rs [f] { m := mval s.h m, errs := s.errs } with
    | .error e => .error e
    | .ok st => hCoerce env ctx schema rs m r { h := hCoerceWrite s.h m f (mval s.h m) st.m, errs := st.errs }

/-- one step of `for k in result: …` on the copy `cp` of the nested mapping -/
def hRenameKeyStep (cp : Ref) (h : Heap) (kv : Key × Val) : M Heap :=
  match keyMove kv with
  | .error e => .error e
  | .ok none => .ok h
  | .ok (some nk) =>
    match Heap.lookupRef (h.ents cp) kv.1 with
    | none => raisePy "KeyError" "__normalize_mapping_per_keysrules"
    | some ref =>
      if (Heap.lookupRef (h.ents cp) nk).isSome then .ok (h.setItem cp nk ref)
      else .ok ((h.setItem cp nk ref).delItem cp kv.1)

def hRenameKeys (cp : Ref) : List (Key × Val) → Heap → M Heap
  | [], h => .ok h
  | kv :: r, h =>
    match hRenameKeyStep cp h kv with
    | .error e => .error e
    | .ok h1 => hRenameKeys cp r h1

/-- keysrules: the nested mapping is **copied**, the keys are renamed in the copy -/
def hKeysrules (recN : RecN) (ctx : Ctx) (m : Ref) (f : Key) (c : Val) (s : HState) : M HState :=
  match Heap.lookupRef (s.h.ents m) f with
  | none => .ok s
  | some nested =>
    match keysrulesChild recN ctx (mval s.h m) f c (mval s.h nested) with
    | .error e => .error e
    | .ok (res, cerrs) =>
      match hRenameKeys (s.h.copy nested).2 res (((s.h.copy nested).1).setItem m f (s.h.copy nested).2) with
      | .error e => .error e
      | .ok h3 => .ok { h := h3, errs := s.errs ++ cerrs }

/-- a child validator normalizes the nested mapping (it copies it first) and the result is stored in `m` -/
def hChildMapping (hrec : HRecN) (cctx : Ctx) (cschema : Val) (m : Ref) (f : Key) (nested : Ref)
    (dropIdx : List Nat) (base : Nat) (s : HState) : M HState :=
  match hrec cctx cschema s.h nested with
  | .ok (h1, res, cerrs) =>
    .ok { h := h1.setItem m f res, errs := s.errs ++ dropSpL base dropIdx cerrs }
  | .error .schemaRuleType => .ok s
  | .error x => .error x

def indexEnts (items : List Ref) : List (Key × Ref) :=
  (List.range items.length).zip items |>.map (fun p => (Key.i (Int.ofNat p.1), p.2))

/-- a child validator normalizes `{index: item}`; the result values become a **new** sequence -/
def hChildSeq (hrec : HRecN) (cctx : Ctx) (cschema : Val) (m : Ref) (f : Key) (tup : Bool) (items : List Ref)
    (base : Nat) (s : HState) : M HState :=
  match hrec cctx cschema (s.h.alloc (.dict (indexEnts items))).1 (s.h.alloc (.dict (indexEnts items))).2 with
  | .ok (h1, res, cerrs) =>
    .ok { h := ((h1.alloc (.seq tup ((h1.ents res).map (·.2)))).1).setItem m f (h1.alloc (.seq tup ((h1.ents res).map (·.2)))).2,
          errs := s.errs ++ dropSpL base [2] cerrs }
  | .error .schemaRuleType => .ok s
  | .error x => .error x

def hDictKeys (recN : RecN) (ctx : Ctx) (own : Option Val) (m : Ref) (f : Key) (s : HState) : M HState :=
  match own.bind (·.dget? (kS "keysrules")) with
  | some c => hKeysrules recN ctx m f c s
  | none => .ok s

def hDictValues (hrec : HRecN) (ctx : Ctx) (own : Option Val) (m : Ref) (f : Key) (cur : Ref) (s : HState) : M HState :=
  match own.bind (·.dget? (kS "valuesrules")) with
  | some c =>
    hChildMapping hrec (ctx.child (.dict (mval s.h m)) {} (some f) [f, kS "valuesrules"])
      (.dict ((s.h.ents cur).map (fun kr => (kr.1, c)))) m f cur [2] ctx.schemaPath.length s
  | none => .ok s

def hDictSchema (env : Env) (hrec : HRecN) (ctx : Ctx) (own : Option Val) (m : Ref) (f : Key) (cur : Ref) (s : HState) :
    M HState :=
  let hasAny := match own with
    | some o => has o "allow_unknown" || has o "purge_unknown" || has o "schema"
    | none => false
  if hasAny || (auRules env ctx).isSome then
    let au : Option Val := (auRules env ctx).map Val.dict
    let rules : Val := match own with
      | some r => if r.truthy then r else au.getD r
      | none => au.getD (.dict [])
    hChildMapping hrec
      (ctx.child (.dict (mval s.h m))
        { allowUnknown := some (get rules "allow_unknown" ctx.cfg.allowUnknown)
          purgeUnknown := some (get rules "purge_unknown" ctx.cfg.purgeUnknown)
          requireAll := some (get rules "require_all" ctx.cfg.requireAll) } (some f) [f, kS "schema"])
      (get rules "schema" (.dict [])) m f cur [] ctx.schemaPath.length s
  else .ok s

def hDictField (env : Env) (recN : RecN) (hrec : HRecN) (ctx : Ctx) (own : Option Val) (m : Ref) (f : Key) (vref : Ref)
    (s : HState) : M HState :=
  match hDictKeys recN ctx own m f s with
  | .error e => .error e
  | .ok s1 =>
    match hDictValues hrec ctx own m f ((Heap.lookupRef (s1.h.ents m) f).getD vref) s1 with
    | .error e => .error e
    | .ok s2 =>
      hDictSchema env hrec ctx own m f
        ((Heap.lookupRef (s2.h.ents m) f).getD ((Heap.lookupRef (s1.h.ents m) f).getD vref)) s2

def hSeqField (env : Env) (hrec : HRecN) (ctx : Ctx) (own : Option Val) (m : Ref) (f : Key) (tup : Bool) (items : List Ref)
    (s : HState) : M HState :=
  match own with
  | some o =>
    match o.dget? (kS "schema") with
    | some c =>
      hChildSeq hrec (ctx.child (.dict (mval s.h m)) {} (some f) [f, kS "schema"])
        (.dict ((List.range items.length).map (fun i => (Key.i (Int.ofNat i), N.seqConstraint env c)))) m f tup items
        ctx.schemaPath.length s
    | none =>
      match o.dget? (kS "items") with
      | some its =>
        match its.pyLen? "__normalize_sequence_per_items", its.pyIter? "__normalize_sequence_per_items" with
        | .ok n, .ok defs =>
          if n != items.length then .ok s
          else hChildSeq hrec (ctx.child (.dict (mval s.h m)) {} (some f) [f, kS "items"])
                 (.dict (Val.enumDict defs)) m f tup items ctx.schemaPath.length s
        | _, _ => raisePy "TypeError" "__normalize_sequence_per_items"
      | none => .ok s
  | none => .ok s

def hContainerField (env : Env) (recN : RecN) (hrec : HRecN) (ctx : Ctx) (rs : RSchema) (m : Ref) (f : Key)
    (s : HState) : M HState :=
  match rulesOf rs f "__normalize_containers" with
  | .error e => .error e
  | .ok own =>
    match Heap.lookupRef (s.h.ents m) f with
    | none => .ok s
    | some vref =>
      match s.h.get vref with
      | .dict _ => hDictField env recN hrec ctx own m f vref s
      | .seq tup items => hSeqField env hrec ctx own m f tup items s
      | .leaf _ => .ok s

def hContainers (env : Env) (recN : RecN) (hrec : HRecN) (ctx : Ctx) (rs : RSchema) (m : Ref) :
    List Key → HState → M HState
  | [], s => .ok s
  | f :: r, s =>
    match hContainerField env recN hrec ctx rs m f s with
    | .error e => .error e
    | .ok s1 => hContainers env recN hrec ctx rs m r s1

/-- `_resolve_schema` at entry, with the `_SchemaRuleTypeError` of a list-type schema below `schema` -/
def hResolve (env : Env) (ctx : Ctx) (schema : Val) : M RSchema :=
  match env.resolveSchema schema with
  | some (.dict kvs) =>
    if (resolveAll env kvs).any (fun kv => kv.2.isNone) && ctx.isChild
        && kS "schema" == (ctx.schemaPath.getLast?.getD (.i 0)) then .error .schemaRuleType
    else .ok (resolveAll env kvs)
  | _ =>
    if schema.isStr && ctx.isChild && kS "schema" == (ctx.schemaPath.getLast?.getD (.i 0))
    then .error .schemaRuleType
    else raisePy "AttributeError" "__normalize_mapping"

/-- the two purge passes: deletions in `m` -/
def hPurges (ctx : Ctx) (rs : RSchema) (m : Ref) (h : Heap) : M Heap :=
  let h2 := if ctx.cfg.purgeUnknown.truthy && !ctx.cfg.allowUnknown.truthy
            then hPurge m (((h.ents m).map (·.1)).filter (fun k => (rlookup rs k).isNone)) h else h
  if ctx.cfg.purgeReadonly then
    match purgeReadonly rs (mval h2 m) with
    | .error e => .error e
    | .ok keep => .ok (hPurge m (((h2.ents m).map (·.1)).filter (fun k => !(Val.dhas keep k))) h2)
  else .ok h2

/-- the passes after `self.document = copy(document)`; `m` is that copy -/
def hPasses (env : Env) (recN : RecN) (hrec : HRecN) (ctx : Ctx) (schema : Val) (rs : RSchema) (m : Ref) (h0 : Heap) :
    M HState :=
  match hRenameFields env ctx schema rs m ((h0.ents m).map (·.1)) { h := h0 } with
  | .error e => .error e
  | .ok s1 =>
    match hPurges ctx rs m s1.h with
    | .error e => .error e
    | .ok h3 =>
      match readonlyCheck env ctx schema (mval h3 m) rs with
      | .error e => .error e
      | .ok ro =>
        match hDefaults env ctx schema rs m { h := h3, errs := s1.errs ++ ro } with
        | .error e => .error e
        | .ok s5 =>
          match hCoerce env ctx schema rs m ((s5.h.ents m).map (·.1)) s5 with
          | .error e => .error e
          | .ok s6 => hContainers env recN hrec ctx rs m ((s6.h.ents m).map (·.1)) s6

/-- `normalized(document)` of one validator instance on the heap -/
def hnormalizeMapping (env : Env) (recN : RecN) (hrec : HRecN) (ctx : Ctx) (schema : Val) (h : Heap) (doc : Ref) :
    M (Heap × Ref × List Err) :=
  match hResolve env ctx schema with
  | .error e => .error e
  | .ok rs =>
    -- `self.document = copy(document)`
    match hPasses env recN hrec ctx schema rs (h.copy doc).2 (h.copy doc).1 with
    | .error e => .error e
    | .ok s7 => .ok (s7.h, (h.copy doc).2, s7.errs)

end HN

/-- heap normalization with fuel; the functional `normalize` is used for what the keys pass computes -/
def hnormalize (env : Env) : Nat → HRecN
  | 0, _, _, _, _ => .error .fuel
  | n + 1, ctx, schema, h, doc =>
    HN.hnormalizeMapping env (normalize env n) (hnormalize env n) ctx schema h doc

end Cerberus
