/-
  Cerberus.Model.Normalize — the operational model ("Impl") of normalization:
  `__normalize_mapping` and its passes (validator.py:690-1005), in the order of
  the code: rename, purge unknown, purge readonly, readonly check, defaults and
  default setters, coercion, containers.

  Mappings are insertion-ordered association lists with Python's dict
  semantics (`dset` keeps the position of an existing key, appends a new one).
  Recursion is open (`recN` normalizes a child mapping).
-/
import Cerberus.Model.Validate
namespace Cerberus

/-- normalize `doc` against `schema` in a child context: (normalized mapping, errors of the child) -/
abbrev RecN := Ctx → (schema : Val) → (doc : List (Key × Val)) → M (List (Key × Val) × List Err)

namespace N
open V

/-- state of one `__normalize_mapping` call -/
structure NState where
  m : List (Key × Val)
  errs : List Err := []
  deriving Inhabited

/-- the schema with every field's rule set dereferenced; `none` = unresolvable -/
abbrev RSchema := List (Key × Option Val)

def resolveAll (env : Env) (skvs : List (Key × Val)) : RSchema :=
  skvs.map (fun kv => (kv.1, env.resolveRulesSet kv.2))

def rlookup : RSchema → Key → Option (Option Val)
  | [], _ => none
  | (k, v) :: r, q => if k = q then some v else rlookup r q

/-- `schema[field]` when `field in schema`; an unresolvable definition is `None`
    and the first `in` / `.get` on it raises -/
def rulesOf (rs : RSchema) (f : Key) (site : String) : M (Option Val) :=
  match rlookup rs f with
  | none => pure none
  | some (some r) => pure (some r)
  | some none => raisePy "TypeError" site

/-- `_resolve_allow_unknown`: the rules for unknown fields as a mapping (a reference resolved) -/
def auRules (env : Env) (ctx : Ctx) : Option (List (Key × Val)) :=
  match ctx.cfg.allowUnknown with
  | .dict au => some au
  | .str name => match env.rulesSets name with | some (.dict au) => some au | _ => none
  | _ => none

def has (r : Val) (rule : String) : Bool := (r.dget? (kS rule)).isSome
def get (r : Val) (rule : String) (d : Val) : Val := (r.dget? (kS rule)).getD d

/-- the rule set in force for `field` when an error is filed for it (after the
    repair of F6: an unknown field normalized by `allow_unknown` rules looks the
    constraint up there) -/
def errRules (env : Env) (ctx : Ctx) (schema : Val) (f : Key) : M Val := do
  match env.resolveSchema schema with
  | some (.dict kvs) =>
    match Val.dlookup kvs f with
    | some d =>
      match env.resolveRulesSet d with
      | some rs => pure rs
      | none => raisePy "AttributeError" "_error"
    | none =>
      match env.resolveRulesSet ctx.cfg.allowUnknown with
      | some rs => pure rs
      | none => raisePy "KeyError" "_error"
  | _ => raisePy "TypeError" "_error"

/-- `_error(field, definition, message)` during normalization -/
def mkNErr (env : Env) (ctx : Ctx) (schema : Val) (m : List (Key × Val)) (f : Key) (code : Nat)
    (rule : String) : M Err := do
  let rs ← errRules env ctx schema f
  match rs.dget? (kS rule) with
  | some c => pure (.mk (ctx.docPath ++ [f]) (ctx.schemaPath ++ [f, kS rule]) false code (some rule) c
                      ((Val.dlookup m f).getD .none) [] [])
  | none => raisePy "KeyError" "_error"

/-! ### coercion (`__normalize_coerce`) -/

/-- the callable behind a processor that is not a chain: a name (a method of the
    class, looked up before the `try`) or a callable -/
def procName (env : Env) : Val → M String
  | .str n => if env.hasCoercer n then .ok n else raisePy "RuntimeError" "__get_rule_handler"
  | .fn n => .ok n
  | _ => .ok "<not callable>"

/-- one processor that is not a chain -/
def coerceLeaf (env : Env) (ctx : Ctx) (schema : Val) (m : List (Key × Val)) (f : Key) (proc : Val)
    (value : Val) (nullable : Bool) (code : Nat) (rule : String) : M (Val × List Err) :=
  match procName env proc with
  | .error e => .error e
  | .ok name =>
    match env.coerce name value with
    | .ok v => .ok (v, [])
    | .error _ =>
      if nullable && value.isNone then .ok (value, [])
      else
        match mkNErr env ctx schema m f code rule with
        | .error e => .error e
        | .ok e => .ok (value, [e])

/-- a chain: stops after the member that left a COERCION_FAILED error at this field -/
def coerceChain (env : Env) (ctx : Ctx) (schema : Val) (m : List (Key × Val)) (f : Key)
    (nullable : Bool) (code : Nat) (rule : String) (sofar : List Err) :
    List Val → Val → List Err → M (Val × List Err)
  | [], v, acc => .ok (v, acc)
  | p :: ps, v, acc =>
    match coerceLeaf env ctx schema m f p v nullable code rule with
    | .error e => .error e
    | .ok (v', es) =>
      if hasErrAt (sofar ++ (acc ++ es)) (ctx.docPath ++ [f]) Code.COERCION_FAILED then .ok (v', acc ++ es)
      else coerceChain env ctx schema m f nullable code rule sofar ps v' (acc ++ es)

def coerce (env : Env) (ctx : Ctx) (schema : Val) (m : List (Key × Val)) (f : Key) (proc : Val)
    (value : Val) (nullable : Bool) (code : Nat) (rule : String) (sofar : List Err) : M (Val × List Err) :=
  match proc with
  | .seq _ ps => coerceChain env ctx schema m f nullable code rule sofar ps value []
  | _ => coerceLeaf env ctx schema m f proc value nullable code rule

/-! ### 1. rename -/

/-- `_normalize_rename` (after the repair: renaming a field to its own name keeps it) -/
def renameField (m : List (Key × Val)) (f : Key) (rules : Val) : M (List (Key × Val)) :=
  match rules.dget? (kS "rename") with
  | none => pure m
  | some target =>
    match target.toKey?, Val.dlookup m f with
    | some k, some v => pure (if k = f then m else Val.ddel (Val.dset m k v) f)
    | none, _ => .error (.oracle "rename target outside the key universe")
    | _, none => raisePy "KeyError" "_normalize_rename"

/-- `_normalize_rename_handler` (after the repair of F19: a field that `rename`
    already moved is left alone) -/
def renameHandler (env : Env) (ctx : Ctx) (schema : Val) (s : NState) (f : Key) (rules : Val) : M NState := do
  match rules.dget? (kS "rename_handler") with
  | none => pure s
  | some h =>
    if !(Val.dhas s.m f) then return s
    let (newName, es) ← coerce env ctx schema s.m f h f.toVal false Code.RENAMING_FAILED "rename_handler" s.errs
    let s1 := { s with errs := s.errs ++ es }
    if Val.pyEq newName f.toVal then pure s1
    else
      match newName.toKey?, Val.dlookup s1.m f with
      | some k, some v => pure { s1 with m := Val.ddel (Val.dset s1.m k v) f }
      | none, _ =>
        if newName.hashable then .error (.oracle "renamed key outside the key universe")
        else raisePy "TypeError" "_normalize_rename_handler"
      | _, none => raisePy "KeyError" "_normalize_rename_handler"

def renameFields (env : Env) (ctx : Ctx) (schema : Val) (rs : RSchema) : List Key → NState → M NState
  | [], s => pure s
  | f :: r, s => do
    let s1 ← match rlookup rs f with
      | some _ => do
        match ← rulesOf rs f "_normalize_rename" with
        | some rules => do
          let m1 ← renameField s.m f rules
          renameHandler env ctx schema { s with m := m1 } f rules
        | none => pure s
      | none =>
        match auRules env ctx with
        | some au => if Val.dhas au (kS "rename_handler") then renameHandler env ctx schema s f (.dict au) else pure s
        | none => pure s
    renameFields env ctx schema rs r s1

/-! ### 2.–4. purge unknown, purge readonly, readonly check -/

def purgeUnknown (rs : RSchema) (m : List (Key × Val)) : List (Key × Val) :=
  m.filter (fun kv => (rlookup rs kv.1).isSome)

def purgeReadonly (rs : RSchema) (m : List (Key × Val)) : M (List (Key × Val)) :=
  m.filterM (fun kv => do
    match rlookup rs kv.1 with
    | none => pure true
    | some none => raisePy "AttributeError" "__normalize_purge_readonly"
    | some (some r) => pure (!(get r "readonly" (.bool false)).truthy))

/-- `__validate_readonly_fields`: in schema order, present fields with a truthy `readonly` -/
def readonlyCheck (env : Env) (ctx : Ctx) (schema : Val) (m : List (Key × Val)) : RSchema → M (List Err)
  | [] => pure []
  | (f, r) :: rest => do
    let here ← if Val.dhas m f then
        match r with
        | none => raisePy "AttributeError" "__validate_readonly_fields"
        | some rules =>
          if (get rules "readonly" .none).truthy && !ctx.cfg.isNormalized then do
            let e ← mkNErr env ctx schema m f Code.READONLY_FIELD "readonly"
            pure [e]
          else pure []
      else pure []
    let more ← readonlyCheck env ctx schema m rest
    pure (here ++ more)

/-! ### 5. defaults and default setters -/

def emptyFields (m : List (Key × Val)) : RSchema → M (List (Key × Val))
  | [] => pure []
  | (f, r) :: rest => do
    let isEmpty ← match Val.dlookup m f with
      | none => pure true
      | some v =>
        if v.isNone then
          match r with
          | none => raisePy "AttributeError" "__normalize_default_fields"
          | some rules => pure (!(get rules "nullable" (.bool false)).truthy)
        else pure false
    let more ← emptyFields m rest
    if isEmpty then
      match r with
      | none => .error .schemaRuleType       -- `'default' in None` → TypeError → `_SchemaRuleTypeError`
      | some rules => pure ((f, rules) :: more)
    else pure more

/-- the setter's name; a missing method raises inside the `try`, i.e. behaves
    like a setter that raises -/
def setterName (env : Env) (rules : Val) : String :=
  match rules.dget? (kS "default_setter") with
  | some (.fn n) => n
  | some (.str n) => if env.hasSetter n then n else "<missing>"
  | _ => "<not callable>"

def defaults (env : Env) (ctx : Ctx) (schema : Val) (rs : RSchema) (s : NState) : M NState := do
  let empties ← emptyFields s.m rs
  let m1 := empties.foldl (fun m fr => match fr.2.dget? (kS "default") with
      | some d => Val.dset m fr.1 d
      | none => m) s.m
  let withSetter := empties.filter (fun fr => has fr.2 "default_setter")
  let names := withSetter.map (fun fr => (fr.1, setterName env fr.2))
  let setter : Key → List (Key × Val) → SetterResult := fun f mp =>
    match names.find? (fun p => p.1 == f) with
    | some (_, n) => env.setter n mp
    | none => .other "no setter"
  match Setters.resolve setter (withSetter.map (·.1)) m1 with
  | none => .error .fuel
  | some st => do
    let es ← st.failed.mapM (fun f => mkNErr env ctx schema st.mapping f Code.SETTING_DEFAULT_FAILED "default_setter")
    pure { m := st.mapping, errs := s.errs ++ es }

/-! ### 6. coercion (after the repair of F10: `allow_unknown`'s coercer is for unknown fields only) -/

def coerceFields (env : Env) (ctx : Ctx) (schema : Val) (rs : RSchema) : List Key → NState → M NState
  | [], s => pure s
  | f :: r, s => do
    let v := (Val.dlookup s.m f).getD .none
    let known := (rlookup rs f).isSome
    let own ← rulesOf rs f "_normalize_coerce"
    let s1 ← match own with
      | some rules =>
        match rules.dget? (kS "coerce") with
        | some proc => do
          let (v', es) ← coerce env ctx schema s.m f proc v (get rules "nullable" (.bool false)).truthy
                            Code.COERCION_FAILED "coerce" s.errs
          pure { m := Val.dset s.m f v', errs := s.errs ++ es }
        | none => pure s
      | none =>
        if known then pure s else
        match auRules env ctx with
        | some au =>
          match Val.dlookup au (kS "coerce") with
          | some proc => do
            let (v', es) ← coerce env ctx schema s.m f proc v
                              ((Val.dlookup au (kS "nullable")).getD (.bool false)).truthy
                              Code.COERCION_FAILED "coerce" s.errs
            pure { m := Val.dset s.m f v', errs := s.errs ++ es }
          | none => pure s
        | none => pure s
    coerceFields env ctx schema rs r s1

/-! ### 7. containers -/

/-- the child validator of `__normalize_mapping_per_keysrules`: the keys as a document
    `{k: k}`, normalized against `{k: keysrules}`; returns the normalized key document and
    the child's errors (index crumb removed) -/
def keysrulesChild (recN : RecN) (ctx : Ctx) (m : List (Key × Val)) (f : Key) (c : Val) (sub : List (Key × Val)) :
    M (List (Key × Val) × List Err) :=
  match recN (ctx.child (.dict m) {} (some f) [f, kS "keysrules"])
          (.dict ((Val.dkeys sub).map (fun k => (k, c)))) ((Val.dkeys sub).map (fun k => (k, k.toVal))) with
  | .ok (res, cerrs) => .ok (res, dropSpL ctx.schemaPath.length [2] cerrs)
  | .error e => .error e

/-- what `for k in result: …` decides for one key: `none` = the key stays; `some nk` = its value moves to `nk` -/
def keyMove (kv : Key × Val) : M (Option Key) :=
  if Val.pyEq kv.1.toVal kv.2 then .ok none
  else
    match kv.2.toKey? with
    | some nk => .ok (some nk)
    | none =>
      if kv.2.hashable then .error (.oracle "coerced key outside the key universe")
      else raisePy "TypeError" "__normalize_mapping_per_keysrules"

/-- one step of the loop on the (copied) nested mapping -/
def renameKeyStep (acc : List (Key × Val)) (kv : Key × Val) : M (List (Key × Val)) :=
  match keyMove kv with
  | .error e => .error e
  | .ok none => .ok acc
  | .ok (some nk) =>
    match Val.dlookup acc kv.1 with
    | none => raisePy "KeyError" "__normalize_mapping_per_keysrules"
    | some v =>
      if Val.dhas acc nk then .ok (Val.dset acc nk v)
      else .ok (Val.ddel (Val.dset acc nk v) kv.1)

def keysrulesPass (recN : RecN) (ctx : Ctx) (s : NState) (f : Key) (c : Val) (sub : List (Key × Val)) :
    M NState :=
  match keysrulesChild recN ctx s.m f c sub with
  | .error e => .error e
  | .ok (res, cerrs) =>
    -- `for k in result: …` on a copy of the nested mapping (after the repair of F12)
    match res.foldlM renameKeyStep sub with
    | .error e => .error e
    | .ok sub' => .ok { m := Val.dset s.m f (.dict sub'), errs := s.errs ++ cerrs }

def valuesrulesPass (recN : RecN) (ctx : Ctx) (s : NState) (f : Key) (c : Val) (sub : List (Key × Val)) :
    M NState := do
  let cctx := ctx.child (.dict s.m) {} (some f) [f, kS "valuesrules"]
  let (res, cerrs) ← recN cctx (.dict ((Val.dkeys sub).map (fun k => (k, c)))) sub
  pure { m := Val.dset s.m f (.dict res), errs := s.errs ++ dropSpL ctx.schemaPath.length [2] cerrs }

def mappingSchemaPass (env : Env) (recN : RecN) (ctx : Ctx) (s : NState) (f : Key) (own : Option Val)
    (sub : List (Key × Val)) : M NState := do
  let au : Option Val := (auRules env ctx).map Val.dict
  let rules : Val := match own with
    | some r => if r.truthy then r else au.getD r
    | none => au.getD (.dict [])
  let cctx := ctx.child (.dict s.m)
    { allowUnknown := some (get rules "allow_unknown" ctx.cfg.allowUnknown)
      purgeUnknown := some (get rules "purge_unknown" ctx.cfg.purgeUnknown)
      requireAll := some (get rules "require_all" ctx.cfg.requireAll) }
    (some f) [f, kS "schema"]
  match recN cctx (get rules "schema" (.dict [])) sub with
  | .ok (res, cerrs) => pure { m := Val.dset s.m f (.dict res), errs := s.errs ++ cerrs }
  | .error .schemaRuleType => pure s      -- `except _SchemaRuleTypeError: pass`
  | .error x => .error x

/-- the `schema` constraint handed to the items of a sequence: a schema for mappings given by
    reference is replaced by its definition, like the same schema written inline (after the repair of F33) -/
def seqConstraint (env : Env) (c : Val) : Val :=
  match c with
  | .str name =>
    -- a name that is (also) a rules set is left to the child validator, as in validation
    match env.rulesSets name with
    | some _ => c
    | none => match env.schemas name with | some d => d | none => c
  | _ => c

def seqPass (recN : RecN) (ctx : Ctx) (s : NState) (f : Key) (tup : Bool) (rule : String)
    (cschema : List (Key × Val)) (xs : List Val) : M NState :=
  match recN (ctx.child (.dict s.m) {} (some f) [f, kS rule]) (.dict cschema) (Val.enumDict xs) with
  | .ok (res, cerrs) =>
    .ok { m := Val.dset s.m f (.seq tup (res.map (·.2))),
          errs := s.errs ++ dropSpL ctx.schemaPath.length [2] cerrs }
  | .error .schemaRuleType => .ok s        -- `except _SchemaRuleTypeError: pass` (after the repair of F30)
  | .error x => .error x

def containers (env : Env) (recN : RecN) (ctx : Ctx) (rs : RSchema) : List Key → NState → M NState
  | [], s => pure s
  | f :: r, s => do
    let v := (Val.dlookup s.m f).getD .none
    let own ← rulesOf rs f "__normalize_containers"
    let s1 ← match v with
      | .dict sub => do
        let s1 ← match own.bind (·.dget? (kS "keysrules")) with
          | some c => keysrulesPass recN ctx s f c sub
          | none => pure s
        let sub1 := match Val.dlookup s1.m f with | some (.dict x) => x | _ => sub
        let s2 ← match own.bind (·.dget? (kS "valuesrules")) with
          | some c => valuesrulesPass recN ctx s1 f c sub1
          | none => pure s1
        let sub2 := match Val.dlookup s2.m f with | some (.dict x) => x | _ => sub1
        let hasAny := match own with
          | some o => has o "allow_unknown" || has o "purge_unknown" || has o "schema"
          | none => false
        if hasAny || (auRules env ctx).isSome then mappingSchemaPass env recN ctx s2 f own sub2
        else pure s2
      | .seq tup xs =>
        match own with
        | some o =>
          match o.dget? (kS "schema") with
          | some c =>
            seqPass recN ctx s f tup "schema"
              ((List.range xs.length).map (fun i => (Key.i (Int.ofNat i), seqConstraint env c))) xs
          | none =>
            match o.dget? (kS "items") with
            | some items => do
              let n ← liftPy (items.pyLen? "__normalize_sequence_per_items")
              if n != xs.length then pure s
              else do
                let defs ← liftPy (items.pyIter? "__normalize_sequence_per_items")
                seqPass recN ctx s f tup "items" (Val.enumDict defs) xs
            | none => pure s
        | none => pure s
      | _ => pure s
    containers env recN ctx rs r s1

/-- `__normalize_mapping(mapping, schema)` for one validator instance -/
def normalizeMapping (env : Env) (recN : RecN) (ctx : Ctx) (schema : Val) (doc : List (Key × Val)) :
    M (List (Key × Val) × List Err) := do
  let skvs ← match env.resolveSchema schema with
    | some (.dict kvs) => pure kvs
    | _ =>
      -- a name that is not in the schema registry: in a child below a `schema` rule this is a
      -- rules set for sequence items applied to a mapping (after the repair of F30)
      if schema.isStr && ctx.isChild && V.kS "schema" == (ctx.schemaPath.getLast?.getD (.i 0))
      then .error .schemaRuleType
      else raisePy "AttributeError" "__normalize_mapping"
  let rs := resolveAll env skvs
  -- after the repair of F8: an unresolvable rule set in a child below a `schema` rule
  if rs.any (fun kv => kv.2.isNone) && ctx.isChild
      && V.kS "schema" == (ctx.schemaPath.getLast?.getD (.i 0)) then
    .error .schemaRuleType
  let s0 : NState := { m := doc }
  let s1 ← renameFields env ctx schema rs (Val.dkeys doc) s0
  let s2 := if ctx.cfg.purgeUnknown.truthy && !ctx.cfg.allowUnknown.truthy
            then { s1 with m := purgeUnknown rs s1.m } else s1
  let s3 ← if ctx.cfg.purgeReadonly then do pure { s2 with m := ← purgeReadonly rs s2.m } else pure s2
  let ro ← readonlyCheck env ctx schema s3.m rs
  let s4 := { s3 with errs := s3.errs ++ ro }
  let s5 ← defaults env ctx schema rs s4
  let s6 ← coerceFields env ctx schema rs (Val.dkeys s5.m) s5
  let s7 ← containers env recN ctx rs (Val.dkeys s6.m) s6
  pure (s7.m, s7.errs)

end N

/-- `normalized(doc, always_return_document=True)` → (document, `_errors`) -/
def normalize (env : Env) : Nat → RecN
  | 0, _, _, _ => .error .fuel
  | n + 1, ctx, schema, doc => N.normalizeMapping env (normalize env n) ctx schema doc

/-- `validate(doc, update=upd, normalize=True)` on an instance whose error list is
    `pre` and whose `_unrequired_by_excludes` is `unreq0` after `__init_processing`:
    normalization, then validation of the normalized document on the same instance
    (`_is_normalized` set) -/
def validateNS (env : Env) (t : Tables) (fuel : Nat) (ctx : Ctx) (schema : Val) (doc : List (Key × Val))
    (upd : Bool) (pre : List Err) (unreq0 : List Key) : M (List (Key × Val) × List Err) := do
  let (m, nerrs) ← normalize env fuel ctx schema doc
  let ctx' := { ctx with cfg := { ctx.cfg with isNormalized := true } }
  match fuel with
  | 0 => .error .fuel
  | f + 1 =>
    let errs ← V.validateMapping env t (validate0 env t f) ctx' schema (.dict m) upd (pre ++ nerrs) unreq0
    pure (m, errs)

def validateN (env : Env) (t : Tables) (fuel : Nat) (ctx : Ctx) (schema : Val) (doc : List (Key × Val))
    (upd : Bool) : M (List (Key × Val) × List Err) :=
  validateNS env t fuel ctx schema doc upd [] []

end Cerberus
