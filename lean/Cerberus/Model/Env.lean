/-
  Cerberus.Model.Env — what the model treats as "user supplied" or external:
  regular expressions, callables, registries.  Theorems quantify over every
  `Env`; the driver instantiates it from the case file (`Env.ofFamily`).
-/
import Cerberus.Model.Error
import Cerberus.Model.Setters
import Cerberus.Model.Tables
namespace Cerberus

/-- exceptions of the model: Python exceptions (type, site), the internal
    `_SchemaRuleTypeError`, fuel exhaustion, and a missing oracle answer
    (a harness fault, never a verdict) -/
inductive Exc where
  | py (type site : String)
  | schemaRuleType
  | fuel
  | oracle (what : String)
  deriving Repr, Inhabited, DecidableEq

abbrev M := Except Exc

def liftPy {α} (x : Except PyExc α) : M α :=
  match x with
  | .ok a => .ok a
  | .error e => .error (.py e.type e.site)

def raisePy {α} (type site : String) : M α := .error (.py type site)

structure Env where
  /-- `re.match(pattern + '$' unless it ends with '$', value)`; `none` = not in the oracle table -/
  rx : String → String → Option Bool
  /-- coercers / rename handlers by name (callable or named method): `error msg` = raised -/
  coerce : String → Val → Except String Val
  /-- is `name` a coercer method of the validator class (`_normalize_coerce_<name>`)? -/
  hasCoercer : String → Bool
  /-- default setters by name -/
  setter : String → List (Key × Val) → SetterResult
  hasSetter : String → Bool
  /-- check_with functions / methods by name: the custom error messages they file -/
  checker : String → Val → Option (List String)
  /-- validation rules added by a subclass (`_validate_<rule>(constraint, field, value)`):
      the custom error messages they file; `none` = the class has no such rule -/
  customRule : String → Val → Val → Option (List String) := fun _ _ _ => none
  /-- `rules_set_registry.get` -/
  rulesSets : String → Option Val
  /-- `schema_registry.get` -/
  schemas : String → Option Val

namespace Env

/-- `_resolve_rules_set` -/
def resolveRulesSet (env : Env) : Val → Option Val
  | .dict kvs => some (.dict kvs)
  | .str name => env.rulesSets name
  | _ => none

/-- `_resolve_schema` -/
def resolveSchema (env : Env) : Val → Option Val
  | .dict kvs => some (.dict kvs)
  | .str name => env.schemas name
  | _ => none

end Env

/-! ### the fixed callable family (twin of harness/families.py) -/
namespace Family

def isDigits (cs : List Char) : Bool := !cs.isEmpty && cs.all (fun c => '0' ≤ c && c ≤ '9')

def parseNat (cs : List Char) : Nat := cs.foldl (fun acc c => acc * 10 + (c.toNat - '0'.toNat)) 0

/-- `re.fullmatch(r'-?[0-9]+', s)` then `int(s)` -/
def parseInt? (s : String) : Option Int :=
  match s.toList with
  | '-' :: r => if isDigits r then some (-(Int.ofNat (parseNat r))) else none
  | cs => if isDigits cs then some (Int.ofNat (parseNat cs)) else none

def coerce (name : String) (v : Val) : Except String Val :=
  match name with
  | "c_int" => match v with
      | .int n => .ok (.int n)
      | .str s => match parseInt? s with | some n => .ok (.int n) | none => .error "not int-like"
      | .bool _ => .error "bool is not int-like"
      | _ => .error "not int-like"
  | "c_str" => match v with
      | .int n => .ok (.str (toString n))
      | .str s => .ok (.str s)
      | _ => .error "not str-like"
  | "c_inc" => match v with
      | .int n => .ok (.int (n + 1))
      | _ => .error "not an int"
  | "c_key" => match v with
      | .str s => .ok (.str (s ++ "_k"))
      | .int n => .ok (.int (n + 100))
      | _ => .error "not a key"
  | "c_wrap" => .ok (.seq false [v])
  | "c_none" => .ok .none
  | "c_id" => .ok v
  | "c_raise" => .error "c_raise always fails"
  | _ => .error "unknown coercer"

def coercerNames : List String :=
  ["c_int", "c_str", "c_inc", "c_key", "c_wrap", "c_none", "c_id", "c_raise"]

def isOdd : Val → Bool
  | .int n => n % 2 == 1
  | _ => false

def checker (name : String) (v : Val) : Option (List String) :=
  match name with
  | "k_odd" => some (if isOdd v then [] else ["Must be an odd number"])
  | "k_fail" => some ["always fails"]
  | "k_pass" => some []
  | "k_two" => some ["first", "second"]
  | _ => none

end Family
end Cerberus
