/-
  Cerberus.Model.Validate — the operational model ("Impl") of validation
  without normalization: `validate(document, update=…, normalize=False)`.

  It mirrors the mechanisms of validator.py: the rule queue built from the
  priority/mandatory lists with drop lists, child validators with the keyword
  overrides of each call site, path crumbs and their removal when child errors
  bubble up, the required-fields pass with `_unrequired_by_excludes`.

  Recursion is open: every function takes `rec`, the validation of a child
  document; `validate0` ties the knot with a fuel parameter (registry
  references make schemas cyclic, so there is no structural measure).
-/
import Cerberus.Model.Env
namespace Cerberus

/-- the validator configuration (`_config`) as far as processing reads it -/
structure Cfg where
  allowUnknown : Val := .bool false
  requireAll : Val := .bool false
  ignoreNone : Bool := false
  purgeUnknown : Val := .bool false
  purgeReadonly : Bool := false
  isNormalized : Bool := false
  deriving Repr, Inhabited

/-- a validator instance's context -/
structure Ctx where
  cfg : Cfg
  docPath : List Key := []
  schemaPath : List Key := []
  /-- `root_document` (meaningful when `isChild`) -/
  root : Val := .none
  isChild : Bool := false
  deriving Repr, Inhabited

/-- keyword overrides of `_get_child_validator` -/
structure Overrides where
  allowUnknown : Option Val := none
  requireAll : Option Val := none
  purgeUnknown : Option Val := none
  deriving Repr, Inhabited

namespace Ctx
/-- `_get_child_validator(document_crumb, schema_crumb, **kwargs)`; `doc` is the
    parent's `self.document`, captured as root document by the first generation -/
def child (ctx : Ctx) (doc : Val) (ov : Overrides) (docCrumb : Option Key) (schemaCrumb : List Key) : Ctx :=
  { cfg := { ctx.cfg with
               allowUnknown := ov.allowUnknown.getD ctx.cfg.allowUnknown
               requireAll := ov.requireAll.getD ctx.cfg.requireAll
               purgeUnknown := ov.purgeUnknown.getD ctx.cfg.purgeUnknown }
    docPath := match docCrumb with | some k => ctx.docPath ++ [k] | none => ctx.docPath
    schemaPath := ctx.schemaPath ++ schemaCrumb
    root := if ctx.isChild then ctx.root else doc
    isChild := true }
end Ctx

/-- the type of the recursive call: validate `doc` against `schema` in a child context -/
abbrev Rec := Ctx → (schema : Val) → (doc : Val) → (update : Bool) → M (List Err)

/-- an error as a rule handler describes it; `_error` (`V.mkErr`) turns it into a
    `ValidationError` by adding paths, constraint and value -/
structure ESpec where
  code : Nat
  /-- `none` for custom errors (`_error(field, message)`) -/
  rule : Option String
  info : List Val := []
  kids : List Err := []
  deriving Inhabited

/-- what a rule handler tells the queue -/
structure HOut where
  errs : List ESpec := []
  /-- `_drop_remaining_rules(*rules)` -/
  drop : List String := []
  /-- `_drop_remaining_rules()` without arguments, a truthy return value, or `_SchemaRuleTypeError` -/
  dropAll : Bool := false
  /-- additions to `_unrequired_by_excludes` -/
  unreq : List Key := []
  deriving Inhabited

namespace V

def kS (s : String) : Key := .s s

/-- the rule set of `field` in this validator's schema: `_resolve_rules_set(_resolve_schema(self.schema)[field])` -/
def fieldRules (env : Env) (schema : Val) (field : Key) (site : String) : M Val := do
  match env.resolveSchema schema with
  | some (.dict kvs) =>
    match Val.dlookup kvs field with
    | some d =>
      match env.resolveRulesSet d with
      | some rs => pure rs
      | none => raisePy "AttributeError" site
    | none => raisePy "KeyError" site
  | _ => raisePy "TypeError" site

/-- `_error(field, definition, *info)` -/
def mkErr (env : Env) (ctx : Ctx) (schema doc : Val) (field : Key) (code : Nat)
    (rule : Option String) (info : List Val) (kids : List Err) : M Err := do
  let dp := ctx.docPath ++ [field]
  let value := (doc.dget? field).getD .none
  match rule with
  | none => pure (.mk dp ctx.schemaPath false code none .none value info kids)
  | some r =>
    let sp := if code == Code.UNKNOWN_FIELD then ctx.schemaPath else ctx.schemaPath ++ [field, kS r]
    let rs ← fieldRules env schema field "_error"
    if r == "nullable" then
      pure (.mk dp sp false code rule ((rs.dget? (kS r)).getD (.bool false)) value info kids)
    else if r == "required" then
      match rs.dget? (kS r) with
      | some c => pure (.mk dp sp false code rule c value info kids)
      | none =>
        pure (.mk dp ("__require_all__".toList.map (fun c => Key.s (String.singleton c))) true code rule
                ctx.cfg.requireAll value info kids)
    else
      match rs.dget? (kS r) with
      | some c => pure (.mk dp sp false code rule c value info kids)
      | none => raisePy "KeyError" "_error"

/-- `_error(field, message)`: a custom error -/
def customSpec (msg : String) : ESpec := { code := Code.CUSTOM, rule := none, info := [.str msg] }

/-- `_error` for every error a handler describes -/
def buildErrs (env : Env) (ctx : Ctx) (schema doc : Val) (f : Key) : List ESpec → M (List Err)
  | [] => pure []
  | sp :: r => do
    let e ← mkErr env ctx schema doc f sp.code sp.rule sp.info sp.kids
    let es ← buildErrs env ctx schema doc f r
    pure (e :: es)

/-! ### `_lookup_field` (after the repair of F5: a non-mapping context means "not found") -/

def lookupParts : List String → Val → Option Val
  | [], ctx => some ctx
  | p :: ps, ctx =>
    match ctx with
    | .dict kvs =>
      match Val.dlookup kvs (.s p) with
      | some v => lookupParts ps v
      | none => none
    | _ => none

/-- returns the found value, `none` for `(None, None)`.  A leading `^` makes the
    path relative to the root document, `^^` stands for a literal `^`. -/
def lookupField (ctx : Ctx) (doc : Val) (path : String) : Option Val :=
  match path.toList with
  | '^' :: '^' :: rest => lookupParts ((String.ofList ('^' :: rest)).splitOn ".") doc
  | '^' :: rest => lookupParts ((String.ofList rest).splitOn ".") (if ctx.isChild then ctx.root else doc)
  | _ => lookupParts (path.splitOn ".") doc

/-! ### rule handlers -/

def hNullable (env : Env) (t : Tables) (ctx : Ctx) (schema doc : Val) (f : Key) (c : Option Val) (v : Val) :
    M HOut := do
  if v.isNone then
    let nullable := (c.getD .none).truthy
    let errs ← if nullable then pure [] else do
      let e := ({ code := Code.NOT_NULLABLE, rule := some "nullable", info := [], kids := [] } : ESpec)
      pure [e]
    pure { errs, drop := t.dropOnNone }
  else pure {}

def hReadonly (env : Env) (ctx : Ctx) (schema doc : Val) (f : Key) (c v : Val) (sofar : List Err) : M HOut := do
  let _ := v
  if c.truthy then
    let errs ← if !ctx.cfg.isNormalized then do
        let e := ({ code := Code.READONLY_FIELD, rule := some "readonly", info := [], kids := [] } : ESpec)
        pure [e]
      else pure []
    -- the error just filed (if any) is found at this path too
    let hasError := !errs.isEmpty || hasErrAt sofar (ctx.docPath ++ [f]) Code.READONLY_FIELD
    pure { errs, dropAll := ctx.cfg.isNormalized && hasError }
  else pure {}

def typeNames (c : Val) : M (List Val) :=
  match c with
  | .str _ => pure [c]
  | .seq _ xs => pure xs
  | .dict kvs => pure (kvs.map (fun kv => kv.1.toVal))
  | _ => raisePy "TypeError" "_validate_type"

def matchesAny (t : Tables) (v : Val) : List Val → M Bool
  | [] => pure false
  | n :: ns =>
    match n with
    | .str name =>
      match t.typeMatches name v with
      | some true => pure true
      | some false => matchesAny t v ns
      | none => raisePy "RuntimeError" "__get_rule_handler"
    | _ => raisePy "TypeError" "_validate_type"

def hType (env : Env) (t : Tables) (ctx : Ctx) (schema doc : Val) (f : Key) (c v : Val) : M HOut := do
  if !c.truthy then return {}
  let names ← typeNames c
  if ← matchesAny t v names then pure {}
  else
    let e := ({ code := Code.BAD_TYPE, rule := some "type", info := [], kids := [] } : ESpec)
    pure { errs := [e], dropAll := t.typeFailDropsAll }

def hEmpty (env : Env) (t : Tables) (ctx : Ctx) (schema doc : Val) (f : Key) (c v : Val) : M HOut := do
  if v.isSized then
    let n ← liftPy (v.pyLen? "_validate_empty")
    if n == 0 then
      let errs ← if !c.truthy then do
          let e := ({ code := Code.EMPTY_NOT_ALLOWED, rule := some "empty", info := [], kids := [] } : ESpec)
          pure [e]
        else pure []
      return { errs, drop := t.dropOnEmpty }
  pure {}

/-- `x in allowed_values`, a `TypeError` (unhashable value against a hashed
    container, non-string against a string) counting as "not a member" (after
    the repair of F2) -/
def isAllowed (c x : Val) : Bool :=
  match Val.pyIn? "_validate_allowed" c x with
  | .ok b => b
  | .error _ => false

def hAllowed (env : Env) (ctx : Ctx) (schema doc : Val) (f : Key) (c v : Val) : M (List ESpec) := do
  if v.isIterable && !v.isStr then
    let xs ← liftPy (v.pyIter? "_validate_allowed")
    let un := xs.filter (fun x => !isAllowed c x)
    if un.isEmpty then pure []
    else
      let e := ({ code := Code.UNALLOWED_VALUES, rule := some "allowed", info := [.seq true un], kids := [] } : ESpec)
      pure [e]
  else
    if isAllowed c v then pure []
    else
      let e := ({ code := Code.UNALLOWED_VALUE, rule := some "allowed", info := [v], kids := [] } : ESpec)
      pure [e]

def filterIn (site : String) (c : Val) : List Val → M (List Val)
  | [] => pure []
  | x :: xs => do
    let isIn ← liftPy (Val.pyIn? site c x)
    let r ← filterIn site c xs
    pure (if isIn then x :: r else r)

/-- after the repair of F3: `[x for x in value if x in forbidden_values]` -/
def hForbidden (env : Env) (ctx : Ctx) (schema doc : Val) (f : Key) (c v : Val) : M (List ESpec) := do
  if v.isSeqNotStr then
    let xs ← liftPy (v.pyIter? "_validate_forbidden")
    let fb ← filterIn "_validate_forbidden" c xs
    if fb.isEmpty then pure []
    else
      let e := ({ code := Code.FORBIDDEN_VALUES, rule := some "forbidden", info := [.seq false fb], kids := [] } : ESpec)
      pure [e]
  else
    let isIn ← liftPy (Val.pyIn? "_validate_forbidden" c v)
    if isIn then
      let e := ({ code := Code.FORBIDDEN_VALUE, rule := some "forbidden", info := [v], kids := [] } : ESpec)
      pure [e]
    else pure []

/-- after the repair of F4: members of the expected set that equal no member of the value -/
def hContains (env : Env) (ctx : Ctx) (schema doc : Val) (f : Key) (c v : Val) : M (List ESpec) := do
  if !v.isIterable then return []
  let expected ←
    if !c.isIterable || c.isStr then pure [c]
    else do
      let xs ← liftPy (c.pyIter? "_validate_contains")
      liftPy (Val.pySet? "_validate_contains" xs)
  let have_ ← liftPy (v.pyIter? "_validate_contains")
  let missing := expected.filter (fun x => !(have_.any (fun y => Val.pyEq x y)))
  if missing.isEmpty then pure []
  else
    let e := ({ code := Code.MISSING_MEMBERS, rule := some "contains", info := [.seq false missing], kids := [] } : ESpec)
    pure [e]

def hMin (env : Env) (ctx : Ctx) (schema doc : Val) (f : Key) (c v : Val) : M (List ESpec) := do
  match Val.pyLt? v c with
  | some true =>
    let e := ({ code := Code.MIN_VALUE, rule := some "min", info := [], kids := [] } : ESpec)
    pure [e]
  | _ => pure []

def hMax (env : Env) (ctx : Ctx) (schema doc : Val) (f : Key) (c v : Val) : M (List ESpec) := do
  match Val.pyLt? c v with
  | some true =>
    let e := ({ code := Code.MAX_VALUE, rule := some "max", info := [], kids := [] } : ESpec)
    pure [e]
  | _ => pure []

def hLength (env : Env) (ctx : Ctx) (schema doc : Val) (f : Key) (c v : Val) (isMin : Bool) : M (List ESpec) :=
  let _ := (env, ctx, schema, doc, f)
  if !v.isIterable then .ok []
  else
    match v.pyLen? "_validate_length" with
    | .error x => .error (.py x.type x.site)
    | .ok n =>
      match c.num? with
      | none => raisePy "TypeError" "_validate_length"
      | some cn =>
        if isMin then
          (if Val.numLt (Int.ofNat n, 0) cn
           then .ok [{ code := Code.MIN_LENGTH, rule := some "minlength", info := [.int n] }] else .ok [])
        else
          (if Val.numLt cn (Int.ofNat n, 0)
           then .ok [{ code := Code.MAX_LENGTH, rule := some "maxlength", info := [.int n] }] else .ok [])

def hRegex (env : Env) (ctx : Ctx) (schema doc : Val) (f : Key) (c v : Val) : M (List ESpec) := do
  match v, c with
  | .str s, .str pat =>
    match env.rx pat s with
    | none => .error (.oracle ("rx\t" ++ pat ++ "\t" ++ s))
    | some true => pure []
    | some false =>
      let e := ({ code := Code.REGEX_MISMATCH, rule := some "regex", info := [], kids := [] } : ESpec)
      pure [e]
  | .str _, _ => raisePy "AttributeError" "_validate_regex"
  | _, _ => pure []

def depName (site : String) : Val → M String
  | .str s => pure s
  | _ => raisePy "AttributeError" site

def depsSequence (ctx : Ctx) (doc : Val) : List Val → M (List ESpec)
  | [] => pure []
  | d :: ds => do
    let name ← depName "_lookup_field" d
    let here : List ESpec := match lookupField ctx doc name with
      | some _ => []
      | none => [{ code := Code.DEPENDENCIES_FIELD, rule := some "dependencies", info := [d] }]
    let rest ← depsSequence ctx doc ds
    pure (here ++ rest)

/-- returns the `error_info` entries of dependencies that are not satisfied -/
def depsMapping (ctx : Ctx) (doc : Val) : List (Key × Val) → M (List (Key × Val))
  | [] => pure []
  | (k, vals) :: r => do
    let name ← match k with
      | .s s => pure s
      | .i _ => raisePy "AttributeError" "_lookup_field"
    let allowed := if !vals.isSequence || vals.isStr then [vals] else
      match vals with | .seq _ xs => xs | _ => []
    -- `(None, None)` when not found: the wanted value is then `None`
    let wanted := (lookupField ctx doc name).getD .none
    let rest ← depsMapping ctx doc r
    pure (if allowed.any (fun a => Val.pyEq wanted a) then rest else (k, wanted) :: rest)

def hDependencies (env : Env) (ctx : Ctx) (schema doc : Val) (f : Key) (c v : Val) : M (List ESpec) :=
  let _ := (env, schema, f, v)
  match (if c.isStr || !(c.isIterable || c.isMapping) then Val.seq true [c] else c) with
  | .seq _ xs => depsSequence ctx doc xs
  | .dict kvs =>
    match depsMapping ctx doc kvs with
    | .error e => .error e
    | .ok bad =>
      if bad.isEmpty then .ok []
      else .ok [{ code := Code.DEPENDENCIES_FIELD_VALUE, rule := some "dependencies", info := [.dict bad] }]
  | _ => .ok []

def keyIn (kvs : List (Key × Val)) (x : Val) : Bool :=
  match x.toKey? with
  | some k => Val.dhas kvs k
  | none => false

/-- after the repair of F7: the field's rule set is resolved before `.get('required', …)` -/
def hExcludes (env : Env) (ctx : Ctx) (schema doc : Val) (f : Key) (c v : Val) : M HOut := do
  let _ := v
  let excluded := if c.isHashableABC then [c] else match c with | .seq _ xs => xs | _ => []
  let rs ← fieldRules env schema f "_validate_excludes"
  let req := ((rs.dget? (kS "required")).getD ctx.cfg.requireAll).truthy
  let skvs := match env.resolveSchema schema with | some (.dict kvs) => kvs | _ => []
  let dkvs := match doc with | .dict kvs => kvs | _ => []
  let un1 := if req then [f] else []
  let un2 := if req then excluded.filterMap (fun x => if keyIn skvs x then x.toKey? else none) else []
  if excluded.any (fun x => keyIn dkvs x) then
    let e := ({ code := Code.EXCLUDES_FIELD, rule := some "excludes", info := [], kids := [] } : ESpec)
    pure { errs := [e], unreq := un1 ++ un2 }
  else pure { unreq := un1 ++ un2 }

/-- after the repair of F1: a value that is not sized/iterable is skipped -/
def hItems (env : Env) (rec : Rec) (ctx : Ctx) (schema doc : Val) (f : Key) (c v : Val) (upd : Bool) :
    M (List ESpec) := do
  if !(v.isSized && v.isIterable) then return []
  let n ← liftPy (c.pyLen? "_validate_items")
  let m ← liftPy (v.pyLen? "_validate_items")
  if n != m then
    let e := ({ code := Code.ITEMS_LENGTH, rule := some "items", info := [.int n, .int m], kids := [] } : ESpec)
    pure [e]
  else
    let defs ← liftPy (c.pyIter? "_validate_items")
    let vals ← liftPy (v.pyIter? "_validate_items")
    let cctx := ctx.child doc {} (some f) [f, kS "items"]
    let cerrs ← rec cctx (.dict (Val.enumDict defs)) (.dict (Val.enumDict vals)) upd
    if cerrs.isEmpty then pure []
    else
      let e := ({ code := Code.BAD_ITEMS, rule := some "items", info := [], kids := cerrs } : ESpec)
      pure [e]

/-- the constraint is the name of a rules set and of no schema -/
def rulesSetName (env : Env) (c : Val) : Bool :=
  match c with
  | .str name => (env.schemas name).isNone && (env.rulesSets name).isSome
  | _ => false

def hSchema (env : Env) (rec : Rec) (ctx : Ctx) (schema doc : Val) (f : Key) (c v : Val) (upd : Bool) :
    M HOut := do
  if c.isNone then return {}
  match v with
  | .seq _ xs =>
    let cschema := Val.dict ((List.range xs.length).map (fun i => (Key.i (Int.ofNat i), c)))
    let cctx := ctx.child doc { allowUnknown := some ctx.cfg.allowUnknown } (some f) [f, kS "schema"]
    let cerrs ← rec cctx cschema (.dict (Val.enumDict xs)) upd
    if cerrs.isEmpty then pure {}
    else
      let kids := dropSpL ctx.schemaPath.length [2] cerrs
      let e := ({ code := Code.SEQUENCE_SCHEMA, rule := some "schema", info := [], kids := kids } : ESpec)
      pure { errs := [e] }
  | .dict _ =>
    let rs ← fieldRules env schema f "__validate_schema_mapping"
    -- a name of a rules set (for the items of a sequence) met by a mapping: reported like the rules set inline
    -- (after the repair of F40)
    if rulesSetName env c then
      let e := ({ code := Code.BAD_TYPE_FOR_SCHEMA, rule := some "schema", info := [], kids := [] } : ESpec)
      pure { errs := [e], dropAll := true }
    else do
    let cschema ← match env.resolveSchema c with
      | some s => pure s
      | none => raisePy "SchemaError" "__init_processing"
    let cctx := ctx.child doc
      { allowUnknown := some ((rs.dget? (kS "allow_unknown")).getD ctx.cfg.allowUnknown)
        requireAll := some ((rs.dget? (kS "require_all")).getD ctx.cfg.requireAll) }
      (some f) [f, kS "schema"]
    match rec cctx cschema v upd with
    | .ok cerrs =>
      if cerrs.isEmpty then pure {}
      else
        let e := ({ code := Code.MAPPING_SCHEMA, rule := some "schema", info := [], kids := cerrs } : ESpec)
        pure { errs := [e] }
    | .error .schemaRuleType =>
      -- `_SchemaRuleTypeError`: BAD_TYPE_FOR_SCHEMA is filed, the exception ends the rule loop
      let e := ({ code := Code.BAD_TYPE_FOR_SCHEMA, rule := some "schema", info := [], kids := [] } : ESpec)
      pure { errs := [e], dropAll := true }
    | .error x => .error x
  | _ => pure {}

def hKeysrules (env : Env) (rec : Rec) (ctx : Ctx) (schema doc : Val) (f : Key) (c v : Val) : M (List ESpec) := do
  match v with
  | .dict kvs =>
    let keys := Val.dkeys kvs
    let cctx := ctx.child doc {} (some f) [f, kS "keysrules"]
    let cerrs ← rec cctx (.dict (keys.map (fun k => (k, c)))) (.dict (keys.map (fun k => (k, k.toVal)))) false
    if cerrs.isEmpty then pure []
    else
      let kids := dropSpL ctx.schemaPath.length [2] cerrs
      let e := ({ code := Code.KEYSRULES, rule := some "keysrules", info := [], kids := kids } : ESpec)
      pure [e]
  | _ => pure []

def hValuesrules (env : Env) (rec : Rec) (ctx : Ctx) (schema doc : Val) (f : Key) (c v : Val) (upd : Bool) :
    M (List ESpec) := do
  match v with
  | .dict kvs =>
    let cctx := ctx.child doc {} (some f) [f, kS "valuesrules"]
    let cerrs ← rec cctx (.dict ((Val.dkeys kvs).map (fun k => (k, c)))) v upd
    if cerrs.isEmpty then pure []
    else
      let kids := dropSpL ctx.schemaPath.length [2] cerrs
      let e := ({ code := Code.VALUESRULES, rule := some "valuesrules", info := [], kids := kids } : ESpec)
      pure [e]
  | _ => pure []

/-- a definition with the field's `type` / `allow_unknown` inherited where it has
    none of its own, and the validator's `allow_unknown` as the last resort
    (`__validate_logical`, after the repair that resolves the field's rule set first) -/
def inheritRule (rs : Val) (kvs : List (Key × Val)) (rule : String) : List (Key × Val) :=
  if Val.dhas kvs (kS rule) then kvs
  else match rs.dget? (kS rule) with
    | some x => Val.dset kvs (kS rule) x
    | none => kvs

def defRules (ctx : Ctx) (rs : Val) (dkvs : List (Key × Val)) : List (Key × Val) :=
  let d1 := inheritRule rs (inheritRule rs dkvs "allow_unknown") "type"
  if Val.dhas d1 (kS "allow_unknown") then d1 else Val.dset d1 (kS "allow_unknown") ctx.cfg.allowUnknown

/-- the child validation of definition number `i`: the *whole* current document
    against `{field: definition}` with validator-level `allow_unknown=True` -/
def defChild (rec : Rec) (ctx : Ctx) (doc : Val) (f : Key) (op : String) (upd : Bool) (rs : Val)
    (i : Nat) (d : Val) : M (List Err) :=
  match d with
  | .dict dkvs =>
    rec (ctx.child doc { allowUnknown := some (.bool true) } none [f, kS op, Key.i (Int.ofNat i)])
        (.dict [(f, .dict (defRules ctx rs dkvs))]) doc upd
  | _ => raisePy "AttributeError" "__validate_logical"

/-- `__validate_logical`: (number of definitions that validate, child errors of the others) -/
def logicalDefs (rec : Rec) (ctx : Ctx) (doc : Val) (f : Key) (op : String)
    (upd : Bool) (rs : Val) : Nat → List Val → M (Nat × List Err)
  | _, [] => .ok (0, [])
  | i, d :: ds =>
    match defChild rec ctx doc f op upd rs i d with
    | .error e => .error e
    | .ok cerrs =>
      match logicalDefs rec ctx doc f op upd rs (i + 1) ds with
      | .error e => .error e
      | .ok (n, es) =>
        if cerrs.isEmpty then .ok (n + 1, es)
        else .ok (n, dropSpL ctx.schemaPath.length [3] cerrs ++ es)

/-- the threshold of each operator -/
def logicalFails (op : String) (valids n : Nat) : Bool :=
  match op with
  | "anyof" => decide (valids < 1)
  | "allof" => decide (valids < n)
  | "noneof" => decide (valids > 0)
  | _ => valids != 1

def hLogical (env : Env) (rec : Rec) (ctx : Ctx) (schema doc : Val) (f : Key) (op : String) (code : Nat)
    (c v : Val) (upd : Bool) : M (List ESpec) :=
  let _ := v
  match c.pyIter? "__validate_logical" with
  | .error x => .error (.py x.type x.site)
  | .ok defs =>
    match fieldRules env schema f "__validate_logical" with
    | .error e => .error e
    | .ok rs =>
      match logicalDefs rec ctx doc f op upd rs 0 defs with
      | .error e => .error e
      | .ok (valids, errs) =>
        if logicalFails op valids defs.length then
          .ok [{ code := code, rule := some op, info := [.int valids, .int defs.length], kids := errs }]
        else .ok []

def checkOne (env : Env) (v : Val) : Val → M (List ESpec)
  | .str name | .fn name =>
    match env.checker name v with
    | some msgs => pure (msgs.map customSpec)
    | none => raisePy "RuntimeError" "__get_rule_handler"
  | _ => raisePy "TypeError" "_validate_check_with"

def checkAll (env : Env) (v : Val) : List Val → M (List ESpec)
  | [] => pure []
  | c :: cs => do
    let a ← checkOne env v c
    let b ← checkAll env v cs
    pure (a ++ b)

def hCheckWith (env : Env) (c v : Val) : M (List ESpec) := do
  match c with
  | .seq _ xs => checkAll env v xs
  | _ => checkOne env v c

/-- a handler that only files errors: nothing is dropped, the evaluation goes on -/
def errsOnly (x : M (List ESpec)) : M HOut :=
  match x with
  | .ok es => .ok { errs := es }
  | .error e => .error e

/-- dispatch of `validate_rule(rule)`; `sofar` = errors this validator has recorded so far -/
def handler (env : Env) (t : Tables) (rec : Rec) (ctx : Ctx) (schema doc : Val) (upd : Bool)
    (f : Key) (defs : Val) (v : Val) (sofar : List Err) (rule : String) : M HOut :=
  let c := (defs.dget? (kS rule)).getD .none
  match rule with
  | "nullable" => hNullable env t ctx schema doc f (defs.dget? (kS rule)) v
  | "readonly" => hReadonly env ctx schema doc f c v sofar
  | "type" => hType env t ctx schema doc f c v
  | "empty" => hEmpty env t ctx schema doc f c v
  | "allowed" => errsOnly (hAllowed env ctx schema doc f c v)
  | "forbidden" => errsOnly (hForbidden env ctx schema doc f c v)
  | "contains" => errsOnly (hContains env ctx schema doc f c v)
  | "min" => errsOnly (hMin env ctx schema doc f c v)
  | "max" => errsOnly (hMax env ctx schema doc f c v)
  | "minlength" => errsOnly (hLength env ctx schema doc f c v true)
  | "maxlength" => errsOnly (hLength env ctx schema doc f c v false)
  | "regex" => errsOnly (hRegex env ctx schema doc f c v)
  | "dependencies" => errsOnly (hDependencies env ctx schema doc f c v)
  | "excludes" => hExcludes env ctx schema doc f c v
  | "items" => errsOnly (hItems env rec ctx schema doc f c v upd)
  | "schema" => hSchema env rec ctx schema doc f c v upd
  | "keysrules" => errsOnly (hKeysrules env rec ctx schema doc f c v)
  | "valuesrules" => errsOnly (hValuesrules env rec ctx schema doc f c v upd)
  | "anyof" => errsOnly (hLogical env rec ctx schema doc f "anyof" Code.ANYOF c v upd)
  | "allof" => errsOnly (hLogical env rec ctx schema doc f "allof" Code.ALLOF c v upd)
  | "noneof" => errsOnly (hLogical env rec ctx schema doc f "noneof" Code.NONEOF c v upd)
  | "oneof" => errsOnly (hLogical env rec ctx schema doc f "oneof" Code.ONEOF c v upd)
  | "check_with" => errsOnly (hCheckWith env c v)
  | _ =>
    match env.customRule rule c v with
    | some msgs => .ok { errs := msgs.map customSpec }
    | none => raisePy "RuntimeError" "__get_rule_handler"

/-! ### the rule queue -/

/-- `rules_queue` of `__validate_definitions` -/
def buildQueue (t : Tables) (defKeys : List String) : List String :=
  let q1 := t.priority.filter (fun x => defKeys.contains x || t.mandatory.contains x)
  let q2 := q1 ++ t.mandatory.filter (fun x => !q1.contains x)
  q2 ++ (defKeys.filter (fun x => !q2.contains x && !t.nonQueue.contains x)).eraseDups

/-- state of the loop over one field's queue -/
structure QState where
  errs : List Err          -- errors of this validator so far
  dropped : List String := []
  stopped : Bool := false
  unreq : List Key := []

/-- the `while self._remaining_rules` loop.  The queue holds each rule once, so
    removing dropped rules from the remaining queue is the same as skipping them
    when their turn comes. -/
def runQueue (h : List Err → String → M (HOut × List Err)) : List String → QState → M QState
  | [], s => .ok s
  | r :: rs, s =>
    if s.stopped || s.dropped.contains r then runQueue h rs s
    else
      match h s.errs r with
      | .error e => .error e
      | .ok (o, es) =>
        runQueue h rs { errs := s.errs ++ es, dropped := s.dropped ++ o.drop,
                        stopped := o.dropAll, unreq := s.unreq ++ o.unreq }

def ruleNames (defs : Val) : M (List String) :=
  match defs with
  | .dict kvs => pure (kvs.filterMap (fun kv => match kv.1 with | .s x => some x | .i _ => none))
  | _ => raisePy "TypeError" "__validate_definitions"

/-- one step of the queue: the handler's verdict and the errors it files -/
def runRule (env : Env) (t : Tables) (rec : Rec) (ctx : Ctx) (schema doc : Val) (upd : Bool)
    (f : Key) (defs v : Val) (sofar : List Err) (rule : String) : M (HOut × List Err) :=
  match handler env t rec ctx schema doc upd f defs v sofar rule with
  | .error e => .error e
  | .ok o =>
    match buildErrs env ctx schema doc f o.errs with
    | .error e => .error e
    | .ok es => .ok (o, es)

/-- `__validate_definitions(definitions, field)` -/
def validateDefinitions (env : Env) (t : Tables) (rec : Rec) (ctx : Ctx) (schema doc : Val) (upd : Bool)
    (f : Key) (definitions : Val) (v : Val) (s : QState) : M QState :=
  match env.resolveRulesSet definitions with
  | none =>
    -- not a rule set: below a `schema` rule this is a sequence-item rules set met by a
    -- mapping (`_SchemaRuleTypeError`, after the repair of F8b); elsewhere `x in None`
    if ctx.isChild && kS "schema" == (ctx.schemaPath.getLast?.getD (.i 0)) then .error .schemaRuleType
    else raisePy "TypeError" "__validate_definitions"
  | some defs =>
    match ruleNames defs with
    | .error e => .error e
    | .ok names =>
      runQueue (runRule env t rec ctx schema doc upd f defs v) (buildQueue t names)
        { s with dropped := [], stopped := false }

/-- `__validate_unknown_fields(field)` -/
def validateUnknown (rec : Rec) (ctx : Ctx) (doc : Val) (f : Key) (v : Val) : M (List Err) := do
  let au := ctx.cfg.allowUnknown
  if au.truthy then
    if au.isMapping || au.isStr then
      let crumb := if ctx.isChild then "allow_unknown" else "__allow_unknown__"
      let cctx := ctx.child doc {} none [kS crumb]
      rec cctx (.dict [(f, au)]) (.dict [(f, v)]) false
    else pure []
  else
    pure [.mk (ctx.docPath ++ [f]) ctx.schemaPath false Code.UNKNOWN_FIELD none .none v [] []]

/-- one iteration of `for field in self.document` -/
def validateField (env : Env) (t : Tables) (rec : Rec) (ctx : Ctx) (schema : Val)
    (skvs : List (Key × Val)) (doc : Val) (upd : Bool) (f : Key) (v : Val) (s : QState) : M QState :=
  if ctx.cfg.ignoreNone && v.isNone then .ok s
  else
    match Val.dlookup skvs f with
    | some definitions =>
      if definitions.isNone then
        match validateUnknown rec ctx doc f v with
        | .error e => .error e
        | .ok es => .ok { s with errs := s.errs ++ es }
      else validateDefinitions env t rec ctx schema doc upd f definitions v s
    | none =>
      match validateUnknown rec ctx doc f v with
      | .error e => .error e
      | .ok es => .ok { s with errs := s.errs ++ es }

/-- the loop over the document's fields -/
def validateFields (env : Env) (t : Tables) (rec : Rec) (ctx : Ctx) (schema : Val)
    (skvs : List (Key × Val)) (doc : Val) (upd : Bool) : List (Key × Val) → QState → M QState
  | [], s => .ok s
  | (f, v) :: r, s =>
    match validateField env t rec ctx schema skvs doc upd f v s with
    | .error e => .error e
    | .ok s1 => validateFields env t rec ctx schema skvs doc upd r s1

/-- is `required` (or `require_all`) literally `True` for this definition? -/
def isRequired (env : Env) (ctx : Ctx) (definition : Val) : M Bool :=
  match env.resolveRulesSet definition with
  | some rs =>
    match (rs.dget? (kS "required")).getD ctx.cfg.requireAll with
    | .bool true => pure true
    | _ => pure false
  | none =>
    -- `None.get` → AttributeError; a child below a `schema` rule turns it into `_SchemaRuleTypeError`
    if ctx.isChild && V.kS "schema" == (ctx.schemaPath.getLast?.getD (.i 0)) then .error .schemaRuleType
    else raisePy "AttributeError" "__validate_required_fields"

def requiredOf (env : Env) (ctx : Ctx) : List (Key × Val) → M (List Key)
  | [] => pure []
  | (f, d) :: r => do
    let b ← isRequired env ctx d
    let rest ← requiredOf env ctx r
    pure (if b then f :: rest else rest)

/-- `__validate_required_fields(document)` -/
def validateRequired (env : Env) (ctx : Ctx) (schema : Val) (skvs : List (Key × Val)) (doc : Val)
    (dkvs : List (Key × Val)) (unreq : List Key) : M (List Err) := do
  let required ← requiredOf env ctx skvs
  let required := required.filter (fun f => !unreq.contains f)
  let present := dkvs.filterMap (fun kv => if !kv.2.isNone || !ctx.cfg.ignoreNone then some kv.1 else none)
  let missing := (required.filter (fun f => !present.contains f)).eraseDups
  let e1 ← missing.mapM (fun f => mkErr env ctx schema doc f Code.REQUIRED_FIELD (some "required") [] [])
  let unreqD := unreq.eraseDups
  let e2 ← if unreqD.isEmpty then pure [] else do
    let nonNull := dkvs.filterMap (fun kv => if !kv.2.isNone then some kv.1 else none)
    if unreqD.all (fun f => !nonNull.contains f) then
      (unreqD.filter (fun f => !nonNull.contains f)).mapM
        (fun f => mkErr env ctx schema doc f Code.REQUIRED_FIELD (some "required") [] [])
    else pure []
  pure (e1 ++ e2)

/-- one validator instance validating one mapping (`validate(doc, update, normalize=False)`
    after `__init_processing`); `pre` = the instance's error list at that point (the errors
    of normalization when it ran on this instance), `unreq0` = its `_unrequired_by_excludes` -/
def validateResolved (env : Env) (t : Tables) (rec : Rec) (ctx : Ctx) (skvs : List (Key × Val))
    (doc : Val) (dkvs : List (Key × Val)) (upd : Bool) (pre : List Err) (unreq0 : List Key) : M (List Err) :=
  match validateFields env t rec ctx (.dict skvs) skvs doc upd dkvs { errs := pre, unreq := unreq0 } with
  | .error e => .error e
  | .ok s =>
    if upd then .ok s.errs
    else
      match validateRequired env ctx (.dict skvs) skvs doc dkvs s.unreq with
      | .error e => .error e
      | .ok req => .ok (s.errs ++ req)

/-- the schema as every use site sees it: the field mapping (a name is looked up
    in the schema registry) with every field's rule set dereferenced (a name is
    looked up in the rules-set registry; what cannot be resolved stays as it is) -/
def resolvedFields (env : Env) (schema : Val) : Option (List (Key × Val)) :=
  match env.resolveSchema schema with
  | some (.dict skvs) => some (skvs.map (fun kv => (kv.1, (env.resolveRulesSet kv.2).getD kv.2)))
  | _ => none

def validateMapping (env : Env) (t : Tables) (rec : Rec) (ctx : Ctx) (schema doc : Val) (upd : Bool)
    (pre : List Err) (unreq0 : List Key) : M (List Err) :=
  match doc with
  | .dict dkvs =>
    match resolvedFields env schema with
    | some skvs => validateResolved env t rec ctx skvs doc dkvs upd pre unreq0
    | none => raisePy "SchemaError" "__init_processing"
  | _ => raisePy "DocumentError" "__init_processing"

end V

/-- `Validator(schema, **cfg).validate(doc, update=upd, normalize=False)` → `_errors` -/
def validate0 (env : Env) (t : Tables) : Nat → Rec
  | 0, _, _, _, _ => .error .fuel
  | n + 1, ctx, schema, doc, upd => V.validateMapping env t (validate0 env t n) ctx schema doc upd [] []

end Cerberus
