/-
  Cerberus.Model.RefTables — the *documented* tables (docs/validation-rules.rst,
  docs/usage.rst and the class attributes documented in the API reference),
  written down once by hand.  `Extracted.tables` (regenerated from the live code on
  every run) is compared with them by the table obligations of Props/C01.lean;
  the C01 port runs the reference interpreter with these tables, so that a change
  of a table in the code shows up as a difference between code and reference.
-/
import Cerberus.Model.Tables
namespace Cerberus

def refTypeTable : List (String × List (Val.Ctor × Bool)) := [
  ("binary", [(Val.Ctor.none, false), (Val.Ctor.bool, false), (Val.Ctor.int, false), (Val.Ctor.flt, false), (Val.Ctor.str, false), (Val.Ctor.list, false), (Val.Ctor.tuple, false), (Val.Ctor.dict, false), (Val.Ctor.fn, false)]),
  ("boolean", [(Val.Ctor.none, false), (Val.Ctor.bool, true), (Val.Ctor.int, false), (Val.Ctor.flt, false), (Val.Ctor.str, false), (Val.Ctor.list, false), (Val.Ctor.tuple, false), (Val.Ctor.dict, false), (Val.Ctor.fn, false)]),
  ("container", [(Val.Ctor.none, false), (Val.Ctor.bool, false), (Val.Ctor.int, false), (Val.Ctor.flt, false), (Val.Ctor.str, false), (Val.Ctor.list, true), (Val.Ctor.tuple, true), (Val.Ctor.dict, true), (Val.Ctor.fn, false)]),
  ("date", [(Val.Ctor.none, false), (Val.Ctor.bool, false), (Val.Ctor.int, false), (Val.Ctor.flt, false), (Val.Ctor.str, false), (Val.Ctor.list, false), (Val.Ctor.tuple, false), (Val.Ctor.dict, false), (Val.Ctor.fn, false)]),
  ("datetime", [(Val.Ctor.none, false), (Val.Ctor.bool, false), (Val.Ctor.int, false), (Val.Ctor.flt, false), (Val.Ctor.str, false), (Val.Ctor.list, false), (Val.Ctor.tuple, false), (Val.Ctor.dict, false), (Val.Ctor.fn, false)]),
  ("dict", [(Val.Ctor.none, false), (Val.Ctor.bool, false), (Val.Ctor.int, false), (Val.Ctor.flt, false), (Val.Ctor.str, false), (Val.Ctor.list, false), (Val.Ctor.tuple, false), (Val.Ctor.dict, true), (Val.Ctor.fn, false)]),
  ("float", [(Val.Ctor.none, false), (Val.Ctor.bool, true), (Val.Ctor.int, true), (Val.Ctor.flt, true), (Val.Ctor.str, false), (Val.Ctor.list, false), (Val.Ctor.tuple, false), (Val.Ctor.dict, false), (Val.Ctor.fn, false)]),
  ("integer", [(Val.Ctor.none, false), (Val.Ctor.bool, true), (Val.Ctor.int, true), (Val.Ctor.flt, false), (Val.Ctor.str, false), (Val.Ctor.list, false), (Val.Ctor.tuple, false), (Val.Ctor.dict, false), (Val.Ctor.fn, false)]),
  ("list", [(Val.Ctor.none, false), (Val.Ctor.bool, false), (Val.Ctor.int, false), (Val.Ctor.flt, false), (Val.Ctor.str, false), (Val.Ctor.list, true), (Val.Ctor.tuple, true), (Val.Ctor.dict, false), (Val.Ctor.fn, false)]),
  ("number", [(Val.Ctor.none, false), (Val.Ctor.bool, false), (Val.Ctor.int, true), (Val.Ctor.flt, true), (Val.Ctor.str, false), (Val.Ctor.list, false), (Val.Ctor.tuple, false), (Val.Ctor.dict, false), (Val.Ctor.fn, false)]),
  ("set", [(Val.Ctor.none, false), (Val.Ctor.bool, false), (Val.Ctor.int, false), (Val.Ctor.flt, false), (Val.Ctor.str, false), (Val.Ctor.list, false), (Val.Ctor.tuple, false), (Val.Ctor.dict, false), (Val.Ctor.fn, false)]),
  ("string", [(Val.Ctor.none, false), (Val.Ctor.bool, false), (Val.Ctor.int, false), (Val.Ctor.flt, false), (Val.Ctor.str, true), (Val.Ctor.list, false), (Val.Ctor.tuple, false), (Val.Ctor.dict, false), (Val.Ctor.fn, false)])]

def refTables : Tables := {
  priority := ["nullable", "readonly", "type", "empty"]
  mandatory := ["nullable"]
  nonQueue := ["allow_unknown", "coerce", "default", "default_setter", "meta", "purge_unknown", "rename",
               "rename_handler", "require_all", "required"]
  dropOnNone := ["allof", "allowed", "anyof", "empty", "forbidden", "items", "keysrules", "max", "maxlength", "min",
                 "minlength", "noneof", "oneof", "regex", "schema", "type", "valuesrules"]
  dropOnEmpty := ["allowed", "check_with", "forbidden", "items", "maxlength", "minlength", "regex"]
  typeFailDropsAll := true
  typeTable := refTypeTable
  messageCodes := [0, 1, 2, 3, 4, 5, 6, 33, 34, 35, 36, 37, 38, 39, 40, 65, 66, 67, 68, 69, 70, 71, 72, 97, 98, 99, 100, 129, 130, 131, 132, 133, 145, 146, 147, 148]
  normalizationRules := ["coerce", "default", "default_setter", "purge_unknown", "rename", "rename_handler"] }

end Cerberus
