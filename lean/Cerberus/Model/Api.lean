/-
  Cerberus.Model.Api — one validator instance as a state machine over the public
  calls `validate`, `validated`, `normalized` and the `errors` property
  (validator.py:627-647, 666-688, 1009-1063, 469-475).

  The state holds *everything* the instance keeps between calls (schema,
  configuration incl. the `_is_normalized` marker, `update`,
  `_unrequired_by_excludes`, error list, processed document); every operation
  takes the whole state as input, as the code does.  The error trees and the
  handler's tree are functions of the error list (theorems C11, C13) and are
  therefore not stored.
-/
import Cerberus.Model.Normalize
import Cerberus.Model.Render
namespace Cerberus

structure VState where
  /-- `validator.schema` (accepted, expanded) -/
  schema : Option Val
  cfg : Cfg
  update : Bool := false
  unrequired : List Key := []
  errors : List Err := []
  document : Option Val := none
  deriving Inhabited

/-- the part of the state the outcome of a call may depend on: schema and public configuration -/
structure Pub where
  schema : Option Val
  allowUnknown : Val
  requireAll : Val
  ignoreNone : Bool
  purgeUnknown : Val
  purgeReadonly : Bool

def VState.pub (s : VState) : Pub :=
  { schema := s.schema, allowUnknown := s.cfg.allowUnknown, requireAll := s.cfg.requireAll,
    ignoreNone := s.cfg.ignoreNone, purgeUnknown := s.cfg.purgeUnknown, purgeReadonly := s.cfg.purgeReadonly }

/-- a fresh instance with the given schema and public configuration -/
def VState.fresh (p : Pub) : VState :=
  { schema := p.schema,
    cfg := { allowUnknown := p.allowUnknown, requireAll := p.requireAll, ignoreNone := p.ignoreNone,
             purgeUnknown := p.purgeUnknown, purgeReadonly := p.purgeReadonly, isNormalized := false } }

inductive Op where
  | validate (doc : Val) (schema : Option Val) (update normalize : Bool)
  | validated (doc : Val) (schema : Option Val) (update normalize always : Bool)
  | normalized (doc : Val) (schema : Option Val) (always : Bool)
  | readErrors
  deriving Inhabited

inductive Ret where
  | bool (b : Bool)
  | doc (d : Option Val)          -- `None` or the processed document
  | rendered (t : PT)
  | raised (e : Exc)
  deriving Inhabited

/-- what a caller can observe after an operation: the return value (or the
    exception), the recorded errors and the processed document -/
structure Obs where
  ret : Ret
  errors : List Err
  document : Option Val

namespace Api

/-- first half of `__init_processing`: the per-call state is reset and the document stored -/
def reset (s : VState) (doc : Val) : VState :=
  { s with errors := [], document := some doc, cfg := { s.cfg with isNormalized := false } }

/-- second half: the schema argument.  `accept` stands for `DefinitionSchema(self, schema)`:
    `none` = `SchemaError` -/
def resolveSchemaArg (accept : Val → Option Val) (s1 : VState) (schema : Option Val) : Except Exc VState :=
  match schema with
  | some sch =>
    match accept sch with
    | some a => .ok { s1 with schema := some a }
    | none => .error (.py "SchemaError" "DefinitionSchema")
  | none =>
    match s1.schema with
    | some _ => .ok s1
    | none =>
      -- rules for unknown fields, inline or by reference, make up for a missing schema (after the repair of F38)
      if s1.cfg.allowUnknown.isMapping || s1.cfg.allowUnknown.isStr then .ok { s1 with schema := some (.dict []) }
      else .error (.py "SchemaError" "__init_processing")

/-- last: `None` and non-mappings are rejected -/
def checkDoc (doc : Val) (s2 : VState) : Except Exc VState :=
  match doc with
  | .dict _ => .ok s2
  | _ => .error (.py "DocumentError" "__init_processing")

/-- `__init_processing(document, schema)` -/
def initProcessing (accept : Val → Option Val) (s : VState) (doc : Val) (schema : Option Val) :
    Except Exc VState :=
  match resolveSchemaArg accept (reset s doc) schema with
  | .ok s2 => checkDoc doc s2
  | .error e => .error e

/-- state after an exception escaped from `__init_processing` (what the code
    had already assigned before raising) -/
def afterInitError (accept : Val → Option Val) (s : VState) (doc : Val) (schema : Option Val) : VState :=
  match resolveSchemaArg accept (reset s doc) schema with
  | .ok s2 => s2
  | .error _ => reset s doc

def docKvs : Val → List (Key × Val)
  | .dict kvs => kvs
  | _ => []

/-- `validate(document, schema, update, normalize)` -/
def doValidate (env : Env) (t : Tables) (accept : Val → Option Val) (fuel : Nat) (s : VState)
    (doc : Val) (schema : Option Val) (upd norm : Bool) : VState × Except Exc Bool :=
  let s0 : VState := { s with update := upd, unrequired := [] }
  match initProcessing accept s0 doc schema with
  | .error e => (afterInitError accept s0 doc schema, .error e)
  | .ok s1 =>
    let ctx : Ctx := { cfg := s1.cfg }
    let sch := s1.schema.getD (.dict [])
    let r : M (List (Key × Val) × List Err) :=
      if norm then validateNS env t fuel ctx sch (docKvs doc) upd s1.errors s1.unrequired
      else
        match fuel with
        | 0 => .error .fuel
        | f + 1 => do
          let es ← V.validateMapping env t (validate0 env t f) ctx sch doc upd s1.errors s1.unrequired
          pure (docKvs doc, es)
    match r with
    | .ok (m, es) =>
      ({ s1 with errors := es, document := some (.dict m),
                 cfg := { s1.cfg with isNormalized := norm } }, .ok es.isEmpty)
    | .error e => (s1, .error e)

/-- `normalized(document, schema, always_return_document)` -/
def doNormalized (env : Env) (accept : Val → Option Val) (fuel : Nat) (s : VState)
    (doc : Val) (schema : Option Val) : VState × Except Exc Unit :=
  match initProcessing accept s doc schema with
  | .error e => (afterInitError accept s doc schema, .error e)
  | .ok s1 =>
    let ctx : Ctx := { cfg := s1.cfg }
    match normalize env fuel ctx (s1.schema.getD (.dict [])) (docKvs doc) with
    | .ok (m, es) =>
      ({ s1 with errors := es, document := some (.dict m), cfg := { s1.cfg with isNormalized := true } }, .ok ())
    | .error e => (s1, .error e)

def obsOf (s : VState) (r : Ret) : Obs := { ret := r, errors := s.errors, document := s.document }

def step (env : Env) (t : Tables) (accept : Val → Option Val) (fuel : Nat) (s : VState) : Op → VState × Obs
  | .validate doc schema upd norm =>
    match doValidate env t accept fuel s doc schema upd norm with
    | (s', .ok b) => (s', obsOf s' (.bool b))
    | (s', .error e) => (s', obsOf s' (.raised e))
  | .validated doc schema upd norm always =>
    match doValidate env t accept fuel s doc schema upd norm with
    | (s', .ok b) => (s', obsOf s' (.doc (if !b && !always then none else s'.document)))
    | (s', .error e) => (s', obsOf s' (.raised e))
  | .normalized doc schema always =>
    match doNormalized env accept fuel s doc schema with
    | (s', .ok ()) => (s', obsOf s' (.doc (if !s'.errors.isEmpty && !always then none else s'.document)))
    | (s', .error e) => (s', obsOf s' (.raised e))
  | .readErrors =>
    match Render.render (fun c => t.messageCodes.contains c) s.errors PT.empty with
    | .ok tr => (s, obsOf s (.rendered tr))
    | .error x => (s, obsOf s (.raised (.py x.type x.site)))

def run (env : Env) (t : Tables) (accept : Val → Option Val) (fuel : Nat) (s : VState) : List Op → VState
  | [] => s
  | op :: ops => run env t accept fuel (step env t accept fuel s op).1 ops

end Api
end Cerberus
