/-
  Cerberus.Model.Value — the value universe shared by documents and schemas,
  and the Python primitives the validator relies on.

  Every *partial* Python operation (`len`, `in` on hashed containers, `set()`,
  iteration, `<`) returns `Except PyExc _` and is never totalised with a default:
  a theorem can therefore not hold "because `len 5 = 0`".

  Core Lean only (no Mathlib) so that the driver can be compiled.
-/
namespace Cerberus

/-- Dictionary keys / path elements: Python `str` or `int`. -/
inductive Key where
  | s (x : String)
  | i (n : Int)
  deriving DecidableEq, Repr, Inhabited

instance : BEq Key := ⟨fun a b => decide (a = b)⟩

instance : LawfulBEq Key where
  eq_of_beq h := of_decide_eq_true h
  rfl := decide_eq_true rfl

/-- JSON-like Python values plus opaque callables occurring in schemas.
    `flt m e` is the finite float `m / 2^e` (exact, as Python compares int and
    float exactly); `seq true` is a tuple, `seq false` a list; `dict` is
    insertion ordered. -/
inductive Val where
  | none
  | bool (b : Bool)
  | int (n : Int)
  | flt (m : Int) (e : Nat)
  | str (s : String)
  | seq (tup : Bool) (xs : List Val)
  | dict (kvs : List (Key × Val))
  | fn (name : String)
  deriving Repr, Inhabited

/-- Exceptions a Python primitive can raise: (type name, innermost site). -/
structure PyExc where
  type : String
  site : String
  deriving DecidableEq, Repr, Inhabited

namespace Key
def toVal : Key → Val
  | .s x => .str x
  | .i n => .int n

def render : Key → String
  | .s x => x
  | .i n => toString n
end Key

namespace Val

/-! ### constructor classes and ABC membership -/

/-- The constructor class of a value, used to index the extracted type table. -/
inductive Ctor where
  | none | bool | int | flt | str | list | tuple | dict | fn
  deriving DecidableEq, Repr, Inhabited

def ctor : Val → Ctor
  | .none => .none | .bool _ => .bool | .int _ => .int | .flt _ _ => .flt
  | .str _ => .str | .seq false _ => .list | .seq true _ => .tuple
  | .dict _ => .dict | .fn _ => .fn

def Ctor.name : Ctor → String
  | .none => "none" | .bool => "bool" | .int => "int" | .flt => "flt" | .str => "str"
  | .list => "list" | .tuple => "tuple" | .dict => "dict" | .fn => "fn"

def isNone : Val → Bool | .none => true | _ => false
def isStr : Val → Bool | .str _ => true | _ => false
def isMapping : Val → Bool | .dict _ => true | _ => false
/-- `collections.abc.Sequence`: list, tuple, str. -/
def isSequence : Val → Bool | .seq _ _ => true | .str _ => true | _ => false
/-- list or tuple, i.e. `Sequence` and not `str`. -/
def isSeqNotStr : Val → Bool | .seq _ _ => true | _ => false
def isIterable : Val → Bool | .seq _ _ => true | .str _ => true | .dict _ => true | _ => false
def isSized : Val → Bool := isIterable
def isContainer : Val → Bool := isIterable
def isCallable : Val → Bool | .fn _ => true | _ => false
/-- `isinstance(x, Hashable)`: the *type* defines `__hash__` (a tuple of lists qualifies). -/
def isHashableABC : Val → Bool
  | .seq false _ => false | .dict _ => false | _ => true

/-- Python truthiness. -/
def truthy : Val → Bool
  | .none => false
  | .bool b => b
  | .int n => n != 0
  | .flt m _ => m != 0
  | .str s => s != ""
  | .seq _ xs => !xs.isEmpty
  | .dict kvs => !kvs.isEmpty
  | .fn _ => true

/-! ### numbers -/

/-- Numeric view `(m, e)` meaning `m / 2^e`; `bool` is an `int` in Python. -/
def num? : Val → Option (Int × Nat)
  | .bool b => some (if b then 1 else 0, 0)
  | .int n => some (n, 0)
  | .flt m e => some (m, e)
  | _ => Option.none

def numEq (a b : Int × Nat) : Bool := a.1 * (2 : Int) ^ b.2 == b.1 * (2 : Int) ^ a.2
def numLt (a b : Int × Nat) : Bool := a.1 * (2 : Int) ^ b.2 < b.1 * (2 : Int) ^ a.2

/-! ### equality (`==`) -/

def dlookup : List (Key × Val) → Key → Option Val
  | [], _ => Option.none
  | (k, v) :: r, q => if k = q then some v else dlookup r q

mutual
/-- Python `==` on the modelled values. -/
def pyEq : Val → Val → Bool
  | .none, .none => true
  | .str a, .str b => a == b
  | .fn a, .fn b => a == b
  | .seq t xs, .seq u ys => t == u && pyEqL xs ys
  | .dict a, .dict b => a.length == b.length && pyEqD a b
  | .bool a, y => match y.num? with | some n => numEq (if a then 1 else 0, 0) n | Option.none => false
  | .int a, y => match y.num? with | some n => numEq (a, 0) n | Option.none => false
  | .flt m e, y => match y.num? with | some n => numEq (m, e) n | Option.none => false
  | _, _ => false
def pyEqL : List Val → List Val → Bool
  | [], [] => true
  | x :: xs, y :: ys => pyEq x y && pyEqL xs ys
  | _, _ => false
/-- every entry of the first dict has an equal entry in the second -/
def pyEqD : List (Key × Val) → List (Key × Val) → Bool
  | [], _ => true
  | (k, v) :: r, d => (match dlookup d k with | some w => pyEq v w | Option.none => false) && pyEqD r d
end

/-! ### hashing / hashability -/

mutual
/-- `hash(x)` succeeds. -/
def hashable : Val → Bool
  | .seq true xs => hashableL xs
  | .seq false _ => false
  | .dict _ => false
  | _ => true
def hashableL : List Val → Bool
  | [] => true
  | x :: xs => hashable x && hashableL xs
end

/-- Value → dictionary key, when the value can be a key of the modelled kind. -/
def toKey? : Val → Option Key
  | .str s => some (.s s)
  | .int n => some (.i n)
  | .bool b => some (.i (if b then 1 else 0))
  | .flt m 0 => some (.i m)
  | _ => Option.none

/-! ### ordering (`<`), `None` = `TypeError` -/

mutual
def pyLt? : Val → Val → Option Bool
  | .str a, .str b => some (decide (a < b))
  | .seq t xs, .seq u ys => if t == u then pyLtL? xs ys else Option.none
  | .bool a, y => match y.num? with | some n => some (numLt (if a then 1 else 0, 0) n) | Option.none => Option.none
  | .int a, y => match y.num? with | some n => some (numLt (a, 0) n) | Option.none => Option.none
  | .flt m e, y => match y.num? with | some n => some (numLt (m, e) n) | Option.none => Option.none
  | _, _ => Option.none
/-- Python sequence comparison: first differing pair (by `==`) decides; else lengths. -/
def pyLtL? : List Val → List Val → Option Bool
  | [], [] => some false
  | [], _ :: _ => some true
  | _ :: _, [] => some false
  | x :: xs, y :: ys => if pyEq x y then pyLtL? xs ys else pyLt? x y
end

/-! ### sized / iterable / membership -/

def tyErr (site : String) : PyExc := ⟨"TypeError", site⟩

def pyLen? (site : String) : Val → Except PyExc Nat
  | .seq _ xs => .ok xs.length
  | .dict kvs => .ok kvs.length
  | .str s => .ok s.length
  | _ => .error (tyErr site)

def pyIter? (site : String) : Val → Except PyExc (List Val)
  | .seq _ xs => .ok xs
  | .dict kvs => .ok (kvs.map (fun kv => kv.1.toVal))
  | .str s => .ok (s.toList.map (fun c => .str (String.singleton c)))
  | _ => .error (tyErr site)

def isSubstr (needle hay : String) : Bool :=
  let n := needle.toList
  let rec go : List Char → Bool
    | [] => n.isEmpty
    | h@(_ :: t) => n.isPrefixOf h || go t
  go hay.toList

/-- `x in c`. Sequences scan with `==`; dict lookup hashes `x` first (may raise);
    `str` containers demand a `str` operand. -/
def pyIn? (site : String) (c x : Val) : Except PyExc Bool :=
  match c with
  | .seq _ xs => .ok (xs.any (fun y => pyEq x y))
  | .dict kvs =>
      if !x.hashable then .error (tyErr site)
      else match x.toKey? with
        | some k => .ok ((dlookup kvs k).isSome)
        | Option.none => .ok false
  | .str s => match x with
      | .str t => .ok (isSubstr t s)
      | _ => .error (tyErr site)
  | _ => .error (tyErr site)

/-- `set(xs)`: raises on an unhashable member; result deduplicated by `==`. -/
def pySet? (site : String) (xs : List Val) : Except PyExc (List Val) :=
  if xs.all hashable then
    .ok (xs.foldl (fun acc x => if acc.any (fun y => pyEq x y) then acc else acc ++ [x]) [])
  else .error (tyErr site)

/-! ### dictionaries (insertion ordered association lists) -/

def dget? : Val → Key → Option Val
  | .dict kvs, k => dlookup kvs k
  | _, _ => Option.none

def dhas (kvs : List (Key × Val)) (k : Key) : Bool := (dlookup kvs k).isSome

/-- `d[k] = v`: an existing key keeps its position, a new key is appended. -/
def dset : List (Key × Val) → Key → Val → List (Key × Val)
  | [], k, v => [(k, v)]
  | (k', v') :: r, k, v => if k' = k then (k', v) :: r else (k', v') :: dset r k v

/-- `del d[k]` / `d.pop(k)` for a present key (no-op otherwise). -/
def ddel : List (Key × Val) → Key → List (Key × Val)
  | [], _ => []
  | (k', v') :: r, k => if k' = k then r else (k', v') :: ddel r k

def dkeys (kvs : List (Key × Val)) : List Key := kvs.map (·.1)

/-- `dict(enumerate(xs))` -/
def enumDict (xs : List Val) : List (Key × Val) :=
  (List.range xs.length).zip xs |>.map (fun p => (Key.i p.1, p.2))

end Val
end Cerberus
