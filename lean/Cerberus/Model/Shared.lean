/-
  Cerberus.Model.Shared — the process-wide state that validators in different threads
  share, and threads as interleaved sequences of atomic actions on it.

  Shared state Σ:
    * `cache`   `Validator._valid_schemas`: the class-level set of keys of validated schemas;
    * `objs`    the schema objects the callers pass to constructors (one literal may be
                passed by several threads); `expand` rewrites them **in place**;
    * `cls`     the lazily created `SchemaValidator` class of cerberus/schema.py.
  Everything else a validator touches (document, errors, trees, paths, the schema it
  holds once bound) is per instance, i.e. thread-local here.

  Atomic actions (what one thread does between two possible preemptions), after the
  repairs F17 (class published when complete) and F18 (expansion under a lock):
    ensure the class · expand an object · read an object · look a key up in the cache ·
    validate (caches the valid nested definitions) · add a key to the cache · bind / report.
  A `call` (validate / validated / normalized) builds child validators: for every
  sub-schema `children held doc` it runs the same look-up / validate / add transaction.

  The model is generic in the type `S` of schema contents and `D` of documents: `World`
  supplies `expand`, the cache `key`, cold validation `valid`, `children` and `process`.
  The driver runs it on tables observed from the real code (port `shared`); Props/C18
  proves schedule independence for every world that satisfies the two explicit
  hypotheses (idempotent expansion, no key confusion).
-/
namespace Cerberus.Shared

structure World (S D R : Type) where
  /-- `DefinitionSchema.expand` (in place: the object's content becomes `expand content`) -/
  expand : S → S
  /-- the cache key of a schema (structural hash of the schema and of the types mapping) -/
  key : S → Nat
  /-- cold validation of an expanded schema against the meta-schema -/
  valid : S → Bool
  /-- the nested definitions (bulk schemas, *of members, referenced definitions) that the cold
      validation of a schema validates one by one, caching the key of each valid one -/
  subs : S → List S
  /-- the sub-schemas a call hands to child validators, in order -/
  children : S → D → List S
  /-- the per-instance result of a call (verdict, errors, document) -/
  process : S → D → R

inductive Cls where
  | absent | complete
  deriving DecidableEq, Repr

/-- process-wide state -/
structure Sigma (S : Type) where
  cache : List Nat
  objs : Nat → S
  cls : Cls

/-- what a thread's program consists of -/
inductive HOp (D : Type) where
  | construct (o : Nat)             -- `Validator(shared_schema_object)`
  | call (i : Nat) (doc : D)        -- `validators[i].validate(doc)` (the i-th one this thread bound)
  deriving DecidableEq, Repr

inductive Out (S R : Type) where
  | accepted (s : S)                -- construction succeeded; `dict(validator.schema)` = s
  | rejected                        -- SchemaError
  | called (r : R) (childOk : List Bool)
  | noInstance
  deriving DecidableEq, Repr

/-- where a cache transaction returns to -/
inductive Kont (S D : Type) where
  | bind
  | child (i : Nat) (doc : D) (todo : List S) (flags : List Bool)
  deriving DecidableEq, Repr

inductive Phase (S D : Type) where
  | idle
  | expand (o : Nat)
  | snap (o : Nat)
  | lookup (k : Kont S D) (s : S)
  | check (k : Kont S D) (s : S) (hit : Bool)
  | add (k : Kont S D) (s : S) (hit ok : Bool)
  | fin (k : Kont S D) (s : S) (ok : Bool)
  deriving DecidableEq, Repr

structure TState (S D R : Type) where
  phase : Phase S D
  prog : List (HOp D)
  held : List S
  outs : List (Out S R)

def upd {α : Type} (f : Nat → α) (i : Nat) (x : α) : Nat → α := fun j => if j = i then x else f j

variable {S D R : Type}

/-- one atomic action of a thread; `none` = the thread has terminated -/
def tstep (w : World S D R) (σ : Sigma S) (t : TState S D R) : Option (Sigma S × TState S D R) :=
  match t.phase with
  | .idle =>
    match t.prog with
    | [] => none
    | .construct o :: r =>
      -- `DefinitionSchema.__new__`: the class exists (complete) afterwards
      some ({ σ with cls := .complete }, { t with phase := .expand o, prog := r })
    | .call i doc :: r =>
      match t.held[i]? with
      | none => some (σ, { t with prog := r, outs := t.outs ++ [.noInstance] })
      | some h =>
        match w.children h doc with
        | [] => some (σ, { t with prog := r, outs := t.outs ++ [.called (w.process h doc) []] })
        | c :: cs => some (σ, { t with prog := r, phase := .lookup (.child i doc cs []) c })
  | .expand o =>
    -- `with _expansion_lock: schema = expand(schema)` rewrites the object
    some ({ σ with objs := upd σ.objs o (w.expand (σ.objs o)) }, { t with phase := .snap o })
  | .snap o => some (σ, { t with phase := .lookup .bind (σ.objs o) })
  | .lookup k s => some (σ, { t with phase := .check k s (σ.cache.contains (w.key s)) })
  | .check k s hit =>
    -- a miss validates the schema; the valid nested definitions are cached on the way
    some (if hit then σ else { σ with cache := ((w.subs s).filter w.valid).map w.key ++ σ.cache },
          { t with phase := .add k s hit (hit || w.valid s) })
  | .add k s hit ok =>
    some (if !hit && ok then { σ with cache := w.key s :: σ.cache } else σ, { t with phase := .fin k s ok })
  | .fin .bind s ok =>
    if ok then some (σ, { t with phase := .idle, held := t.held ++ [s], outs := t.outs ++ [.accepted s] })
    else some (σ, { t with phase := .idle, outs := t.outs ++ [.rejected] })
  | .fin (.child i doc todo flags) s ok =>
    match todo with
    | [] =>
      match t.held[i]? with
      | some h => some (σ, { t with phase := .idle, outs := t.outs ++ [.called (w.process h doc) (flags ++ [ok])] })
      | none => some (σ, { t with phase := .idle, outs := t.outs ++ [.noInstance] })
    | c :: cs => some (σ, { t with phase := .lookup (.child i doc cs (flags ++ [ok])) c })

/-- the whole system: shared state and the threads -/
structure Sys (S D R : Type) where
  σ : Sigma S
  ts : Nat → TState S D R

/-- the scheduler picks thread `i`; a terminated thread stutters -/
def Sys.step (w : World S D R) (y : Sys S D R) (i : Nat) : Sys S D R :=
  match tstep w y.σ (y.ts i) with
  | none => y
  | some (σ', t') => { σ := σ', ts := upd y.ts i t' }

/-- a schedule is the sequence of choices of the scheduler -/
def Sys.run (w : World S D R) (y : Sys S D R) (sched : List Nat) : Sys S D R := sched.foldl (Sys.step w) y

def TState.start (prog : List (HOp D)) : TState S D R := { phase := .idle, prog := prog, held := [], outs := [] }

/-- the initial system: the callers' schema objects as written, a sound (e.g. empty) cache,
    the class absent or complete, every thread at the start of its program -/
def initial (objs0 : Nat → S) (cache : List Nat) (cls : Cls) (progs : Nat → List (HOp D)) : Sys S D R :=
  { σ := { cache := cache, objs := objs0, cls := cls }, ts := fun j => TState.start (progs j) }

def TState.terminated (t : TState S D R) : Prop := t.phase = .idle ∧ t.prog = []

/-- the meaning of a program executed alone: no cache, no other thread -/
def spec (w : World S D R) (objs0 : Nat → S) : List (HOp D) → List S → List (Out S R) → List (Out S R)
  | [], _, outs => outs
  | .construct o :: r, held, outs =>
    if w.valid (w.expand (objs0 o)) then spec w objs0 r (held ++ [w.expand (objs0 o)]) (outs ++ [.accepted (w.expand (objs0 o))])
    else spec w objs0 r held (outs ++ [.rejected])
  | .call i doc :: r, held, outs =>
    match held[i]? with
    | none => spec w objs0 r held (outs ++ [.noInstance])
    | some h => spec w objs0 r held (outs ++ [.called (w.process h doc) ((w.children h doc).map w.valid)])

instance (t : TState S D R) [DecidableEq S] [DecidableEq D] : Decidable t.terminated := by
  unfold TState.terminated; exact inferInstance

/-! ### the code before the repairs, at its own (finer) atomicity — used for the negations -/
namespace Fine

/-- keys of one rule set: a shorthand `<op>_<rule>`, an operator `<op>`, anything else -/
inductive RKey where
  | short (op rule : Nat)
  | op (op : Nat)
  | other (n : Nat)
  deriving DecidableEq, Repr

/-- a rule set shared by the threads: key ↦ list of (rule, value) definitions -/
abbrev Rules := List (RKey × List (Nat × Nat))

def rget (r : Rules) (k : RKey) : Option (List (Nat × Nat)) := (r.find? (·.1 = k)).map (·.2)
def rset (r : Rules) (k : RKey) (v : List (Nat × Nat)) : Rules :=
  if r.any (·.1 = k) then r.map (fun e => if e.1 = k then (k, v) else e) else r ++ [(k, v)]
def rdel (r : Rules) (k : RKey) : Rules := r.filter (fun e => e.1 ≠ k)

/-- `_expand_logical_shortcuts` on one rule set, line by line (cerberus/schema.py before F18) -/
inductive PC where
  | start
  | loop (todo : List (Nat × Nat))                                -- `for of_rule in [...]`
  | read (op rule : Nat) (todo : List (Nat × Nat))                 -- after `rules.update({operator: []})`
  | append (op rule : Nat) (vals : List (Nat × Nat)) (todo : List (Nat × Nat))
  | del (op rule : Nat) (todo : List (Nat × Nat))
  | done
  | aborted                                                        -- an exception, swallowed by `expand`
  deriving DecidableEq, Repr

def shorts (r : Rules) : List (Nat × Nat) :=
  r.filterMap (fun e => match e.1 with | .short o x => some (o, x) | _ => none)

def estep (r : Rules) : PC → Rules × PC
  | .start => (r, .loop (shorts r))
  | .loop [] => (r, .done)
  | .loop ((o, x) :: todo) => (rset r (.op o) [], .read o x todo)
  | .read o x todo =>
    match rget r (.short o x) with
    | some vals => (r, .append o x vals todo)
    | none => (r, .aborted)                                        -- KeyError
  | .append o x [] todo => (r, .del o x todo)
  | .append o x (v :: vs) todo =>
    match rget r (.op o) with
    | some cur => (rset r (.op o) (cur ++ [(x, v.2)]), .append o x vs todo)
    | none => (r, .aborted)
  | .del o x todo =>
    if (rget r (.short o x)).isSome then (rdel r (.short o x), .loop todo) else (r, .aborted)
  | .done => (r, .done)
  | .aborted => (r, .aborted)

/-- two threads on one rule set; the schedule says who moves -/
def erun (r : Rules) (a b : PC) : List Bool → Rules × PC × PC
  | [] => (r, a, b)
  | true :: s => erun (estep r a).1 (estep r a).2 b s
  | false :: s => erun (estep r b).1 a (estep r b).2 s

/-- the lazily created class before F17: bound to the global first, completed afterwards -/
inductive LCls where
  | absent | half | complete
  deriving DecidableEq, Repr

/-- a thread entering `DefinitionSchema.__new__` and then using the class;
    `usedHalf` = it instantiated a class that lacks the 'callable' and 'hashable' types -/
structure LThread where
  pc : Nat := 0
  usedHalf : Bool := false
  deriving DecidableEq, Repr

def lstep (c : LCls) (t : LThread) : LCls × LThread :=
  match t.pc with
  | 0 => if c = .absent then (.half, { t with pc := 1 }) else (c, { pc := 3, usedHalf := c = .half })
  | 1 => (.complete, { t with pc := 2 })
  | 2 => (c, { pc := 3, usedHalf := c = .half })
  | _ => (c, t)

def lrun (c : LCls) (a b : LThread) : List Bool → LCls × LThread × LThread
  | [] => (c, a, b)
  | true :: s => lrun (lstep c a).1 (lstep c a).2 b s
  | false :: s => lrun (lstep c b).1 a (lstep c b).2 s

end Fine

end Cerberus.Shared
