/-
  Cerberus.Model.Cache — the validated-schemas cache (`Validator._valid_schemas`,
  schema.py:252-266, 355-371, 399-410, 455-467; utils.py `mapping_hash`).

  Two parts:
  * `hkey` — when do two schemas / rule sets get the same cache key?  The key is
    `hash(mapping_to_frozenset(x))`: structural, blind to the order of mappings, to
    list vs tuple, to a string value vs the sequence of its characters, to equal
    numbers of different type (`True == 1 == 1.0`), and — because the *hash* is
    stored, not the frozen structure — to integers that collide modulo 2^61 - 1
    (`hash(2**61 - 1) == hash(0) == hash(False)`, `hash(-1) == hash(-2)`).  String
    hashing is taken to be collision free.
  * `submit` — the cache protocol shared by the four lookup sites: a key that is
    present skips the validation; a successful validation adds the key.
-/
import Cerberus.Model.Value
namespace Cerberus
namespace Cache

def mersenne : Nat := 2305843009213693951      -- 2^61 - 1

/-- CPython's `hash` of an `int` -/
def pyHashInt (n : Int) : Int :=
  let h : Int := (if n < 0 then -1 else 1) * Int.ofNat (n.natAbs % mersenne)
  if h == -1 then -2 else h

mutual
/-- a value as the cache key sees it when it is a member of a sequence -/
def hmember : Val → Val
  | .bool b => .int (if b then 1 else 0)
  | .int n => .int (pyHashInt n)
  | .flt m 0 => .int (pyHashInt m)
  | .flt m e => .flt m e
  | .seq _ xs => .seq false (hmemberL xs)
  | .dict kvs => .dict (hentries kvs)
  | v => v
def hmemberL : List Val → List Val
  | [] => []
  | x :: xs => hmember x :: hmemberL xs
/-- the entries of a mapping: a *string* value is frozen as the tuple of its characters
    (`isinstance(value, Sequence)` holds for `str`) -/
def hentries : List (Key × Val) → List (Key × Val)
  | [] => []
  | (k, v) :: r =>
    (match k with | .i n => Key.i (pyHashInt n) | k => k,
     match v with
     | .str s => Val.seq false (s.toList.map (fun c => .str (String.singleton c)))
     | v => hmember v) :: hentries r
end

/-- the cache key of a mapping, up to equality -/
def hkey (x : Val) : Val := hmember x

/-- do two mappings get the same cache key? -/
def sameKey (a b : Val) : Bool := Val.pyEq (hkey a) (hkey b)

/-! ### the protocol -/

/-- the context a lookup site validates in -/
inductive Site where
  | whole          -- DefinitionSchema.validate: the whole schema
  | subschema      -- _check_with_schema: a mapping sub-schema (same check as `whole`)
  | bulk           -- _check_with_bulk_schema: a rule set against all rules of the class
  | logical        -- _validate_logical: an *of definition against the validation rules only
  deriving DecidableEq, Repr

/-- which shape of key a site uses: `bulk` and `logical` both hash `{'turing': rules}` -/
def Site.shape : Site → Nat
  | .whole => 0 | .subschema => 0 | .bulk => 1 | .logical => 1

/-- a cache entry: key shape, structural key of the item, structural key of `types_mapping`.
    Neither the class nor the site is part of it. -/
structure Entry where
  shape : Nat
  item : Val
  types : Val

def Entry.same (a b : Entry) : Bool :=
  a.shape == b.shape && Val.pyEq a.item b.item && Val.pyEq a.types b.types

abbrev State := List Entry

def mkEntry (site : Site) (item types : Val) : Entry :=
  { shape := site.shape, item := hkey item, types := hkey types }

def hit (c : State) (e : Entry) : Bool := c.any (fun x => x.same e)

/-- one lookup at a site: `valid` is what the (cold) validation of the item in this
    site's context, for this class, would say -/
def lookup (c : State) (site : Site) (item types : Val) (valid : Bool) : State × Bool :=
  let e := mkEntry site item types
  if hit c e then (c, true)
  else if valid then (e :: c, true)
  else (c, false)

/-- an operation of a history -/
inductive Op where
  | submit (site : Site) (item types : Val) (valid : Bool)
  | clear

def step (c : State) : Op → State × Option Bool
  | .submit site item types valid =>
    let r := lookup c site item types valid
    (r.1, some r.2)
  | .clear => ([], none)

/-- outcomes of a history, warm -/
def run : State → List Op → List (Option Bool)
  | _, [] => []
  | c, op :: ops => (step c op).2 :: run (step c op).1 ops

/-- the outcome each operation has with the cache cleared immediately beforehand -/
def cold : Op → Option Bool
  | .submit _ _ _ valid => some valid
  | .clear => none

end Cache
end Cerberus
