/-
  Cerberus.Model.Tables — the record of tables that the model is parameterised
  by.  Its only inhabitant used by the driver is `Extracted.tables`, regenerated
  from the live code on every run; theorems are stated for every `t : Tables`
  meeting explicit (decidable) adequacy conditions.
-/
import Cerberus.Model.Value
namespace Cerberus

structure Tables where
  /-- `priority_validations` -/
  priority : List String
  /-- `mandatory_validations` -/
  mandatory : List String
  /-- rules of a rule set that never enter the queue -/
  nonQueue : List String
  /-- rules dropped from the queue when the value is `None` -/
  dropOnNone : List String
  /-- rules dropped from the queue when the value is an empty sized value -/
  dropOnEmpty : List String
  /-- a failing `type` rule empties the queue -/
  typeFailDropsAll : Bool
  /-- `types_mapping` evaluated per constructor class -/
  typeTable : List (String × List (Val.Ctor × Bool))
  /-- codes that have a message template in `BasicErrorHandler.messages` -/
  messageCodes : List Nat
  normalizationRules : List String
  deriving Repr, Inhabited

namespace Tables

def lookupS {α} : List (String × α) → String → Option α
  | [], _ => none
  | (k, v) :: r, q => if k = q then some v else lookupS r q

def lookupC : List (Val.Ctor × Bool) → Val.Ctor → Bool
  | [], _ => false
  | (k, v) :: r, q => if k = q then v else lookupC r q

/-- does the value match the named type?  `none` = no such type in `types_mapping` -/
def typeMatches (t : Tables) (name : String) (v : Val) : Option Bool :=
  match lookupS t.typeTable name with
  | some row => some (lookupC row v.ctor)
  | none => none

end Tables
end Cerberus
