/-
  Cerberus.Model.Setters — the default-setter work list of
  `__normalize_default_fields` (validator.py:965-988).

  The set of "known states" holds the pending tuples themselves (after the
  repair of finding F16; the unrepaired code stored `hash(tuple)`).
-/
import Cerberus.Model.Value
namespace Cerberus

/-- What calling a default setter on the current mapping does. -/
inductive SetterResult where
  | ok (v : Val)
  | keyError
  | other (msg : String)
  deriving Repr, Inhabited

structure SState where
  pending : List Key
  mapping : List (Key × Val)
  /-- fields that received `SETTING_DEFAULT_FAILED`, in the order filed -/
  failed : List Key
  known : List (List Key)
  steps : Nat
  deriving Repr, Inhabited

namespace Setters

/-- calling the setter of `f`: new pending list, mapping, failed fields -/
def apply1 (setter : Key → List (Key × Val) → SetterResult) (s : SState) (f : Key) (rest : List Key) :
    List Key × List (Key × Val) × List Key :=
  match setter f s.mapping with
  | .ok v => (rest, Val.dset s.mapping f v, s.failed)
  | .keyError => (rest ++ [f], s.mapping, s.failed)
  | .other _ => (rest, s.mapping, s.failed ++ [f])

/-- the cycle check after the call; `true` = the loop is left (`break`) -/
def record (s : SState) (rest' : List Key) (mapping' : List (Key × Val)) (failed' : List Key) :
    SState × Bool :=
  if s.known.contains rest' then
    ({ pending := [], mapping := mapping', failed := failed' ++ rest', known := s.known,
       steps := s.steps + 1 }, true)
  else
    ({ pending := rest', mapping := mapping', failed := failed', known := rest' :: s.known,
       steps := s.steps + 1 }, false)

/-- one iteration of the `while` loop -/
def iter (setter : Key → List (Key × Val) → SetterResult) (s : SState) (f : Key) (rest : List Key) :
    SState × Bool :=
  let r := apply1 setter s f rest
  record s r.1 r.2.1 r.2.2

/-- the loop, with fuel; `none` = fuel exhausted -/
def run (setter : Key → List (Key × Val) → SetterResult) : Nat → SState → Option SState
  | fuel, s =>
    match s.pending with
    | [] => some s
    | f :: rest =>
      match fuel with
      | 0 => none
      | fuel + 1 =>
        let r := iter setter s f rest
        if r.2 then some r.1 else run setter fuel r.1

/-- a fuel that always suffices (theorem `C17_terminates`): `n (n + 3) / 2` -/
def bound : Nat → Nat
  | 0 => 0
  | n + 1 => bound n + n + 2

def init (pending : List Key) (mapping : List (Key × Val)) : SState :=
  { pending, mapping, failed := [], known := [], steps := 0 }

def resolve (setter : Key → List (Key × Val) → SetterResult)
    (pending : List Key) (mapping : List (Key × Val)) : Option SState :=
  run setter (bound pending.length) (init pending mapping)

end Setters
end Cerberus
