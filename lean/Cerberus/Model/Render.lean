/-
  Cerberus.Model.Render — `BasicErrorHandler` (errors.py:463-650) as a function
  from the recorded error list to the pretty tree.

  A message is abstracted to a tag naming the error that produced it and the
  `field` argument it was formatted with.
-/
import Cerberus.Model.Error
namespace Cerberus

/-- The handler's `tree`: field ↦ (messages, sub-tree).  The Python list is
    `messages ++ [sub-tree]`, the trailing dict being purged when empty. -/
inductive PT where
  | mk (ents : List (Key × List String × PT))
  deriving Repr, Inhabited

namespace PT
def ents : PT → List (Key × List String × PT) | mk e => e
def empty : PT := mk []

/-- apply `f` to the entry of `k`, creating `([], {})` first if there is none -/
def upsert (f : List String × PT → List String × PT) :
    List (Key × List String × PT) → Key → List (Key × List String × PT)
  | [], k => [(k, f ([], empty))]
  | (k', x) :: r, k => if k' = k then (k', f x) :: r else (k', x) :: upsert f r k

/-- `_insert_error(path, node)` for a non-empty path `k :: p` -/
def ins : PT → Key → List Key → String → PT
  | mk ents, k, [], m => mk (upsert (fun x => (x.1 ++ [m], x.2)) ents k)
  | mk ents, k, k2 :: p, m => mk (upsert (fun x => (x.1, ins x.2 k2 p m)) ents k)

mutual
/-- number of messages anywhere in the tree -/
def count : PT → Nat
  | mk ents => countL ents
def countL : List (Key × List String × PT) → Nat
  | [] => 0
  | (_, ms, sub) :: r => ms.length + count sub + countL r
end

def keys (t : PT) : List Key := t.ents.map (·.1)
def isEmpty (t : PT) : Bool := t.ents.isEmpty
end PT

namespace Render

def idxErr : PyExc := ⟨"IndexError", "render"⟩

/-- the tag standing for `_format_message(field, error)` -/
def msgTag (field : Option Key) (e : Err) : String :=
  let sp := if e.spStr then "<str>" else String.intercalate "/" (e.sp.map Key.render)
  let f := match field with | some k => k.render | none => "None"
  s!"{e.code}@{sp}#{f}"

def lastKey : List Key → Option Key
  | [] => none
  | [k] => some k
  | _ :: r => lastKey r

/-- `error.field` -/
def field (e : Err) : Option Key := lastKey e.dp

/-- `definitions_errors`: children grouped by the definition index found in
    their schema path, groups in order of first appearance, members in their
    original order (fuel = length of the list) -/
def regroupF (key : Err → Option Key) : Nat → List Err → List Err
  | 0, _ => []
  | _ + 1, [] => []
  | n + 1, k :: ks =>
      (k :: ks.filter (fun x => key x == key k)) ++ regroupF key n (ks.filter (fun x => !(key x == key k)))

def regroup (spLen : Nat) (ks : List Err) : List Err :=
  regroupF (fun k => k.sp[spLen]?) ks.length ks

mutual
/-- `_rewrite_error_path(error, offset)` on a deep copy; `dp` is the (already
    rewritten) document path of this error.  Children of a logic error come out
    grouped the way `definitions_errors` iterates them. -/
def rw (offset : Nat) (dp : List Key) : Err → Except PyExc Err
  | .mk d s b c r k v i ks =>
      let e := Err.mk d s b c r k v i ks
      if e.isLogic then do
        let ks' ← rwLogicL offset (dp.length - offset) dp s.length (r.getD "None") ks
        pure (.mk dp s b c r k v i (regroup s.length ks'))
      else if e.isGroup then do
        let ks' ← rwGroupL offset (dp.length - offset) dp ks
        pure (.mk dp s b c r k v i ks')
      else pure (.mk dp s b c r k v i ks)
def rwGroupL (offset cs : Nat) (pdp : List Key) : List Err → Except PyExc (List Err)
  | [] => pure []
  | k :: ks => do
      let k' ← rw offset (pdp ++ k.dp.drop cs) k
      let r ← rwGroupL offset cs pdp ks
      pure (k' :: r)
def rwLogicL (offset cs : Nat) (pdp : List Key) (spLen : Nat) (rule : String) :
    List Err → Except PyExc (List Err)
  | [] => pure []
  | k :: ks =>
      match k.sp[spLen]? with
      | none => throw idxErr
      | some i => do
          let node := Key.s (rule ++ " definition " ++ i.render)
          let k' ← rw (offset + 1) (pdp ++ [node] ++ k.dp.drop cs) k
          let r ← rwLogicL offset cs pdp spLen rule ks
          pure (k' :: r)
end

/-- `_insert_error(path, msg)`; an empty path is `path[0]` → `IndexError` -/
def insertAt (t : PT) (p : List Key) (m : String) : Except PyExc PT :=
  match p with
  | [] => throw idxErr
  | k :: r => pure (t.ins k r m)

mutual
/-- `_insert_logic_error(error)` (on a rewritten error) -/
def insLogic (t : PT) : Err → Except PyExc PT
  | .mk d s b c r k v i ks => do
      let e := Err.mk d s b c r k v i ks
      let t1 ← insertAt t d (msgTag (field e) e)
      insKidsL (field e) t1 ks
/-- `_insert_group_error(error)` -/
def insGroup (t : PT) : Err → Except PyExc PT
  | .mk _ _ _ _ _ _ _ _ ks => insKidsG t ks
/-- children of a logic error: plain ones are formatted with the logic error's field -/
def insKidsL (f : Option Key) (t : PT) : List Err → Except PyExc PT
  | [] => pure t
  | k :: ks => do
      let t1 ← (if k.isLogic then insLogic t k
                else if k.isGroup then insGroup t k
                else insertAt t k.dp (msgTag f k))
      insKidsL f t1 ks
/-- children of a group error: plain ones are formatted with their own field -/
def insKidsG (t : PT) : List Err → Except PyExc PT
  | [] => pure t
  | k :: ks => do
      let t1 ← (if k.isLogic then insLogic t k
                else if k.isGroup then insGroup t k
                else insertAt t k.dp (msgTag (field k) k))
      insKidsG t1 ks
end

/-- `BasicErrorHandler.add(error)`; `hasMsg` = `code in self.messages` -/
def addErr (hasMsg : Nat → Bool) (t : PT) (e : Err) : Except PyExc PT := do
  let e' ← rw 0 e.dp e
  if e'.isLogic then insLogic t e'
  else if e'.isGroup then insGroup t e'
  else if hasMsg e'.code then insertAt t e'.dp (msgTag (field e') e')
  else pure t

/-- `handler(errors)`: clear, extend -/
def render (hasMsg : Nat → Bool) : List Err → PT → Except PyExc PT
  | [], t => pure t
  | e :: es, t => do
      let t1 ← addErr hasMsg t e
      render hasMsg es t1

end Render
end Cerberus
