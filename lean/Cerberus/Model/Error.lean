/-
  Cerberus.Model.Error — `ValidationError` as a rose tree, error definitions'
  bit tests, flattening, and `_drop_nodes_from_errorpaths`.
-/
import Cerberus.Model.Value
namespace Cerberus

/-- A `ValidationError`.  `spStr` is set when `schema_path` is the *string*
    `"__require_all__"` (then `sp` holds its characters, which is how the
    schema error tree sees it).  `info` holds the non-error members of
    `error.info`; `kids` is `info[0]` of a group error. -/
inductive Err where
  | mk (dp : List Key) (sp : List Key) (spStr : Bool) (code : Nat)
       (rule : Option String) (constraint value : Val) (info : List Val)
       (kids : List Err)
  deriving Repr, Inhabited

namespace Err
def dp : Err → List Key | mk d _ _ _ _ _ _ _ _ => d
def sp : Err → List Key | mk _ s _ _ _ _ _ _ _ => s
def spStr : Err → Bool | mk _ _ b _ _ _ _ _ _ => b
def code : Err → Nat | mk _ _ _ c _ _ _ _ _ => c
def rule : Err → Option String | mk _ _ _ _ r _ _ _ _ => r
def constraint : Err → Val | mk _ _ _ _ _ c _ _ _ => c
def value : Err → Val | mk _ _ _ _ _ _ v _ _ => v
def info : Err → List Val | mk _ _ _ _ _ _ _ i _ => i
def kids : Err → List Err | mk _ _ _ _ _ _ _ _ k => k

/-- `bool(code & 0x80)` — errors.py `is_group_error` -/
def isGroup (e : Err) : Bool := e.code &&& 0x80 != 0
/-- `bool(code & (0x90 - 0x80))` — errors.py `is_logic_error` -/
def isLogic (e : Err) : Bool := e.code &&& 0x10 != 0
/-- `bool(code & 0x60)` — errors.py `is_normalization_error` -/
def isNormalization (e : Err) : Bool := e.code &&& 0x60 != 0

def withDp (e : Err) (d : List Key) : Err :=
  match e with | mk _ s b c r k v i ks => mk d s b c r k v i ks
def withSp (e : Err) (s : List Key) : Err :=
  match e with | mk d _ b c r k v i ks => mk d s b c r k v i ks
def withKids (e : Err) (ks : List Err) : Err :=
  match e with | mk d s b c r k v i _ => mk d s b c r k v i ks
end Err

/-! ### error codes (errors.py:26-80) -/
namespace Code
def CUSTOM : Nat := 0x00
def REQUIRED_FIELD : Nat := 0x02
def UNKNOWN_FIELD : Nat := 0x03
def DEPENDENCIES_FIELD : Nat := 0x04
def DEPENDENCIES_FIELD_VALUE : Nat := 0x05
def EXCLUDES_FIELD : Nat := 0x06
def EMPTY_NOT_ALLOWED : Nat := 0x22
def NOT_NULLABLE : Nat := 0x23
def BAD_TYPE : Nat := 0x24
def BAD_TYPE_FOR_SCHEMA : Nat := 0x25
def ITEMS_LENGTH : Nat := 0x26
def MIN_LENGTH : Nat := 0x27
def MAX_LENGTH : Nat := 0x28
def REGEX_MISMATCH : Nat := 0x41
def MIN_VALUE : Nat := 0x42
def MAX_VALUE : Nat := 0x43
def UNALLOWED_VALUE : Nat := 0x44
def UNALLOWED_VALUES : Nat := 0x45
def FORBIDDEN_VALUE : Nat := 0x46
def FORBIDDEN_VALUES : Nat := 0x47
def MISSING_MEMBERS : Nat := 0x48
def COERCION_FAILED : Nat := 0x61
def RENAMING_FAILED : Nat := 0x62
def READONLY_FIELD : Nat := 0x63
def SETTING_DEFAULT_FAILED : Nat := 0x64
def MAPPING_SCHEMA : Nat := 0x81
def SEQUENCE_SCHEMA : Nat := 0x82
def KEYSRULES : Nat := 0x83
def VALUESRULES : Nat := 0x84
def BAD_ITEMS : Nat := 0x8F
def NONEOF : Nat := 0x91
def ONEOF : Nat := 0x92
def ANYOF : Nat := 0x93
def ALLOF : Nat := 0x94
end Code

/-! ### flattening: an error and, for group errors, all nested child errors -/
mutual
def Err.flat : Err → List Err
  | e@(.mk _ _ _ _ _ _ _ _ ks) => e :: (if e.isGroup then flatten ks else [])
def flatten : List Err → List Err
  | [] => []
  | e :: es => e.flat ++ flatten es
end

mutual
def Err.size : Err → Nat
  | .mk _ _ _ _ _ _ _ _ ks => 1 + sizeL ks
def sizeL : List Err → Nat
  | [] => 0
  | e :: es => e.size + sizeL es
end

/-! ### `drop_item_from_tuple` and `_drop_nodes_from_errorpaths` -/

/-- `t[:i] + t[i+1:]` (a no-op when `i` is out of range) -/
def dropIdx {α} : List α → Nat → List α
  | [], _ => []
  | _ :: r, 0 => r
  | x :: r, n + 1 => x :: dropIdx r n

/-- drop the given indices, largest first (`sorted(items, reverse=True)`);
    `idxs` must be given in descending order -/
def dropIdxs {α} (l : List α) (idxs : List Nat) : List α := idxs.foldl dropIdx l

mutual
/-- `_drop_nodes_from_errorpaths(errors, [], sp_items)` with `base = len(self.schema_path)`;
    `idxsDesc` = `sp_items` sorted descending.  Recurses into `child_errors`
    (which is `None`, hence skipped, for non-group errors).
    A *string* schema path (the `"__require_all__"` marker) is opaque to the
    model: the code would delete one of its characters, which nothing observes;
    the comparison with the implementation ignores the content of string paths. -/
def Err.dropSp (base : Nat) (idxsDesc : List Nat) : Err → Err
  | .mk d s b c r k v i ks =>
      let e := Err.mk d s b c r k v i ks
      .mk d (if b then s else dropIdxs s (idxsDesc.map (base + ·))) b c r k v i
        (if e.isGroup then dropSpL base idxsDesc ks else ks)
def dropSpL (base : Nat) (idxsDesc : List Nat) : List Err → List Err
  | [] => []
  | e :: es => e.dropSp base idxsDesc :: dropSpL base idxsDesc es
end

/-! ### queries that the validator makes on its own document error tree.
    They are stated on the flat error list; theorem `C11_fetch` (Props/C11)
    shows that the tree built by `ErrorTree.add` answers them identically. -/

/-- `defn in document_error_tree.fetch_errors_from(path)` -/
def hasErrAt (errs : List Err) (path : List Key) (code : Nat) : Bool :=
  (flatten errs).any (fun e => e.dp == path && e.code == code)

/-- `document_error_tree.fetch_node_from(path) is not None` for a non-empty path -/
def hasNodeAt (errs : List Err) (path : List Key) : Bool :=
  (flatten errs).any (fun e => path.isPrefixOf e.dp)

end Cerberus
