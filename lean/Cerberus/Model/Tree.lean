/-
  Cerberus.Model.Tree — `ErrorTree` / `ErrorTreeNode` (errors.py:210-353).

  `node.errors.sort()` is not modelled: the model keeps insertion order and every
  comparison with the implementation is made on multisets.
-/
import Cerberus.Model.Error
namespace Cerberus

inductive TreeKind where
  | document | schema
  deriving DecidableEq, Repr, Inhabited

def TreeKind.path (k : TreeKind) (e : Err) : List Key :=
  match k with | .document => e.dp | .schema => e.sp

/-- A node: its error list and its `descendants` (insertion ordered). -/
inductive Tree where
  | node (errs : List Err) (desc : List (Key × Tree))
  deriving Repr, Inhabited

namespace Tree

def empty : Tree := .node [] []
def errs : Tree → List Err | node es _ => es
def desc : Tree → List (Key × Tree) | node _ d => d

def lookup : List (Key × Tree) → Key → Option Tree
  | [], _ => none
  | (k, t) :: r, q => if k = q then some t else lookup r q

/-- apply `f` to the descendant under `k`, creating an empty node first when
    there is none (`if key not in self.descendants: self[key] = ErrorTreeNode(...)`) -/
def upsert (f : Tree → Tree) : List (Key × Tree) → Key → List (Key × Tree)
  | [], k => [(k, f empty)]
  | (k', t) :: r, k => if k' = k then (k', f t) :: r else (k', t) :: upsert f r k

/-- `ErrorTree.add` / `ErrorTreeNode.add` without the child-error step:
    walk down the path, creating nodes, append at the end. -/
def insert : Tree → List Key → Err → Tree
  | node es d, [], e => node (es ++ [e]) d
  | node es d, k :: p, e => node es (upsert (fun t => insert t p e) d k)

mutual
/-- `ErrorTree.add(error)`: insert at the error's path; a group error that was
    inserted below the root then has each child error added *at the root*. -/
def add (kind : TreeKind) (t : Tree) : Err → Tree
  | .mk d s b c r k v i ks =>
      let e := Err.mk d s b c r k v i ks
      let p := kind.path e
      let t' := t.insert p e
      if e.isGroup && !p.isEmpty then addL kind t' ks else t'
def addL (kind : TreeKind) (t : Tree) : List Err → Tree
  | [] => t
  | e :: es => addL kind (add kind t e) es
end

def build (kind : TreeKind) (es : List Err) : Tree := addL kind empty es

/-- `fetch_node_from(path)` -/
def fetchNode : Tree → List Key → Option Tree
  | t, [] => some t
  | node _ d, k :: p => match lookup d k with
      | some t => fetchNode t p
      | none => none

/-- `fetch_errors_from(path)` -/
def fetchErrs (t : Tree) (p : List Key) : List Err :=
  match t.fetchNode p with
  | some n => n.errs
  | none => []

/-- `defn in node` (`ErrorTreeNode.__contains__` with an `ErrorDefinition`) -/
def containsCode (t : Tree) (code : Nat) : Bool := t.errs.any (·.code == code)
/-- `node[defn]` → first error with that code -/
def getByCode (t : Tree) (code : Nat) : Option Err := t.errs.find? (·.code == code)

mutual
/-- all (path, errors) pairs of the tree, for dumping -/
def dump : Tree → List Key → List (List Key × List Err)
  | node es d, p => (p, es) :: dumpL d p
def dumpL : List (Key × Tree) → List Key → List (List Key × List Err)
  | [], _ => []
  | (k, t) :: r, p => dump t (p ++ [k]) ++ dumpL r p
end

def isEmpty : Tree → Bool
  | node es d => es.isEmpty && d.isEmpty

end Tree
end Cerberus
