/-
  Cerberus.Codec — typed JSON for values, keys and errors (DESIGN.md appendix D).
  Not part of the model; used only by the driver.
-/
import Lean.Data.Json
import Cerberus.Model.Error
open Lean
namespace Cerberus.Codec

def jstr (j : Json) : Except String String := j.getStr?
def jarr (j : Json) : Except String (Array Json) := j.getArr?

def parseInt (s : String) : Except String Int :=
  match s.toInt? with
  | some n => pure n
  | none => throw s!"bad int {s}"

def keyOfJson (j : Json) : Except String Key := do
  match j.getObjVal? "s" with
  | .ok v => pure (Key.s (← jstr v))
  | .error _ =>
    let v ← j.getObjVal? "i"
    pure (Key.i (← parseInt (← jstr v)))

def keyToJson : Key → Json
  | .s x => Json.mkObj [("s", Json.str x)]
  | .i n => Json.mkObj [("i", Json.str (toString n))]

partial def valOfJson (j : Json) : Except String Val := do
  match j with
  | .null => pure Val.none
  | .bool b => pure (Val.bool b)
  | .obj _ =>
    if let .ok v := j.getObjVal? "i" then return Val.int (← parseInt (← jstr v))
    if let .ok v := j.getObjVal? "s" then return Val.str (← jstr v)
    if let .ok v := j.getObjVal? "fn" then return Val.fn (← jstr v)
    if let .ok v := j.getObjVal? "f" then
      let a ← jarr v
      if a.size != 2 then throw "bad float"
      let m ← parseInt (← jstr a[0]!)
      let e ← a[1]!.getNat?
      return Val.flt m e
    if let .ok v := j.getObjVal? "l" then
      let a ← jarr v
      return Val.seq false (← a.toList.mapM valOfJson)
    if let .ok v := j.getObjVal? "t" then
      let a ← jarr v
      return Val.seq true (← a.toList.mapM valOfJson)
    if let .ok v := j.getObjVal? "d" then
      let a ← jarr v
      let kvs ← a.toList.mapM fun kv => do
        let p ← jarr kv
        if p.size != 2 then throw "bad dict entry"
        pure ((← keyOfJson p[0]!), (← valOfJson p[1]!))
      return Val.dict kvs
    throw s!"bad value object {j.compress}"
  | _ => throw s!"bad value {j.compress}"

partial def valToJson : Val → Json
  | .none => Json.null
  | .bool b => Json.bool b
  | .int n => Json.mkObj [("i", Json.str (toString n))]
  | .flt m e => Json.mkObj [("f", Json.arr #[Json.str (toString m), Json.num e])]
  | .str s => Json.mkObj [("s", Json.str s)]
  | .seq false xs => Json.mkObj [("l", Json.arr (xs.map valToJson).toArray)]
  | .seq true xs => Json.mkObj [("t", Json.arr (xs.map valToJson).toArray)]
  | .dict kvs => Json.mkObj [("d", Json.arr (kvs.map fun (k, v) => Json.arr #[keyToJson k, valToJson v]).toArray)]
  | .fn n => Json.mkObj [("fn", Json.str n)]

def keysOfJson (j : Json) : Except String (List Key) := do
  (← jarr j).toList.mapM keyOfJson

def keysToJson (ks : List Key) : Json := Json.arr (ks.map keyToJson).toArray

partial def errOfJson (j : Json) : Except String Err := do
  let dp ← keysOfJson (← j.getObjVal? "dp")
  let spj ← j.getObjVal? "sp"
  let (sp, spStr) ← match spj.getObjVal? "str" with
    | .ok s => do
        let s ← jstr s
        pure (s.toList.map (fun c => Key.s (String.singleton c)), true)
    | .error _ => do pure ((← keysOfJson spj), false)
  let code ← (← j.getObjVal? "code").getNat?
  let rule ← match j.getObjVal? "rule" with
    | .ok (.str s) => pure (some s)
    | _ => pure none
  let c ← match j.getObjVal? "c" with | .ok v => valOfJson v | .error _ => pure Val.none
  let v ← match j.getObjVal? "v" with | .ok v => valOfJson v | .error _ => pure Val.none
  let info ← match j.getObjVal? "info" with
    | .ok v => do (← jarr v).toList.mapM valOfJson
    | .error _ => pure []
  let kids ← match j.getObjVal? "kids" with
    | .ok v => do (← jarr v).toList.mapM errOfJson
    | .error _ => pure []
  pure (Err.mk dp sp spStr code rule c v info kids)

partial def errToJson (e : Err) : Json :=
  Json.mkObj [
    ("dp", keysToJson e.dp),
    ("sp", if e.spStr then Json.mkObj [("str", Json.str (String.join (e.sp.map Key.render)))] else keysToJson e.sp),
    ("code", Json.num e.code),
    ("rule", match e.rule with | some r => Json.str r | none => Json.null),
    ("c", valToJson e.constraint),
    ("v", valToJson e.value),
    ("info", Json.arr (e.info.map valToJson).toArray),
    ("kids", Json.arr (e.kids.map errToJson).toArray)]

def errsOfJson (j : Json) : Except String (List Err) := do
  (← jarr j).toList.mapM errOfJson

def errsToJson (es : List Err) : Json := Json.arr (es.map errToJson).toArray

/-- a short identity of an error used when dumping trees: (dp, sp, code) -/
def errIdJson (e : Err) : Json :=
  Json.arr #[keysToJson e.dp, keysToJson e.sp, Json.num e.code]

def excToJson (x : PyExc) : Json := Json.mkObj [("raised", Json.arr #[Json.str x.type, Json.str x.site])]

end Cerberus.Codec
