/-
  Driver — line protocol: one JSON request per line on stdin, one JSON reply per
  line on stdout.  Runs the executable model definitions; never answers with a
  default: a malformed request yields `{"error": ...}` (a harness fault).
-/
import Cerberus.Codec
import Cerberus.Model.Tree
import Cerberus.Model.Render
import Cerberus.Model.Setters
import Cerberus.Model.Validate
import Cerberus.Model.Normalize
import Cerberus.Model.Api
import Cerberus.Model.Schema
import Cerberus.Model.Cache
import Cerberus.Model.Heap
import Cerberus.Model.Shared
import Cerberus.Extracted
import Cerberus.Model.RefTables
open Lean Cerberus Cerberus.Codec

namespace Drv

def dumpToJson (d : List (List Key × List Err)) : Json :=
  Json.arr (d.map fun (p, es) => Json.arr #[keysToJson p, Json.arr (es.map errIdJson).toArray]).toArray

def fetchReply (t : Tree) (qs : List (List Key)) : Json :=
  Json.arr (qs.map fun q =>
    Json.mkObj [("node", Json.bool (t.fetchNode q).isSome),
                ("errs", Json.arr ((t.fetchErrs q).map errIdJson).toArray)]).toArray

def portTree (j : Json) : Except String Json := do
  let es ← errsOfJson (← j.getObjVal? "errors")
  let qd ← (← jarr (← j.getObjVal? "qdoc")).toList.mapM keysOfJson
  let qs ← (← jarr (← j.getObjVal? "qschema")).toList.mapM keysOfJson
  let td := Tree.build .document es
  let ts := Tree.build .schema es
  pure (Json.mkObj [
    ("doc", dumpToJson (td.dump [])), ("schema", dumpToJson (ts.dump [])),
    ("fdoc", fetchReply td qd), ("fschema", fetchReply ts qs),
    ("flat", Json.num (flatten es).length),
    ("empty", Json.bool (td.isEmpty && ts.isEmpty))])

partial def ptToJson : PT → Json
  | .mk ents => Json.arr (ents.map fun (k, ms, sub) =>
      Json.arr #[keyToJson k, Json.arr (ms.map Json.str).toArray, ptToJson sub]).toArray

def portRender (j : Json) : Except String Json := do
  let es ← errsOfJson (← j.getObjVal? "errors")
  let codes ← (← jarr (← j.getObjVal? "codes")).toList.mapM (·.getNat?)
  match Render.render (fun c => codes.contains c) es PT.empty with
  | .ok t => pure (Json.mkObj [("tree", ptToJson t), ("count", Json.num t.count)])
  | .error x => pure (excToJson x)

/-- the setter family of the `setters` port -/
def mkSetter (specs : List (Key × Json)) : Except String (Key → List (Key × Val) → SetterResult) := do
  let tbl ← specs.mapM fun (k, s) => do
    let kind ← jstr (← s.getObjVal? "kind")
    match kind with
    | "sum" =>
      let deps ← keysOfJson (← s.getObjVal? "deps")
      pure (k, fun (m : List (Key × Val)) =>
        -- 1 + sum(doc[d] for d in deps): first missing key raises KeyError,
        -- a non-integer operand raises TypeError
        let rec go : List Key → Int → SetterResult
          | [], acc => .ok (.int acc)
          | d :: r, acc => match Val.dlookup m d with
              | none => .keyError
              | some (.int n) => go r (acc + n)
              | some _ => .other "TypeError"
        go deps 1)
    | "indirect" =>
      let dep ← keyOfJson (← s.getObjVal? "dep")
      pure (k, fun (m : List (Key × Val)) => match Val.dlookup m dep with
        | none => SetterResult.keyError
        | some _ => SetterResult.ok (.int 1))
    | "index" =>
      let dep ← keyOfJson (← s.getObjVal? "dep")
      pure (k, fun (m : List (Key × Val)) => match Val.dlookup m dep with
        | none => SetterResult.other "IndexError"
        | some _ => SetterResult.ok (.int 1))
    | "raise" => pure (k, fun _ => SetterResult.other "boom")
    | "keyerr" => pure (k, fun _ => SetterResult.keyError)
    | "const" =>
      let v ← valOfJson (← s.getObjVal? "v")
      pure (k, fun _ => SetterResult.ok v)
    | _ => throw s!"bad setter kind {kind}"
  pure fun k m => match tbl.find? (·.1 == k) with
    | some (_, f) => f m
    | none => .other "no setter"

def portSetters (j : Json) : Except String Json := do
  let pending ← keysOfJson (← j.getObjVal? "pending")
  let mapping ← valOfJson (← j.getObjVal? "mapping")
  let specs ← (← jarr (← j.getObjVal? "setters")).toList.mapM fun p => do
    let a ← jarr p
    pure ((← keyOfJson a[0]!), a[1]!)
  let setter ← mkSetter specs
  match mapping with
  | .dict kvs =>
    match Setters.resolve setter pending kvs with
    | some s => pure (Json.mkObj [("mapping", valToJson (.dict s.mapping)),
                                  ("failed", keysToJson s.failed), ("steps", Json.num s.steps)])
    | none => pure (Json.str "fuel")
  | _ => throw "mapping must be a dict"

/-! ### environment of a case -/

/-- plain JSON constants of setter specs: int, str, null, lists of those -/
partial def plainConst : Json → Val
  | .null => .none
  | .bool b => .bool b
  | .num n => .int n.mantissa
  | .str s => .str s
  | .arr a => .seq false (a.toList.map plainConst)
  | _ => .none

/-- default setters are named `s:<json spec>`; the spec is interpreted here (twin of
    `harness/families.py: make_setter`) -/
def setterOfName (name : String) (m : List (Key × Val)) : SetterResult :=
  if name == "s_one" then .ok (.int 1)
  else if name == "s_raise" then .other "s_raise always fails"
  else if !name.startsWith "s:" then .other "unknown setter"
  else
    match Json.parse (name.drop 2).toString with
    | .error _ => .other "bad setter spec"
    | .ok j =>
      match (j.getObjVal? "kind").bind (·.getStr?) with
      | .ok "sum" =>
        match (j.getObjVal? "deps").bind (·.getArr?) with
        | .ok deps =>
          let rec go : List Json → Int → SetterResult
            | [], acc => .ok (.int acc)
            | d :: r, acc =>
              let k : Option Key := match d with
                | .str s => some (.s s)
                | .num n => some (.i n.mantissa)
                | _ => none
              match k with
              | none => .other "bad dep"
              | some k => match Val.dlookup m k with
                | none => .keyError
                | some (.int n) => go r (acc + n)
                | some _ => .other "TypeError"
          go deps.toList 1
        | .error _ => .other "bad deps"
      | .ok "copy" =>
        match j.getObjVal? "dep" with
        | .ok (.str s) => (match Val.dlookup m (.s s) with | some v => .ok v | none => .keyError)
        | .ok (.num n) => (match Val.dlookup m (.i n.mantissa) with | some v => .ok v | none => .keyError)
        | _ => .other "bad dep"
      | .ok "const" =>
        match j.getObjVal? "v" with
        | .ok v => .ok (plainConst v)
        | .error _ => .other "bad const"
      | .ok "raise" => .other "s_raise always fails"
      | .ok "keyerr" => .keyError
      | _ => .other "bad kind"

structure CaseEnv where
  env : Env
  cfg : Cfg

def regOfJson (j : Json) (field : String) : Except String (String → Option Val) := do
  match j.getObjVal? field with
  | .error _ => pure (fun _ => none)
  | .ok o =>
    let v ← valOfJson o
    match v with
    | .dict kvs => pure (fun name => Val.dlookup kvs (.s name))
    | _ => throw "registry must be a dict"

def ctorOfName : String → Option Val.Ctor
  | "none" => some .none | "bool" => some .bool | "int" => some .int | "flt" => some .flt | "str" => some .str
  | "list" => some .list | "tuple" => some .tuple | "dict" => some .dict | "fn" => some .fn | _ => none

/-- the class's tables: the extracted ones plus the types a generated subclass adds to `types_mapping` -/
def tablesOfJson (j : Json) (base : Tables) : Except String Tables := do
  let ej := (j.getObjVal? "env").toOption.getD (Json.mkObj [])
  match ej.getObjVal? "extraTypes" with
  | .error _ => pure base
  | .ok a =>
    let extra ← (← jarr a).toList.mapM fun t => do
      let p ← jarr t
      let name ← jstr p[0]!
      let row ← (← jarr p[1]!).toList.mapM fun c => do
        let q ← jarr c
        match ctorOfName (← jstr q[0]!) with
        | some ct => pure (ct, (← q[1]!.getBool?))
        | none => throw "bad ctor"
      pure (name, row)
    pure { base with typeTable := base.typeTable ++ extra }

/-- custom rules of generated subclasses (twin of harness/props/c16.py) -/
def customRuleOf (flag : Val) (rule : String) (c v : Val) : Option (List String) :=
  match rule with
  | "is_odd" =>
    some (if c.truthy then (match v with | .int n => if n % 2 == 0 then ["must be odd"] else [] | _ => []) else [])
  | "needs_cfg" => some (if Val.pyEq c flag then [] else ["configuration not inherited"])
  | "is_not_negative" =>
    some (if c.truthy then (match v with
      | .int n => if n < 0 then ["must not be negative"] else []
      | .flt m _ => if m < 0 then ["must not be negative"] else []
      | _ => []) else [])
  | _ => none

def envOfJson (j : Json) : Except String Env := do
  let ej := (j.getObjVal? "env").toOption.getD (Json.mkObj [])
  let rxs ← match ej.getObjVal? "rx" with
    | .ok a => do
      (← jarr a).toList.mapM fun t => do
        let p ← jarr t
        pure ((← jstr p[0]!), (← jstr p[1]!), (← p[2]!.getBool?))
    | .error _ => pure []
  let rulesSets ← regOfJson ej "rulesSets"
  let schemas ← regOfJson ej "schemas"
  let named := (ej.getObjVal? "named").toOption.bind (·.getBool?.toOption) |>.getD false
  let custom := (ej.getObjVal? "custom").toOption.bind (·.getBool?.toOption) |>.getD false
  let flag ← match ej.getObjVal? "flag" with
    | .ok v => valOfJson v
    | .error _ => pure Val.none
  pure {
    rx := fun pat s => (rxs.find? (fun t => t.1 == pat && t.2.1 == s)).map (·.2.2)
    coerce := Family.coerce
    hasCoercer := fun n => named && Family.coercerNames.contains n
    setter := setterOfName
    hasSetter := fun n => named && (n == "s_one" || n == "s_raise")
    checker := Family.checker
    customRule := if custom then customRuleOf flag else fun _ _ _ => none
    rulesSets := rulesSets
    schemas := schemas }

def cfgOfJson (j : Json) : Except String Cfg := do
  let cj := (j.getObjVal? "cfg").toOption.getD (Json.mkObj [])
  let getV (k : String) (d : Val) : Except String Val :=
    match cj.getObjVal? k with
    | .ok v => valOfJson v
    | .error _ => pure d
  let getB (k : String) : Bool := (cj.getObjVal? k).toOption.bind (·.getBool?.toOption) |>.getD false
  pure {
    allowUnknown := ← getV "allow_unknown" (.bool false)
    requireAll := ← getV "require_all" (.bool false)
    ignoreNone := getB "ignore_none_values"
    purgeUnknown := ← getV "purge_unknown" (.bool false)
    purgeReadonly := getB "purge_readonly"
    isNormalized := false }

def outcomeToJson (r : M (List Err)) : Json :=
  match r with
  | .ok es => Json.mkObj [("ok", errsToJson es)]
  | .error (.py t s) => Json.mkObj [("raised", Json.arr #[Json.str t, Json.str s])]
  | .error .schemaRuleType => Json.mkObj [("raised", Json.arr #[Json.str "_SchemaRuleTypeError", Json.str ""])]
  | .error .fuel => Json.str "fuel"
  | .error (.oracle w) => Json.mkObj [("need", Json.str w)]

def portValidate0 (j : Json) : Except String Json := do
  let env ← envOfJson j
  let cfg ← cfgOfJson j
  let schema ← valOfJson (← j.getObjVal? "schema")
  let doc ← valOfJson (← j.getObjVal? "doc")
  let upd := (j.getObjVal? "update").toOption.bind (·.getBool?.toOption) |>.getD false
  let fuel := (j.getObjVal? "fuel").toOption.bind (·.getNat?.toOption) |>.getD 40
  let ctx : Ctx := { cfg := cfg }
  let useRef := (j.getObjVal? "ref").toOption.bind (·.getBool?.toOption) |>.getD false
  let t ← tablesOfJson j (if useRef then refTables else Extracted.tables)
  pure (outcomeToJson (validate0 env t fuel ctx schema doc upd))

def docOutcomeToJson (r : M (List (Key × Val) × List Err)) : Json :=
  match r with
  | .ok (m, es) => Json.mkObj [("ok", errsToJson es), ("doc", valToJson (.dict m))]
  | .error (.py t s) => Json.mkObj [("raised", Json.arr #[Json.str t, Json.str s])]
  | .error .schemaRuleType => Json.mkObj [("raised", Json.arr #[Json.str "_SchemaRuleTypeError", Json.str ""])]
  | .error .fuel => Json.str "fuel"
  | .error (.oracle w) => Json.mkObj [("need", Json.str w)]

/-- ports `normalize` (normalized(doc, always_return_document=True)) and
    `validate` (validate(doc, update, normalize=True)) -/
def portNormalize (full : Bool) (j : Json) : Except String Json := do
  let env ← envOfJson j
  let cfg ← cfgOfJson j
  let schema ← valOfJson (← j.getObjVal? "schema")
  let doc ← valOfJson (← j.getObjVal? "doc")
  let upd := (j.getObjVal? "update").toOption.bind (·.getBool?.toOption) |>.getD false
  let fuel := (j.getObjVal? "fuel").toOption.bind (·.getNat?.toOption) |>.getD 40
  let ctx : Ctx := { cfg := cfg }
  let t ← tablesOfJson j Extracted.tables
  match doc with
  | .dict kvs =>
    if full then pure (docOutcomeToJson (validateN env t fuel ctx schema kvs upd))
    else pure (docOutcomeToJson (normalize env fuel ctx schema kvs))
  | _ => throw "doc must be a dict"

/-! ### port `api`: a sequence of calls on one instance -/

def optSchemaOfJson (j : Json) : Except String (Option Val × Option (String × Option Val)) := do
  -- {"raw": Val, "acc": Val | null}  or  null
  match j with
  | .null => pure (none, none)
  | _ =>
    let raw ← valOfJson (← j.getObjVal? "raw")
    let acc ← match j.getObjVal? "acc" with
      | .ok .null => pure none
      | .ok a => do pure (some (← valOfJson a))
      | .error _ => pure none
    pure (some raw, some ((valToJson raw).compress, acc))

def opOfJson (j : Json) : Except String (Op × Option (String × Option Val)) := do
  let kind ← jstr (← j.getObjVal? "op")
  let getB (k : String) (d : Bool) : Bool := (j.getObjVal? k).toOption.bind (·.getBool?.toOption) |>.getD d
  if kind == "errors" then return (.readErrors, none)
  let doc ← valOfJson (← j.getObjVal? "doc")
  let (sch, ent) ← optSchemaOfJson ((j.getObjVal? "schema").toOption.getD .null)
  match kind with
  | "validate" => pure (.validate doc sch (getB "update" false) (getB "normalize" true), ent)
  | "validated" => pure (.validated doc sch (getB "update" false) (getB "normalize" true) (getB "always" false), ent)
  | "normalized" => pure (.normalized doc sch (getB "always" false), ent)
  | _ => throw s!"bad op {kind}"

def retToJson : Ret → Json
  | .bool b => Json.mkObj [("bool", Json.bool b)]
  | .doc none => Json.mkObj [("doc", Json.null)]
  | .doc (some d) => Json.mkObj [("doc", valToJson d)]
  | .rendered t => Json.mkObj [("rendered", ptToJson t)]
  | .raised (.py t s) => Json.mkObj [("raised", Json.arr #[Json.str t, Json.str s])]
  | .raised .schemaRuleType => Json.mkObj [("raised", Json.arr #[Json.str "_SchemaRuleTypeError", Json.str ""])]
  | .raised .fuel => Json.mkObj [("raised", Json.arr #[Json.str "fuel", Json.str ""])]
  | .raised (.oracle w) => Json.mkObj [("need", Json.str w)]

def obsToJson (o : Obs) : Json :=
  Json.mkObj [("ret", retToJson o.ret), ("errors", errsToJson o.errors),
              ("document", match o.document with | some d => valToJson d | none => Json.null)]

def portApi (j : Json) : Except String Json := do
  let env ← envOfJson j
  let cfg ← cfgOfJson j
  let schema ← match j.getObjVal? "schema" with
    | .ok .null => pure none
    | .ok v => do pure (some (← valOfJson v))
    | .error _ => pure none
  let fuel := (j.getObjVal? "fuel").toOption.bind (·.getNat?.toOption) |>.getD 40
  let opsj ← jarr (← j.getObjVal? "ops")
  let parsed ← opsj.toList.mapM opOfJson
  let table := parsed.filterMap (·.2)
  let accept : Val → Option Val := fun v =>
    let key := (valToJson v).compress
    match table.find? (fun e => e.1 == key) with
    | some (_, acc) => acc
    | none => none
  let s0 : VState := { schema := schema, cfg := cfg }
  let (_, obs) := parsed.foldl (fun (st : VState × List Json) p =>
      let (s', o) := Api.step env Extracted.tables accept fuel st.1 p.1
      (s', st.2 ++ [obsToJson o])) (s0, [])
  -- a regex-oracle question anywhere in the run is passed up
  pure (Json.mkObj [("obs", Json.arr obs.toArray)])

/-! ### port `accept`: submitting a schema -/

def clsOfJson (j : Json) : Except String Cls := do
  match j.getObjVal? "cls" with
  | .error _ =>
    pure { rules := Extracted.metaSchemaFields, validationRules := Extracted.validationRules,
           types := Extracted.typeNames }
  | .ok c =>
    let rules ← valOfJson (← c.getObjVal? "rules")
    let vr ← (← jarr (← c.getObjVal? "validation_rules")).toList.mapM jstr
    let ty ← (← jarr (← c.getObjVal? "types")).toList.mapM jstr
    match rules with
    | .dict kvs => pure { rules := kvs, validationRules := vr, types := ty }
    | _ => throw "cls.rules must be a dict"

def acceptToJson : S.Accept → Json
  | .accepted v => Json.mkObj [("accepted", valToJson v)]
  | .schemaError => Json.str "schema_error"
  | .raised t => Json.mkObj [("raised", Json.str t)]

def portAccept (j : Json) : Except String Json := do
  let cls ← clsOfJson j
  let ej := (j.getObjVal? "env").toOption.getD (Json.mkObj [])
  let regsR ← regOfJson ej "rulesSets"
  let regsS ← regOfJson ej "schemas"
  let raw ← valOfJson (← j.getObjVal? "schema")
  let kind := (j.getObjVal? "kind").toOption.bind (·.getStr?.toOption) |>.getD "schema"
  match kind with
  | "expand" =>
    match raw with
    | .dict kvs =>
      match S.expand kvs with
      | some e => pure (Json.mkObj [("expanded", valToJson (.dict e))])
      | none => pure (Json.mkObj [("raised", Json.str "RuntimeError")])
    | _ => throw "expand needs a dict"
  | _ => pure (acceptToJson (S.acceptSchema cls Extracted.metaTables regsR regsS raw))

/-! ### port `entries`: a sequence of schema submissions through the entry points -/

def entryOfJson (j : Json) : Except String S.Entry := do
  let kind ← jstr (← j.getObjVal? "entry")
  match kind with
  | "whole" => pure (.whole (← valOfJson (← j.getObjVal? "schema")))
  | "setitem" => pure (.setItem (← keyOfJson (← j.getObjVal? "key")) (← valOfJson (← j.getObjVal? "rules")))
  | "update" => pure (.update (← valOfJson (← j.getObjVal? "schema")))
  | "allow_unknown" => pure (.allowUnknown (← valOfJson (← j.getObjVal? "value")))
  | _ => throw s!"bad entry {kind}"

def portEntries (j : Json) : Except String Json := do
  let cls ← clsOfJson j
  let ej := (j.getObjVal? "env").toOption.getD (Json.mkObj [])
  let regsR ← regOfJson ej "rulesSets"
  let regsS ← regOfJson ej "schemas"
  let entries ← (← jarr (← j.getObjVal? "entries")).toList.mapM entryOfJson
  let s0 : S.SchemaState := { schema := none, allowUnknown := .bool false }
  let (_, outs) := entries.foldl (fun (st : S.SchemaState × List Json) e =>
      let (s', r) := S.submit cls Extracted.metaTables regsR regsS st.1 e
      let stj := Json.mkObj [("outcome", acceptToJson r),
                             ("schema", match s'.schema with | some v => valToJson v | none => Json.null),
                             ("allow_unknown", valToJson s'.allowUnknown)]
      (s', st.2 ++ [stj])) (s0, [])
  pure (Json.arr outs.toArray)

/-! ### port `hkey`: do two mappings get the same cache key? -/
def portHkey (j : Json) : Except String Json := do
  let a ← valOfJson (← j.getObjVal? "a")
  let b ← valOfJson (← j.getObjVal? "b")
  pure (Json.bool (Cache.sameKey a b))

/-! ### port `alias`: normalization on the heap -/

partial def sharedPaths (h : Heap) (base : Nat) (r : Ref) (path : List Key) : List (List Key × Bool) :=
  match h.get r with
  | .leaf _ => []
  | .seq _ rs =>
    (path, decide (r < base)) ::
      ((List.range rs.length).zip rs).flatMap (fun p => sharedPaths h base p.2 (path ++ [Key.i (Int.ofNat p.1)]))
  | .dict es => (path, decide (r < base)) :: es.flatMap (fun kr => sharedPaths h base kr.2 (path ++ [kr.1]))

def cellSame : Cell → Cell → Bool
  | .leaf a, .leaf b => Val.pyEq a b && a.ctor == b.ctor
  | .seq t a, .seq u b => t == u && a == b
  | .dict a, .dict b => a.length == b.length && (a.zip b).all (fun p => p.1.1 == p.2.1 && p.1.2 == p.2.2)
  | _, _ => false

def portAlias (j : Json) : Except String Json := do
  let env ← envOfJson j
  let cfg ← cfgOfJson j
  let schema ← valOfJson (← j.getObjVal? "schema")
  let doc ← valOfJson (← j.getObjVal? "doc")
  let fuel := (j.getObjVal? "fuel").toOption.bind (·.getNat?.toOption) |>.getD 40
  let ctx : Ctx := { cfg := cfg }
  let (h0, root) := (Heap.mk []).allocVal doc
  let base := h0.size
  match hnormalize env fuel ctx schema h0 root with
  | .ok (h1, res, errs) =>
    let unchanged := (List.range base).all (fun r => cellSame (h0.get r) (h1.get r))
    let shared := sharedPaths h1 base res []
    pure (Json.mkObj [
      ("ok", errsToJson errs), ("doc", valToJson (h1.reify 64 res)),
      ("unchanged", Json.bool unchanged), ("fresh", Json.bool (decide (base ≤ res))),
      ("input", valToJson (h1.reify 64 root)),
      ("shared", Json.arr (shared.map (fun p => Json.arr #[keysToJson p.1, Json.bool p.2])).toArray)])
  | .error (.py t s') => pure (Json.mkObj [("raised", Json.arr #[Json.str t, Json.str s'])])
  | .error .schemaRuleType => pure (Json.mkObj [("raised", Json.arr #[Json.str "_SchemaRuleTypeError", Json.str ""])])
  | .error .fuel => pure (Json.str "fuel")
  | .error (.oracle w) => pure (Json.mkObj [("need", Json.str w)])

/-! port `shared`: the thread model of Model/Shared.lean on a table world over numbers -/
def natsOf (j : Json) : Except String (List Nat) := do
  let a ← j.getArr?
  a.toList.mapM (fun x => x.getNat?)

def rowsOf (j : Json) (field : String) : Except String (List (List Nat)) := do
  match (j.getObjVal? field).toOption with
  | none => pure []
  | some v => do
    let a ← v.getArr?
    a.toList.mapM natsOf

def lookup1 (rows : List (List Nat)) (s : Nat) : Option Nat :=
  (rows.find? (fun r => r.head? == some s)).bind (fun r => r[1]?)

def lookup2 (rows : List (List Nat)) (s d : Nat) : Option (List Nat) :=
  (rows.find? (fun r => r.head? == some s && r[1]? == some d)).map (fun r => r.drop 2)

def hopOf (r : List Nat) : Except String (Shared.HOp Nat) :=
  match r with
  | [0, o] => pure (.construct o)
  | [1, i, d] => pure (.call i d)
  | _ => throw "bad op"

def outJson : Shared.Out Nat Nat → Json
  | .accepted s => Json.arr #[Json.str "acc", toJson s]
  | .rejected => Json.arr #[Json.str "rej"]
  | .called r fl => Json.arr #[Json.str "call", toJson r, Json.arr (fl.map Json.bool).toArray]
  | .noInstance => Json.arr #[Json.str "noinst"]

def portShared (j : Json) : Except String Json := do
  let ex ← rowsOf j "expand"
  let ky ← rowsOf j "key"
  let va ← rowsOf j "valid"
  let ch ← rowsOf j "children"
  let sb ← rowsOf j "subs"
  let pr ← rowsOf j "process"
  let objs ← natsOf (← j.getObjVal? "objs")
  let progsJ ← (← j.getObjVal? "progs").getArr?
  let progs ← progsJ.toList.mapM (fun p => do
    let ops ← p.getArr?
    ops.toList.mapM (fun o => do hopOf (← natsOf o)))
  let sched ← natsOf (← j.getObjVal? "sched")
  let opgran := ((j.getObjVal? "opgran").toOption.bind (·.getBool?.toOption)).getD false
  let cache ← natsOf (← j.getObjVal? "cache")
  let clsN ← (← j.getObjVal? "cls").getNat?
  -- a missing table entry never agrees silently: distinct key, invalid, no children
  let w : Shared.World Nat Nat Nat := {
    expand := fun s => (lookup1 ex s).getD s
    key := fun s => (lookup1 ky s).getD (s + 1000000)
    valid := fun s => (lookup1 va s).getD 0 == 1
    subs := fun s => ((sb.find? (fun r => r.head? == some s)).map (fun r => r.drop 1)).getD []
    children := fun s d => (lookup2 ch s d).getD []
    process := fun s d => ((lookup2 pr s d).bind (·.head?)).getD 999999 }
  let y0 : Shared.Sys Nat Nat Nat :=
    Shared.initial (fun o => objs.getD o 0) cache (if clsN == 0 then .absent else .complete) (fun t => progs.getD t [])
  -- step by step, logging the cache traffic
  let micro := fun (acc : Shared.Sys Nat Nat Nat × List Json) (i : Nat) =>
      let y := acc.1
      let y' := y.step w i
      let ev1 := match (y.ts i).phase, (y'.ts i).phase with
        | .lookup _ s, .check _ _ hit => [Json.arr #[Json.str "lookup", toJson i, toJson (w.key s), Json.bool hit]]
        | _, _ => []
      let ev2 := match (y.ts i).phase with
        | .add _ _ _ _ => if y'.σ.cache.length > y.σ.cache.length
            then [Json.arr #[Json.str "add", toJson i, toJson (y'.σ.cache.headD 0)]] else []
        | _ => []
      (y', acc.2 ++ ev1 ++ ev2)
  -- `opgran`: a schedule entry runs the thread until it is idle again (one whole construct / call)
  let isIdle := fun (y : Shared.Sys Nat Nat Nat) (i : Nat) => match (y.ts i).phase with | .idle => true | _ => false
  let rec runOp (fuel : Nat) (acc : Shared.Sys Nat Nat Nat × List Json) (i : Nat) : Shared.Sys Nat Nat Nat × List Json :=
    match fuel with
    | 0 => acc
    | f + 1 =>
      let acc' := micro acc i
      if isIdle acc'.1 i then acc' else runOp f acc' i
  let (y, events) := sched.foldl (fun acc i =>
      if opgran then
        let r := runOp 100000 acc i
        (r.1, r.2 ++ [Json.arr #[Json.str "cache", Json.arr (r.1.σ.cache.map (fun k => toJson k)).toArray]])
      else micro acc i) (y0, [])
  let n := progs.length
  pure (Json.mkObj [
    ("outs", Json.arr ((List.range n).map (fun t => Json.arr (((y.ts t).outs).map outJson).toArray)).toArray),
    ("terminated", Json.arr ((List.range n).map (fun t => Json.bool (decide (y.ts t).terminated))).toArray),
    ("objs", Json.arr ((List.range objs.length).map (fun o => toJson (y.σ.objs o))).toArray),
    ("events", Json.arr events.toArray)])

def handle (line : String) : Json :=
  match Json.parse line with
  | .error e => Json.mkObj [("error", Json.str s!"parse: {e}")]
  | .ok j =>
    let idj := (j.getObjVal? "id").toOption.getD Json.null
    let r : Except String Json := do
      let port ← jstr (← j.getObjVal? "port")
      match port with
      | "tree" => portTree j
      | "render" => portRender j
      | "setters" => portSetters j
      | "validate0" => portValidate0 j
      | "normalize" => portNormalize false j
      | "validate" => portNormalize true j
      | "api" => portApi j
      | "accept" => portAccept j
      | "entries" => portEntries j
      | "hkey" => portHkey j
      | "alias" => portAlias j
      | "shared" => portShared j
      | "ping" => pure (Json.str "pong")
      | _ => throw s!"bad-op {port}"
    match r with
    | .ok v => Json.mkObj [("id", idj), ("r", v)]
    | .error e => Json.mkObj [("id", idj), ("error", Json.str e)]

partial def loop (hin : IO.FS.Stream) (hout : IO.FS.Stream) : IO Unit := do
  let line ← hin.getLine
  if line.isEmpty then return ()
  let t := line.trimAscii.toString
  if !t.isEmpty then
    hout.putStrLn (handle t).compress
    hout.flush
  loop hin hout

end Drv

def main : IO Unit := do
  Drv.loop (← IO.getStdin) (← IO.getStdout)
