/-
  Driver — line protocol: one JSON request per line on stdin, one JSON reply per
  line on stdout.  Runs the executable model definitions; never answers with a
  default: a malformed request yields `{"error": ...}` (a harness fault).
-/
import Cerberus.Codec
import Cerberus.Model.Tree
import Cerberus.Model.Render
import Cerberus.Model.Setters
open Lean Cerberus Cerberus.Codec

namespace Drv

def dumpToJson (d : List (List Key × List Err)) : Json :=
  Json.arr (d.map fun (p, es) => Json.arr #[keysToJson p, Json.arr (es.map errIdJson).toArray]).toArray

def fetchReply (t : Tree) (qs : List (List Key)) : Json :=
  Json.arr (qs.map fun q =>
    Json.mkObj [("node", Json.bool (t.fetchNode q).isSome),
                ("errs", Json.arr ((t.fetchErrs q).map errIdJson).toArray)]).toArray

def portTree (j : Json) : Except String Json := do
  let es ← errsOfJson (← j.getObjVal? "errors")
  let qd ← (← jarr (← j.getObjVal? "qdoc")).toList.mapM keysOfJson
  let qs ← (← jarr (← j.getObjVal? "qschema")).toList.mapM keysOfJson
  let td := Tree.build .document es
  let ts := Tree.build .schema es
  pure (Json.mkObj [
    ("doc", dumpToJson (td.dump [])), ("schema", dumpToJson (ts.dump [])),
    ("fdoc", fetchReply td qd), ("fschema", fetchReply ts qs),
    ("flat", Json.num (flatten es).length),
    ("empty", Json.bool (td.isEmpty && ts.isEmpty))])

partial def ptToJson : PT → Json
  | .mk ents => Json.arr (ents.map fun (k, ms, sub) =>
      Json.arr #[keyToJson k, Json.arr (ms.map Json.str).toArray, ptToJson sub]).toArray

def portRender (j : Json) : Except String Json := do
  let es ← errsOfJson (← j.getObjVal? "errors")
  let codes ← (← jarr (← j.getObjVal? "codes")).toList.mapM (·.getNat?)
  match Render.render (fun c => codes.contains c) es PT.empty with
  | .ok t => pure (Json.mkObj [("tree", ptToJson t), ("count", Json.num t.count)])
  | .error x => pure (excToJson x)

/-- the setter family of the `setters` port -/
def mkSetter (specs : List (Key × Json)) : Except String (Key → List (Key × Val) → SetterResult) := do
  let tbl ← specs.mapM fun (k, s) => do
    let kind ← jstr (← s.getObjVal? "kind")
    match kind with
    | "sum" =>
      let deps ← keysOfJson (← s.getObjVal? "deps")
      pure (k, fun (m : List (Key × Val)) =>
        -- 1 + sum(doc[d] for d in deps): first missing key raises KeyError,
        -- a non-integer operand raises TypeError
        let rec go : List Key → Int → SetterResult
          | [], acc => .ok (.int acc)
          | d :: r, acc => match Val.dlookup m d with
              | none => .keyError
              | some (.int n) => go r (acc + n)
              | some _ => .other "TypeError"
        go deps 1)
    | "raise" => pure (k, fun _ => SetterResult.other "boom")
    | "keyerr" => pure (k, fun _ => SetterResult.keyError)
    | "const" =>
      let v ← valOfJson (← s.getObjVal? "v")
      pure (k, fun _ => SetterResult.ok v)
    | _ => throw s!"bad setter kind {kind}"
  pure fun k m => match tbl.find? (·.1 == k) with
    | some (_, f) => f m
    | none => .other "no setter"

def portSetters (j : Json) : Except String Json := do
  let pending ← keysOfJson (← j.getObjVal? "pending")
  let mapping ← valOfJson (← j.getObjVal? "mapping")
  let specs ← (← jarr (← j.getObjVal? "setters")).toList.mapM fun p => do
    let a ← jarr p
    pure ((← keyOfJson a[0]!), a[1]!)
  let setter ← mkSetter specs
  match mapping with
  | .dict kvs =>
    match Setters.resolve setter pending kvs with
    | some s => pure (Json.mkObj [("mapping", valToJson (.dict s.mapping)),
                                  ("failed", keysToJson s.failed), ("steps", Json.num s.steps)])
    | none => pure (Json.str "fuel")
  | _ => throw "mapping must be a dict"

def handle (line : String) : Json :=
  match Json.parse line with
  | .error e => Json.mkObj [("error", Json.str s!"parse: {e}")]
  | .ok j =>
    let idj := (j.getObjVal? "id").toOption.getD Json.null
    let r : Except String Json := do
      let port ← jstr (← j.getObjVal? "port")
      match port with
      | "tree" => portTree j
      | "render" => portRender j
      | "setters" => portSetters j
      | "ping" => pure (Json.str "pong")
      | _ => throw s!"bad-op {port}"
    match r with
    | .ok v => Json.mkObj [("id", idj), ("r", v)]
    | .error e => Json.mkObj [("id", idj), ("error", Json.str e)]

partial def loop (hin : IO.FS.Stream) (hout : IO.FS.Stream) : IO Unit := do
  let line ← hin.getLine
  if line.isEmpty then return ()
  let t := line.trimAscii.toString
  if !t.isEmpty then
    hout.putStrLn (handle t).compress
    hout.flush
  loop hin hout

end Drv

def main : IO Unit := do
  Drv.loop (← IO.getStdin) (← IO.getStdout)
