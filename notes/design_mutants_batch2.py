import sys, re, shutil, subprocess, os, json
from concurrent.futures import ThreadPoolExecutor
SRC='/repo'
V='cerberus/validator.py'; E='cerberus/errors.py'; S='cerberus/schema.py'
M = {
 'M21_nullable_droplist_allowed': (V, "                'allowed',\n                \"anyof\",", "                \"anyof\","),
 'M22_logical_no_type_inherit': (V, "for rule in ('allow_unknown', 'type'):", "for rule in ('allow_unknown',):"),
 'M23_logical_no_default_au': (V, "            if 'allow_unknown' not in schema[field]:\n                schema[field]['allow_unknown'] = self.allow_unknown\n", ""),
 'M27_norm_schema_no_purge_override': (V, "            purge_unknown=rules.get('purge_unknown', self.purge_unknown),\n", ""),
 'M29_cache_key_no_types': (S, "        _hash = (mapping_hash(schema), mapping_hash(self.validator.types_mapping))\n        if _hash not in self.validator._valid_schemas:", "        _hash = (mapping_hash(schema), 0)\n        if _hash not in self.validator._valid_schemas:"),
 'M35_excludes_no_unrequire_self': (V, "        if self.schema[field].get('required', self.require_all):\n            self._unrequired_by_excludes.add(field)\n", ""),
 'M36_no_entry_copy': (V, "        self.document = copy(document)\n", "        self.document = document\n"),
 'M38_no_schema_copy_in_normalize': (V, "        schema = schema.copy()\n        for field in schema:\n            schema[field] = self._resolve_rules_set(schema[field])", "        for field in schema:\n            schema[field] = self._resolve_rules_set(schema[field])"),
 'M41_setters_lifo': (V, "field = fields_with_default_setter.pop(0)", "field = fields_with_default_setter.pop()"),
 'M42_required_ignores_ignore_none': (V, "            if document.get(field) is not None or not self.ignore_none_values\n", ""),
 'M44_valuesrules_no_crumb_drop': (V, "            if validator._errors:\n                self._drop_nodes_from_errorpaths(validator._errors, [], [2])\n                self._error(field, errors.VALUESRULES", "            if validator._errors:\n                self._error(field, errors.VALUESRULES"),
 'M47_au_setter_no_validate': (V, "        if not (self.is_child or isinstance(value, (bool, DefinitionSchema))):\n            DefinitionSchema(self, {'allow_unknown': value})\n", ""),
 'M48_readonly_no_drop': (V, "            if self._is_normalized and has_error:\n                self._drop_remaining_rules()", "            pass"),
 'M49_render_drop_second_msg': (E, "                self.tree[field] += [node, subtree]", "                self.tree[field] += [subtree]"),
 'M50_registry_no_expand': (S, "        self._storage[name] = self._expand_definition(definition)", "        self._storage[name] = definition"),
 'M51_keysrules_norm_copy': (V, "        document = dict(((k, k) for k in mapping[field]))\n        validator = self._get_child_validator(\n            document_crumb=field, schema_crumb=(field, 'keysrules'), schema=schema\n        )\n        result", "        document = dict(((k, k) for k in mapping[field]))\n        mapping[field] = type(mapping[field])(mapping[field])\n        validator = self._get_child_validator(\n            document_crumb=field, schema_crumb=(field, 'keysrules'), schema=schema\n        )\n        result"),
 'M52_coerce_unknown_only': (V, "            elif (\n                isinstance(self.allow_unknown, Mapping)\n                and 'coerce' in self.allow_unknown\n            ):", "            elif (\n                field not in schema\n                and isinstance(self.allow_unknown, Mapping)\n                and 'coerce' in self.allow_unknown\n            ):"),
 'M53_setters_tuple_state': (V, "fields_processing_state = hash(tuple(fields_with_default_setter))", "fields_processing_state = tuple(fields_with_default_setter)"),
 'M54_keysrules_drop_2_only': (V, "self._drop_nodes_from_errorpaths(validator._errors, [], [2, 4])\n                self._error(field, errors.KEYSRULES", "self._drop_nodes_from_errorpaths(validator._errors, [], [2])\n                self._error(field, errors.KEYSRULES"),
}
def run(name):
    f, old, new = M[name]
    d = '/var/tmp/cerb_mut/' + name
    shutil.rmtree(d, ignore_errors=True)
    shutil.copytree(SRC, d, ignore=shutil.ignore_patterns('.git', '.benchmarks', '__pycache__', 'docs', 'artwork'))
    p = os.path.join(d, f); s = open(p).read()
    if s.count(old) != 1:
        shutil.rmtree(d); return name, 'PATTERN count=%d' % s.count(old)
    open(p, 'w').write(s.replace(old, new))
    env = dict(os.environ, PYTHONPATH=d, PYTHONDONTWRITEBYTECODE='1')
    r = subprocess.run(['/venv/bin/python', '-m', 'pytest', '-q', '-p', 'no:cacheprovider', 'cerberus/tests', '-q', '--timeout=300'], cwd=d, env=env, capture_output=True, text=True)
    chk = subprocess.run(['/venv/bin/python', '-c', 'import cerberus; print(cerberus.__file__)'], cwd=d, env=env, capture_output=True, text=True).stdout.strip()
    lines = [l for l in r.stdout.strip().splitlines() if l.strip()]
    failed = [l for l in lines if l.startswith('FAILED')]
    shutil.rmtree(d)
    return name, lines[-1:], [x.split('::')[-1][:50] for x in failed][:6], chk
names = sys.argv[1:] or sorted(M)
with ThreadPoolExecutor(10) as ex:
    for res in ex.map(run, names): print(res, flush=True)
