import sys, re, shutil, subprocess, os, json
from concurrent.futures import ThreadPoolExecutor
SRC='/repo'
V='cerberus/validator.py'; E='cerberus/errors.py'; S='cerberus/schema.py'
M = {
 'M01_empty_droplist_regex': (V, "                'regex',\n                'check_with',\n            )\n            if not empty:", "                'check_with',\n            )\n            if not empty:"),
 'M02_required_truthy': (V, ".get('required', self.require_all)\n                is True\n", ".get('required', self.require_all)\n"),
 'M03_valuesrules_no_update': (V, "            validator(value, update=self.update, normalize=False)\n            if validator._errors:\n                self._drop_nodes_from_errorpaths(validator._errors, [], [2])\n                self._error(field, errors.VALUESRULES", "            validator(value, normalize=False)\n            if validator._errors:\n                self._drop_nodes_from_errorpaths(validator._errors, [], [2])\n                self._error(field, errors.VALUESRULES"),
 'M04_items_len_lt': (V, "if len(items) != len(values):\n            self._error(field, errors.ITEMS_LENGTH", "if len(items) < len(values):\n            self._error(field, errors.ITEMS_LENGTH"),
 'M05_oneof_gt1': (V, "if valids != 1:", "if valids > 1:"),
 'M06_schema_no_require_all': (V, "            require_all=field_rules.get('require_all', self.require_all),\n", ""),
 'M07_no_reset_unrequired': (V, "        self.update = update\n        self._unrequired_by_excludes = set()\n", "        self.update = update\n        if not hasattr(self, '_unrequired_by_excludes'): self._unrequired_by_excludes = set()\n"),
 'M08_no_definition_copy': (V, "schema = {field: definition.copy()}", "schema = {field: definition}"),
 'M09_seq_allow_unknown_true': (V, "            schema=schema,\n            allow_unknown=self.allow_unknown,\n        )\n        validator(\n            dict(((i, v) for i, v in enumerate(value))),", "            schema=schema,\n            allow_unknown=True,\n        )\n        validator(\n            dict(((i, v) for i, v in enumerate(value))),"),
 'M10_nullable_droplist_keysrules': (V, "                'items',\n                'keysrules',\n                'min',", "                'items',\n                'min',"),
 'M11_handler_no_deepcopy': (E, "        error = deepcopy(error)\n", "        error = error\n"),
 'M12_tree_no_children': (E, "                for child_error in error.child_errors:\n                    self.tree_root.add(child_error)", "                pass"),
 'M13_chain_no_break': (V, "                ):\n                    break\n            return result", "                ):\n                    pass\n            return result"),
 'M14_logical_no_update': (V, "if validator(self.document, update=self.update, normalize=False):", "if validator(self.document, normalize=False):"),
 'M15_purge_ignores_allow_unknown': (V, "if self.purge_unknown and not self.allow_unknown:", "if self.purge_unknown:"),
 'M16_root_doc_every_gen': (V, "            child_config['root_document'] = self.document\n            child_config['root_schema'] = self.schema\n", "            child_config['root_schema'] = self.schema\n        child_config['root_document'] = self.document\n"),
 'M17_no_is_normalized_reset': (V, "        if not self.is_child:\n            self._is_normalized = False\n", ""),
 'M18_type_drop_some': (V, "        self._error(field, errors.BAD_TYPE)\n        self._drop_remaining_rules()", "        self._error(field, errors.BAD_TYPE)\n        self._drop_remaining_rules('schema', 'items', 'keysrules', 'valuesrules', 'allof', 'anyof', 'noneof', 'oneof')"),
 'M19_setitem_no_validate': (S, "        value = self.expand({0: value})[0]\n        self.validate({key: value})\n", "        value = self.expand({0: value})[0]\n"),
 'M20_default_for_nullable_none': (V, "                mapping[x] is None  # noqa: W503\n                and not schema[x].get('nullable', False)\n", "                mapping[x] is None  # noqa: W503\n"),
}
def run(name):
    f, old, new = M[name]
    d = '/var/tmp/cerb_mut/' + name
    shutil.rmtree(d, ignore_errors=True)
    shutil.copytree(SRC, d, ignore=shutil.ignore_patterns('.git', '.benchmarks', '__pycache__', 'docs', 'artwork'))
    p = os.path.join(d, f); s = open(p).read()
    if s.count(old) != 1:
        shutil.rmtree(d); return name, 'PATTERN count=%d' % s.count(old)
    open(p, 'w').write(s.replace(old, new))
    env = dict(os.environ, PYTHONPATH=d, PYTHONDONTWRITEBYTECODE='1')
    r = subprocess.run(['/venv/bin/python', '-m', 'pytest', '-q', '-p', 'no:cacheprovider', 'cerberus/tests', '-q', '--timeout=300'], cwd=d, env=env, capture_output=True, text=True)
    chk = subprocess.run(['/venv/bin/python', '-c', 'import cerberus; print(cerberus.__file__)'], cwd=d, env=env, capture_output=True, text=True).stdout.strip()
    lines = [l for l in r.stdout.strip().splitlines() if l.strip()]
    failed = [l for l in lines if l.startswith('FAILED')]
    shutil.rmtree(d)
    return name, lines[-1:], [x.split('::')[-1][:50] for x in failed][:6], chk
names = sys.argv[1:] or sorted(M)
with ThreadPoolExecutor(10) as ex:
    for res in ex.map(run, names): print(res, flush=True)
