import sys, threading, warnings
warnings.simplefilter('ignore')
import cerberus, cerberus.schema as S
from cerberus import Validator
assert 'SchemaValidator' not in vars(S)
pause_at = ('schema.py', 41)
a_paused = threading.Event(); a_resume = threading.Event()
res = {}
def tracer(frame, event, arg):
    if frame.f_code.co_filename.endswith('schema.py'):
        def local(frame, event, arg):
            if event == 'line' and frame.f_lineno == 41 and not a_paused.is_set():
                a_paused.set(); a_resume.wait()
            return local
        return local
    return None
def A():
    sys.settrace(tracer)
    try: Validator({'a': {'coerce': int}}); res['A'] = 'ok'
    except Exception as e: res['A'] = '%s: %s' % (type(e).__name__, e)
    sys.settrace(None)
def B():
    try: Validator({'a': {'coerce': int}}); res['B'] = 'ok'
    except Exception as e: res['B'] = '%s: %s' % (type(e).__name__, e)
ta = threading.Thread(target=A); ta.start(); a_paused.wait()
tb = threading.Thread(target=B); tb.start(); tb.join()
a_resume.set(); ta.join()
print(res)
