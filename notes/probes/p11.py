import warnings, traceback
warnings.simplefilter('ignore')
from cerberus import Validator
def t(name, f):
    try: print(name, '->', f())
    except Exception as e:
        tb = traceback.extract_tb(e.__traceback__); fr = [x for x in tb if 'cerberus' in x.filename][-1]
        print(name, 'RAISED', type(e).__name__, e, '@', fr.name, fr.lineno)
t('rename+handler', lambda: Validator({'a': {'rename': 'b', 'rename_handler': str.upper}}).normalized({'a': 1}))
t('rename-collision', lambda: Validator({'a': {'rename': 'b'}, 'b': {}}).normalized({'a': 1, 'b': 2}))
t('rename-to-known-then-default', lambda: Validator({'a': {'rename': 'b'}, 'b': {'coerce': str}}).normalized({'a': 1}))
t('items-norm-path', lambda: (lambda v: (v.normalized({'a': ['x']}, always_return_document=True), [(e.document_path, e.schema_path) for e in v._errors]))(Validator({'a': {'type':'list','items': [{'coerce': int}]}})))
t('unknown-seq-au-schema', lambda: Validator({}, allow_unknown={'type':'list','schema': {'coerce': str}}).normalized({'u': [1]}))
t('rename_handler-raises', lambda: (lambda v: (v.normalized({'a': 1}, always_return_document=True), v.errors))(Validator({'a': {'rename_handler': lambda k: 1/0}})))
t('default_setter-raises', lambda: (lambda v: (v.normalized({}, always_return_document=True), v.errors))(Validator({'a': {'default_setter': lambda d: 1/0}})))
