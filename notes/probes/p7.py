import warnings, traceback, copy
warnings.simplefilter('ignore')
from cerberus import Validator, SchemaError
def acc(schema, **kw):
    s = copy.deepcopy(schema)
    try:
        v = Validator(s, **kw); return 'accepted', dict(v.schema)
    except SchemaError as e: return 'rejected', str(e)[:120]
    except Exception as e: return 'RAISED %s %s' % (type(e).__name__, e)
Validator.clear_caches()
print(1, acc({'a': {'type':'list','schema': {'valueschema': {'type':'integer'}}}}))
print(2, acc({'a': {'type':'list','schema': {'valuesrules': {'type':'integer'}}}}))
print(3, acc({'a': {'type':'dict','allow_unknown': {'anyof_type': ['integer','string']}, 'schema': {}}}))
print(4, acc({'a': {'type':'dict','allow_unknown': {'anyof': [{'type':'integer'},{'type':'string'}]}, 'schema': {}}}))
print(5, acc({'a': {'type':'list','schema': {'type':'dict', 'schema': {'x': {'anyof_type': ['integer','string']}}}}}))
print(6, acc({'a': {'type':'list','items': [{'anyof_regex': ['a','b']}]}}))
print(7, acc({'a': {'oneof': [{'anyof_type': ['integer','string']}]}}))
print(8, acc({'a': {'type':'dict','keysrules': {'allof_regex': ['a','b']}}}))
print(9, acc({'a': {'anyof_check_with': ['x']}}))
print(10, acc({'a': {'type': 'dict', 'schema': {'b': {'validator': lambda f,v,e: None}}}}))
print(11, acc({}, allow_unknown={'anyof_type': ['integer','string']}))
print(12, acc({'a': {'type':'dict','valuesrules': {'type': 'dict', 'allow_unknown': {'keyschema': {'type':'string'}}}}}))
print(13, acc({'a': {'anyof type': ['integer']}}))
print(14, acc({'a': {'check with': lambda f,v,e: None, 'max length': 3}}))
# normalization crash with key equal to rule name
def t(name, schema, doc, **kw):
    try:
        v = Validator(schema); r = v.validate(doc, **kw); print(name, 'OK', r, v.errors)
    except Exception as e:
        tb = traceback.extract_tb(e.__traceback__)
        fr = [f for f in tb if 'cerberus' in f.filename][-1]
        print(name, 'RAISED', type(e).__name__, e, '@', fr.name, fr.lineno)
t('norm-listschema-on-dict', {'a': {'type':'list','schema': {'type':'integer'}}}, {'a': {'type': 1}})
t('norm-listschema-on-dict2', {'a': {'type':'list','schema': {'type':'integer'}}}, {'a': {'x': 1}})
t('norm-listschema-on-dict3', {'a': {'type':'list','schema': {'type':'integer', 'coerce': int}}}, {'a': {'coerce': 1}})
t('dep-none', {'a': {'dependencies': {'b': [None, 1]}}, 'b': {}}, {'a': 1})
t('empty-au', {}, {'u': 1}, )
v = Validator({}, allow_unknown={}); print('au={}', v.validate({'u': 1}), v.errors)
