import warnings, traceback, copy
warnings.simplefilter('ignore')
from cerberus import Validator, schema_registry, rules_set_registry, SchemaError, DocumentError
def acc(cls, schema, **kw):
    try:
        cls(copy.deepcopy(schema), **kw); return 'accepted'
    except SchemaError as e: return 'rejected'
    except Exception as e: return 'RAISED %s %s' % (type(e).__name__, e)
# C08 type-confusion
Validator.clear_caches()
print('cold required:1 ->', acc(Validator, {'a': {'required': 1}}))
print('required:True ->', acc(Validator, {'a': {'required': True}}))
print('warm required:1 ->', acc(Validator, {'a': {'required': 1}}))
Validator.clear_caches()
print('cold big ->', acc(Validator, {'a': {'required': 2**61-1}}))
print('required:False ->', acc(Validator, {'a': {'required': False}}))
print('warm big ->', acc(Validator, {'a': {'required': 2**61-1}}))
# context confusion
Validator.clear_caches()
print('cold coerce in anyof ->', acc(Validator, {'a': {'anyof': [{'coerce': 'x'}]}}))
Validator.clear_caches()
print('cold coerce in anyof fn ->', acc(Validator, {'a': {'anyof': [{'default': 1}]}}))
print('valuesrules default ->', acc(Validator, {'b': {'valuesrules': {'default': 1}}}))
print('warm default in anyof ->', acc(Validator, {'a': {'anyof': [{'default': 1}]}}))
# subclass leakage
Validator.clear_caches()
class My(Validator):
    def _validate_is_odd(self, c, f, v):
        """{'type': 'boolean'}"""
print('base cold is_odd ->', acc(Validator, {'a': {'is_odd': True}}))
print('sub is_odd ->', acc(My, {'a': {'is_odd': True}}))
print('base warm is_odd ->', acc(Validator, {'a': {'is_odd': True}}))
try:
    v = Validator({'a': {'is_odd': True}}); print(v.validate({'a': 1}))
except Exception as e: print('RAISED', type(e).__name__, e)
Validator.clear_caches()
# nested corruption
s = {'a': {'anyof': [{'type':'dict','valuesrules': {'type':'list','items': [{'type': 'intger'}]}}]}}
print('deep bad type ->', acc(Validator, s))
s = {'a': {'anyof': [{'type':'dict','valuesrules': {'type':'list','items': [{'bogus': 1}]}}]}}
print('deep unknown rule ->', acc(Validator, s))
s = {'a': {'type':'dict','schema': {'b': {'type':'list','schema': {'type':'dict','schema': {'c': {'minlength': 'x'}}}}}}}
print('deep bad constraint ->', acc(Validator, s))
s = {'a': {'type':'dict','keysrules': {'anyof': [{'rename': 'x'}]}}}
print('norm in anyof in keysrules ->', acc(Validator, s))
s = {'a': {'type':'dict','keysrules': {'rename': 'x'}}}
print('rename in keysrules ->', acc(Validator, s))
s = {'a': {'oneof': [{'anyof': [{'coerce': int}]}]}}
print('norm in nested of ->', acc(Validator, s))
s = {'a': {'oneof': [{'schema': {'x': {'coerce': int}}}]}}
print('norm in schema in of ->', acc(Validator, s))
s = {'a': 'nonexistent'}
print('dangling ruleset ref ->', acc(Validator, s))
s = {'a': {'schema': 'nonexistent'}}
print('dangling schema ref ->', acc(Validator, s))
s = {'a': {'valuesrules': 'nonexistent'}}
print('dangling valuesrules ref ->', acc(Validator, s))
s = {'a': {'items': ['nonexistent']}}
print('dangling items ref ->', acc(Validator, s))
s = {'a': {'anyof': ['nonexistent']}}
print('ref in anyof ->', acc(Validator, s))
rules_set_registry.add('ok', {'type': 'integer'})
s = {'a': {'anyof': ['ok']}}
print('good ref in anyof ->', acc(Validator, s))
print('allow_unknown dangling ->', acc(Validator, {}, allow_unknown='nonexistent'))
print('allow_unknown bad ->', acc(Validator, {}, allow_unknown={'type': 'foo'}))
print('allow_unknown rule bad ->', acc(Validator, {'a': {'allow_unknown': {'type': 'foo'}}}))
print('top-level ref dangling ->', acc(Validator, 'nonexistent'))
v = Validator({'a': {'type': 'integer'}})
for name, f in [('setitem', lambda: v.schema.__setitem__('b', {'type': 'foo'})), ('update', lambda: v.schema.update({'b': {'type': 'foo'}})), ('au', lambda: setattr(v, 'allow_unknown', {'type': 'foo'})), ('setter', lambda: setattr(v, 'schema', {'b': {'type': 'foo'}})), ('percall', lambda: v.validate({}, {'b': {'type':'foo'}}))]:
    try: f(); print(name, 'accepted')
    except SchemaError: print(name, 'rejected', dict(v.schema), v.allow_unknown)
