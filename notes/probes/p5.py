import warnings
warnings.simplefilter('ignore')
from cerberus import Validator
print(hash((-1,-2)) == hash((-2,-1)))
s = {-1: {'default_setter': lambda d: d[-2] + 1}, -2: {'default_setter': lambda d: d['c'] + 1}, 'c': {'default_setter': lambda d: 10}}
v = Validator(s)
print(v.normalized({}, always_return_document=True), v.errors)
s = {'a': {'default_setter': lambda d: d['b'] + 1}, 'b': {'default_setter': lambda d: d['c'] + 1}, 'c': {'default_setter': lambda d: 10}}
v = Validator(s)
print(v.normalized({}, always_return_document=True), v.errors)
