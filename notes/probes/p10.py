import warnings; warnings.simplefilter('ignore')
from cerberus import Validator, errors
from cerberus.validator import BareValidator
allrules = sorted(Validator.rules)
def probe_drops(rule, constraint, value, schema_rules=None):
    v = Validator({'f': schema_rules or {}})
    v.document = {'f': value}
    v._remaining_rules = list(allrules)
    ret = getattr(v, '_validate_' + rule)(constraint, 'f', value)
    return sorted(set(allrules) - set(v._remaining_rules)), [hex(e.code) for e in v._errors], ret
print('nullable/None', probe_drops('nullable', False, None))
print('nullable/5', probe_drops('nullable', False, 5))
print('empty/""', probe_drops('empty', True, ''))
print('empty/[] False', probe_drops('empty', False, [], {'empty': False}))
print('empty/"x"', probe_drops('empty', False, 'x'))
print('type/mismatch', probe_drops('type', 'integer', 'x', {'type': 'integer'}))
print('type/match', probe_drops('type', 'integer', 5, {'type': 'integer'}))
# which rules reach the queue: instrument validate_rule by wrapping _BareValidator__get_rule_handler
seen = []
class Spy(Validator):
    pass
orig = BareValidator._BareValidator__get_rule_handler
def spy(self, domain, rule):
    if domain == 'validate': seen.append(rule)
    return lambda *a, **k: None
Spy._BareValidator__get_rule_handler = spy
v = Spy.__new__(Spy); Validator.__init__(v)
v._schema = {'f': {r: None for r in allrules}}
v.document = {'f': 5}
v._BareValidator__validate_definitions({r: None for r in allrules}, 'f')
print('queue order', seen)
print('non-queue', sorted(set(allrules) - set(seen)))
# type table
reps = {'none': None, 'bool': True, 'int': 5, 'float': 1.5, 'str': 'x', 'list': [1], 'tuple': (1,), 'dict': {}, 'fn': len}
for t, td in sorted(Validator.types_mapping.items()):
    print(t, {k: (isinstance(x, td.included_types) and not isinstance(x, td.excluded_types)) for k, x in reps.items()})
print({n: (d.code, d.rule) for n, d in vars(errors).items() if isinstance(d, errors.ErrorDefinition)})
