import warnings, traceback, copy
warnings.simplefilter('ignore')
from cerberus import Validator, schema_registry, rules_set_registry, SchemaError, DocumentError
def run(name, f):
    try:
        print(name, '->', f())
    except Exception as e:
        tb = traceback.extract_tb(e.__traceback__)
        fr = [f for f in tb if 'cerberus' in f.filename][-1]
        print(name, 'RAISED', type(e).__name__, str(e)[:100], '@', fr.name, fr.lineno)
def keys(errs):
    return sorted((e.document_path, e.schema_path, e.code, tuple(keys(e.child_errors)) if e.child_errors else ()) for e in errs)

# C07: history. normalized() then validate(normalize=False) with readonly
v = Validator({'a': {'readonly': True}})
fresh = Validator({'a': {'readonly': True}})
v.normalized({'a': 1})
print('C07 after normalized: ', v.validate({'a': 1}, normalize=False), 'fresh:', fresh.validate({'a': 1}, normalize=False))
v = Validator({'a': {'readonly': True}})
v.validate({'a': 1})
print('C07 after validate: ', v.validate({'a': 1}, normalize=False), v.errors)
# normalized() after validate(update=True)?
v = Validator({'a': {'required': True}, 'b': {}})
v.validate({'b': 1}, update=True)
print('update leak into validated?', v.validate({'b': 1}))
# _unrequired_by_excludes only set in validate; normalized doesn't use.
# DocumentError then probe
v = Validator({'a': {'type': 'integer'}})
try: v.validate(5)
except DocumentError as e: print('docerr')
print('after docerr', v.validate({'a': 1}), v.errors, v.document)
# SchemaError per-call then probe
v = Validator({'a': {'type': 'integer'}})
try: v.validate({'a': 1}, {'a': {'type': 'foo'}})
except SchemaError as e: print('schemaerr')
print('after schemaerr', v.validate({'a': 's'}), v.errors, dict(v.schema))
# per-call schema replaces schema (documented)
v = Validator({'a': {'type': 'integer'}})
v.validate({'a': 's'}, {'a': {'type': 'string'}})
print('after per-call schema', v.validate({'a': 's'}), dict(v.schema))
# is_normalized leak: validate(normalize=True) then validate(normalize=False) with readonly
v = Validator({'a': {'readonly': True, 'type':'integer'}})
print(v.validate({'a': 1}), keys(v._errors))
print(v.validate({'a': 1}, normalize=False), keys(v._errors))
print(v.validate({'a': 1}), keys(v._errors))
# child readonly with normalized marker
v = Validator({'s': {'type':'dict','schema': {'a': {'readonly': True}}}})
print('child ro', v.validate({'s': {'a': 1}}), keys(v._errors))
print('child ro nonorm', v.validate({'s': {'a': 1}}, normalize=False), keys(v._errors))
print('child ro', v.validate({'s': {'a': 1}}), keys(v._errors))

# C06: validate vs normalized + validate(normalize=False)
v = Validator({'a': {'coerce': int, 'type': 'integer'}, 'b': {'default': 1}})
print(v.validate({'a': 'x'}), keys(v._errors), v.document)
n = v.normalized({'a': 'x'}, always_return_document=True); ne = keys(v._errors)
print(n, ne); print(v.validate(n, normalize=False), keys(v._errors))
# errors property twice
v = Validator({'a': {'anyof': [{'type': 'integer'}, {'type': 'string'}]}})
v.validate({'a': 1.0}); e1 = v.errors; e2 = v.errors; print(e1 == e2, e1)
