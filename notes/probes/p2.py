import warnings, traceback, copy
warnings.simplefilter('ignore')
from cerberus import Validator, schema_registry, rules_set_registry
def run(name, f):
    try:
        print(name, '->', f())
    except Exception as e:
        tb = traceback.extract_tb(e.__traceback__)
        fr = [f for f in tb if 'cerberus' in f.filename][-1]
        print(name, 'RAISED', type(e).__name__, e, '@', fr.name, fr.lineno)

# C02: allow_unknown coercer applied to known fields
v = Validator({'k': {'type': 'string'}}, allow_unknown={'coerce': int})
run('au-coerce-known', lambda: (v.normalized({'k': '5', 'u': '6'}, always_return_document=True)))
# C05: keysrules normalization rewrites input in place
v = Validator({'a': {'type': 'dict', 'keysrules': {'coerce': str}}})
d = {'a': {1: 'x'}}
run('keysrules-inplace', lambda: (v.normalized(d), d))
# valuesrules nested
v = Validator({'a': {'type': 'dict', 'valuesrules': {'coerce': str}}})
d = {'a': {1: 5}}
run('valuesrules', lambda: (v.normalized(d), d))
# dict schema nested deeper
v = Validator({'a': {'type': 'dict', 'schema': {'b': {'type':'dict', 'schema': {'c': {'coerce': str}}}}}})
d = {'a': {'b': {'c': 5}}}
run('nested2', lambda: (v.normalized(d), d))
# list schema
v = Validator({'a': {'type': 'list', 'schema': {'coerce': str}}})
d = {'a': [1, 2]}
run('listschema', lambda: (v.normalized(d), d))
# items
v = Validator({'a': {'type': 'list', 'items': [{'coerce': str}]}})
d = {'a': [1]}
run('items', lambda: (v.normalized(d), d))
# list of dicts with rename inside
v = Validator({'a': {'type': 'list', 'schema': {'type': 'dict', 'schema': {'x': {'rename': 'y'}}}}})
d = {'a': [{'x': 1}]}
run('list-dict-rename', lambda: (v.normalized(d), d))
# keysrules under valuesrules
v = Validator({'a': {'type': 'dict', 'valuesrules': {'type': 'dict', 'keysrules': {'coerce': str}}}})
d = {'a': {'p': {1: 2}}}
run('vr-kr', lambda: (v.normalized(d), d))
# default value aliasing: mutable default shared with schema
v = Validator({'a': {'type': 'list', 'default': [], 'schema': {'coerce': str}}, })
r1 = v.normalized({})
r1['a'].append(1)
run('default-alias', lambda: (v.normalized({}), v.schema['a']['default']))
# default dict with nested schema normalization
v = Validator({'a': {'type': 'dict', 'default': {'k': 1}, 'keysrules': {'coerce': lambda s: s.upper()}}})
run('default-keysrules', lambda: (v.normalized({}), v.schema['a']['default']))
run('default-keysrules-again', lambda: (v.normalized({}), v.schema['a']['default']))
# normalize=False: document equals input and distinct
v = Validator({'a': {}})
d = {'a': 1}
v.validate(d, normalize=False)
print('distinct', v.document is not d, v.document == d)
# allow_unknown mapping with schema: unknown dict normalization
v = Validator({}, allow_unknown={'type':'dict','schema': {'x': {'coerce': str}}})
d = {'u': {'x': 1}}
run('au-schema', lambda: (v.normalized(d), d))
# purge_unknown in subdoc
v = Validator({'a': {'type':'dict','schema': {'x': {}}}}, purge_unknown=True)
d = {'a': {'x': 1, 'y': 2}, 'z': 1}
run('purge', lambda: (v.normalized(d), d))
# tuple preservation
v = Validator({'a': {'type':'list','schema': {'coerce': str}}})
run('tuple', lambda: v.normalized({'a': (1,2)}))
