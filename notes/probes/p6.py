import warnings, traceback
warnings.simplefilter('ignore')
from cerberus import Validator
def show(errs, ind=0):
    for e in errs:
        print(' '*ind, e.document_path, e.schema_path, hex(e.code), e.rule, repr(e.constraint)[:40], repr(e.value)[:30], (e.info[1:] if e.is_group_error else e.info))
        if e.child_errors: show(e.child_errors, ind+3)
def t(name, schema, doc, **kw):
    print('==', name)
    try:
        v = Validator(schema); r = v.validate(doc, **kw); show(v._errors)
        try: print('  errors:', v.errors)
        except Exception as e: print('  errors RAISED', type(e).__name__, e)
        for e in v._errors:
            if e.is_logic_error:
                try: print('  deferr', dict(e.definitions_errors).keys())
                except Exception as ex: print('  deferr RAISED', type(ex).__name__, ex)
        return v
    except Exception as e:
        traceback.print_exc()
t('of-in-keysrules', {'a': {'type':'dict','keysrules': {'anyof': [{'type':'integer'},{'type':'string','regex':'x+'}]}}}, {'a': {'k': 1}})
t('of-in-valuesrules', {'a': {'type':'dict','valuesrules': {'anyof': [{'type':'integer'},{'type':'string','regex':'x+'}]}}}, {'a': {'k': 1.5}})
t('of-in-listschema', {'a': {'type':'list','schema': {'oneof': [{'type':'integer'},{'type':'number'}]}}}, {'a': [1, 's']})
t('of-in-items', {'a': {'type':'list','items': [{'noneof': [{'type':'integer'}]}]}}, {'a': [1]})
t('schema-in-of', {'a': {'anyof': [{'type':'dict','schema': {'x': {'type':'integer'}}}, {'type':'list','schema': {'type':'integer'}}]}}, {'a': {'x': 's'}})
t('of-in-of', {'a': {'anyof': [{'allof': [{'type':'integer'},{'min': 5}]}, {'type':'string'}]}}, {'a': 1})
t('required-nested', {'a': {'type':'dict','schema': {'x': {'required': True}}}}, {'a': {}})
t('require_all', {'a': {'type':'dict','require_all': True, 'schema': {'x': {}}}}, {'a': {}})
t('unknown-nested', {'a': {'type':'dict','schema': {}}}, {'a': {'u': 1}})
v = t('au-schema', {}, {'u': 1})
v = Validator({}, allow_unknown={'type': 'string'}); v.validate({'u': 1}); show(v._errors); print(v.errors)
v = Validator({'s': {'type':'dict','schema': {}}}, allow_unknown={'type': 'string'}); v.validate({'s': {'u': 1}}); show(v._errors); print(v.errors)
