"""Throwaway design probe: random schemas/documents against the real cerberus,
checking the relations of C05, C06, C07, C10, C11, C13 directly. Not framework code."""
import random, copy, sys, warnings, traceback, collections
warnings.simplefilter('ignore')
from cerberus import Validator, errors as E

R = random.Random(int(sys.argv[1]) if len(sys.argv) > 1 else 1)
N = int(sys.argv[2]) if len(sys.argv) > 2 else 3000
FIELDS = ['a', 'b', 'c', 'd', 1, 2]
TYPES = ['integer', 'string', 'float', 'number', 'boolean', 'list', 'dict']

def scalar():
    return R.choice([None, True, False, 0, 1, 5, -3, 1.5, 2.0, '', 'x', 'abc', 'A1'])

def value(d):
    r = R.random()
    if d <= 0 or r < 0.5: return scalar()
    if r < 0.75: return [value(d - 1) for _ in range(R.randint(0, 3))]
    return {R.choice(FIELDS): value(d - 1) for _ in range(R.randint(0, 3))}

def rules(d, norm=True, in_of=False):
    rs = {}
    t = R.choice(TYPES + [None, None])
    if t: rs['type'] = t
    if R.random() < 0.3: rs['nullable'] = R.random() < 0.7
    if R.random() < 0.25 and not in_of: rs['required'] = R.random() < 0.7
    if R.random() < 0.15: rs['empty'] = R.random() < 0.5
    if t in ('integer', 'float', 'number', None):
        if R.random() < 0.3: rs['min'] = R.choice([0, 1, 2.5])
        if R.random() < 0.3: rs['max'] = R.choice([1, 4, 10])
    if t in ('string', 'list', None):
        if R.random() < 0.2: rs['minlength'] = R.randint(0, 2)
        if R.random() < 0.2: rs['maxlength'] = R.randint(1, 3)
    if t in ('string', None) and R.random() < 0.2: rs['regex'] = R.choice(['[a-z]+', 'x', 'A\\d'])
    if R.random() < 0.15: rs['allowed'] = R.choice([[0, 1, 'x'], ['abc', 5], [1.5, None]])
    if R.random() < 0.1: rs['forbidden'] = R.choice([[0, 'x'], [5]])
    if R.random() < 0.1: rs['dependencies'] = R.choice(['a', ['a', 'b'], {'a': [1, 'x']}, '^a', 'c.a'])
    if R.random() < 0.08: rs['excludes'] = R.choice(['a', 'b', ['a', 'c']])
    if d > 0:
        if t == 'dict':
            r = R.random()
            if r < 0.5:
                rs['schema'] = schema(d - 1, norm)
                if R.random() < 0.3: rs['allow_unknown'] = R.random() < 0.5
                if R.random() < 0.2: rs['require_all'] = R.random() < 0.5
            elif r < 0.7: rs['valuesrules'] = rules(d - 1, norm)
            elif r < 0.8: rs['keysrules'] = {'type': 'string', 'regex': '[a-c]'}
        if t == 'list':
            r = R.random()
            if r < 0.5: rs['schema'] = rules(d - 1, norm)
            elif r < 0.7: rs['items'] = [rules(d - 1, norm) for _ in range(R.randint(1, 2))]
        if R.random() < 0.2:
            op = R.choice(['anyof', 'allof', 'noneof', 'oneof'])
            rs[op] = [rules(d - 1, norm=False, in_of=True) for _ in range(R.randint(0, 3))]
    if norm and not in_of:
        if R.random() < 0.1: rs['default'] = scalar()
        if R.random() < 0.1: rs['coerce'] = R.choice([int, str, (str, int)])
        if R.random() < 0.05: rs['rename'] = R.choice(FIELDS)
        if R.random() < 0.05: rs['readonly'] = True
    return rs

def schema(d, norm=True):
    return {f: rules(d, norm) for f in R.sample(FIELDS, R.randint(1, 4))}

def keyof(e):
    return (e.document_path, e.schema_path if isinstance(e.schema_path, tuple) else ('<str>', e.schema_path), e.code,
            tuple(sorted((keyof(c) for c in e.child_errors), key=repr)) if e.child_errors else ())
def keys(errs): return sorted((keyof(e) for e in errs), key=repr)
def flat(errs):
    for e in errs:
        yield e
        if e.child_errors: yield from flat(e.child_errors)
def has_readonly(s):
    if isinstance(s, dict):
        return 'readonly' in s or any(has_readonly(v) for v in s.values())
    if isinstance(s, (list, tuple)): return any(has_readonly(v) for v in s)
    return False

stats = collections.Counter(); found = collections.OrderedDict()
def report(kind, detail):
    stats[kind] += 1
    if kind not in found or len(repr(detail)) < len(repr(found[kind])): found[kind] = detail

for i in range(N):
    s = schema(2); cfg = dict(allow_unknown=R.random() < 0.3, require_all=R.random() < 0.2,
                              ignore_none_values=R.random() < 0.2, purge_unknown=R.random() < 0.2)
    upd = R.random() < 0.3
    try: v = Validator(copy.deepcopy(s), **cfg)
    except Exception as e: stats['schema-rejected:' + type(e).__name__] += 1; continue
    d = {f: value(2) for f in R.sample(FIELDS, R.randint(0, 4))}
    d0 = copy.deepcopy(d); sch0 = copy.deepcopy(dict(v.schema))
    try:
        r = v.validate(d, update=upd)
    except Exception as e:
        fr = [f for f in traceback.extract_tb(e.__traceback__) if 'cerberus' in f.filename][-1]
        report('RAISE %s@%s' % (type(e).__name__, fr.name), (s, cfg, d)); continue
    stats['valid' if r else 'invalid'] += 1
    ek = keys(v._errors); doc1 = copy.deepcopy(v.document)
    # C05
    if d != d0: report('C05 doc mutated', (s, d0, d))
    if dict(v.schema) != sch0: report('C05 schema mutated', (s, d0))
    # C13 purity / twice
    e1 = v.errors; e2 = v.errors
    if e1 != e2 or keys(v._errors) != ek: report('C13 impure', (s, d0))
    if bool(e1) != bool(v._errors): report('C13 empty mismatch', (s, d0, e1))
    tops = set(e.document_path[0] for e in v._errors)
    if set(e1) != tops: report('C13 keys', (s, d0, e1, tops))
    # C11
    for tree, attr in ((v.document_error_tree, 'document_path'), (v.schema_error_tree, 'schema_path')):
        for e in flat(v._errors):
            if e not in list(tree.fetch_errors_from(getattr(e, attr))): report('C11 missing in tree ' + attr, (s, d0, keyof(e)))
        def walk(node, n=0):
            n += len(node.errors)
            for k, ch in node.descendants.items(): n = walk(ch, n)
            return n
        if walk(tree) != len(list(flat(v._errors))): report('C11 count ' + attr, (s, d0))
    if bool(v._errors) == r: report('C06 verdict', (s, d0))
    # C07: same call on a fresh instance, and after a different history on this one
    f = Validator(copy.deepcopy(s), **cfg)
    try:
        f.validate({'zz': [1, {'q': None}]}, update=not upd); f.normalized(copy.deepcopy(d0));
        try: f.validate(5)
        except Exception: pass
        r2 = f.validate(copy.deepcopy(d0), update=upd)
        if (r2, keys(f._errors), f.document) != (r, ek, doc1): report('C07 history', (s, cfg, d0, ek, keys(f._errors)))
    except Exception as e:
        report('C07 RAISE ' + type(e).__name__, (s, d0))
    # C06 decomposition
    if not has_readonly(s):
        g = Validator(copy.deepcopy(s), **cfg)
        try:
            n = g.normalized(copy.deepcopy(d0), always_return_document=True); nk = keys(g._errors)
            r3 = g.validate(copy.deepcopy(n), update=upd, normalize=False); vk = keys(g._errors)
            if sorted(nk + vk, key=repr) != ek or g.document != doc1: report('C06 decompose', (s, cfg, upd, d0, ek, nk, vk))
        except Exception as e:
            report('C06 RAISE ' + type(e).__name__, (s, d0))
    # C10: dict-schema children vs standalone
    for e in v._errors:
        if e.code == E.MAPPING_SCHEMA.code and len(e.document_path) == 1:
            fld = e.document_path[0]; fr = v.schema[fld]
            sub = Validator(copy.deepcopy(fr['schema']), **dict(cfg, allow_unknown=fr.get('allow_unknown', cfg['allow_unknown']),
                                                               require_all=fr.get('require_all', cfg['require_all'])))
            uses_root = '^' in repr(fr['schema'])
            try:
                sub.validate(copy.deepcopy(doc1[fld]), update=upd, normalize=False)
                def strip(k): return (k[0][1:], k[1][2:] if k[1][0] != '<str>' else k[1], k[2], tuple(strip(c) for c in k[3]))
                if not uses_root and sorted((strip(keyof(c)) for c in e.child_errors), key=repr) != keys(sub._errors):
                    report('C10 dict child', (s, cfg, d0, fld, [strip(keyof(c)) for c in e.child_errors], keys(sub._errors)))
            except Exception as ex:
                report('C10 RAISE ' + type(ex).__name__, (s, d0))
print(dict(stats))
for k, v_ in found.items(): print('==', k, '\n  ', repr(v_)[:700])
