import time, warnings, random
warnings.simplefilter('ignore')
from cerberus import Validator
s = {'a': {'type':'dict','schema': {'b': {'type':'list','schema': {'type':'integer','min': 0}}, 'c': {'anyof': [{'type':'string','regex':'x+'},{'type':'integer'}]}}}, 'd': {'type':'string','required': True}}
d = {'a': {'b': [1,2,-3], 'c': 1.5}, 'e': 1}
t=time.time()
for i in range(200): Validator.clear_caches(); v = Validator(s)
print('construct cold ms', (time.time()-t)/200*1000)
t=time.time()
for i in range(200): v = Validator(s)
print('construct warm ms', (time.time()-t)/200*1000)
t=time.time()
for i in range(2000): v.validate(d)
print('validate ms', (time.time()-t)/2000*1000)
