"""Hand-written cases that run before the generated ones in every case stream: rarely hit
paths (warnings, key collisions, mutable defaults, deep overrides, foreign names) and the
minimised triggers of past failures.  Each entry: schema, document, configuration, flags;
`norm` = the case has normalization rules (streams of validation-only profiles skip it)."""
from . import families as F

_setter_const = F.make_setter({'kind': 'const', 'v': 1})

CORPUS = [
    # key normalization: colliding keys below a list index / an integer field (the warning is built from the path)
    dict(schema={'a': {'type': 'list', 'schema': {'type': 'dict', 'keysrules': {'coerce': F.c_str}}}},
         doc={'a': [{1: 'x', '1': 'y'}]}, norm=True),
    dict(schema={1: {'type': 'dict', 'keysrules': {'type': 'string', 'coerce': F.c_key}}},
         doc={1: {'a': 1, 'a_k': 2}}, norm=True),
    # keys and values rules on one mapping, both normalizing
    dict(schema={'m': {'type': 'dict', 'keysrules': {'coerce': F.c_key}, 'valuesrules': {'coerce': F.c_int, 'type': 'integer'}}},
         doc={'m': {'a': '1', 'b': 2}}, norm=True),
    dict(schema={'m': {'type': 'dict', 'keysrules': {'type': 'string'}, 'valuesrules': {'default': 5, 'nullable': True, 'coerce': F.c_str}}},
         doc={'m': {'a': 1, 'b': None}}, norm=True),
    # allow_unknown overridden at a middle level only; unknown fields three levels down
    dict(schema={'l1': {'type': 'dict', 'allow_unknown': {'type': 'string', 'coerce': F.c_str},
                        'schema': {'l2': {'type': 'dict', 'schema': {'l3': {'type': 'dict', 'schema': {'k': {'type': 'integer'}}}}}}}},
         doc={'l1': {'u': 1, 'l2': {'u': 2, 'l3': {'k': 1, 'u': 3}}}, 'u': 4}, cfg={'purge_unknown': True}, norm=True),
    dict(schema={'l1': {'type': 'dict', 'allow_unknown': True,
                        'schema': {'l2': {'type': 'dict', 'schema': {'l3': {'type': 'dict', 'schema': {'k': {'type': 'integer'}}}}}}}},
         doc={'l1': {'u': 1, 'l2': {'u': 2, 'l3': {'k': 1, 'u': 3}}}}, cfg={'allow_unknown': False}, norm=False),
    # a required field that excludes a field the schema does not define
    dict(schema={'a': {'required': True, 'excludes': 'b'}}, doc={'a': None}, norm=False),
    dict(schema={'a': {'required': True, 'excludes': ['b', 'c']}, 'c': {'required': True, 'excludes': 'a'}}, doc={'b': None, 'a': None},
         cfg={'ignore_none_values': True}, norm=False),
    # mutually exclusive required fields: the bookkeeping of `excludes` must not outlive a call
    dict(schema={'a': {'required': True, 'excludes': 'b', 'type': 'integer'}, 'b': {'required': True, 'excludes': 'a'},
                 'c': {'required': True}},
         doc={'a': 1}, update=True, norm=False),
    dict(schema={'a': {'excludes': ['b', 'c']}, 'b': {'excludes': 'a'}, 'c': {}}, doc={'b': 1, 'c': 2},
         cfg={'require_all': True}, norm=False),
    # a mutable default that key normalization works on, with a non-idempotent key coercer
    dict(schema={'cfg': {'type': 'dict', 'default': {'a': 1, 'b': 2}, 'keysrules': {'coerce': F.c_key, 'regex': '[a-z]_k'}}},
         doc={}, norm=True),
    dict(schema={'cfg': {'type': 'dict', 'default': {'a': {'b': 1}}, 'valuesrules': {'type': 'dict', 'keysrules': {'coerce': F.c_key}}}},
         doc={}, norm=True),
    # defaults and setters whose required-ness matters after normalization
    dict(schema={'a': {'required': True, 'default': 1}, 'b': {'required': True, 'default_setter': _setter_const},
                 'c': {'required': True, 'rename': 'd'}, 'd': {'required': True}},
         doc={'c': 5}, norm=True),
    dict(schema={'a': {'default_setter': F.make_setter({'kind': 'raise'})}, 'b': {'default_setter': F.make_setter({'kind': 'keyerr'})}},
         doc={}, norm=True),
    # *of definitions inheriting allow_unknown / type from the field
    dict(schema={'d': {'type': 'dict', 'allow_unknown': True, 'anyof': [{'schema': {'x': {'type': 'integer'}}}, {'schema': {'y': {'type': 'string'}}}]}},
         doc={'d': {'x': 1, 'other': 2}}, norm=False),
    dict(schema={'d': {'type': 'dict', 'allow_unknown': False, 'oneof': [{'schema': {'x': {'type': 'integer'}}}, {'maxlength': 5}]}},
         doc={'d': {'x': 1, 'other': 2}}, cfg={'allow_unknown': True}, norm=False),
    # an *of rule inside a sub-document whose allow_unknown differs from the root's; neither field nor definition sets it
    dict(schema={'outer': {'type': 'dict', 'allow_unknown': True,
                           'schema': {'inner': {'anyof': [{'type': 'dict', 'schema': {'x': {'type': 'integer'}}}, {'type': 'string'}]}}}},
         doc={'outer': {'inner': {'x': 1, 'extra': 2}}}, norm=False),
    dict(schema={'outer': {'type': 'dict', 'allow_unknown': False,
                           'schema': {'inner': {'noneof': [{'type': 'dict', 'schema': {'x': {'type': 'integer'}}}, {'type': 'string'}],
                                                'type': 'dict'}}}},
         doc={'outer': {'inner': {'x': 1, 'extra': 2}}}, cfg={'allow_unknown': True}, norm=False),
    # update flag reaching every child, None values ignored
    dict(schema={'m': {'type': 'dict', 'valuesrules': {'type': 'dict', 'schema': {'r': {'required': True}, 's': {'type': 'integer'}}}},
                 'l': {'type': 'list', 'schema': {'type': 'dict', 'require_all': True, 'schema': {'p': {}, 'q': {}}}},
                 'o': {'anyof': [{'type': 'dict', 'schema': {'z': {'required': True}}}, {'type': 'string'}]}},
         doc={'m': {'k': {'s': 1, 'r': None}}, 'l': [{'p': 1, 'q': None}], 'o': {'z': None}}, cfg={'ignore_none_values': True},
         update=True, norm=False),
    # check_with / coerce given as lists with named methods
    dict(schema={'a': {'check_with': [F.k_odd, F.k_two], 'coerce': [F.c_int, F.c_inc]}, 'b': {'type': 'list', 'schema': {'check_with': F.k_odd}}},
         doc={'a': '2', 'b': [1, 2, 3]}, norm=True),
    # an *of error without definition errors (noneof with a validating definition, oneof with two) as the only error,
    # beneath a list schema / a mapping schema / valuesrules / items
    dict(schema={'a': {'type': 'list', 'schema': {'noneof': [{'type': 'integer'}]}}}, doc={'a': [1]}, norm=False),
    dict(schema={'a': {'type': 'dict', 'schema': {'b': {'oneof': [{'type': 'integer'}, {'min': 0}]}}}}, doc={'a': {'b': 1}}, norm=False),
    dict(schema={'a': {'type': 'dict', 'valuesrules': {'noneof': [{'type': 'string'}, {'type': 'integer'}]}}}, doc={'a': {'k': 's'}},
         norm=False),
    dict(schema={'a': {'type': 'list', 'items': [{'oneof': [{'type': 'number'}, {'type': 'integer'}]}, {'type': 'string'}]}},
         doc={'a': [1, 'x']}, norm=False),
    dict(schema={'a': {'type': 'list', 'schema': {'type': 'dict', 'schema': {'b': {'noneof': [{'allowed': [1, 2]}]}}}}},
         doc={'a': [{'b': 1}, {'b': 3}]}, norm=False),
    # an empty mapping under `empty` and a schema with required fields (required / require_all of the field / of the validator)
    dict(schema={'a': {'type': 'dict', 'empty': True, 'schema': {'b': {'required': True}, 'c': {}}}}, doc={'a': {}}, norm=False),
    dict(schema={'a': {'type': 'dict', 'empty': False, 'require_all': True, 'schema': {'b': {}, 'c': {}}}}, doc={'a': {}}, norm=False),
    dict(schema={'a': {'type': 'dict', 'empty': True, 'schema': {'b': {}}}, 'l': {'type': 'list', 'empty': True, 'schema': {'type': 'integer'}}},
         doc={'a': {}, 'l': []}, cfg={'require_all': True}, norm=False),
    # rules whose place in the rule set must not matter: a checker written before `empty` (an empty value drops the checker)
    dict(schema={'a': {'check_with': F.k_fail, 'empty': False, 'type': 'string'}, 'b': {'check_with': F.k_fail, 'type': 'list', 'empty': True},
                 'c': {'check_with': [F.k_fail], 'minlength': 1, 'empty': False}, 'd': {'check_with': F.k_fail, 'regex': 'x+', 'empty': True},
                 'e': {'type': 'dict', 'schema': {'f': {'check_with': F.k_fail, 'empty': False}}}},
         doc={'a': '', 'b': [], 'c': '', 'd': '', 'e': {'f': []}}, norm=False),
    # `^^name`: a dependency on a field whose name starts with a caret, looked up in the *current* document
    dict(schema={'^a': {}, 'sub': {'type': 'dict', 'schema': {'^a': {'type': 'integer'}, 'x': {'dependencies': '^^a'},
                                                            'y': {'dependencies': {'^^a': [2, 3]}}}}},
         doc={'sub': {'x': 1, 'y': 1, '^a': 2}}, norm=False),
    dict(schema={'^a': {}, 'sub': {'type': 'dict', 'schema': {'^a': {'type': 'integer'}, 'x': {'dependencies': ['^^a']},
                                                            'y': {'dependencies': '^^a'}}},
                 'l': {'type': 'list', 'schema': {'type': 'dict', 'schema': {'^a': {}, 'z': {'dependencies': '^^a'}}}}},
         doc={'^a': 1, 'sub': {'x': 1, 'y': 2}, 'l': [{'z': 1}, {'z': 1, '^a': 0}]}, norm=False),
    # an *of rule inside a definition of another *of rule, with bulk rules (schema / items) in its own definitions
    dict(schema={'a': {'anyof': [{'type': 'dict', 'schema': {'b': {'anyof': [{'type': 'dict', 'schema': {'c': {'type': 'integer'}}},
                                                                             {'type': 'list', 'items': [{'type': 'string'}, {'min': 3}]}]}}},
                                 {'type': 'string'}]}},
         doc={'a': {'b': {'c': 'x'}}}, norm=False),
    dict(schema={'a': {'type': 'list', 'schema': {'oneof': [{'type': 'dict', 'schema': {'b': {'noneof': [{'type': 'list', 'items': [{'type': 'integer'}, {'type': 'integer'}]}]}}},
                                                            {'type': 'integer'}]}}},
         doc={'a': [{'b': [1, 2]}, {'b': ['x', 2]}, 'y']}, norm=False),
    # keysrules (validating only) beside normalizing valuesrules
    dict(schema={'m': {'type': 'dict', 'keysrules': {'type': 'string', 'regex': '[a-z]+'},
                       'valuesrules': {'type': 'integer', 'coerce': F.c_int, 'nullable': False, 'default': 0}}},
         doc={'m': {'a': '1', 'b': None, 'C': 'x'}}, norm=True),
    dict(schema={'m': {'type': 'dict', 'keysrules': {'type': 'string'},
                       'valuesrules': {'type': 'dict', 'schema': {'x': {'type': 'integer', 'coerce': F.c_int}, 'y': {'default': 1}}}}},
         doc={'m': {'a': {'x': '5'}, 'b': {'x': 'no', 'y': 2}}}, cfg={'purge_unknown': True}, norm=True),
]


def corpus_cases(norm_ok):
    out = []
    for k, c in enumerate(CORPUS):
        if c.get('norm') and not norm_ok:
            continue
        out.append((-(k + 1), {'schema': c['schema'], 'cfg': dict(c.get('cfg', {})), 'doc': c['doc'],
                               'update': c.get('update', False), 'cls': 'V', 'seed': 0, 'index': -(k + 1),
                               'profile': 'corpus'}))
    return out
