"""Running the real cerberus on a case, and (de)serialising cases for replays."""
import copy
import json
import warnings

import cerberus
from cerberus import Validator, schema_registry, rules_set_registry

from . import codec, families

warnings.simplefilter('ignore')


# --- case (de)serialisation ----------------------------------------------------

class FnTable(dict):
    def __missing__(self, name):
        if name in families.COERCERS:
            return families.COERCERS[name]
        if name in families.CHECKERS:
            return families.CHECKERS[name]
        if name.startswith('s:'):
            spec = json.loads(name[2:])
            f = families.make_setter(spec)
            self[name] = f
            return f
        raise KeyError(name)


FNS = FnTable()


def enc_case(case):
    j = {}
    for k, v in case.items():
        if k in ('schema', 'doc', 'cfg', 'regs', 'schemas', 'rules_sets', 'allow_unknown'):
            j[k] = codec.enc_val(v)
        else:
            j[k] = v
    return j


def dec_case(j):
    c = {}
    for k, v in j.items():
        if k in ('schema', 'doc', 'cfg', 'regs', 'schemas', 'rules_sets', 'allow_unknown'):
            c[k] = codec.dec_val(v, FNS)
        else:
            c[k] = v
    return c


# --- running -----------------------------------------------------------------------

def cls_of(case):
    return families.VValidator if case.get('cls') == 'VV' else Validator


def make_validator(case, schema=True):
    """a fresh validator for the case; the schema object is deep-copied first so
    that in-place expansion never leaks between runs"""
    cls = cls_of(case)
    cfg = copy.deepcopy(case.get('cfg', {}))
    if case.get('bound_registries'):
        # the definitions the schema refers to live in registries bound to this validator; the module-level
        # registries are empty, or hold *other* (empty) definitions under the same names (`decoys`)
        from cerberus.schema import RulesSetRegistry, SchemaRegistry
        rr, sr = RulesSetRegistry(), SchemaRegistry()
        for k, v in case.get('rules_sets', {}).items():
            rr.add(k, copy.deepcopy(v))
        for k, v in case.get('schemas', {}).items():
            sr.add(k, copy.deepcopy(v))
        schema_registry.clear()
        rules_set_registry.clear()
        if case.get('decoys'):
            for k, v in case.get('rules_sets', {}).items():
                # the same definition with another `type`: an error that comes from here names a constraint
                # that the validator's own definition does not have
                d = dict(copy.deepcopy(v)) if isinstance(v, dict) else {}
                d['type'] = 'string' if d.get('type') == 'boolean' else 'boolean'
                for r in ('schema', 'items', 'keysrules', 'valuesrules'):
                    d.pop(r, None)
                try:
                    rules_set_registry.add(k, d)
                except Exception:
                    rules_set_registry.add(k, {})
            for k in case.get('schemas', {}):
                schema_registry.add(k, {})
        cfg['rules_set_registry'], cfg['schema_registry'] = rr, sr
    if schema:
        return cls(copy.deepcopy(case['schema']), **cfg)
    return cls(**cfg)


class Outcome(object):
    """result of one processing call on the real code"""
    __slots__ = ('ret', 'exc', 'errors', 'document', 'v')

    def __init__(self):
        self.ret = None
        self.exc = None
        self.errors = None
        self.document = None
        self.v = None

    def exc_sig(self):
        return None if self.exc is None else exc_signature(self.exc)


def exc_signature(e):
    """(type name, innermost function inside cerberus)"""
    tb = e.__traceback__
    site = None
    while tb is not None:
        fn = tb.tb_frame.f_code.co_filename
        if '/cerberus/' in fn and '/tests/' not in fn:
            site = tb.tb_frame.f_code.co_name
        tb = tb.tb_next
    return (type(e).__name__, site)


def run_validate(case, normalize=False, v=None):
    o = Outcome()
    try:
        if v is None:
            v = make_validator(case)
        o.v = v
        o.ret = v.validate(copy.deepcopy(case['doc']), update=case.get('update', False), normalize=normalize)
        o.errors = list(v._errors)
        o.document = v.document
    except Exception as e:   # noqa
        o.exc = e
    return o


def run_normalized(case, v=None):
    o = Outcome()
    try:
        if v is None:
            v = make_validator(case)
        o.v = v
        o.ret = v.normalized(copy.deepcopy(case['doc']), always_return_document=True)
        o.errors = list(v._errors)
        o.document = v.document
    except Exception as e:   # noqa
        o.exc = e
    return o


def flatten(errs):
    out = []
    for e in errs:
        out.append(e)
        if codec.is_group(e):
            out.extend(flatten(e.info[0]))
    return out


def clear_global_state():
    Validator.clear_caches()
    schema_registry.clear()
    rules_set_registry.clear()
