"""Shared machinery of every check: extract → build → audit → correspond →
oracle → decide (DESIGN.md §5), evidence and replay files, known findings."""
import fcntl
import hashlib
import json
import os
import re
import subprocess
import sys
import time

ROOT = os.path.dirname(os.path.dirname(os.path.abspath(__file__)))
LEAN_DIR = os.path.join(ROOT, 'lean')
EVIDENCE_DIR = os.path.join(ROOT, 'evidence')
REPLAY_DIR = os.path.join(ROOT, 'replays')
FINDINGS = os.path.join(ROOT, 'findings', 'known_findings.json')
ALLOWED_AXIOMS = {'propext', 'Classical.choice', 'Quot.sound'}
FORBIDDEN_SRC = re.compile(r'\bsorry\b|\badmit\b|^\s*axiom\s|native_decide|bv_decide|implemented_by|\bunsafe\s|maxHeartbeats\s+0')

TRUSTED_BASE = [
    'Lean 4.33.0 kernel; axioms of each property theorem audited with #print axioms (subset of propext, Classical.choice, Quot.sound)',
    'harness/extract.py: tables regenerated from the live cerberus classes on this run',
    'correspondence harness: generator coverage (reported in this file), canonicaliser, JSON codec on both sides',
    'Lean model of Python primitives (Model/Value.lean): ==, <, hash-ability, in, len, set(), ABC membership on JSON-like values',
    'twin definitions of the callable family (harness/families.py <-> Model/Env.lean), validated by the correspondence itself',
]


class InfraError(Exception):
    """timeouts, missing tools … → exit 2, never a VIOLATION line"""


def sh(cmd, cwd=None, timeout=3600, env=None):
    p = subprocess.run(cmd, cwd=cwd, stdout=subprocess.PIPE, stderr=subprocess.STDOUT, text=True,
                       timeout=timeout, env=env)
    return p.returncode, p.stdout


class BuildLock(object):
    def __enter__(self):
        os.makedirs(os.path.join(LEAN_DIR, '.lake'), exist_ok=True)
        self.f = open(os.path.join(LEAN_DIR, '.lake', 'verif.lock'), 'w')
        fcntl.flock(self.f, fcntl.LOCK_EX)
        return self

    def __exit__(self, *a):
        fcntl.flock(self.f, fcntl.LOCK_UN)
        self.f.close()


def strip_comments(src):
    """remove /- … -/ (nested) and -- … comments"""
    out = []
    i, depth, n = 0, 0, len(src)
    while i < n:
        if src.startswith('/-', i):
            depth += 1
            i += 2
        elif depth and src.startswith('-/', i):
            depth -= 1
            i += 2
        elif depth:
            i += 1
        elif src.startswith('--', i):
            j = src.find('\n', i)
            i = n if j < 0 else j
        else:
            out.append(src[i])
            i += 1
    return ''.join(out)


class Check(object):
    def __init__(self, pid, tier, seed):
        self.pid = pid
        self.tier = tier
        self.seed = seed
        self.t0 = time.time()
        self.broken = []          # [(kind, name, detail)] obligations / ports that no longer check
        self.failures = []        # concrete failing inputs of the property on the real code
        self.known_hits = {}      # finding id -> what
        self.obligations = []     # theorem names
        self.discharged = []
        self.axioms = {}
        self.cov = {'evaluations': 0, 'distinct_nontrivial': 0, 'samples': [], 'rule': '',
                    'distribution': {}, 'ports': {}, 'out_of_domain': 0}
        self._distinct = set()
        self.assumptions = []
        self.notes = []
        self.driver_ok = False
        self.findings = self._load_findings()

    # ------------------------------------------------------------------ findings
    def _load_findings(self):
        try:
            with open(FINDINGS) as f:
                return [x for x in json.load(f)['findings'] if x.get('property') == self.pid
                        or self.pid in x.get('properties', [])]
        except FileNotFoundError:
            return []

    def known_entries(self):
        return [f for f in self.findings if f.get('status') == 'known']

    # ------------------------------------------------------------------ lean side
    def extract(self):
        from . import extract
        try:
            changed = extract.run()
            self.notes.append('extract: tables %s' % ('changed' if changed else 'unchanged'))
        except Exception as e:   # extraction itself broke: an obligation that no longer checks
            self.broken.append(('extract', 'harness/extract.py', repr(e)[:500]))

    def build(self, targets=None):
        """lake build of this property's modules and the driver"""
        targets = targets or ['Cerberus.Props.%s' % self.pid]
        with BuildLock():
            rc, out = sh(['lake', 'build', 'driver'], cwd=LEAN_DIR, timeout=1800)
            self.driver_ok = rc == 0
            if rc != 0:
                self.broken.append(('build', 'driver', out[-1500:]))
            for t in targets:
                rc, out = sh(['lake', 'build', t], cwd=LEAN_DIR, timeout=3000)
                if rc != 0:
                    names = sorted(set(re.findall(r'error: .*?(C\d\d_\w+|Extracted\.\w+|\w+\.lean:\d+)', out)))
                    self.broken.append(('build', t, (', '.join(names) + '\n' + out[-1500:])))

    def theorem_names(self):
        p = os.path.join(LEAN_DIR, 'Cerberus', 'Props', self.pid + '.lean')
        try:
            src = strip_comments(open(p).read())
        except FileNotFoundError:
            return []
        return re.findall(r'^\s*theorem\s+(%s_\w+)' % self.pid, src, flags=re.M)

    def audit(self):
        """#print axioms for every theorem of Props/<pid>.lean; grep of the sources"""
        names = self.theorem_names()
        self.obligations = names
        if not names:
            self.broken.append(('audit', 'Props/%s.lean' % self.pid, 'no theorems found'))
            return
        os.makedirs(os.path.join(LEAN_DIR, 'Audit'), exist_ok=True)
        apath = os.path.join(LEAN_DIR, 'Audit', self.pid + '.lean')
        with open(apath, 'w') as f:
            f.write('import Cerberus.Props.%s\nopen Cerberus\n' % self.pid)
            for n in names:
                f.write('#print axioms Cerberus.%s\n' % n)
        with BuildLock():
            rc, out = sh(['lake', 'env', 'lean', apath], cwd=LEAN_DIR, timeout=1800)
        cur = None
        for line in out.splitlines():
            m = re.match(r"'Cerberus\.(\w+)' depends on axioms: \[(.*)", line)
            m0 = re.match(r"'Cerberus\.(\w+)' does not depend on any axioms", line)
            if m0:
                self.axioms[m0.group(1)] = []
                cur = None
            elif m:
                cur = m.group(1)
                self.axioms[cur] = [a.strip(' ]') for a in m.group(2).split(',') if a.strip(' ]')]
                if ']' in line:
                    cur = None
            elif cur:
                self.axioms[cur] += [a.strip(' ]') for a in line.split(',') if a.strip(' ]')]
                if ']' in line:
                    cur = None
        for n in names:
            ax = self.axioms.get(n)
            if ax is None:
                self.broken.append(('audit', n, 'theorem not found in the compiled environment'))
            elif not set(ax) <= ALLOWED_AXIOMS:
                self.broken.append(('audit', n, 'axioms %s' % ax))
            else:
                self.discharged.append(n)
        # source grep over the whole lean tree (comments stripped)
        for dp, dn, fn in os.walk(os.path.join(LEAN_DIR, 'Cerberus')):
            for x in fn:
                if x.endswith('.lean'):
                    src = strip_comments(open(os.path.join(dp, x)).read())
                    for i, line in enumerate(src.splitlines()):
                        if FORBIDDEN_SRC.search(line):
                            self.broken.append(('audit', x, 'forbidden construct: %s' % line.strip()[:120]))

    def leanchecker(self, modules):
        with BuildLock():
            rc, out = sh(['lake', 'env', 'leanchecker'] + modules, cwd=LEAN_DIR, timeout=3000)
        if rc != 0:
            self.broken.append(('leanchecker', ' '.join(modules), out[-800:]))
        else:
            self.notes.append('leanchecker ok: %s' % ' '.join(modules))

    # ------------------------------------------------------------------ bookkeeping
    def count(self, port, key=None, nontrivial=False, sample=None):
        self.cov['evaluations'] += 1
        self.cov['ports'][port] = self.cov['ports'].get(port, 0) + 1
        if nontrivial and key is not None:
            h = hashlib.sha1(repr(key).encode()).hexdigest()
            if h not in self._distinct:
                self._distinct.add(h)
                if sample is not None and len(self.cov['samples']) < 5:
                    self.cov['samples'].append(sample)

    def dist(self, table, key, n=1):
        t = self.cov['distribution'].setdefault(table, {})
        t[str(key)] = t.get(str(key), 0) + n

    def port_mismatch(self, port, case, model, real, note=''):
        if sum(1 for b in self.broken if b[0] == 'port') < 50:
            self.broken.append(('port', port, {'note': note, 'model': model, 'real': real, 'case': case}))
        else:
            self.broken.append(('port', port, {'note': note}))

    def fail(self, what, case, classifier=None, detail=None):
        """the property fails on the real code for this concrete case"""
        self.failures.append({'what': what, 'case': case, 'classifier': classifier, 'detail': detail})

    # ------------------------------------------------------------------ decide
    def write_replay(self, obj):
        os.makedirs(REPLAY_DIR, exist_ok=True)
        blob = json.dumps(obj, indent=1, sort_keys=True, default=repr)
        h = hashlib.sha1(blob.encode()).hexdigest()[:12]
        p = os.path.join(REPLAY_DIR, '%s-%s.json' % (self.pid, h))
        with open(p, 'w') as f:
            f.write(blob)
        return p

    def match_known(self, failure):
        for f in self.known_entries():
            m = f.get('match', {})
            if m.get('classifier') and m['classifier'] == failure.get('classifier'):
                return f
        return None

    def finish(self, search=None):
        violations = 0
        lines = []
        unlisted = []
        for fl in self.failures:
            k = self.match_known(fl)
            if k is not None:
                self.known_hits[k['id']] = k['what']
            else:
                unlisted.append(fl)
        if self.broken and not unlisted and search is not None:
            # a proof obligation or a port no longer checks: look for a concrete failing input
            self.notes.append('extended search after: %s' % [b[:2] for b in self.broken][:5])
            before = len(self.failures)
            search()
            for fl in self.failures[before:]:
                k = self.match_known(fl)
                if k is not None:
                    self.known_hits[k['id']] = k['what']
                else:
                    unlisted.append(fl)
        for fid, what in sorted(self.known_hits.items()):
            lines.append('KNOWN-FINDING: property=%s %s %s' % (self.pid, fid, what))
        seen = set()
        for fl in unlisted:
            sig = (fl['what'], fl.get('classifier'))
            if sig in seen and len(seen) >= 1:
                continue
            seen.add(sig)
            p = self.write_replay({'property': self.pid, 'seed': self.seed, 'tier': self.tier,
                                   'what': fl['what'], 'case': fl['case'], 'detail': fl.get('detail'),
                                   'classifier': fl.get('classifier'),
                                   'broken_obligations': [b[:2] for b in self.broken]})
            if violations < 8:
                lines.append('VIOLATION property=%s replay=%s' % (self.pid, os.path.relpath(p, ROOT)))
            violations += 1
        if violations > 8:
            lines.append('(%d further violations, replays written)' % (violations - 8))
        if self.broken and not unlisted:
            p = self.write_replay({'property': self.pid, 'seed': self.seed, 'tier': self.tier,
                                   'what': 'proof obligation or correspondence no longer checks; no failing input found',
                                   'broken': [{'kind': k, 'name': n, 'detail': d} for k, n, d in self.broken[:20]]})
            lines.append('VIOLATION property=%s replay=%s no-failing-input-found' % (self.pid, os.path.relpath(p, ROOT)))
            violations += 1
        self.write_evidence(violations)
        for l in lines:
            print(l)
        sys.stdout.flush()
        return 1 if violations else 0

    def write_evidence(self, violations):
        os.makedirs(EVIDENCE_DIR, exist_ok=True)
        cov = dict(self.cov)
        cov['distinct_nontrivial'] = len(self._distinct)
        cov['obligations'] = len(self.obligations)
        cov['discharged'] = len(self.discharged)
        cov['theorems'] = {n: self.axioms.get(n) for n in self.obligations}
        cov['checker_cmd'] = 'cd lean && lake build Cerberus.Props.%s && lake env lean Audit/%s.lean  (#print axioms)' % (self.pid, self.pid)
        cov['trusted_base'] = TRUSTED_BASE
        cov['broken'] = [b[:2] for b in self.broken]
        cov['known_findings_hit'] = sorted(self.known_hits)
        cov['notes'] = self.notes
        cov['exhaustive'] = False
        ev = {'property_id': self.pid, 'tier': self.tier, 'seed': self.seed, 'level': 'proof',
              'coverage': cov, 'assumptions': self.assumptions, 'wall_s': round(time.time() - self.t0, 2),
              'violations': violations}
        with open(os.path.join(EVIDENCE_DIR, self.pid + '.json'), 'w') as f:
            json.dump(ev, f, indent=1, sort_keys=True, default=repr)
