"""./check <Cxx> [--tier quick|thorough] [--replay file]"""
import argparse
import importlib
import json
import os
import sys
import traceback

from . import core

BUDGET = {
    'C01': (2500, 120000),
    'C02': (1500, 60000),
    'C03': (700, 30000),
    'C04': (400, 20000),
    'C05': (400, 20000),
    'C06': (1200, 40000),
    'C08': (300, 20000),
    'C09': (1500, 60000),
    'C10': (1500, 60000),
    'C12': (1500, 60000),
    'C07': (700, 20000),
    # property: (quick cases, thorough cases)
    'C11': (1500, 40000),
    'C13': (1500, 40000),
    'C14': (500, 30000),
    'C15': (600, 30000),
    'C16': (500, 25000),
    'C17': (1500, 60000),
    'C18': (300, 1600),
}


def replay(pid, mod, path):
    """re-run the recorded failing case (or, when the replay names a broken obligation only, the
    whole check at the recorded seed and tier) against the current tree.
    exit 1 = the failure shows again, 0 = it does not, 2 = infrastructure"""
    from . import cases
    with open(path) as f:
        rp = json.load(f)
    seed, tier = int(rp.get('seed', 0)), rp.get('tier', 'quick')
    ctx = core.Check(pid, tier, seed)
    try:
        ctx.extract()
        ctx.build(getattr(mod, 'TARGETS', None))
        q, t = BUDGET.get(pid, (1000, 20000))
        n = t if tier == 'thorough' else q
        case = rp.get('case')
        if isinstance(case, dict) and hasattr(mod, 'replay_plan') and ('plan' in case or case.get('stress')):
            bad = mod.replay_plan(rp)
            for b in bad[:3]:
                print('REPRODUCED: thread %s under plan %r: %s  (alone: %s)' % (b.get('thread'), b.get('plan'), b.get('got'), b.get('alone')))
            if bad:
                print('VIOLATION property=%s replay=%s' % (pid, path))
                return 1
            print('not reproduced on the current tree')
            return 0
        if isinstance(case, dict) and 'index' in case and 'seed' in case:
            cases.ONLY = (int(case['seed']), int(case['index']))     # the stream yields this case only
            print('replaying case seed=%s index=%s profile=%s' % (case['seed'], case['index'], case.get('profile')))
        if 'case' not in rp:
            ctx.audit()
        mod.run(ctx, n)
        if not ctx.failures:
            mod.search(ctx, max(n, 5000))
        known = [fl for fl in ctx.failures if ctx.match_known(fl) is not None]
        ctx.failures = [fl for fl in ctx.failures if ctx.match_known(fl) is None]
        for fl in known[:3]:
            print('(known finding, not part of the replay: %s)' % fl['what'][:120])
        same = [fl for fl in ctx.failures if fl['what'] == rp.get('what')]
        for fl in (same or ctx.failures)[:5]:
            print('REPRODUCED: %s' % fl['what'])
            if fl.get('detail') is not None:
                print('  detail: %s' % repr(fl['detail'])[:1500])
        for b in ctx.broken[:5]:
            print('BROKEN: %s %s' % (b[0], b[1]))
        if ctx.failures or ('case' not in rp and ctx.broken):
            print('VIOLATION property=%s replay=%s' % (pid, path))
            return 1
        print('not reproduced on the current tree')
        return 0
    except core.InfraError as e:
        print('INFRA: %s' % e, file=sys.stderr)
        return 2
    except Exception:
        traceback.print_exc()
        return 2


def main(argv=None):
    ap = argparse.ArgumentParser()
    ap.add_argument('pid')
    ap.add_argument('--tier', default=os.environ.get('VERIF_TIER', 'quick'))
    ap.add_argument('--replay')
    ap.add_argument('--no-build', action='store_true')
    a = ap.parse_args(argv)
    pid = a.pid.upper()
    seed = int(os.environ.get('VERIF_SEED', '0') or 0)
    tier = 'thorough' if a.tier.startswith('t') else 'quick'
    mod = importlib.import_module('harness.props.' + pid.lower())
    if a.replay:
        return replay(pid, mod, a.replay)
    ctx = core.Check(pid, tier, seed)
    try:
        ctx.extract()
        if not a.no_build:
            ctx.build(getattr(mod, 'TARGETS', None))
        if os.environ.get('VERIF_MATRIX_FAST') == '1' and a.no_build:
            # tools/matrix.py only: the theorems were built and audited by the first check run on this tree
            ctx.notes.append('audit skipped (matrix run after a full first check)')
        else:
            ctx.audit()
        if tier == 'thorough' and getattr(mod, 'LEANCHECKER', True):
            ctx.leanchecker(['Cerberus.Props.' + pid])
        q, t = BUDGET.get(pid, (1000, 20000))
        n = t if tier == 'thorough' else q
        if ctx.driver_ok or a.no_build:
            try:
                mod.run(ctx, n)
            except core.InfraError:
                raise
            except Exception as e:
                # an exception that escapes from the implementation where the harness expected a result means the
                # correspondence no longer holds (the run stops here; the failing-input search follows)
                tb = traceback.extract_tb(e.__traceback__)
                if tb and '/cerberus/' in tb[-1].filename and '/verif/' not in tb[-1].filename:
                    ctx.broken.append(('port', 'implementation-raised',
                                       {'note': 'the implementation raised %s where the harness expected a result' % type(e).__name__,
                                        'model': None, 'real': '%s: %s' % (type(e).__name__, str(e)[:200]),
                                        'case': {'trace': ['%s:%d %s' % (f.filename, f.lineno, f.name) for f in tb[-4:]]}}))
                else:
                    raise
        else:
            ctx.notes.append('driver not built: ports skipped, oracle search only')
        # the failing-input search after a broken obligation; VERIF_SEARCH_SCALE < 1 shortens it (used by tools/matrix.py
        # for the checks of *other* properties than the one a seeded change was written against)
        scale = float(os.environ.get('VERIF_SEARCH_SCALE', '1') or 1)
        return ctx.finish(search=lambda: mod.search(ctx, max(50, int(max(n, 5000) * scale))))
    except core.InfraError as e:
        print('INFRA: %s' % e, file=sys.stderr)
        return 2
    except Exception:
        traceback.print_exc()
        return 2


if __name__ == '__main__':
    sys.exit(main())
