"""Rewritings of canonical schemas: into shorthand forms (C15) and into registry references (C14)."""
import copy

from cerberus import Validator

OPS = ('anyof', 'allof', 'noneof', 'oneof')
DEPRECATED = {'keysrules': 'keyschema', 'valuesrules': 'valueschema', 'check_with': 'validator'}
SPACED = ('allow_unknown', 'check_with', 'default_setter', 'purge_unknown', 'rename_handler', 'require_all')


def _looks_like_field_mapping(sub):
    """the heuristic of `_expand_subschemas` (has_mapping_schema)"""
    return isinstance(sub, dict) and all(isinstance(x, dict) for x in sub.values())


def _is_rule_set(d):
    return isinstance(d, dict) and set(d) <= set(Validator.rules)


def each_rule_set(schema, visit, ctx='field'):
    """apply `visit(rule_set, where)` to every rule set reachable by expansion, bottom-up;
    where: 'field' | 'list-schema' | 'bulk' | 'items' | 'of' | 'allow_unknown'"""
    for f in list(schema):
        if isinstance(schema[f], dict):
            _walk(schema[f], visit, ctx)


def _walk(rules, visit, where):
    sub = rules.get('schema')
    if isinstance(sub, dict):
        if _is_rule_set(sub) and not (_looks_like_field_mapping(sub) and sub):
            _walk(sub, visit, 'list-schema')
        elif not _is_rule_set(sub) or not sub:
            each_rule_set(sub, visit)
        else:
            # a rule set all of whose constraints are mappings: cerberus takes it for a field mapping
            _walk(sub, visit, 'list-schema-mapping-like')
    for r in ('keysrules', 'valuesrules'):
        if isinstance(rules.get(r), dict):
            _walk(rules[r], visit, 'bulk')
    if isinstance(rules.get('allow_unknown'), dict):
        _walk(rules['allow_unknown'], visit, 'allow_unknown')
    if isinstance(rules.get('items'), list):
        for d in rules['items']:
            if isinstance(d, dict):
                _walk(d, visit, 'items')
    for op in OPS:
        if isinstance(rules.get(op), list):
            for d in rules[op]:
                if isinstance(d, dict):
                    _walk(d, visit, 'of')
    visit(rules, where)


def to_shorthand(rng, schema, p=0.5, allow_known_findings=False):
    """returns (rewritten schema, list of rewrites applied)"""
    s = copy.deepcopy(schema)
    applied = []

    def visit(rules, where):
        mapping_like = where == 'list-schema-mapping-like'
        # <op>_<rule> shorthand
        for op in OPS:
            defs = rules.get(op)
            if isinstance(defs, list) and defs and all(isinstance(d, dict) and len(d) == 1 for d in defs):
                names = {next(iter(d)) for d in defs}
                if len(names) == 1 and rng.random() < p:
                    rule = names.pop()
                    if not isinstance(rule, str):
                        continue
                    key = '%s_%s' % (op, rule)
                    if key in rules:
                        continue
                    if mapping_like and not allow_known_findings:
                        continue
                    sep = ' ' if rng.random() < 0.15 and ' ' not in rule else '_'
                    key = op + sep + rule
                    rules[key] = [d[rule] for d in defs]
                    del rules[op]
                    applied.append(('of-shorthand', key, where))
        # deprecated names
        for new, old in DEPRECATED.items():
            if new in rules and old not in rules and rng.random() < p * 0.6:
                if mapping_like and not allow_known_findings:
                    continue
                rules[old] = rules.pop(new)
                applied.append(('deprecated', old, where))
        # spaces instead of underscores
        for r in SPACED:
            if r in rules and rng.random() < p * 0.6:
                if mapping_like and not allow_known_findings:
                    continue
                rules[r.replace('_', ' ')] = rules.pop(r)
                applied.append(('space', r.replace('_', ' '), where))
    each_rule_set(s, visit)
    return s, applied


# --------------------------------------------------------------------------- references (C14)

def to_references(rng, schema, p=0.5):
    """replace random non-empty rule sets / sub-schemas by registry references.
    returns (schema_with_refs, rules_sets: name -> definition, schemas: name -> definition, applied)"""
    s = copy.deepcopy(schema)
    rules_sets, sub_schemas, applied = {}, {}, []
    counter = [0]

    def new_name(prefix):
        counter[0] += 1
        return '%s%d' % (prefix, counter[0])

    def ref_rules(d, where):
        """a rule set -> name in the rules set registry (chains with small probability)"""
        name = new_name('rs')
        rules_sets[name] = d
        applied.append(('rules', where))
        return name

    def walk_rules(rules, where):
        # first the nested positions (bottom-up), then possibly this rule set itself (done by the caller)
        sub = rules.get('schema')
        if isinstance(sub, dict) and sub:
            if _is_rule_set(sub) and not _looks_like_field_mapping(sub):
                walk_rules(sub, 'list-schema')
                if rng.random() < p:
                    rules['schema'] = ref_rules(sub, 'list-schema')
            elif not _is_rule_set(sub):
                for f in list(sub):
                    if isinstance(sub[f], dict):
                        walk_rules(sub[f], 'field')
                        if sub[f] and rng.random() < p * 0.6:
                            sub[f] = ref_rules(sub[f], 'field')
                if rng.random() < p:
                    name = new_name('sc')
                    sub_schemas[name] = sub
                    rules['schema'] = name
                    applied.append(('schema', where))
        for r in ('keysrules', 'valuesrules', 'allow_unknown'):
            if isinstance(rules.get(r), dict) and rules[r]:
                walk_rules(rules[r], r)
                if rng.random() < p:
                    rules[r] = ref_rules(rules[r], r)
        if isinstance(rules.get('items'), list):
            for i, d in enumerate(rules['items']):
                if isinstance(d, dict) and d:
                    walk_rules(d, 'items')
                    if rng.random() < p:
                        rules['items'][i] = ref_rules(d, 'items')
        for op in OPS:
            if isinstance(rules.get(op), list):
                for d in rules[op]:
                    if isinstance(d, dict):
                        walk_rules(d, 'of')       # definitions themselves cannot be references

    for f in list(s):
        if isinstance(s[f], dict):
            walk_rules(s[f], 'field')
            if s[f] and rng.random() < p * 0.6:
                s[f] = ref_rules(s[f], 'field')
    # chains: a registry entry that is itself only a reference is not supported for rule sets
    # (a rule set must be a mapping); chains arise through nested references above
    return s, rules_sets, sub_schemas, applied
