"""C10 — nested validation is compositional and inherits the configuration.

Oracle: for every top-level field governed by schema (mapping / sequence),
items, valuesrules or keysrules, the child errors reported beneath the field are
compared with a *standalone* real validation of the sub-document (each item,
value, key) by a validator of the same class and configuration — allow_unknown /
require_all overridden by the field's rules where given, update passed where the
code passes it — with the paths prefixed by the field's path.  Root-relative
dependencies are compared with the sub-document embedded in the same root.
Port: validate0.
"""
import copy

from cerberus import errors as cerr

from .. import codec, real, cases, ports
from ..lean import Driver
from . import c01


def mentions_key(v, pred):
    if isinstance(v, dict):
        return any(pred(k, x) or mentions_key(x, pred) for k, x in v.items())
    if isinstance(v, (list, tuple)):
        return any(mentions_key(x, pred) for x in v)
    return False


def uses_root(rules):
    def pred(k, x):
        if k != 'dependencies':
            return False
        names = [x] if isinstance(x, str) else (list(x) if isinstance(x, (list, tuple, dict)) else [])
        return any(isinstance(n, str) and n.startswith('^') for n in names)
    return mentions_key(rules, pred)


def excludes_with_required(rules):
    return mentions_key(rules, lambda k, x: k == 'excludes') and (
        mentions_key(rules, lambda k, x: k in ('required', 'require_all')))


def canon_rel(errs, dp_prefix, sp_prefix, drop_sp=None, level=1):
    """canonical child errors with the field's path prefix removed"""
    def strip(e):
        dp = e.document_path
        sp = e.schema_path
        if tuple(dp[:len(dp_prefix)]) != tuple(dp_prefix):
            return ('BAD-DOC-PREFIX', repr(dp))
        dp2 = tuple(dp[len(dp_prefix):])
        if isinstance(sp, str):
            sp2 = ('str',)
        else:
            if tuple(sp[:len(sp_prefix)]) != tuple(sp_prefix):
                return ('BAD-SCHEMA-PREFIX', repr(sp))
            sp2 = tuple(ck(k) for k in sp[len(sp_prefix):])
        kids = ()
        if codec.is_group(e):
            kids = tuple(sorted((strip(c) for c in e.info[0]), key=repr))
        return (tuple(codec.canon_key(k) for k in dp2), e.code, sp2, kids)
    return tuple(sorted((strip(e) for e in errs), key=repr))


def canon_abs(errs, drop_sp_index=None):
    def conv(e, top=True):
        sp = e.schema_path
        if isinstance(sp, str):
            sp2 = ('str',)
        else:
            sp = tuple(sp)
            if drop_sp_index is not None:
                sp = sp[:drop_sp_index] + sp[drop_sp_index + 1:]
            sp2 = tuple(ck(k) for k in sp)
        kids = ()
        if codec.is_group(e):
            kids = tuple(sorted((conv(c, False) for c in e.info[0]), key=repr))
        return (tuple(codec.canon_key(k) for k in e.document_path), e.code, sp2, kids)
    return tuple(sorted((conv(e) for e in errs), key=repr))


def ck(k):
    """the marker crumb for unknown fields is spelled differently at the top level and in children"""
    if k == '__allow_unknown__':
        k = 'allow_unknown'
    return codec.canon_key(k)


GROUP = {'schema_map': 0x81, 'schema_seq': 0x82, 'keysrules': 0x83, 'valuesrules': 0x84, 'items': 0x8F}


def standalone(case, schema, doc, upd, **over):
    cfg = copy.deepcopy(case.get('cfg', {}))
    cfg.update(over)
    v = real.cls_of(case)(copy.deepcopy(schema), **cfg)
    v.validate(copy.deepcopy(doc), update=upd, normalize=False)
    return list(v._errors)


def oracle(ctx, case, jcase):
    out = real.run_validate(case, normalize=False)
    if out.exc is not None:
        return
    doc, upd = case['doc'], case.get('update', False)
    cfg = case.get('cfg', {})
    for f, rules in case['schema'].items():
        if not isinstance(rules, dict) or f not in doc or doc[f] is None:
            continue
        value = doc[f]
        errs_f = [e for e in out.errors if e.document_path == (f,)]
        if any(e.code in (0x24, 0x63) for e in errs_f):
            continue          # type failed / readonly: the remaining rules are skipped
        if uses_root(rules):
            ctx.dist('skipped', 'root-relative dependency below the field')
            continue
        empty_skip = isinstance(value, (list, tuple, dict, str)) and len(value) == 0 and 'empty' in rules
        checks = []
        if 'schema' in rules and isinstance(value, dict) and isinstance(rules['schema'], dict):
            over = {}
            over['allow_unknown'] = rules.get('allow_unknown', cfg.get('allow_unknown', False))
            over['require_all'] = rules.get('require_all', cfg.get('require_all', False))
            checks.append(('schema_map', rules['schema'], value, upd, over, (f,), (f, 'schema'), None))
        if 'schema' in rules and isinstance(value, (list, tuple)):
            if excludes_with_required(rules['schema']):
                continue
            checks.append(('schema_seq', {i: rules['schema'] for i in range(len(value))}, dict(enumerate(value)), upd,
                           {}, (f,), (f, 'schema'), 0))
        if 'items' in rules and isinstance(value, (list, tuple)) and len(value) == len(rules['items']) and not empty_skip:
            if excludes_with_required(rules['items']):
                continue
            checks.append(('items', dict(enumerate(rules['items'])), dict(enumerate(value)), upd, {}, (f,), (f, 'items'), None))
        if 'valuesrules' in rules and isinstance(value, dict):
            if excludes_with_required(rules['valuesrules']):
                continue
            checks.append(('valuesrules', {k: rules['valuesrules'] for k in value}, value, upd, {}, (f,), (f, 'valuesrules'), 0))
        if 'keysrules' in rules and isinstance(value, dict):
            if excludes_with_required(rules['keysrules']):
                continue
            checks.append(('keysrules', {k: rules['keysrules'] for k in value}, {k: k for k in value}, False, {},
                           (f,), (f, 'keysrules'), 0))
        for kind, sch, sub, u, over, dpp, spp, drop in checks:
            try:
                alone = standalone(case, sch, sub, u, **over)
            except Exception as e:
                ctx.dist('skipped', 'standalone raised ' + type(e).__name__)
                continue
            group = [e for e in errs_f if e.code == GROUP[kind]]
            nested = group[0].info[0] if group else []
            want = canon_abs(alone, drop)
            got = canon_rel(nested, dpp, spp)
            ctx.dist('compared', kind)
            ctx.dist('child_errors', min(len(alone), 6))
            if want != got:
                ctx.fail('C10 oracle: errors beneath %r (%s) differ from the standalone validation of the sub-document'
                         % (f, kind), dict(jcase, field=codec.enc_key(f), kind=kind),
                         detail={'nested': repr(got)[:1500], 'standalone': repr(want)[:1500]})


OWN_TRANSFORM = ('coerce', 'default', 'default_setter', 'rename', 'rename_handler', 'readonly')
KEY_TRANSFORM = ('coerce', 'rename', 'rename_handler', 'default', 'default_setter')


def oracle_normalize(ctx, case, jcase):
    """the normalization half of processing is compositional as well: the errors recorded beneath a container field while
    normalizing, and the normalized value of the field, are those of normalizing the sub-document on its own"""
    schema, doc, cfg = case['schema'], case['doc'], case.get('cfg', {})
    if any(isinstance(r, dict) and ('rename' in r or 'rename_handler' in r) for r in schema.values()):
        return
    out = real.run_normalized(case)
    if out.exc is not None or not isinstance(out.document, dict):
        return
    for f, rules in schema.items():
        if not isinstance(rules, dict) or f not in doc or doc[f] is None or any(k in rules for k in OWN_TRANSFORM):
            continue
        if 'keysrules' in rules and (not isinstance(rules['keysrules'], dict) or mentions_key(rules['keysrules'], lambda k, x: k in KEY_TRANSFORM)):
            continue          # the keys are renamed first: the sub-document is not the one the caller passed
        value = doc[f]
        checks = []
        if isinstance(value, dict) and isinstance(rules.get('schema'), dict) and 'valuesrules' not in rules:
            over = {'allow_unknown': rules.get('allow_unknown', cfg.get('allow_unknown', False)),
                    'purge_unknown': rules.get('purge_unknown', cfg.get('purge_unknown', False)),
                    'require_all': rules.get('require_all', cfg.get('require_all', False))}
            checks.append(('schema_map', rules['schema'], value, over, lambda r: r))
        elif isinstance(value, dict) and isinstance(rules.get('valuesrules'), dict) and 'schema' not in rules \
                and 'allow_unknown' not in rules and 'purge_unknown' not in rules and not isinstance(cfg.get('allow_unknown'), dict):
            checks.append(('valuesrules', {k: rules['valuesrules'] for k in value}, value, {}, lambda r: r))
        elif isinstance(value, (list, tuple)) and isinstance(rules.get('schema'), dict):
            checks.append(('schema_seq', {i: rules['schema'] for i in range(len(value))}, dict(enumerate(value)), {},
                           lambda r, t=type(value): t(r.values())))
        elif isinstance(value, (list, tuple)) and 'schema' not in rules and isinstance(rules.get('items'), (list, tuple)) \
                and len(rules['items']) == len(value):
            checks.append(('items', dict(enumerate(rules['items'])), dict(enumerate(value)), {},
                           lambda r, t=type(value): t(r.values())))
        for kind, sch, sub, over, back in checks:
            c = copy.deepcopy(cfg)
            c.update(over)
            try:
                v = real.cls_of(case)(copy.deepcopy(sch), **c)
                res = v.normalized(copy.deepcopy(sub), always_return_document=True)
                alone = sorted(((tuple(codec.canon_key(k) for k in e.document_path), e.code) for e in real.flatten(v._errors)
                                if not codec.is_group(e)), key=repr)
                alone_val = codec.canon_val(back(res))
            except Exception as e:
                ctx.dist('skipped', 'standalone normalization raised ' + type(e).__name__)
                import os
                if os.environ.get('DBG10') and type(e).__name__ == 'AttributeError':
                    import traceback; traceback.print_exc(); print(kind, sch, sub, c)
                continue
            nested = sorted(((tuple(codec.canon_key(k) for k in e.document_path[1:]), e.code) for e in real.flatten(out.errors)
                             if not codec.is_group(e) and len(e.document_path) > 1 and e.document_path[0] == f), key=repr)
            ctx.dist('compared', 'normalization:' + kind)
            if f not in out.document:
                got_val = ('missing',)
            else:
                got_val = codec.canon_val(out.document[f])
            if nested != alone or got_val != alone_val:
                ctx.fail('C10 oracle: normalization beneath %r (%s) differs from normalizing the sub-document on its own'
                         % (f, kind), dict(jcase, field=codec.enc_key(f), kind='normalization:' + kind),
                         detail={'nested errors': repr(nested)[:800], 'standalone errors': repr(alone)[:800],
                                 'nested value': repr(got_val)[:600], 'standalone value': repr(alone_val)[:600]})
                return


def oracle_registries(ctx, case, jcase, rng):
    """the registries are part of the configuration the child validators inherit: with parts of the schema moved into
    registries bound to the validator (the module-level ones stay empty), the errors — beneath every field too — are
    those of the inline schema"""
    from .. import rewrite
    from . import c14
    refschema, rs, ss, applied = rewrite.to_references(rng, case['schema'], p=0.6)
    if not applied:
        return
    want = real.run_validate(case, normalize=False)
    if want.exc is not None:
        return
    try:
        v = c14.with_registries(case, refschema, rs, ss, True)
        got = c14.outcome(v, case, False)
    except Exception as e:
        got = ('raised', type(e).__name__)
    finally:
        real.clear_global_state()
    ctx.dist('compared', 'validator-bound registries')
    w = ('ok', want.ret, codec.canon_errs(want.errors, 1), codec.canon_val(want.document))
    if got != w:
        ctx.fail('C10 oracle: with definitions in registries bound to the validator, the errors differ from those of the inline '
                 'schema (child validators must inherit the registries)',
                 dict(jcase, referenced=codec.enc_val(refschema), rules_sets=codec.enc_val(rs), schemas=codec.enc_val(ss)),
                 detail={'inline': repr(w)[:1200], 'referenced': repr(got)[:1200]})


def wrap(kind, schema, doc):
    if kind == 'schema':
        return {'n': {'type': 'dict', 'schema': schema}}, {'n': doc}
    if kind == 'list':
        return {'n': {'type': 'list', 'schema': {'type': 'dict', 'schema': schema}}}, {'n': [doc, doc]}
    if kind == 'items':
        return {'n': {'type': 'list', 'items': [{'type': 'dict', 'schema': schema}]}}, {'n': [doc]}
    if kind == 'values':
        return {'n': {'type': 'dict', 'valuesrules': {'type': 'dict', 'schema': schema}}}, {'n': {'k': doc}}
    if kind == 'anyof':
        return {'n': {'anyof': [{'type': 'dict', 'schema': schema}]}}, {'n': doc}
    raise ValueError(kind)


def oracle_root(ctx, case, jcase, rng):
    """^-dependencies below a field resolve against the outermost document, through every kind of
    child validator (schema, list schema, items, valuesrules, *of, rules for unknown fields), depth 1..3"""
    import itertools
    from cerberus import Validator
    kinds = ['schema', 'list', 'items', 'values', 'anyof']
    for depth in (1, 2, 3):
        for seq in itertools.product(kinds, repeat=depth):
            for outer in ('known', 'unknown'):
                schema, doc = {'x': {'dependencies': '^top'}}, {'x': 1}
                for k in seq:
                    schema, doc = wrap(k, schema, doc)
                kw = {}
                if outer == 'unknown':
                    # the outermost level is an unknown field validated by the rules for unknown fields
                    kw['allow_unknown'] = schema['n']
                    schema = {'top': {}}
                    doc = {'u': doc['n']}
                else:
                    schema['top'] = {}
                for present in (True, False):
                    d2 = copy.deepcopy(doc)
                    if present:
                        d2['top'] = 1
                    try:
                        ok = Validator(copy.deepcopy(schema), **copy.deepcopy(kw)).validate(d2)
                    except Exception as e:
                        ok = 'raised %s' % type(e).__name__
                    ctx.dist('root_checks', outer)
                    if ok != present:
                        ctx.fail('C10 oracle: root-relative dependency below %s (%s at the root) resolved wrongly '
                                 '(field present at the root=%s, valid=%s)' % ('/'.join(seq), outer, present, ok),
                                 {'schema': repr(schema), 'doc': repr(d2), 'kw': repr(kw)})
                        return


def oracle_inherit(ctx):
    """the settings for unknown and required fields reach a sub-document through every kind of child validator: the
    enclosing validator's setting, unless the rule set of the mapping itself overrides it; a rule of the same name on an
    enclosing *sequence* field says nothing about the mappings among its items"""
    import itertools
    from cerberus import Validator
    inner_schema = {'a': {'type': 'integer'}, 'b': {'type': 'string'}}
    inner_doc = {'a': 1, 'zz': 2}
    tri = (None, False, True)
    for kind in ('schema', 'list', 'items', 'values', 'anyof'):
        outer_opts = tri if kind in ('list', 'items') else (None,)
        for root_au, root_ra, outer_au, outer_ra, inner_au, inner_ra in itertools.product((False, True), (False, True), outer_opts,
                                                                                           outer_opts, tri, tri):
            schema, doc = wrap(kind, copy.deepcopy(inner_schema), copy.deepcopy(inner_doc))
            mapping_rules = {'schema': schema['n'], 'list': schema['n'].get('schema'), 'items': (schema['n'].get('items') or [None])[0],
                             'values': schema['n'].get('valuesrules'), 'anyof': (schema['n'].get('anyof') or [None])[0]}[kind]
            if inner_au is not None:
                mapping_rules['allow_unknown'] = inner_au
            if inner_ra is not None:
                mapping_rules['require_all'] = inner_ra
            if outer_au is not None:
                schema['n']['allow_unknown'] = outer_au
            if outer_ra is not None:
                schema['n']['require_all'] = outer_ra
            eff_au = root_au if inner_au is None else inner_au
            eff_ra = root_ra if inner_ra is None else inner_ra
            try:
                alone = Validator(copy.deepcopy(inner_schema), allow_unknown=eff_au, require_all=eff_ra)
                want = (alone.validate(copy.deepcopy(inner_doc)), sorted(e.code for e in alone._errors))
                v = Validator(copy.deepcopy(schema), allow_unknown=root_au, require_all=root_ra)
                ok = v.validate(copy.deepcopy(doc))
                leaves = []

                def walk(errs):
                    for e in errs:
                        if e.is_group_error or e.is_logic_error:
                            for c in (e.child_errors if e.is_group_error else [x for d in e.definitions_errors.values() for x in d]):
                                walk([c])
                        else:
                            leaves.append(e.code)
                walk(v._errors)
                got = (ok, sorted(leaves) if kind != 'list' else sorted(leaves)[::2])
            except Exception as e:
                want, got = 'no exception', 'raised %s: %s' % (type(e).__name__, e)
            ctx.dist('inherit_checks', kind)
            if got != want:
                ctx.fail('C10 oracle: a mapping below %s (root allow_unknown=%s require_all=%s, the sequence field says %s / %s, '
                         'the mapping\'s own rule set says %s / %s) was validated as %r; alone under the effective settings: %r'
                         % (kind, root_au, root_ra, outer_au, outer_ra, inner_au, inner_ra, got, want),
                         {'schema': repr(schema), 'doc': repr(doc), 'kw': repr({'allow_unknown': root_au, 'require_all': root_ra})})
                return


def oracle_caret(ctx):
    """`^^name` is the escape for a field whose name starts with a caret: it is looked up in the *current* (sub-)document,
    whatever the outermost document holds — through every kind of child validator, depth 1..2"""
    import itertools
    from cerberus import Validator
    kinds = ['schema', 'list', 'items', 'values', 'anyof']
    for depth in (1, 2):
        for seq in itertools.product(kinds, repeat=depth):
            for here, at_root in ((True, False), (False, True), (True, True), (False, False)):
                schema, doc = {'x': {'dependencies': '^^t'}, '^t': {}}, {'x': 1}
                if here:
                    doc['^t'] = 1
                for k in seq:
                    schema, doc = wrap(k, schema, doc)
                schema['^t'] = {}
                if at_root:
                    doc['^t'] = 1
                try:
                    ok = Validator(copy.deepcopy(schema)).validate(copy.deepcopy(doc))
                except Exception as e:
                    ok = 'raised %s' % type(e).__name__
                ctx.dist('root_checks', 'caret escape')
                if ok != here:
                    ctx.fail('C10 oracle: the dependency `^^t` below %s (field `^t` in the sub-document: %s, at the root: %s) '
                             'gave %s' % ('/'.join(seq), here, at_root, ok), {'schema': repr(schema), 'doc': repr(doc)})
                    return


def run(ctx, n):
    ctx.cov['rule'] = ('generated accepted schemas with containers nested up to depth 4 x all option combinations at the root and '
                       'per-field overrides x documents x update; oracle: child errors beneath every top-level container field vs a '
                       'standalone real validation of the sub-document with prefixed paths; port: validate0; non-trivial = at least '
                       'one container field compared; distinct by canonical case')
    profiles = ['deep', 'validate', 'deep', 'of', 'update', 'normalize']
    import random
    with Driver() as drv:
        oracle_root(ctx, None, None, None)
        oracle_caret(ctx)
        oracle_inherit(ctx)
        for i, prof, case, g in cases.stream(ctx.seed, n, profiles):
            if cases.accepted(case) is not True:
                continue
            jcase = real.enc_case(case)
            before = dict(ctx.cov['distribution'].get('compared', {}))
            oracle(ctx, case, jcase)
            oracle_normalize(ctx, case, jcase)
            if i % 3 == 0:
                oracle_registries(ctx, case, jcase, random.Random(ctx.seed * 61 + i))
            st, detail = c01.compare(ctx, drv, case)
            if st == 'mismatch':
                ctx.port_mismatch('validate0', jcase, detail['model'], detail['real'], 'validate0 port')
            ctx.count('validate0', key=repr(jcase), nontrivial=before != ctx.cov['distribution'].get('compared', {}),
                      sample={'schema': repr(case['schema'])[:400], 'doc': repr(case['doc'])[:200], 'cfg': repr(case['cfg'])[:100]})


def search(ctx, n):
    import random
    for i, prof, case, g in cases.stream(ctx.seed + 7919, n, ['deep', 'validate', 'normalize']):
        if cases.accepted(case) is not True:
            continue
        before = len(ctx.failures)
        oracle(ctx, case, real.enc_case(case))
        oracle_normalize(ctx, case, real.enc_case(case))
        oracle_registries(ctx, case, real.enc_case(case), random.Random(ctx.seed * 61 + i))
        if len(ctx.failures) > before:
            return
