"""C14 — registry references behave exactly like the inlined definition.

Oracle: random subsets of the reference-able positions of a generated schema (field rule
sets, mapping sub-schemas, list-schema rule sets, keysrules, valuesrules, items members,
allow_unknown rule sets; non-empty; nested, so that chains of references arise) are
replaced by names in the module-level registries or in registries bound to the
validator; acceptance, verdict, error set and normalized document must equal those of the
inline schema.  Recursive definitions are applied to documents of depth <= 6 and must
terminate.
Ports: `accept`, `validate0`, `normalize` with the registry contents in the model's
environment.
"""
import copy
import random

from cerberus import Validator, SchemaError, schema_registry, rules_set_registry
from cerberus.schema import RulesSetRegistry, SchemaRegistry

from .. import codec, real, cases, ports, schemas, rewrite, families
from ..lean import Driver
from . import c01, c02


def with_registries(case, refschema, rs, ss, own, how=('add', 'kw')):
    """validator for the referenced form; `own`: registries bound to the validator instead of the global ones.
    how = (fill, bind): the registries are filled by add() / extend() / their constructor, and bound to the
    validator by keyword argument or by attribute assignment"""
    real.clear_global_state()
    cfg = copy.deepcopy(case.get('refcfg', case.get('cfg', {})))
    fill, bind = how
    if own:
        if fill == 'ctor':
            rr, sr = RulesSetRegistry(copy.deepcopy(rs)), SchemaRegistry(copy.deepcopy(ss))
        else:
            rr, sr = RulesSetRegistry(), SchemaRegistry()
    else:
        rr, sr = rules_set_registry, schema_registry
    if fill == 'extend' or (fill == 'ctor' and not own):
        rr.extend(copy.deepcopy(rs))
        sr.extend(copy.deepcopy(ss))
    elif fill == 'add':
        for k, v in rs.items():
            rr.add(k, copy.deepcopy(v))
        for k, v in ss.items():
            sr.add(k, copy.deepcopy(v))
    if own and bind == 'kw':
        cfg['rules_set_registry'] = rr
        cfg['schema_registry'] = sr
    if own and bind == 'attr':
        # the registries are assigned before the schema (and an allow_unknown given by name) can be checked
        au = cfg.pop('allow_unknown', None)
        v = real.cls_of(case)(**cfg)
        if rng_order(refschema):
            v.rules_set_registry, v.schema_registry = rr, sr
        else:
            v.schema_registry = sr
            v.rules_set_registry = rr
        if au is not None:
            v.allow_unknown = au
        v.schema = copy.deepcopy(refschema)
        return v
    return real.cls_of(case)(copy.deepcopy(refschema), **cfg)


def rng_order(x):
    return len(repr(x)) % 2 == 0


def outcome(v, case, normalize):
    try:
        r = v.validate(copy.deepcopy(case['doc']), update=case.get('update', False), normalize=normalize)
        return ('ok', r, codec.canon_errs(v._errors, 1), codec.canon_val(v.document))
    except Exception as e:
        return ('raised', type(e).__name__)


def one(ctx, drv, i, prof, case):
    rng = random.Random(ctx.seed * 37 + i)
    if cases.accepted(case) is not True:
        return
    refschema, rs, ss, applied = rewrite.to_references(rng, case['schema'], p=0.5)
    au = case.get('cfg', {}).get('allow_unknown')
    if isinstance(au, dict) and au and rng.random() < 0.6:
        # the validator option allow_unknown given by name as well
        case = dict(case, refcfg=dict(case['cfg'], allow_unknown='au_cfg'))
        rs = dict(rs, au_cfg=copy.deepcopy(au))
        applied = applied + [('rules', 'allow_unknown option')]
    if not applied:
        ctx.dist('skipped', 'no reference-able position')
        return
    jcase = dict(real.enc_case({k: v for k, v in case.items() if k != 'refcfg'}), referenced=codec.enc_val(refschema),
                 rules_sets=codec.enc_val(rs), schemas=codec.enc_val(ss),
                 refcfg=codec.enc_val(case['refcfg']) if 'refcfg' in case else None)
    real.clear_global_state()
    inline = {n: outcome(real.make_validator(case), case, n) for n in (False, True)}
    how = (rng.choice(['add', 'add', 'extend', 'ctor']), rng.choice(['kw', 'kw', 'attr']))
    jcase = dict(jcase, registries_filled_by=how[0], registries_bound_by=how[1])
    ctx.dist('registries_filled_and_bound', '%s/%s' % how)
    for own in (False, True):
        try:
            v = with_registries(case, refschema, rs, ss, own, how)
        except SchemaError as e:
            ctx.fail('C14 oracle: the schema with %s-registry references is rejected, the inline schema is accepted'
                     % ('validator' if own else 'module'), dict(jcase, own=own), detail=str(e)[:300])
            real.clear_global_state()
            return
        except Exception as e:
            ctx.fail('C14 oracle: constructing the validator with references raised %s' % type(e).__name__, dict(jcase, own=own))
            real.clear_global_state()
            return
        for n in (False, True):
            got = outcome(with_registries(case, refschema, rs, ss, own, how), case, n)
            if got != inline[n]:
                ctx.fail('C14 oracle: verdict / errors / normalized document differ between inline and referenced schema '
                         '(%s registries, normalize=%s)' % ('validator-bound' if own else 'module-level', n),
                         dict(jcase, own=own, normalize=n), detail={'inline': repr(inline[n])[:800], 'referenced': repr(got)[:800]})
                real.clear_global_state()
                return
    # ports: the model with the registries in its environment, against the real code with module-level registries
    rcase = dict(case, schema=refschema, rules_sets=rs, schemas=ss)
    if 'refcfg' in rcase:
        rcase['cfg'] = rcase.pop('refcfg')
    v = with_registries(case, refschema, rs, ss, False)
    # registries expand definitions when they are added: the model gets what the registries hold
    rcase['rules_sets'] = dict(rules_set_registry.all())
    rcase['schemas'] = dict(schema_registry.all())
    try:
        for port, normalize in (('validate0', False), ('validate', True)):
            rep = ports.model_validate0(drv, rcase) if port == 'validate0' else ports.model_validate(drv, rcase)
            if ports.find_need(rep) is not None:
                ctx.cov['out_of_domain'] += 1
                continue
            try:
                r = v.validate(copy.deepcopy(case['doc']), update=case.get('update', False), normalize=normalize)
            except Exception as e:
                if not (isinstance(rep, dict) and 'raised' in rep):
                    ctx.port_mismatch(port, jcase, repr(rep)[:200], 'raised ' + type(e).__name__,
                                      'the implementation raised on a referenced schema, the model did not')
                continue
            rsig = codec.canon_errs(v._errors, 1)
            if rep == 'fuel' or 'raised' in rep:
                ctx.port_mismatch(port, jcase, repr(rep)[:200], 'ok', 'model raised / ran out of fuel on a referenced schema')
            elif codec.canon_jerrs(rep['ok'], 1) != rsig:
                ctx.port_mismatch(port, jcase, repr(codec.canon_jerrs(rep['ok'], 1))[:1200], repr(rsig)[:1200], 'errors differ')
        req = {'port': 'accept', 'schema': codec.enc_val(refschema),
               'env': {'rulesSets': codec.enc_val(rcase['rules_sets']), 'schemas': codec.enc_val(rcase['schemas'])}}
        ct = schemas.cls_tables(real.cls_of(case))
        if ct:
            req['cls'] = ct
        rep = drv.ask(req)
        if rep == 'schema_error' or 'accepted' not in rep:
            ctx.port_mismatch('accept', jcase, repr(rep)[:200], 'accepted', 'the model rejects the referenced schema')
    except codec.OutOfUniverse:
        ctx.cov['out_of_domain'] += 1
    real.clear_global_state()
    ctx.count('validate0', key=repr(jcase['referenced']), nontrivial=True,
              sample={'referenced': repr(refschema)[:300], 'rules_sets': repr(rs)[:300], 'schemas': repr(ss)[:200]})
    ctx.dist('references_per_schema', min(len(applied), 8))
    for kind, where in applied:
        ctx.dist('reference_position', where if kind == 'rules' else 'schema@' + where)


def recursive(ctx, drv):
    """self-referential definitions are accepted and terminate on documents of depth <= 6"""
    real.clear_global_state()
    schema_registry.add('tree', {'v': {'type': 'integer'}, 'kids': {'type': 'list', 'schema': {'type': 'dict', 'schema': 'tree'}}})
    rules_set_registry.add('nest', {'type': 'dict', 'valuesrules': 'nest'})
    rules_set_registry.add('lst', {'anyof': [{'type': 'integer'}, {'type': 'list', 'schema': 'lst'}]})
    # a definition that refers to itself from two positions, mutual recursion, one name used at two positions
    schema_registry.add('node', {'v': {'type': 'integer'}, 'left': {'type': 'dict', 'schema': 'node'},
                                 'right': {'type': 'dict', 'schema': 'node'}})
    schema_registry.add('ping', {'v': {'type': 'integer'}, 'next': {'type': 'dict', 'schema': 'pong'}})
    schema_registry.add('pong', {'w': {'type': 'string'}, 'next': {'type': 'dict', 'schema': 'ping'},
                                 'other': {'type': 'dict', 'schema': 'ping'}})
    rules_set_registry.add('pair', {'type': 'dict', 'keysrules': {'type': 'string'}, 'valuesrules': 'pair', 'allow_unknown': 'pair'})
    # rules sets that refer to themselves from within a `schema` mapping (directly, through a list, through an *of rule)
    rules_set_registry.add('selfmap', {'type': 'dict', 'schema': {'x': 'selfmap', 'n': {'type': 'integer'}}})
    rules_set_registry.add('selflist', {'type': 'list', 'schema': {'type': 'dict', 'schema': {'y': 'selflist'}}})
    rules_set_registry.add('selfof', {'anyof': [{'type': 'integer'}, {'type': 'dict', 'schema': {'y': 'selfof'}}]})
    rules_set_registry.add('selfdeep', {'type': 'dict', 'schema': {'x': {'type': 'dict', 'schema': {'y': 'selfdeep'}}}})
    # a rules set that refers to itself from two fields of one sub-schema (a binary tree)
    rules_set_registry.add('bintree', {'type': 'dict', 'schema': {'value': {'type': 'integer'}, 'left': 'bintree', 'right': 'bintree'}})
    try:
        more = [('bintree', {'root': 'bintree'}, {'root': {'value': 1, 'left': {'value': 2, 'right': {'value': 3}}, 'right': {'value': 4}}}, True),
                ('bintree', {'root': 'bintree'}, {'root': {'value': 1, 'left': {'value': 2, 'right': {'value': 'x'}}}}, False),
                ('selfmap', {'a': 'selfmap'}, {'a': {'x': {'x': {'n': 1}, 'n': 2}}}, True),
                ('selfmap', {'a': 'selfmap'}, {'a': {'x': {'x': {'n': 'bad'}}}}, False),
                ('selfmap', {'a': {'type': 'dict', 'schema': {'b': 'selfmap'}}}, {'a': {'b': {'x': {'x': 3}}}}, False),
                ('selflist', {'a': 'selflist'}, {'a': [{'y': []}, {'y': [{'y': []}]}]}, True),
                ('selflist', {'a': 'selflist'}, {'a': [{'y': []}, {'y': 1}]}, False),
                ('selfof', {'a': 'selfof'}, {'a': {'y': {'y': 1}}}, True),
                ('selfof', {'a': 'selfof'}, {'a': {'y': {'y': 's'}}}, False),
                ('selfdeep', {'a': 'selfdeep', 'b': 'selfmap'}, {'a': {'x': {'y': {'x': {}}}}, 'b': {'n': 1}}, True),
                ('node', 'node', {'v': 1, 'left': {'v': 2, 'left': {'v': 3}, 'right': {'v': 'x'}}, 'right': {'v': 4}}, False),
                ('node', {'a': {'type': 'dict', 'schema': 'node'}, 'b': {'type': 'dict', 'schema': 'node'}},
                 {'a': {'v': 1, 'right': {'v': 2}}, 'b': {'v': 3}}, True),
                ('ping', 'ping', {'v': 1, 'next': {'w': 'a', 'next': {'v': 2}, 'other': {'v': 3, 'next': {'w': 4}}}}, False),
                ('pair', {'a': 'pair', 'b': 'pair'}, {'a': {'k': {'k': {}}}, 'b': {'x': {}, 'y': {'z': {}}}}, True)]
        for name, sch, dd, want in more:
            try:
                v = Validator(copy.deepcopy(sch) if isinstance(sch, dict) else sch)
                r = v.validate(copy.deepcopy(dd))
                if r != want:
                    ctx.fail('C14 oracle: recursive definition %r gives %s, the unrolled definition gives %s' % (name, r, want),
                             {'schema': repr(sch), 'doc': repr(dd)})
            except RecursionError:
                ctx.fail('C14 oracle: accepting / applying the recursive definition %r does not terminate' % name,
                         {'schema': repr(sch), 'doc': repr(dd)})
                continue
            except Exception as e:
                ctx.fail('C14 oracle: recursive definition %r raised %s' % (name, type(e).__name__), {'schema': repr(sch), 'doc': repr(dd)})
                continue
            case = {'schema': sch if isinstance(sch, dict) else dict(schema_registry.get(sch)), 'doc': dd, 'cfg': {},
                    'rules_sets': dict(rules_set_registry.all()), 'schemas': dict(schema_registry.all())}
            rep = ports.model_validate0(drv, case)
            if rep == 'fuel' or 'raised' in rep:
                ctx.port_mismatch('validate0', {'doc': repr(dd)}, repr(rep)[:200], 'ok', 'recursive definition in the model')
            elif codec.canon_jerrs(rep['ok'], 1) != codec.canon_errs(v._errors, 1):
                ctx.port_mismatch('validate0', {'doc': repr(dd), 'schema': repr(sch)}, repr(codec.canon_jerrs(rep['ok'], 1))[:600],
                                  repr(codec.canon_errs(v._errors, 1))[:600], 'errors differ on a recursive definition')
            req = {'port': 'accept', 'schema': codec.enc_val(case['schema']),
                   'env': {'rulesSets': codec.enc_val(case['rules_sets']), 'schemas': codec.enc_val(case['schemas'])}}
            rep = drv.ask(req)
            if rep == 'schema_error' or 'accepted' not in rep:
                ctx.port_mismatch('accept', {'schema': repr(sch)}, repr(rep)[:200], 'accepted', 'the model rejects a recursive definition')
            ctx.dist('recursive', name)

        # a name that is a rules set and a schema at once is a rules set for the items of a list, in validation and in
        # normalization alike; rules for unknown fields given by name make up for a missing schema like inline ones
        rules_set_registry.add('both', {'type': 'integer', 'coerce': families.c_int})
        schema_registry.add('both', {'k': {'type': 'string'}})
        rules_set_registry.add('unk', {'type': 'integer', 'coerce': families.c_int})
        pairs = [('a name in both registries below a list',
                  lambda: Validator({'l': {'type': 'list', 'schema': 'both'}}),
                  lambda: Validator({'l': {'type': 'list', 'schema': {'type': 'integer', 'coerce': families.c_int}}}),
                  [{'l': ['1', 2]}, {'l': ['x']}, {'l': [{'k': 'v'}]}]),
                 ('a rules set by name as the schema of a value that is a mapping',
                  lambda: Validator({'a': {'schema': 'unk'}, 'b': {'type': ['list', 'dict'], 'schema': 'unk', 'minlength': 1}}),
                  lambda: Validator({'a': {'schema': {'type': 'integer', 'coerce': families.c_int}},
                                     'b': {'type': ['list', 'dict'], 'schema': {'type': 'integer', 'coerce': families.c_int}, 'minlength': 1}}),
                  [{'a': {'k': 1}}, {'a': [1, 'x'], 'b': {}}, {'b': {'k': 'v'}}]),
                 ('rules for unknown fields by name, no schema',
                  lambda: Validator(allow_unknown='unk'), lambda: Validator(allow_unknown={'type': 'integer', 'coerce': families.c_int}),
                  [{'a': '1'}, {'a': 'x', 'b': 2}, {}])]
        for what, by_name, inline, docs in pairs:
            for dd in docs:
                outs = []
                for mk in (by_name, inline):
                    try:
                        v = mk()
                        r = v.validate(copy.deepcopy(dd))
                        outs.append(('ok', r, codec.canon_errs(v._errors, 1), codec.canon_val(v.document)))
                    except Exception as e:
                        outs.append(('raised', type(e).__name__))
                ctx.dist('recursive', what)
                if outs[0] != outs[1]:
                    ctx.fail('C14 oracle: %s: by reference %r, inline %r' % (what, outs[0][:3], outs[1][:3]), {'doc': repr(dd), 'case': what})
        # known finding F37: `items` by self-reference on a one-character string (its own only item) does not terminate
        rules_set_registry.add('chars', {'items': ['chars']})
        for dd, want in (({'a': 'xy'}, False), ({'a': 5}, True), ({'a': ['p', 'q']}, False), ({'a': 'x'}, None), ({'a': ['x']}, None)):
            try:
                r = Validator({'a': 'chars'}).validate(copy.deepcopy(dd))
                if want is not None and r != want:
                    ctx.fail('C14 oracle: recursive definition \'chars\' gives %s, expected %s' % (r, want), {'doc': repr(dd)})
            except RecursionError:
                ctx.fail('C14 oracle: applying the recursive definition \'chars\' = {\'items\': [\'chars\']} to %r does not terminate' % (dd,),
                         {'schema': "{'a': 'chars'}", 'doc': repr(dd)},
                         classifier='self_reference_through_items_on_a_string' if want is None else None)
            ctx.dist('recursive', 'chars')

        for depth in range(0, 7):
            doc = {'v': depth}
            cur = doc
            for d in range(depth):
                nxt = {'v': d if d != 3 else 'bad'}
                cur['kids'] = [nxt]
                cur = nxt
            for name, sch, dd in (('tree', 'tree', doc), ('nest', {'a': 'nest'}, {'a': _nest(depth)}),
                                  ('lst', {'a': 'lst'}, {'a': _lst(depth)})):
                try:
                    v = Validator(sch)
                    r = v.validate(copy.deepcopy(dd))
                    want = not (name == 'tree' and depth > 3)
                    if name == 'nest':
                        want = True
                    if r != want:
                        ctx.fail('C14 oracle: recursive definition %r gives %s on a document of depth %d' % (name, r, depth),
                                 {'schema': repr(sch), 'doc': repr(dd)})
                except RecursionError:
                    ctx.fail('C14 oracle: recursive definition %r does not terminate on depth %d' % (name, depth), {'doc': repr(dd)})
                except Exception as e:
                    ctx.fail('C14 oracle: recursive definition %r raised %s' % (name, type(e).__name__), {'doc': repr(dd)})
                # port
                case = {'schema': sch if isinstance(sch, dict) else dict(schema_registry.get(sch)), 'doc': dd, 'cfg': {},
                        'rules_sets': dict(rules_set_registry.all()), 'schemas': dict(schema_registry.all())}
                rep = ports.model_validate0(drv, case)
                if rep == 'fuel' or 'raised' in rep:
                    ctx.port_mismatch('validate0', {'doc': repr(dd)}, repr(rep)[:200], 'ok', 'recursive definition in the model')
                elif codec.canon_jerrs(rep['ok'], 1) != codec.canon_errs(v._errors, 1):
                    ctx.port_mismatch('validate0', {'doc': repr(dd)}, 'errors differ on a recursive definition', None)
                ctx.dist('recursive', name)
    finally:
        real.clear_global_state()


def _nest(d):
    return {} if d == 0 else {'k': _nest(d - 1)}


def _lst(d):
    return 1 if d == 0 else [_lst(d - 1), 2]


def run(ctx, n):
    ctx.cov['rule'] = ('generated accepted schemas with random subsets of reference-able positions replaced by registry names '
                       '(nested, so chains arise), module-level and validator-bound registries; oracle: acceptance, verdict, errors '
                       'and normalized document equal those of the inline schema; recursive definitions on documents of depth 0..6; '
                       'ports: accept / validate0 / validate with the registry contents; every counted case has >= 1 reference; '
                       'distinct by the referenced schema')
    profiles = ['validate', 'normalize', 'deep', 'of', 'mixed']
    with Driver() as drv:
        recursive(ctx, drv)
        for i, prof, case, g in cases.stream(ctx.seed, n, profiles):
            one(ctx, drv, i, prof, case)
    real.clear_global_state()


def search(ctx, n):
    with Driver() as drv:
        for i, prof, case, g in cases.stream(ctx.seed + 7919, n, ['validate', 'normalize', 'deep']):
            before = len(ctx.failures)
            one(ctx, drv, i, prof, case)
            if len(ctx.failures) > before:
                return
