"""C06 — validate, validated, normalized and errors agree with one another.

Port `api`: the Lean state machine against the real instance on the call
sequence validate / errors / validated / normalized of one document.
Oracle: the relations of the statement on real validators (fresh instance per
call), update in {False, True}; the decomposition clause on schemas that
mention no `readonly` rule.
"""
import copy

from .. import codec, real, cases, ports, api
from ..lean import Driver


def mentions(v, word):
    if isinstance(v, dict):
        return any(k == word or mentions(x, word) for k, x in v.items())
    if isinstance(v, (list, tuple)):
        return any(mentions(x, word) for x in v)
    return False


def oracle(case):
    """returns failure text or None"""
    d = case['doc']
    upd = case.get('update', False)
    v1 = real.make_validator(case)
    r = v1.validate(copy.deepcopy(d), update=upd)
    if not isinstance(r, bool):
        return 'validate returned %r, not a bool' % (r,)
    e1 = codec.canon_errs(v1._errors, 2)
    if r != (len(v1._errors) == 0):
        return 'validate returned %s with %d errors recorded' % (r, len(v1._errors))
    if bool(v1.errors) != (not r):
        return 'errors property is %s but validate returned %s' % ('non-empty' if v1.errors else 'empty', r)
    doc1 = codec.canon_val(v1.document)
    v2 = real.make_validator(case)
    r2 = v2.validated(copy.deepcopy(d), update=upd)
    if (r2 is None) != (not r):
        return 'validated returned %s but validate returned %s' % ('None' if r2 is None else 'a document', r)
    if r2 is not None and codec.canon_val(r2) != doc1:
        return 'validated returned a document different from validator.document after validate'
    v2b = real.make_validator(case)
    r2b = v2b.validated(copy.deepcopy(d), update=upd, always_return_document=True)
    if r2b is None or codec.canon_val(r2b) != doc1:
        return 'validated(always_return_document=True) did not return the processed document'
    v3 = real.make_validator(case)
    r3 = v3.normalized(copy.deepcopy(d))
    nerrs = codec.canon_errs(v3._errors, 2)
    if (r3 is None) != (len(v3._errors) > 0):
        return 'normalized returned %s with %d normalization errors' % ('None' if r3 is None else 'a document', len(v3._errors))
    if any(e.code not in (0x61, 0x62, 0x63, 0x64) and not (e.code & 0x80) for e in real.flatten(v3._errors)):
        return 'normalized recorded a non-normalization error'
    if not mentions(case['schema'], 'readonly') and not mentions(case.get('cfg', {}), 'readonly'):
        v4 = real.make_validator(case)
        nd = v4.normalized(copy.deepcopy(d), always_return_document=True)
        n4 = list(v4._errors)
        v5 = real.make_validator(case)
        v5.validate(copy.deepcopy(nd), update=upd, normalize=False)
        want = tuple(sorted(codec.canon_errs(n4, 2) + codec.canon_errs(v5._errors, 2), key=repr))
        if want != e1:
            return ('validate(d) records %d errors; normalized(d) + validate(normalized(d), normalize=False) record %d'
                    % (len(e1), len(want)))
        if codec.canon_val(v5.document) != doc1:
            return 'processed document of validate(d) differs from validate(normalized(d), normalize=False)'
    return None


def oracle_same_instance(case):
    """the same relations when the calls are made one after the other on ONE instance"""
    d = case['doc']
    upd = case.get('update', False)
    fresh = real.make_validator(case)
    r0 = fresh.validate(copy.deepcopy(d), update=upd)
    e0 = codec.canon_errs(fresh._errors, 2)
    d0 = codec.canon_val(fresh.document)
    fn = real.make_validator(case)
    n0 = fn.normalized(copy.deepcopy(d))
    n0 = (None if n0 is None else codec.canon_val(n0), codec.canon_errs(fn._errors, 2))
    v = real.make_validator(case)
    seq = [('validate', lambda: v.validate(copy.deepcopy(d), update=upd)),
           ('normalized', lambda: v.normalized(copy.deepcopy(d))),
           ('validated', lambda: v.validated(copy.deepcopy(d), update=upd)),
           ('validate', lambda: v.validate(copy.deepcopy(d), update=upd))]
    for name, call in seq:
        r = call()
        if name == 'validate':
            if r != r0 or codec.canon_errs(v._errors, 2) != e0 or codec.canon_val(v.document) != d0:
                return 'validate on an instance that has processed the document before differs from a fresh validate'
            if bool(v.errors) != (not r):
                return 'errors property disagrees with the verdict on a reused instance'
        elif name == 'validated':
            if (r is None) != (not r0):
                return 'validated on a reused instance returned %s but validate returns %s' % ('None' if r is None else 'a document', r0)
            if codec.canon_errs(v._errors, 2) != e0:
                return 'validated on a reused instance recorded different errors'
        else:
            if (r is None) != (len(v._errors) > 0):
                return 'normalized on a reused instance returned %s with %d errors' % ('None' if r is None else 'a document', len(v._errors))
            if (None if r is None else codec.canon_val(r), codec.canon_errs(v._errors, 2)) != n0:
                return ('normalized on an instance that has processed the document before returns %s with %d errors, on a fresh '
                        'instance %s with %d errors' % ('None' if r is None else 'a document', len(v._errors),
                                                        'None' if n0[0] is None else 'a document', len(n0[1])))
    return None


def one(ctx, drv, i, prof, case):
    if cases.accepted(case) is not True:
        ctx.dist('skipped', 'schema not accepted')
        return
    jcase = real.enc_case(case)
    try:
        msg = oracle(case)
    except Exception as e:
        ctx.dist('skipped', 'real raised (C03 matter): ' + type(e).__name__)
        return
    if msg:
        ctx.fail('C06 oracle: ' + msg, jcase)
    try:
        msg2 = oracle_same_instance(case)
    except Exception as e:
        msg2 = None
    if msg2:
        ctx.fail('C06 oracle: ' + msg2, jcase)
    if drv is None:
        return
    v = real.make_validator(case)
    c = dict(case, schema_acc=dict(v.schema))
    upd = case.get('update', False)
    ops = [{'op': 'validate', 'doc': case['doc'], 'update': upd, 'normalize': True},
           {'op': 'errors'},
           {'op': 'validated', 'doc': case['doc'], 'update': upd, 'normalize': True, 'always': False},
           {'op': 'normalized', 'doc': case['doc'], 'always': False},
           {'op': 'errors'},
           {'op': 'validated', 'doc': case['doc'], 'update': not upd, 'normalize': False, 'always': True}]
    real_obs = []
    for op in ops:
        r = api.run_real_op(v, op)
        o = api.observe_real(v)
        o['ret'] = r['ret']
        real_obs.append(o)
    try:
        rep = ports.ask(drv, api.model_request(c, ops))
    except codec.OutOfUniverse:
        ctx.cov['out_of_domain'] += 1
        return
    if ports.find_need(rep) is not None:
        ctx.cov['out_of_domain'] += 1
        return
    mobs = [api.canon_model_obs(o) for o in rep['obs']]
    for k, (m, r) in enumerate(zip(mobs, real_obs)):
        if m != r:
            ctx.port_mismatch('api', jcase, repr(m)[:1500], repr(r)[:1500], 'observation %d (%s) differs' % (k, ops[k]['op']))
            break
    ctx.count('api', key=repr(jcase), nontrivial=bool(real_obs[0]['errors']) or real_obs[0]['document'] != codec.canon_val(case['doc']),
              sample={'schema': repr(case['schema'])[:300], 'doc': repr(case['doc'])[:200], 'update': upd,
                      'validate': repr(real_obs[0]['ret'])})
    ctx.dist('validate', real_obs[0]['ret'][1])
    ctx.dist('normalized_is_none', real_obs[3]['ret'][1] is None)
    ctx.dist('update', upd)
    ctx.dist('has_readonly', mentions(case['schema'], 'readonly'))


def run(ctx, n):
    ctx.cov['rule'] = ('generated accepted schemas (with and without normalization rules) x configurations x documents x update; '
                       'oracle: the relations between validate/validated/normalized/errors on fresh real instances and the '
                       'decomposition validate = normalization errors + validate(normalized, normalize=False) for schemas that '
                       'mention no readonly; port: the six-call sequence vs the Lean state machine; non-trivial = errors recorded '
                       'or document changed; distinct by canonical case')
    profiles = ['normalize', 'mixed', 'validate', 'normalize', 'of']
    with Driver() as drv:
        for i, prof, case, g in cases.stream(ctx.seed, n, profiles):
            one(ctx, drv, i, prof, case)


def search(ctx, n):
    profiles = ['normalize', 'mixed', 'validate']
    for i, prof, case, g in cases.stream(ctx.seed + 7919, n, profiles):
        before = len(ctx.failures)
        one(ctx, None, i, prof, case)
        if len(ctx.failures) > before:
            return
