"""C09 — *of-rules decide by the number of definitions that validate.

Oracle: for every top-level field carrying *of rules whose value is not None
and passes the field's type rule, each definition is validated on its own with
a real validator (definition + inherited type / allow_unknown, same document,
options and update flag); the counts decide whether the *of error must be
present, and must equal the counts and the definition indices the error carries.
Port: validate0 on the *of-heavy stream (the model's `hLogical`).
"""
import copy

from cerberus import Validator, errors as cerr

from .. import codec, real, cases, ports
from ..lean import Driver
from . import c01

OPS = {'anyof': cerr.ANYOF, 'allof': cerr.ALLOF, 'noneof': cerr.NONEOF, 'oneof': cerr.ONEOF}


def type_ok(v, rules, value):
    t = rules.get('type')
    if not t:
        return True
    names = [t] if isinstance(t, str) else list(t)
    for n in names:
        td = v.types_mapping[n]
        if isinstance(value, td.included_types) and not isinstance(value, td.excluded_types):
            return True
    return False


def standalone_count(case, f, rules, op):
    """how many definitions validate the field on their own"""
    n = 0
    failing = []
    cfg = copy.deepcopy(case.get('cfg', {}))
    au = cfg.get('allow_unknown', False)
    for i, d in enumerate(rules[op]):
        d2 = copy.deepcopy(d)
        for r in ('allow_unknown', 'type'):
            if r not in d2 and r in rules:
                d2[r] = copy.deepcopy(rules[r])
        if 'allow_unknown' not in d2:
            d2['allow_unknown'] = copy.deepcopy(au)
        c2 = dict(cfg)
        c2['allow_unknown'] = True
        v = real.cls_of(case)({f: d2}, **c2)
        if v.validate(copy.deepcopy(case['doc']), update=case.get('update', False), normalize=False):
            n += 1
        else:
            failing.append(i)
    return n, failing


def oracle(ctx, case, jcase):
    out = real.run_validate(case, normalize=False)
    if out.exc is not None:
        return
    if case.get('index', 0) % 2 == 0:
        # what an *of error holds must not depend on whether the errors were rendered (twice) before
        try:
            out.v.errors
            out.v.errors
        except Exception:
            pass
    level(ctx, case, jcase, out.v, case['schema'], case['doc'], list(out.errors), (), copy.deepcopy(case.get('cfg', {})), 0)


def level(ctx, case, jcase, v, schema, doc, errs, prefix, cfg, depth):
    """the *of rules of one mapping level: the errors the (parent) run reported at this level against standalone
    evaluations of every definition with the configuration this level has"""
    lcase = dict(case, schema=schema, doc=doc, cfg=cfg)
    for f, rules in schema.items():
        if not isinstance(rules, dict) or f not in doc:
            continue
        value = doc[f]
        errs_f = [e for e in errs if tuple(e.document_path) == prefix + (f,)]
        # one level down: a mapping sub-document with its own allow_unknown / require_all
        sub = rules.get('schema')
        if depth < 3 and isinstance(value, dict) and isinstance(sub, dict) and sub and all(isinstance(x, dict) for x in sub.values()) \
                and rules.get('type') in ('dict', None) and '^' not in repr(sub) and not rules.get('readonly'):
            kids = []
            for e in errs_f:
                if e.code == 0x81:
                    kids = list(e.child_errors or [])
            c2 = dict(cfg)
            if 'allow_unknown' in rules:
                c2['allow_unknown'] = copy.deepcopy(rules['allow_unknown'])
            if 'require_all' in rules:
                c2['require_all'] = rules['require_all']
            if not (value is None) and type_ok(v, rules, value):
                level(ctx, case, jcase, v, sub, value, kids, prefix + (f,), c2, depth + 1)
        ops = [op for op in OPS if op in rules]
        if not ops:
            continue
        if value is None and not cfg.get('ignore_none_values'):
            if any(e.code in (0x91, 0x92, 0x93, 0x94) for e in errs_f):
                ctx.fail('C09 oracle: an *of error was reported for a None value', jcase)
            continue
        if value is None:
            continue
        if rules.get('readonly'):
            continue
        if not type_ok(v, rules, value):
            if any(e.code in (0x91, 0x92, 0x93, 0x94) for e in errs_f):
                ctx.fail('C09 oracle: an *of error was reported although the type rule failed', jcase)
            continue
        for op in ops:
            try:
                n, failing = standalone_count(lcase, f, rules, op)
            except Exception as e:
                ctx.dist('skipped', 'standalone raised ' + type(e).__name__)
                continue
            total = len(rules[op])
            must = {'anyof': n < 1, 'allof': n < total, 'noneof': n > 0, 'oneof': n != 1}[op]
            got = [e for e in errs_f if e.code == OPS[op].code]
            ctx.dist('standalone_valid', '%s:%d/%d' % (op, n, total))
            ctx.dist('of_rule_depth', depth)
            where = dict(jcase, field=codec.enc_key(f), below=[codec.enc_key(k) for k in prefix])
            if must != bool(got):
                ctx.fail('C09 oracle: %s with %d of %d definitions validating: error %s' %
                         (op, n, total, 'missing' if must else 'unexpected'), where)
                continue
            if got:
                e = got[0]
                if tuple(e.info[1:3]) != (n, total):
                    ctx.fail('C09 oracle: %s error carries counts %r, standalone validation gives (%d, %d)' %
                             (op, e.info[1:3], n, total), where)
                de = e.definitions_errors
                for k, children in de.items():
                    for c in real.flatten(children):
                        dp = tuple(c.document_path)
                        if dp[:len(e.document_path)] != tuple(e.document_path) or \
                                any(isinstance(x, str) and ' definition ' in x for x in dp):
                            ctx.fail('C09 oracle: an error of definition %r of the %s error at %r claims the document path %r'
                                     % (k, op, tuple(e.document_path), dp), where)
                            return
                keys = sorted((k for k in de if de[k]), key=lambda k: (not isinstance(k, int), repr(k)))
                if keys != failing:
                    ctx.fail('C09 oracle: %s error lists failing definitions %r, standalone validation gives %r' %
                             (op, keys, failing), where)


def cfg_ignores(case):
    return bool(case.get('cfg', {}).get('ignore_none_values'))


def run(ctx, n):
    ctx.cov['rule'] = ('generated accepted schemas rich in *of rules (0-3 definitions, nested in each other and in schema/items/'
                       'valuesrules; definitions with dependencies, schema, allow_unknown) x configurations x documents x update; '
                       'oracle: standalone validation of every definition of every top-level *of rule vs presence, counts and '
                       'definition indices of the error; port: validate0; non-trivial = a field with an *of rule and a non-None value '
                       'of the right type; distinct by canonical case')
    profiles = ['of', 'of', 'deep', 'of', 'update']
    with Driver() as drv:
        for i, prof, case, g in cases.stream(ctx.seed, n, profiles):
            if cases.accepted(case) is not True:
                continue
            jcase = real.enc_case(case)
            before = len(ctx.failures)
            oracle(ctx, case, jcase)
            st, detail = c01.compare(ctx, drv, case)
            if st == 'mismatch':
                ctx.port_mismatch('validate0', jcase, detail['model'], detail['real'], 'validate0 port')
            has_of = any(isinstance(r, dict) and any(op in r for op in OPS) and f in case['doc'] and case['doc'][f] is not None
                         for f, r in case['schema'].items())
            ctx.count('validate0', key=repr(jcase), nontrivial=has_of,
                      sample={'schema': repr(case['schema'])[:400], 'doc': repr(case['doc'])[:200]})


def search(ctx, n):
    for i, prof, case, g in cases.stream(ctx.seed + 7919, n, ['of', 'deep']):
        if cases.accepted(case) is not True:
            continue
        before = len(ctx.failures)
        oracle(ctx, case, real.enc_case(case))
        if len(ctx.failures) > before:
            return
