"""C12 — each error points to the offending value and the violated constraint.

Oracle on real objects: for every validation-phase error at every nesting level
(incl. inside items, list/dict schema, keysrules, valuesrules, *of definitions):
its document_path resolves in the processed document to error.value (for a
missing required field: the parent mapping lacks the field or holds None; for an
error on a *key* below keysrules: the last path element is the key itself);
(code, rule) is an error definition of cerberus.errors; for a rule spelled out in
the schema, schema_path resolves through the schema (following registry
references and the marker crumbs for unknown fields) to error.constraint; an
error has child errors iff it is a group error.
Port: validate0 at comparison level 2 (value, constraint, rule, counts).
"""
from collections.abc import Mapping, Sequence

from cerberus import errors as cerr, rules_set_registry, schema_registry

from .. import codec, real, cases, ports
from ..lean import Driver
from . import c01

# the documented error definitions (docs/errors.rst, "API error codes"): code -> rule.  Deliberately a table
# of its own and not read from the live module: a definition that changed is a finding, not a new truth.
DEFS = {(0x00, None), (0x02, 'required'), (0x03, None), (0x04, 'dependencies'), (0x05, 'dependencies'), (0x06, 'excludes'),
        (0x22, 'empty'), (0x23, 'nullable'), (0x24, 'type'), (0x25, 'schema'), (0x26, 'items'), (0x27, 'minlength'),
        (0x28, 'maxlength'), (0x41, 'regex'), (0x42, 'min'), (0x43, 'max'), (0x44, 'allowed'), (0x45, 'allowed'),
        (0x46, 'forbidden'), (0x47, 'forbidden'), (0x48, 'contains'), (0x61, 'coerce'), (0x62, 'rename_handler'),
        (0x63, 'readonly'), (0x64, 'default_setter'), (0x81, 'schema'), (0x82, 'schema'), (0x83, 'keysrules'),
        (0x84, 'valuesrules'), (0x8f, 'items'), (0x90, None), (0x91, 'noneof'), (0x92, 'oneof'), (0x93, 'anyof'),
        (0x94, 'allof')}
MISSING = object()
# the errors of the normalization half (coercion / renaming failed, read-only field, default setter failed); the code's own
# `is_normalization_error` tests `code & 0x60` and is true for every code with bit 5 or bit 6 (BAD_TYPE, MIN_VALUE, ...)
NORMALIZATION_CODES = (0x61, 0x62, 0x63, 0x64)


def walk_doc(doc, path, items_at=()):
    """`items` judges any sized iterable: below a string an index is a character (below a mapping it is the position of a
    key: see check_error)"""
    cur = doc
    for n, k in enumerate(path):
        if isinstance(cur, Mapping):
            if tuple(path[:n]) in items_at and isinstance(k, int) and not isinstance(k, bool) and 0 <= k < len(cur):
                cur = list(cur)[k]          # `items` on a mapping enumerates its keys
                continue
            if k not in cur:
                return MISSING
            cur = cur[k]
        elif isinstance(cur, str):
            if not isinstance(k, int) or isinstance(k, bool) or k >= len(cur) or k < 0:
                return MISSING
            cur = cur[k]
        elif isinstance(cur, Sequence) and not isinstance(cur, str):
            if not isinstance(k, int) or k >= len(cur) or k < 0:
                return MISSING
            cur = cur[k]
        else:
            return MISSING
    return cur


def same(a, b):
    try:
        return codec.canon_val(a) == codec.canon_val(b)
    except Exception:
        return a is b


def resolve_schema_path(v, schema, path, au):
    """follow schema_path from a field mapping; `au` = rules for unknown fields in force"""
    cur = schema
    mode = 'fields'          # fields: cur maps field -> rules ; rules: cur is a rule set
    path = list(path)
    i = 0
    while i < len(path):
        k = path[i]
        if isinstance(cur, str):
            cur = (v.schema_registry.get(cur) if mode == 'fields' else v.rules_set_registry.get(cur))
            if cur is None:
                return MISSING
            continue
        if mode == 'fields':
            if k in ('allow_unknown', '__allow_unknown__') and (not isinstance(cur, Mapping) or k not in cur):
                # marker crumb: the rule set for unknown fields, then the field name
                cur = au
                i += 2
                mode = 'rules'
                continue
            if not isinstance(cur, Mapping) or k not in cur:
                return MISSING
            cur = cur[k]
            mode = 'rules'
            i += 1
            continue
        # mode == rules
        if not isinstance(cur, Mapping) or k not in cur:
            return MISSING
        rules = cur
        nxt = rules[k]
        i += 1
        if k == 'schema' and i < len(path):
            if isinstance(nxt, str) and v.schema_registry.get(nxt) is not None:
                nxt = v.schema_registry.get(nxt)
            # mapping schema (field mapping) or sequence schema (rule set)?
            looks_fields = isinstance(nxt, Mapping) and all(isinstance(x, (Mapping, str)) for x in nxt.values()) \
                and not (len(nxt) > 0 and set(nxt) <= set(v.rules))
            if isinstance(nxt, Mapping) and path[i] in nxt and isinstance(nxt[path[i]], (Mapping, str)) and looks_fields:
                au = rules.get('allow_unknown', au)
                cur, mode = nxt, 'fields'
            elif path[i] in ('allow_unknown',) and looks_fields:
                au = rules.get('allow_unknown', au)
                cur, mode = nxt, 'fields'
            else:
                cur, mode = nxt, 'rules'
        elif k in ('keysrules', 'valuesrules') and i < len(path):
            cur, mode = nxt, 'rules'
        elif k in ('items', 'anyof', 'allof', 'noneof', 'oneof') and i < len(path):
            idx = path[i]
            if not isinstance(idx, int) or not isinstance(nxt, (list, tuple)) or idx >= len(nxt):
                return MISSING
            cur, mode = nxt[idx], 'rules'
            if k != 'items' and isinstance(cur, Mapping) and 'allow_unknown' not in cur:
                # a definition inherits allow_unknown from the field's rules, else from the validator
                cur = dict(cur)
                cur['allow_unknown'] = rules.get('allow_unknown', au)
            i += 1
        else:
            cur = nxt
            if i < len(path):
                return MISSING
    return cur


def check_error(v, e, parent, case, top_doc, items_at=()):
    """returns failure text or None"""
    if (e.code, e.rule) not in DEFS:
        return 'code %#x and rule %r do not belong to one error definition' % (e.code, e.rule)
    has_kids = bool(e.code & 0x80)
    if has_kids:
        if not isinstance(e.info[0], list) or any(not isinstance(c, cerr.ValidationError) for c in e.info[0]):
            return 'group error %#x does not carry its child errors' % e.code
    elif e.info and isinstance(e.info[0], list) and e.info[0] and isinstance(e.info[0][0], cerr.ValidationError):
        return 'non-group error %#x carries child errors' % e.code
    if e.code in NORMALIZATION_CODES:
        return None
    # value
    under_keys = isinstance(e.schema_path, tuple) and 'keysrules' in e.schema_path
    if under_keys:
        pass      # checked below for direct children only
    elif e.code == cerr.REQUIRED_FIELD.code:
        par = walk_doc(top_doc, e.document_path[:-1], items_at)
        if par is MISSING:
            return 'required-field error at %r: the parent path does not resolve' % (e.document_path,)
        got = walk_doc(top_doc, e.document_path, items_at)
        if got is not MISSING and got is not None:
            return 'required-field error at %r although the field is present' % (e.document_path,)
        # the violated constraint is `required: True` of the field or `require_all: True` of its level — except for a
        # field that is reported only because a required field of its level excludes it (and all of them are missing):
        # that error carries the field's own (possibly false) required-ness
        if e.constraint is not True:
            level = None
            if parent is None:
                level = dict(v.schema)
            elif parent.code == cerr.MAPPING_SCHEMA.code and isinstance(parent.schema_path, tuple):
                level = resolve_schema_path(v, dict(v.schema), parent.schema_path, case.get('cfg', {}).get('allow_unknown', False))
            f = e.document_path[-1]
            excluded = False
            if isinstance(level, Mapping):
                for g, rules in level.items():
                    if isinstance(rules, str):
                        rules = v.rules_set_registry.get(rules)
                    if not isinstance(rules, Mapping) or 'excludes' not in rules:
                        continue
                    ex = rules['excludes']
                    names = [ex] if isinstance(ex, (str, int)) and not isinstance(ex, bool) else list(ex) if isinstance(ex, (list, tuple, set)) else []
                    if f in names or g == f:
                        excluded = True
            if isinstance(level, Mapping) and not excluded:
                return 'required-field error at %r carries the constraint %r' % (e.document_path, e.constraint)
    else:
        got = walk_doc(top_doc, e.document_path, items_at)
        if got is MISSING:
            return 'document_path %r does not resolve in the processed document' % (e.document_path,)
        if not same(got, e.value):
            return 'document_path %r leads to %r, error.value is %r' % (e.document_path, got, e.value)
    if parent is not None and parent.code == cerr.KEYSRULES.code:
        if not same(e.document_path[-1], e.value):
            return 'key error at %r: error.value %r is not the key' % (e.document_path, e.value)
    # constraint
    if e.rule is not None and isinstance(e.schema_path, tuple) and e.schema_path and e.schema_path[-1] == e.rule:
        cfg_au = case.get('cfg', {}).get('allow_unknown', False)
        got = resolve_schema_path(v, dict(v.schema), e.schema_path, cfg_au)
        if got is MISSING:
            if e.rule in ('nullable',) or (e.rule == 'required'):
                return None     # default constraint, not spelled out
            return 'schema_path %r does not resolve in the schema' % (e.schema_path,)
        if not same(got, e.constraint):
            return 'schema_path %r leads to %r, error.constraint is %r' % (e.schema_path, got, e.constraint)
    return None


def oracle(ctx, case, jcase, normalize):
    out = real.run_validate(case, normalize=normalize)
    if out.exc is not None:
        return 0
    n = 0
    if case.get('index', 0) % 2 == 0:
        try:
            out.v.errors          # what the errors point to must not depend on whether they were rendered
        except Exception:
            pass

    def rec(errs, parent, items_at=frozenset()):
        # items_at: document paths of the values that an `items` rule above these errors iterated
        nonlocal n
        for e in errs:
            n += 1
            msg = check_error(out.v, e, parent, case, out.v.document, items_at)
            ctx.dist('depth', min(len(e.document_path), 5))
            if msg:
                ctx.fail('C12 oracle: ' + msg, dict(jcase, normalize=normalize), detail={'code': hex(e.code), 'dp': repr(e.document_path), 'sp': repr(e.schema_path)})
                return False
            if e.code & 0x80:
                below = items_at | {tuple(e.document_path)} if e.code == cerr.BAD_ITEMS.code else items_at
                if not rec(e.info[0], e, below):
                    return False
        return True
    rec(out.errors, None)
    return n


def run(ctx, n):
    ctx.cov['rule'] = ('generated accepted schemas x configurations x documents, with and without normalization; oracle: every error '
                       'of the real error forest (all nesting levels) is resolved against validator.document and validator.schema; '
                       'port: validate0 comparing value, constraint, rule, counts; non-trivial = an error at depth >= 2 or a group '
                       'error; distinct by canonical case')
    profiles = ['deep', 'of', 'validate', 'mixed']
    with Driver() as drv:
        for i, prof, case, g in cases.stream(ctx.seed, n, profiles):
            if cases.accepted(case) is not True:
                continue
            if i % 3 == 1:
                # what an error points to is found through the registries of the validator that reports it
                import random
                refd = cases.with_refs(case, random.Random(ctx.seed * 67 + i), decoys=(i % 2 == 0))
                if refd is not None and cases.accepted(refd) is True:
                    case = refd
                    ctx.dist('registries', 'bound to the validator' + (', decoys in the module-level ones' if case['decoys'] else ''))
            jcase = real.enc_case({k: v for k, v in case.items() if k != 'inline_schema'})
            k = oracle(ctx, case, jcase, normalize=(i % 2 == 0))
            st, detail = c01.compare(ctx, drv, case)
            if st == 'mismatch':
                ctx.port_mismatch('validate0', jcase, detail['model'], detail['real'], 'validate0 port')
            ctx.count('validate0', key=repr(jcase), nontrivial=k >= 2,
                      sample={'schema': repr(case['schema'])[:400], 'doc': repr(case['doc'])[:200], 'errors_checked': k})
            ctx.dist('errors_checked', min(k, 10))


def search(ctx, n):
    for i, prof, case, g in cases.stream(ctx.seed + 7919, n, ['deep', 'of', 'validate']):
        if cases.accepted(case) is not True:
            continue
        before = len(ctx.failures)
        oracle(ctx, case, real.enc_case(case), normalize=(i % 2 == 0))
        if len(ctx.failures) > before:
            return
        import random
        refd = cases.with_refs(case, random.Random(ctx.seed * 67 + i), decoys=(i % 2 == 0))
        if refd is not None and cases.accepted(refd) is True:
            oracle(ctx, refd, real.enc_case({k: v for k, v in refd.items() if k != 'inline_schema'}), normalize=(i % 2 == 1))
            if len(ctx.failures) > before:
                return
