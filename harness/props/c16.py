"""C16 — extensions work at every depth of their class and nowhere else.

Oracle: a generated subclass (custom rule, rule reading an extra configuration
argument, custom type, named coercer, named default setter, check_with method) has
one of its extensions planted at a random rule-set position (any depth) of a generated
schema.  (1) the subclass accepts the schema; (2) validating / normalizing a document
that reaches the planted position gives what an *inline evaluation* of the extension
predicts — via the Lean model, whose environment is the same at every depth; (3) the
base class and a sibling subclass reject the schema, before the subclass is used
(cold cache) — after it is used the cache may leak it: known finding F13e.
Ports: accept (with the class tables read from the live subclass), validate0,
validate.
"""
import copy
import random

from cerberus import Validator, SchemaError, TypeDefinition

from .. import codec, real, cases, ports, schemas, families
from ..lean import Driver
from . import c02

FLAG = 7


def _ns():
    ns = families._named_namespace()

    def _validate_is_odd(self, constraint, field, value):
        """{'type': 'boolean'}"""
        if constraint and isinstance(value, int) and not isinstance(value, bool) and value % 2 == 0:
            self._error(field, 'must be odd')

    def _validate_needs_cfg(self, constraint, field, value):
        """{'type': 'integer'}"""
        if self._config.get('flag') != constraint:
            self._error(field, 'configuration not inherited')

    def _validate_is_not_negative(self, constraint, field, value):
        """{'type': 'boolean'}"""
        if constraint and isinstance(value, (int, float)) and not isinstance(value, bool) and value < 0:
            self._error(field, 'must not be negative')
    ns['_validate_is_odd'] = _validate_is_odd
    ns['_validate_needs_cfg'] = _validate_needs_cfg
    ns['_validate_is_not_negative'] = _validate_is_not_negative
    tm = Validator.types_mapping.copy()
    tm['even'] = TypeDefinition('even', (int,), (bool,))
    ns['types_mapping'] = tm
    return ns


XValidator = type(Validator)('XValidator', (Validator,), _ns())
Sibling = type(Validator)('Sibling', (Validator,), families._named_namespace())

EXTENSIONS = [
    ('rule', {'is_odd': True}),
    ('rule_cfg', {'needs_cfg': FLAG}),
    ('rule_three_words', {'is_not_negative': True}),
    ('type', {'type': 'even'}),
    ('coercer', {'coerce': 'c_int'}),
    ('coercer_chain', {'coerce': ['c_id', 'c_int']}),
    ('renamer', {'rename_handler': 'c_key'}),
    ('renamer_chain', {'rename_handler': ['c_id', 'c_key']}),
    ('setter', {'default_setter': 's_one'}),
    ('checker', {'check_with': 'k_odd'}),
    ('checker_chain', {'check_with': ['k_pass', 'k_odd']}),
    ('checker_single_chain', {'check_with': ['k_odd']}),
]

EXTRA_TYPES = [['even', [[c, b] for c, b in (('none', False), ('bool', False), ('int', True), ('flt', False), ('str', False),
                                             ('list', False), ('tuple', False), ('dict', False), ('fn', False))]]]


def plant(rng, schema):
    s = copy.deepcopy(schema)
    positions = [(p, r, c) for p, r, c in schemas.rule_sets(s)]
    if not positions:
        return None
    kind, ext = EXTENSIONS[rng.randrange(len(EXTENSIONS))]
    cands = [x for x in positions if not (x[2] == 'of' and kind in ('coercer', 'setter', 'coercer_chain', 'renamer', 'renamer_chain'))]
    if not cands:
        return None
    path, rules, ctxk = cands[rng.randrange(len(cands))]
    for k, v in ext.items():
        if k == 'type' and 'type' in rules:
            rules.pop('schema', None)
            rules.pop('items', None)
            rules.pop('keysrules', None)
            rules.pop('valuesrules', None)
        rules[k] = v
    return kind, path, s


def spaced(rng, schema, names=('is_odd', 'needs_cfg', 'is_not_negative')):
    """the documented alias spelling of a rule name: spaces instead of underscores"""
    def walk(v):
        if isinstance(v, dict):
            return {(k.replace('_', ' ') if k in names else k): walk(x) for k, x in v.items()}
        if isinstance(v, list):
            return [walk(x) for x in v]
        if isinstance(v, tuple):
            return tuple(walk(x) for x in v)
        return v
    return walk(schema)


def model_case(case):
    c = dict(case)
    return c


def env_extra(req):
    req['env']['custom'] = True
    req['env']['named'] = True
    req['env']['flag'] = codec.enc_val(FLAG)
    req['env']['extraTypes'] = EXTRA_TYPES
    return req


def one(ctx, drv, i, prof, case):
    rng = random.Random(ctx.seed * 43 + i)
    if cases.accepted(case) is not True:
        return
    planted = plant(rng, case['schema'])
    if planted is None:
        return
    kind, path, sch = planted
    canon = sch
    if kind.startswith('rule') and rng.random() < 0.5:
        sch = spaced(rng, sch)          # the real code and the accept port get the spelling with spaces
        kind = kind + ' (spelled with spaces)'
    cfg = dict(copy.deepcopy(case.get('cfg', {})), flag=FLAG)
    jcase = {'schema': codec.enc_val(sch), 'doc': codec.enc_val(case['doc']), 'cfg': codec.enc_val(case.get('cfg', {})),
             'extension': kind, 'position': repr(path), 'update': case.get('update', False)}
    # (3) nowhere else: base class and sibling reject it, cold
    uses_only_x = kind.startswith('rule') or kind == 'type'
    for other in (Validator, Sibling):
        if other is Sibling and not uses_only_x:
            continue
        Validator.clear_caches()
        try:
            other(copy.deepcopy(sch), **copy.deepcopy(case.get('cfg', {})))
            ctx.fail('C16 oracle: %s accepts a schema that uses the %s of another class' % (other.__name__, kind), jcase)
        except SchemaError:
            pass
        except Exception as e:
            ctx.fail('C16 oracle: %s raised %s for a schema with a foreign %s' % (other.__name__, type(e).__name__, kind), jcase)
    # (1) the subclass accepts it
    Validator.clear_caches()
    try:
        v = XValidator(copy.deepcopy(sch), **copy.deepcopy(cfg))
    except Exception as e:
        ctx.fail('C16 oracle: the subclass rejects its own %s at %r (%s)' % (kind, path, type(e).__name__), jcase, detail=str(e)[:300])
        return
    # (3b) ... nor when they are handed the schema *object* of the subclass's validator
    for other in (Validator, Sibling):
        if other is Sibling and not uses_only_x:
            continue
        for entry in ('constructor', 'setter', 'per-call'):
            Validator.clear_caches()
            try:
                if entry == 'constructor':
                    other(v.schema, **copy.deepcopy(case.get('cfg', {})))
                elif entry == 'setter':
                    o = other(**copy.deepcopy(case.get('cfg', {})))
                    o.schema = v.schema
                else:
                    other(**copy.deepcopy(case.get('cfg', {}))).validate({}, v.schema)
                ctx.fail('C16 oracle: %s accepts the schema object of a validator of another class (a schema that uses its %s) '
                         'through the %s' % (other.__name__, kind, entry), dict(jcase, entry=entry, other=other.__name__))
                break
            except SchemaError:
                pass
            except Exception as e:
                ctx.fail('C16 oracle: %s raised %s for the schema object of another class through the %s'
                         % (other.__name__, type(e).__name__, entry), dict(jcase, entry=entry))
                break
    # ports: accept with the live class tables, then validation / normalization against the model
    req = {'port': 'accept', 'schema': codec.enc_val(sch), 'env': {}, 'cls': schemas.cls_tables(XValidator)}
    rep = drv.ask(req)
    if rep == 'schema_error' or 'accepted' not in rep:
        ctx.port_mismatch('accept', jcase, repr(rep)[:200], 'accepted', 'model rejects the subclass schema')
    for full in (False, True):
        mc = dict(case, schema=canon, cls='VV')
        req = env_extra(ports.base_request(mc, 'validate' if full else 'validate0'))
        try:
            mrep = ports.ask(drv, req)
        except codec.OutOfUniverse:
            ctx.cov['out_of_domain'] += 1
            continue
        if ports.find_need(mrep) is not None:
            ctx.cov['out_of_domain'] += 1
            continue
        v = XValidator(copy.deepcopy(sch), **copy.deepcopy(cfg))
        try:
            v.validate(copy.deepcopy(case['doc']), update=case.get('update', False), normalize=full)
            rsig = ('ok', codec.canon_errs(v._errors, 1)) + ((codec.canon_val(v.document),) if full else ())
        except Exception as e:
            rsig = ('raised', type(e).__name__)
        if mrep == 'fuel':
            msig = ('fuel',)
        elif 'raised' in mrep:
            msig = ('raised', mrep['raised'][0])
        else:
            msig = ('ok', codec.canon_jerrs(mrep['ok'], 1)) + ((codec.canon_jval(mrep['doc']),) if full else ())
        if msig != rsig:
            ctx.port_mismatch('validate' if full else 'validate0', jcase, repr(msig)[:1200], repr(rsig)[:1200],
                              'subclass at depth: model and code differ')
    ctx.count('validate0', key=(repr(jcase['schema']), repr(jcase['doc'])), nontrivial=len(path) >= 2,
              sample={'extension': kind, 'position': repr(path), 'schema': repr(sch)[:300]})
    ctx.dist('extension', kind)
    ctx.dist('depth_of_position', len(path))


class OddOnly(Validator):
    """a subclass with an extra rule and the *same* types_mapping as the base class"""
    def _validate_is_odd(self, constraint, field, value):
        """{'type': 'boolean'}"""
        if constraint and isinstance(value, int) and not isinstance(value, bool) and value % 2 == 0:
            self._error(field, 'must be odd')


def leak_after_use(ctx):
    """after the subclass has validated its schema, the base class must still reject it (cache!)"""
    sch = {'f': {'type': 'dict', 'valuesrules': {'is_odd': True}}}
    Validator.clear_caches()
    try:
        OddOnly(copy.deepcopy(sch))
    except Exception as e:
        ctx.fail('C16 oracle: the subclass rejects its own rule below valuesrules (%s)' % type(e).__name__, {'schema': repr(sch)},
                 detail=str(e)[:300])
        return
    try:
        Validator(copy.deepcopy(sch))
        ctx.fail('C16 oracle: the base class accepts a subclass-only rule after the subclass used it',
                 {'schema': repr(sch)}, classifier='cache_shared_by_subclasses')
    except SchemaError:
        pass
    Validator.clear_caches()
    sch2 = {'f': {'type': 'dict', 'valuesrules': {'type': 'even'}}}
    try:
        XValidator(copy.deepcopy(sch2))
    except Exception as e:
        ctx.fail('C16 oracle: the subclass rejects its own type below valuesrules (%s)' % type(e).__name__, {'schema': repr(sch2)},
                 detail=str(e)[:300])
        return
    try:
        Validator(copy.deepcopy(sch2))
        ctx.fail('C16 oracle: the base class accepts a subclass-only type after the subclass used it', {'schema': repr(sch2)})
    except SchemaError:
        pass
    Validator.clear_caches()


def internal_types(ctx):
    """the types that only the internal schema validator has (`callable`, `hashable`) are types of no validator
    class: every class rejects a schema that uses them, at any depth, cold"""
    shapes = [lambda t: {'f': {'type': t}},
              lambda t: {'f': {'type': 'dict', 'schema': {'g': {'type': ['string', t]}}}},
              lambda t: {'f': {'type': 'list', 'schema': {'anyof': [{'type': t}, {'type': 'integer'}]}}},
              lambda t: {'f': {'type': 'dict', 'valuesrules': {'type': t}}}]
    for cls in (Validator, Sibling, XValidator, OddOnly):
        for t in ('callable', 'hashable'):
            for k, shape in enumerate(shapes):
                sch = shape(t)
                Validator.clear_caches()
                try:
                    cls(copy.deepcopy(sch))
                except SchemaError:
                    ctx.dist('internal_types', 'rejected')
                    continue
                except Exception as e:
                    ctx.fail('C16 oracle: %s raised %s for a schema that uses the internal type %r' % (cls.__name__, type(e).__name__, t),
                             {'schema': repr(sch)})
                    return
                ctx.fail('C16 oracle: %s accepts the type %r, which only the internal schema validator defines' % (cls.__name__, t),
                         {'schema': repr(sch), 'class': cls.__name__})
                return
    Validator.clear_caches()


def factory_classes(ctx):
    """classes made by `validator_factory` (one mixin, a tuple of mixins, a namespace) and by a class statement carry the
    same extensions: each accepts its own type and rule at every depth, the base class accepts neither"""
    from cerberus.utils import validator_factory

    class TypeMixin(object):
        types_mapping = Validator.types_mapping.copy()
        types_mapping['even'] = TypeDefinition('even', (int,), (bool,))

    class RuleMixin(object):
        def _validate_is_odd(self, constraint, field, value):
            """{'type': 'boolean'}"""
            if constraint and isinstance(value, int) and not isinstance(value, bool) and value % 2 == 0:
                self._error(field, 'must be odd')

    class DocMixin(TypeMixin):
        """A mixin with a docstring of its own (the factory joins the docstrings of the bases)."""

    class Stated(TypeMixin, RuleMixin, Validator):
        pass

    made = {'class statement': Stated,
            'factory, tuple of mixins': validator_factory('FTuple', (TypeMixin, RuleMixin)),
            'factory, tuple of mixins (other order)': validator_factory('FTuple2', (RuleMixin, TypeMixin)),
            'factory, one mixin + namespace': validator_factory('FOne', TypeMixin, {'_validate_is_odd': RuleMixin._validate_is_odd}),
            'factory, documented mixin + namespace': validator_factory('FDoc', DocMixin, {'_validate_is_odd': RuleMixin._validate_is_odd}),
            'factory, namespace only': validator_factory('FNs', None, {'types_mapping': TypeMixin.types_mapping,
                                                                      '_validate_is_odd': RuleMixin._validate_is_odd})}
    shapes = [lambda r: {'f': r},
              lambda r: {'f': {'type': 'dict', 'schema': {'g': r}}},
              lambda r: {'f': {'type': 'list', 'schema': r}},
              lambda r: {'f': {'type': 'dict', 'valuesrules': {'anyof': [r, {'type': 'string'}]}}}]
    odd = [{'f': 3}, {'f': {'g': 3}}, {'f': [3, 5]}, {'f': {'k': 3}}]
    even = [{'f': 4}, {'f': {'g': 4}}, {'f': [4, 6]}, {'f': {'k': 4}}]
    noint = [{'f': 1.5}, {'f': {'g': 1.5}}, {'f': [4, 1.5]}, {'f': {'k': 1.5}}]      # the type `even` is: an int that is no bool
    for how, cls in made.items():
        for ext, broken in (({'type': 'even'}, False), ({'is_odd': True}, True), ({'type': 'integer', 'is_odd': True}, True)):
            for k, shape in enumerate(shapes):
                sch = shape(dict(ext))
                Validator.clear_caches()
                try:
                    v = cls(copy.deepcopy(sch))
                    good, wrong = (even[k], noint[k]) if not broken else (odd[k], even[k])
                    ok = (v.validate(copy.deepcopy(good)), v.validate(copy.deepcopy(wrong)))
                except Exception as e:
                    ctx.fail('C16 oracle: the class made by %s rejects its own extension %r at depth %d (%s)'
                             % (how, ext, k, type(e).__name__), {'schema': repr(sch), 'made_by': how}, detail=str(e)[:300])
                    return
                if ok != (True, False):
                    ctx.fail('C16 oracle: the class made by %s applies its extension %r wrongly at depth %d: %r' % (how, ext, k, ok),
                             {'schema': repr(sch), 'made_by': how})
                    return
                Validator.clear_caches()
                try:
                    Validator(copy.deepcopy(sch))
                    ctx.fail('C16 oracle: the base class accepts the extension %r of the class made by %s' % (ext, how),
                             {'schema': repr(sch), 'made_by': how})
                    return
                except SchemaError:
                    pass
                except Exception as e:
                    ctx.fail('C16 oracle: the base class raised %s for a foreign extension' % type(e).__name__, {'schema': repr(sch)})
                    return
                ctx.dist('factory_classes', how)
    Validator.clear_caches()


def option_level(ctx):
    """an extension inside the rule set given as the validator option allow_unknown: accepted (and applied to unknown
    fields) by the class that defines it, rejected by every other class"""
    for kind, ext in EXTENSIONS:
        forms = [dict(ext), dict(ext, nullable=True)]
        if kind in ('checker',):
            forms.append({'anyof_check_with': ['k_odd', 'k_pass']})
            forms.append({'anyof_check_with': [['k_odd', 'k_pass'], 'k_pass']})
        for rules in forms:
            Validator.clear_caches()
            try:
                XValidator({'known': {}}, allow_unknown=copy.deepcopy(rules), flag=FLAG)
            except Exception as e:
                ctx.fail('C16 oracle: the subclass rejects its own %s in the allow_unknown option (%s)' % (kind, type(e).__name__),
                         {'allow_unknown': repr(rules)}, detail=str(e)[:300])
                return
            for other in (Validator, Sibling) if (kind.startswith('rule') or kind == 'type') else (Validator,):
                Validator.clear_caches()
                try:
                    other({'known': {}}, allow_unknown=copy.deepcopy(rules))
                except SchemaError:
                    ctx.dist('option_level', 'rejected by ' + other.__name__)
                    continue
                except Exception as e:
                    ctx.fail('C16 oracle: %s raised %s for a foreign %s in the allow_unknown option' % (other.__name__, type(e).__name__, kind),
                             {'allow_unknown': repr(rules)})
                    return
                ctx.fail('C16 oracle: %s accepts the %s of another class in the allow_unknown option' % (other.__name__, kind),
                         {'allow_unknown': repr(rules), 'class': other.__name__})
                return
    Validator.clear_caches()


def run(ctx, n):
    ctx.cov['rule'] = ('generated schemas with one extension of a generated subclass (custom rule, rule reading an extra config '
                       'argument, custom type, named coercer / default setter / check_with) planted at a random rule-set position of '
                       'any depth; oracle: subclass accepts, base class and sibling reject (cold), base class after use (cache); ports: '
                       'accept with the live class tables, validate0 / validate against the model whose environment is the same at '
                       'every depth; non-trivial = planted at depth >= 2; distinct by (schema, document)')
    profiles = ['validate', 'deep', 'normalize', 'of']
    leak_after_use(ctx)
    internal_types(ctx)
    factory_classes(ctx)
    option_level(ctx)
    with Driver() as drv:
        for i, prof, case, g in cases.stream(ctx.seed, n, profiles):
            one(ctx, drv, i, prof, case)
    Validator.clear_caches()


def search(ctx, n):
    internal_types(ctx)
    factory_classes(ctx)
    option_level(ctx)
    with Driver() as drv:
        for i, prof, case, g in cases.stream(ctx.seed + 7919, n, ['validate', 'deep', 'normalize']):
            before = len(ctx.failures)
            one(ctx, drv, i, prof, case)
            if len(ctx.failures) > before:
                return
