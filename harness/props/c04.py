"""C04 — only well-formed schemas are accepted, at every entry point and depth.

Ports `accept` / `entries`: the Lean model of schema submission (expansion, then the
validation model run on the schema under the *extracted* rule constraint schemas,
with the SchemaValidator's callbacks) against the real code: accepted (and the
exposed expanded schema) / SchemaError / other exception, and the state after a
rejected submission — through the constructor, the schema setter, the schema
argument of validate, item assignment, update() and the allow_unknown setter.
Oracle: generated schemas must be accepted, every single-point corruption (unknown
rule, unknown type, wrongly typed constraint, normalization rule in an *of
definition, dangling reference) at every rule-set position must raise SchemaError —
nothing else — through every entry point, and must leave schema and configuration
as they were.  The schema cache is cleared before every submission (C08 covers it).
"""
import copy
import random

from cerberus import Validator, SchemaError

from .. import codec, real, cases, ports, schemas, families
from ..lean import Driver


def canon_schema(v):
    return None if v.schema is None else codec.canon_val(dict(v.schema))


REPEAT = {}


def submit_real(cls, cfg, base_schema, entry, sch, key=None):
    """returns (outcome, state_after) for one submission through one entry point"""
    Validator.clear_caches()
    REPEAT.clear()
    try:
        if entry == 'ctor':
            v = cls(copy.deepcopy(sch), **copy.deepcopy(cfg))
            return ('accepted', canon_schema(v)), None
        if entry == 'allow_unknown_ctor':
            # the rule set for unknown fields handed to the constructor is checked like the one assigned later
            v = cls(copy.deepcopy(base_schema), **dict(copy.deepcopy(cfg), allow_unknown=copy.deepcopy(sch)))
            return ('accepted', canon_schema(v)), None
        v = cls(copy.deepcopy(base_schema), **copy.deepcopy(cfg))
        before = (canon_schema(v), codec.canon_val(v.allow_unknown) if not isinstance(v.allow_unknown, bool) else v.allow_unknown)
        Validator.clear_caches()
        try:
            if entry == 'setter':
                v.schema = copy.deepcopy(sch)
            elif entry == 'percall':
                v.validate({}, schema=copy.deepcopy(sch))
            elif entry == 'setitem':
                v.schema[key] = copy.deepcopy(sch[key])
            elif entry == 'update':
                v.schema.update(copy.deepcopy(sch))
            elif entry == 'allow_unknown':
                v.allow_unknown = copy.deepcopy(sch)
            out = ('accepted', canon_schema(v))
        except SchemaError:
            out = ('schema_error',)
        except Exception as e:
            out = ('raised', type(e).__name__)
        after = (canon_schema(v), codec.canon_val(v.allow_unknown) if not isinstance(v.allow_unknown, bool) else v.allow_unknown)
        if out == ('schema_error',):
            # the same rejected submission once more on the same validator: nothing of the first attempt may linger
            Validator.clear_caches()
            try:
                if entry == 'setter':
                    v.schema = copy.deepcopy(sch)
                elif entry == 'percall':
                    v.validate({}, schema=copy.deepcopy(sch))
                elif entry == 'setitem':
                    v.schema[key] = copy.deepcopy(sch[key])
                elif entry == 'update':
                    v.schema.update(copy.deepcopy(sch))
                elif entry == 'allow_unknown':
                    v.allow_unknown = copy.deepcopy(sch)
                REPEAT['last'] = ('accepted',)
            except SchemaError:
                REPEAT['last'] = ('schema_error',)
            except Exception as e:
                REPEAT['last'] = ('raised', type(e).__name__)
            # ... and the validator still works with the configuration it had
            try:
                v.validate({'zz0': 1, 'unknown_field_zz': {'k': 1}})
                REPEAT['use'] = ('ok',)
            except Exception as e:
                REPEAT['use'] = ('raised', type(e).__name__)
        return out, (before, after)
    except SchemaError:
        return ('schema_error',), None
    except Exception as e:
        return ('raised', type(e).__name__), None


ENTRIES = ['ctor', 'setter', 'percall', 'setitem', 'update', 'allow_unknown', 'allow_unknown_ctor']


def submit_with(cls, cfg, entry, sch, rs, ss, where):
    """submission of a schema with references; the definitions live in registries bound to the validator
    (`own`), or only in the module-level registries while the validator has empty ones of its own (`elsewhere`)"""
    from cerberus import schema_registry, rules_set_registry
    from cerberus.schema import RulesSetRegistry, SchemaRegistry
    real.clear_global_state()
    cfg = copy.deepcopy(cfg)
    rr, sr = RulesSetRegistry(), SchemaRegistry()
    try:
        for k, v in rs.items():
            (rr if where == 'own' else rules_set_registry).add(k, copy.deepcopy(v))
        for k, v in ss.items():
            (sr if where == 'own' else schema_registry).add(k, copy.deepcopy(v))
        cfg['rules_set_registry'], cfg['schema_registry'] = rr, sr
        try:
            if entry == 'ctor':
                v = cls(copy.deepcopy(sch), **cfg)
            elif entry == 'setter':
                v = cls({'zz0': {'type': 'integer'}}, **cfg)
                v.schema = copy.deepcopy(sch)
            elif entry == 'percall':
                v = cls({'zz0': {'type': 'integer'}}, **cfg)
                v.validate({}, schema=copy.deepcopy(sch))
            else:
                v = cls({'zz0': {'type': 'integer'}}, **cfg)
                v.schema.update(copy.deepcopy(sch))
            return ('accepted',)
        except SchemaError:
            return ('schema_error',)
        except Exception as e:
            return ('raised', type(e).__name__)
    finally:
        real.clear_global_state()


def empty_definitions(ctx):
    """an empty rules set / an empty schema in a registry is a definition like any other: a reference to it is accepted at
    every position, with module-level and with validator-bound registries"""
    from cerberus import rules_set_registry, schema_registry
    shapes = [{'a': 'e0'}, {'a': {'type': 'dict', 'valuesrules': 'e0'}}, {'a': {'type': 'dict', 'keysrules': 'e0'}},
              {'a': {'type': 'list', 'schema': 'e0'}}, {'a': {'type': 'list', 'items': ['e0', {'type': 'integer'}]}},
              {'a': {'type': 'dict', 'schema': {'b': 'e0'}}}, {'a': {'anyof': [{'type': 'dict', 'valuesrules': 'e0'}]}},
              {'a': {'type': 'dict', 'schema': 's0'}}, {'a': {'type': 'dict', 'allow_unknown': 'e0'}}]
    for sch in shapes:
        for entry in ('ctor', 'setter', 'update'):
            for where in ('own', 'module'):
                if where == 'own':
                    out = submit_with(Validator, {}, entry, sch, {'e0': {}}, {'s0': {}}, 'own')
                else:
                    real.clear_global_state()
                    rules_set_registry.add('e0', {})
                    schema_registry.add('s0', {})
                    try:
                        Validator.clear_caches()
                        if entry == 'ctor':
                            Validator(copy.deepcopy(sch))
                        else:
                            v = Validator({'zz0': {}})
                            if entry == 'setter':
                                v.schema = copy.deepcopy(sch)
                            else:
                                v.schema.update(copy.deepcopy(sch))
                        out = ('accepted',)
                    except SchemaError:
                        out = ('schema_error',)
                    except Exception as e:
                        out = ('raised', type(e).__name__)
                    finally:
                        real.clear_global_state()
                ctx.dist('empty_definitions', out[0])
                if out[0] != 'accepted':
                    ctx.fail('C04 oracle: a reference to an empty definition in the %s registries is %s through %s'
                             % (where, out, entry), {'schema': repr(sch), 'registries': where, 'entry': entry})
                    return


def oracle_registries(ctx, case, rng):
    """well-formedness is judged with the registries of the validator the schema is given to, at every depth"""
    from .. import rewrite
    refschema, rs, ss, applied = rewrite.to_references(rng, case['schema'], p=0.5)
    if not applied:
        return
    cls, cfg = real.cls_of(case), case.get('cfg', {})
    entry = rng.choice(['ctor', 'setter', 'percall', 'update'])
    jcase = {'schema': codec.enc_val(refschema), 'rules_sets': codec.enc_val(rs), 'schemas': codec.enc_val(ss),
             'cfg': codec.enc_val(cfg), 'cls': case.get('cls'), 'entry': entry, 'seed': case.get('seed'), 'index': case.get('index')}
    out = submit_with(cls, cfg, entry, refschema, rs, ss, 'own')
    ctx.dist('registry_submission', 'own:' + out[0])
    if out[0] != 'accepted':
        ctx.fail('C04 oracle: a well-formed schema whose references are defined in the registries bound to the validator is not '
                 'accepted through %s (%s)' % (entry, out), dict(jcase, registries='own'))
        return
    out = submit_with(cls, cfg, entry, refschema, rs, ss, 'elsewhere')
    ctx.dist('registry_submission', 'elsewhere:' + out[0])
    if out[0] != 'schema_error':
        ctx.fail('C04 oracle: a schema whose references are not defined in the registries bound to the validator (only in the '
                 'module-level ones) is %s through %s' % (out, entry), dict(jcase, registries='elsewhere'))
        return
    # one definition replaced by a malformed one
    bad_rs, bad_ss = copy.deepcopy(rs), copy.deepcopy(ss)
    names = [('rs', k) for k in rs] + [('ss', k) for k in ss]
    which, name = names[rng.randrange(len(names))]
    if which == 'rs':
        bad_rs[name] = {'type': 'no_such_type_zz'}
    else:
        bad_ss[name] = {'f': {'no_such_rule_zz': 1}}
    out = submit_with(cls, cfg, entry, refschema, bad_rs, bad_ss, 'own')
    ctx.dist('registry_submission', 'malformed-definition:' + out[0])
    if out[0] != 'schema_error':
        ctx.fail('C04 oracle: a schema referring to a malformed definition (%s) in the registries bound to the validator is %s '
                 'through %s' % (name, out, entry), dict(jcase, registries='own', malformed=name,
                                                         rules_sets=codec.enc_val(bad_rs), schemas=codec.enc_val(bad_ss)))


def model_outcome(rep):
    o = rep['outcome']
    if o == 'schema_error':
        return ('schema_error',)
    if 'accepted' in o:
        return ('accepted',)
    return ('raised', o['raised'])


def one(ctx, drv, i, prof, case, n_corrupt):
    rng = random.Random(ctx.seed * 17 + i)
    cls = real.cls_of(case)
    cfg = case.get('cfg', {})
    good = case['schema']
    if cases.accepted(case) is not True:
        ctx.dist('skipped', 'generated schema not accepted')
        return
    if i % 3 == 0:
        oracle_registries(ctx, case, random.Random(ctx.seed * 59 + i))
    variants = [('valid', None, good)] + schemas.corruptions(
        rng, good, n_corrupt, extra_bad=families.VV_BAD_CONSTRAINTS if cls is families.VValidator else None)
    base = {'zz0': {'type': 'integer'}}
    ct = schemas.cls_tables(cls)
    for kind, path, sch in variants:
        entry = ENTRIES[rng.randrange(len(ENTRIES))] if kind != 'valid' else rng.choice(ENTRIES[:5])
        key = None
        sub = sch
        if entry == 'setitem':
            key = path[0] if path else next(iter(sch))
            sub = {key: sch[key]}
        if entry in ('allow_unknown', 'allow_unknown_ctor'):
            # the corrupted rule set of one field becomes the rule set for unknown fields
            key = path[0] if path else next(iter(sch))
            sub = sch[key]
            if not isinstance(sub, dict):
                continue
        try:
            esch = codec.enc_val(sch)
        except codec.OutOfUniverse:
            esch = {'repr': repr(sch)}      # a key outside the model's universe (e.g. a rule name that is None or a tuple)
        jcase = {'schema': esch, 'cfg': codec.enc_val(cfg), 'cls': case.get('cls'), 'entry': entry,
                 'corruption': kind, 'position': repr(path), 'seed': case.get('seed'), 'index': case.get('index')}
        out, state = submit_real(cls, cfg, base, entry, sub if entry in ('allow_unknown', 'allow_unknown_ctor') else sch, key)
        # ---- oracle
        if kind == 'valid':
            if out[0] != 'accepted':
                ctx.fail('C04 oracle: a schema generated from the constraint grammar is not accepted through %s (%s)'
                         % (entry, out), jcase)
        else:
            if out[0] == 'accepted':
                ctx.fail('C04 oracle: corrupted schema (%s at %r) accepted through %s' % (kind, path, entry), jcase,
                         classifier='accepted:%s' % kind)
            elif out[0] == 'raised':
                ctx.fail('C04 oracle: corrupted schema (%s at %r) raised %s instead of SchemaError through %s'
                         % (kind, path, out[1], entry), jcase, classifier='raised:%s' % out[1])
            elif state is not None and state[0] != state[1]:
                ctx.fail('C04 oracle: a rejected submission through %s changed the schema or allow_unknown' % entry, jcase)
            elif REPEAT.get('last', ('schema_error',)) != ('schema_error',):
                ctx.fail('C04 oracle: corrupted schema (%s at %r) rejected through %s, but %s when the same submission is repeated'
                         % (kind, path, entry, REPEAT['last']), jcase, classifier='accepted-on-repeat:%s' % kind)
            elif REPEAT.get('use', ('ok',)) != ('ok',):
                ctx.fail('C04 oracle: after a rejected submission through %s the validator raises %s on a document'
                         % (entry, REPEAT['use'][1]), jcase)
        # ---- port
        if 'repr' in esch:
            ctx.cov['out_of_domain'] += 1
            continue
        if entry in ('ctor', 'setter', 'percall'):
            entries = [{'entry': 'whole', 'schema': codec.enc_val(sch)}]
        elif entry == 'setitem':
            entries = [{'entry': 'whole', 'schema': codec.enc_val(base)},
                       {'entry': 'setitem', 'key': codec.enc_key(key), 'rules': codec.enc_val(sch[key])}]
        elif entry == 'update':
            entries = [{'entry': 'whole', 'schema': codec.enc_val(base)}, {'entry': 'update', 'schema': codec.enc_val(sch)}]
        else:
            entries = [{'entry': 'whole', 'schema': codec.enc_val(base)}, {'entry': 'allow_unknown', 'value': codec.enc_val(sub)}]
        req = {'port': 'entries', 'entries': entries, 'env': {}}
        if ct:
            req['cls'] = ct
        try:
            rep = drv.ask(req)
        except codec.OutOfUniverse:
            ctx.cov['out_of_domain'] += 1
            continue
        last = rep[-1]
        m = model_outcome(last)
        if m != out[:len(m)] and not (m[0] == 'accepted' and out[0] == 'accepted'):
            ctx.port_mismatch('entries', jcase, repr(m), repr(out[:2])[:300], 'outcome of the submission differs')
        elif out[0] == 'accepted' and entry not in ('allow_unknown', 'allow_unknown_ctor'):
            ms = codec.canon_jval(last['schema'])
            if ms != out[1]:
                ctx.port_mismatch('entries', jcase, repr(ms)[:1500], repr(out[1])[:1500], 'exposed schema after acceptance differs')
        elif out[0] == 'schema_error' and len(rep) > 1:
            if codec.canon_jval(last['schema']) != codec.canon_jval(rep[0]['schema']):
                ctx.port_mismatch('entries', jcase, 'model state changed on rejection', None)
        ctx.count('entries', key=(repr(jcase['schema']), entry, kind), nontrivial=kind != 'valid',
                  sample={'entry': entry, 'corruption': kind, 'position': repr(path), 'schema': repr(sch)[:300], 'outcome': out[0]})
        ctx.dist('entry', entry)
        ctx.dist('corruption', kind)
        ctx.dist('depth_of_position', len(path) if path else 0)
        ctx.dist('outcome', out[0])


def run(ctx, n):
    ctx.cov['rule'] = ('schemas generated from the documented constraint grammar (must be accepted) and single-point corruptions of '
                       'them (unknown rule / unknown type / wrongly typed constraint / normalization rule in an *of definition / '
                       'dangling reference) at a uniformly chosen rule-set position of any depth (must raise SchemaError), each '
                       'through one of the six entry points; cache cleared before every submission; port: Lean model of the '
                       'submission vs the real outcome, exposed schema and state after rejection; non-trivial = a corrupted '
                       'schema; distinct by (schema, entry point, corruption)')
    profiles = ['validate', 'normalize', 'of', 'mixed', 'deep']
    empty_definitions(ctx)
    with Driver() as drv:
        for i, prof, case, g in cases.stream(ctx.seed, n, profiles):
            one(ctx, drv, i, prof, case, 3)


def search(ctx, n):
    with Driver() as drv:
        for i, prof, case, g in cases.stream(ctx.seed + 7919, n, ['validate', 'normalize', 'of', 'deep']):
            before = len(ctx.failures)
            one(ctx, drv, i, prof, case, 4)
            if len(ctx.failures) > before:
                return
