"""C18 — validators used from different threads do not interfere.

The claim is the theorem `C18_independent` / `C18_same_as_alone` over the model of the
shared state (lean/Cerberus/Model/Shared.lean).  This module ties the model to the code
and searches the real code for interfering schedules:

A. port `shared` — sequential histories at operation granularity: several "threads"
   construct validators from *shared* schema objects (shorthand and canonical) and
   process documents, their operations interleaved at random, on one cache that starts
   cold, with `Validator._valid_schemas` replaced by a logging set.  The Lean model runs
   the same interleaving on tables measured from each program run *alone* (private copies,
   cold cache).  Outcomes, the top-level cache traffic (look-up key / hit, add key), the
   cache contents after every operation and the final contents of the shared objects
   must agree.
B. real threads under the deterministic line-level scheduler (harness/sched.py): every
   thread's outcomes under 1 and 2 preemptions (systematic over a stride of the yield
   points in cerberus/schema.py, with the lazily created class absent or present) must
   equal its outcomes alone.  A failing plan is the replay.
C. real threads, free running with a minimal switch interval, 2-8 threads.
D. footprint: process-wide state other than the cache and the shared schema objects
   (registries, class tables, module globals of cerberus.schema) is the same afterwards.
"""
import copy
import multiprocessing
import os
import random
import sys
import threading

from cerberus import Validator, SchemaError, schema_registry, rules_set_registry, errors as cerr
from cerberus import schema as cschema
from cerberus.schema import DefinitionSchema

from .. import codec, real, cases, rewrite, sched, families
from ..lean import Driver

FILES = ('cerberus/schema.py', 'cerberus/errors.py')
FILES_WIDE = ('cerberus/schema.py', 'cerberus/errors.py', 'cerberus/validator.py')
INF = 10 ** 9

# ------------------------------------------------------------------ scenarios

CORPUS = [
    # the two repaired races (F18, F17): a shared shorthand rule set; a schema that needs the 'callable' type
    {'objs': [{'a': {'anyof_type': ['integer', 'string']},
               'b': {'type': 'dict', 'schema': {'c': {'type': 'integer', 'coerce': int}}}}],
     'cfg': {}, 'docs': [{'a': 1.5, 'b': {'c': '2'}}, {'a': 'x', 'b': {'c': 3}}],
     'threads': [[('construct', 0), ('validate', 0, 0)], [('construct', 0), ('validate', 0, 1)]],
     'cls': 'V', 'origin': 'corpus-F18-F17'},
    {'objs': [{'k': {'oneof_schema': [{'x': {'valueschema': {'type': 'integer'}, 'type': 'dict'}}, {'y': {'type': 'string'}}],
                     'type': 'dict'},
               'l': {'type': 'list', 'schema': {'noneof_regex': ['a+', 'b+'], 'type': 'string'}}}],
     'cfg': {}, 'docs': [{'k': {'x': {'q': 1}}, 'l': ['c']}, {'k': {'y': 1}, 'l': ['aa']}],
     'threads': [[('construct', 0), ('validate', 0, 0), ('normalized', 0, 1)], [('construct', 0), ('validate', 0, 1)]],
     'cls': 'V', 'origin': 'corpus-nested-shorthand'},
    # shared registries, with a valid and an invalid definition that several schemas refer to
    {'objs': [{'a': {'type': 'dict', 'schema': 'bad'}, 'c': {'type': 'integer'}},
              {'b': {'type': 'list', 'schema': {'type': 'dict', 'schema': 'bad'}}, 'd': 'rs_good'},
              {'e': {'type': 'dict', 'schema': 'good'}, 'f': 'rs_good', 'g': {'anyof': ['rs_good', {'type': 'string'}]}},
              {'h': 'rs_bad'}],
     'schemas': {'bad': {'v': {'type': 'no_such_type'}, 'w': {'type': 'dict', 'schema': 'bad'}},
                 'good': {'v': {'type': 'integer', 'coerce': int}, 'w': {'type': 'dict', 'schema': 'good'}}},
     'rules_sets': {'rs_good': {'type': 'integer', 'min': 0}, 'rs_bad': {'type': 'integer', 'no_such_rule': 1}},
     'cfg': {}, 'docs': [{'e': {'v': '1', 'w': {'v': 2}}, 'f': 3, 'g': 'x'}, {'e': {'v': 'x'}, 'f': -1, 'g': 1.5}],
     'threads': [[('construct', 0), ('construct', 2), ('validate', 0, 0), ('construct', 3)],
                 [('construct', 1), ('construct', 2), ('validate', 0, 1), ('construct', 0)]],
     'cls': 'V', 'origin': 'corpus-registries'},
    # deprecated names and names with spaces on top-level fields: every rewriting pass of `expand` has work to do
    {'objs': [{'m': {'type': 'dict', 'valueschema': {'type': 'integer', 'min': 0}, 'keyschema': {'type': 'string', 'regex': '[a-z]+'}},
               'n': {'validator': families.k_odd, 'type': 'integer'},
               'o': {'type': 'dict', 'allow unknown': True, 'schema': {'p': {'anyof type': ['integer', 'string']}}},
               'q': {'noneof_min': [5, 7], 'allof_type': ['integer']}}],
     'cfg': {}, 'docs': [{'m': {'a': 1, 'B': -1}, 'n': 3, 'o': {'p': 1.5, 'x': 1}, 'q': 6}, {'m': {'k': 2}, 'n': 2, 'o': {'p': 'x'}, 'q': 1}],
     'threads': [[('construct', 0), ('validate', 0, 0)], [('construct', 0), ('validate', 0, 1)]],
     'cls': 'V', 'origin': 'corpus-deprecated-top-level'},
    # the error handler given as (class, options): the threads pass one and the same configuration object
    {'objs': [{'s': {'type': 'string', 'maxlength': 2}, 'n': {'type': 'integer', 'min': 10},
               'd': {'type': 'dict', 'schema': {'x': {'type': 'integer', 'anyof': [{'min': 5}, {'max': -5}]}}}}],
     'cfg': {'error_handler': (cerr.BasicErrorHandler, {'tree': {}})},
     'docs': [{'s': 'abcdef', 'n': 11, 'd': {'x': 7}}, {'s': 'ab', 'n': 3, 'd': {'x': 0}}, {'s': 5, 'n': 'x'}],
     'threads': [[('construct', 0), ('validate', 0, 0), ('validate', 0, 2)], [('construct', 0), ('validate', 0, 1), ('validate', 0, 0)]],
     'cls': 'V', 'origin': 'corpus-handler-options'},
    # one registered schema used by validators with their own rules-set registries: a reference inside it means
    # what the registry of the validator at hand says
    {'objs': [{'d': {'type': 'dict', 'schema': 'shared_sc'}}],
     'schemas': {'shared_sc': {'n': 'limit', 'm': {'type': 'integer', 'coerce': int}}},
     'thread_rules': [{'limit': {'type': 'integer', 'max': 100}}, {'limit': {'type': 'integer', 'max': 9}},
                      {'limit': {'type': 'string'}}],
     'cfg': {}, 'docs': [{'d': {'n': 50, 'm': '1'}}, {'d': {'n': 5, 'm': 2}}, {'d': {'n': 'x'}}],
     'threads': [[('construct', 0), ('validate', 0, 0), ('validate', 0, 2)], [('construct', 0), ('validate', 0, 0), ('validate', 0, 1)],
                 [('construct', 0), ('validate', 0, 2), ('validate', 0, 0)]],
     'cls': 'V', 'origin': 'corpus-own-rules-registries'},
]


def make_scenario(seed, idx):
    """deterministic in (seed, idx): shared schema objects + thread programs"""
    if idx < len(CORPUS):
        return copy.deepcopy(CORPUS[idx])
    rng = random.Random(seed * 1000003 + idx)
    tries = 0
    while True:
        tries += 1
        case, g = cases.make_case(seed * 7 + 1, idx * 50 + tries, rng.choice(['validate', 'of', 'normalize', 'mixed']))
        try:
            codec.enc_val(case['schema'])
            codec.enc_val(case['doc'])
        except codec.OutOfUniverse:
            continue
        if cases.accepted(case) is True:
            break
    short, applied = rewrite.to_shorthand(rng, case['schema'], p=0.7)
    rules_sets, sub_schemas = {}, {}
    if rng.random() < 0.5:
        # parts of the schema live in the (shared, module-level) registries
        short, rules_sets, sub_schemas, refd = rewrite.to_references(rng, short, p=0.5)
        if rules_sets and rng.random() < 0.3:
            k = rng.choice(sorted(rules_sets))
            if isinstance(rules_sets[k], dict):
                rules_sets[k]['no_such_rule'] = 1              # an invalid definition: the constructions are rejected
    objs = [short]
    if rng.random() < 0.5:
        objs.append(copy.deepcopy(case['schema']))          # the canonical form as a second shared object
    docs = [case['doc'], g.document(case['schema']), g.arbitrary_document()]
    nthreads = rng.choice([2, 2, 2, 3])
    threads = []
    for t in range(nthreads):
        prog = [('construct', rng.randrange(len(objs)))]
        for _ in range(rng.choice([1, 1, 2])):
            prog.append((rng.choice(['validate', 'normalized']), 0, rng.randrange(len(docs))))
        if rng.random() < 0.3:
            prog.append(('construct', rng.randrange(len(objs))))
            prog.append(('validate', 1, rng.randrange(len(docs))))
        threads.append(prog)
    cfg = dict(case.get('cfg', {}))
    return {'objs': objs, 'cfg': cfg, 'docs': docs, 'threads': threads, 'cls': case.get('cls', 'V'),
            'rules_sets': rules_sets, 'schemas': sub_schemas,
            'origin': 'generated seed=%d idx=%d rewrites=%d references=%d' % (seed, idx, len(applied),
                                                                              len(rules_sets) + len(sub_schemas))}


def describe(sc):
    return {'objs': [repr(o)[:1500] for o in sc['objs']], 'cfg': repr(sc['cfg'])[:300],
            'rules_set_registry': repr(sc.get('rules_sets', {}))[:800], 'schema_registry': repr(sc.get('schemas', {}))[:800],
            'docs': [repr(d)[:300] for d in sc['docs']], 'threads': sc['threads'], 'origin': sc['origin']}


# ------------------------------------------------------------------ running programs on the real code

def canon(x):
    try:
        return repr(codec.canon_val(x))
    except Exception:
        return repr(x)


def step_op(sc, op, objs, cfg, held):
    """one operation of a thread program on the real code; returns its outcome"""
    cls = real.cls_of(sc)
    if op[0] == 'construct':
        try:
            v = cls(objs[op[1]], **cfg)
        except SchemaError:
            return ('rej',)
        except Exception as e:
            return ('raised', type(e).__name__, str(e)[:120])
        held.append(v)
        return ('acc', canon(dict(v.schema)))
    if op[1] >= len(held):
        return ('noinst',)
    v = held[op[1]]
    doc = copy.deepcopy(sc['docs'][op[2]])
    try:
        r = v.validate(doc) if op[0] == 'validate' else v.normalized(doc)
    except Exception as e:
        return ('raised', type(e).__name__, str(e)[:120])
    try:
        errs = repr(codec.canon_errs(v._errors, 1))
    except Exception:
        errs = repr(sorted(map(repr, v._errors)))
    try:
        rendered = repr(v.errors)           # the error handler's view: per instance as well
    except Exception as e:
        rendered = 'errors raised ' + type(e).__name__
    return ('call', op[0], canon(r), errs, canon(v.document), rendered)


def program(sc, tid, objs, cfg):
    def f():
        held = []
        c = cfg
        if sc.get('thread_rules'):
            # this thread's validators have a rules-set registry of their own
            from cerberus.schema import RulesSetRegistry
            reg = RulesSetRegistry()
            for k, d in sc['thread_rules'][tid % len(sc['thread_rules'])].items():
                reg.add(k, copy.deepcopy(d))
            c = dict(cfg, rules_set_registry=reg)
        return [step_op(sc, op, objs, c, held) for op in sc['threads'][tid]]
    return f


def fresh(lazy_absent, sc=None):
    # every run starts with free module-level locks: a lock that a defect left taken in an earlier run (or in the
    # process this one was forked from) must show in the run that leaks it, not block the harness
    for name, val in list(vars(cschema).items()):
        if type(val).__name__ in ('RLock', '_RLock', 'lock'):
            setattr(cschema, name, threading.RLock() if 'R' in type(val).__name__ else threading.Lock())
    Validator.clear_caches()
    real.clear_global_state()
    if lazy_absent and 'SchemaValidator' in vars(cschema):
        del cschema.SchemaValidator
    if sc is not None:
        # the registries the threads share (read-only while they run)
        for k, v in sc.get('rules_sets', {}).items():
            rules_set_registry.add(k, copy.deepcopy(v))
        for k, v in sc.get('schemas', {}).items():
            schema_registry.add(k, copy.deepcopy(v))


def alone(sc, lazy_absent=False):
    out = []
    for t in range(len(sc['threads'])):
        fresh(lazy_absent, sc)
        out.append(program(sc, t, copy.deepcopy(sc['objs']), copy.deepcopy(sc['cfg']))())
    return out


# ------------------------------------------------------------------ B/C: real threads

def run_plan(sc, plan, lazy_absent, files=FILES, timeout=20.0):
    fresh(lazy_absent, sc)
    objs, cfg = copy.deepcopy(sc['objs']), copy.deepcopy(sc['cfg'])
    s = sched.Sched([program(sc, t, objs, cfg) for t in range(len(sc['threads']))], plan, files, timeout=timeout)
    res = s.run((cschema,))
    return res, s


def yield_points(sc, files=FILES):
    """per thread: the locations (file:line) of its yield points when it runs alone"""
    n = []
    for t in range(len(sc['threads'])):
        fresh(False, sc)
        r, where = sched.run_alone(program(sc, t, copy.deepcopy(sc['objs']), copy.deepcopy(sc['cfg'])), files, (cschema,),
                                   record=True)
        n.append(where)
    return n


def worker_plans(args):
    """runs in a worker process: a batch of plans of one scenario; returns (mismatches, stats)"""
    seed, idx, plans, lazy_absent, wide = args
    import warnings
    warnings.simplefilter('ignore')
    sc = make_scenario(seed, idx)
    base = alone(sc, lazy_absent)
    bad, switches, blocks = [], 0, 0
    for plan in plans:
        try:
            res, s = run_plan(sc, plan, lazy_absent, FILES_WIDE if wide else FILES)
        except sched.Deadlock as e:
            if 'nobody will release' in str(e):
                # every thread waits for a lock: a deadlock of the code under test under this schedule
                bad.append({'plan': plan, 'thread': None, 'got': 'deadlock: %s' % e, 'alone': repr(base)[:300], 'deadlock': True})
                continue
            try:            # a time-out: the machine may be busy; once more with a long time-out
                res, s = run_plan(sc, plan, lazy_absent, FILES_WIDE if wide else FILES, timeout=120.0)
            except sched.Deadlock as e2:
                bad.append({'plan': plan, 'thread': None, 'got': 'scheduler: %s' % e2, 'alone': None, 'infra': True})
                continue
        switches += len(s.trace_log)
        blocks += s.lock_blocks
        for t, r in enumerate(res):
            got = r[1] if r[0] == 'ok' else r
            if got != base[t]:
                bad.append({'plan': plan, 'thread': t, 'got': repr(got)[:1500], 'alone': repr(base[t])[:1500],
                            'where': s.trace_log[:4]})
                break
    return idx, lazy_absent, bad, len(plans), switches, blocks


def worker_stress(args):
    seed, idx, nthreads, reps = args
    import warnings
    warnings.simplefilter('ignore')
    sc = make_scenario(seed, idx)
    progs = [sc['threads'][t % len(sc['threads'])] for t in range(nthreads)]
    sc2 = dict(sc, threads=progs)
    base = alone(sc2)
    bad = []
    old = sys.getswitchinterval()
    sys.setswitchinterval(1e-6)
    try:
        for rep in range(reps):
            fresh(rep % 2 == 0, sc2)
            objs, cfg = copy.deepcopy(sc2['objs']), copy.deepcopy(sc2['cfg'])
            res = [None] * nthreads
            barrier = threading.Barrier(nthreads)

            def run(t):
                f = program(sc2, t, objs, cfg)
                barrier.wait()
                try:
                    res[t] = f()
                except BaseException as e:
                    res[t] = ('raised', type(e).__name__, str(e)[:120])
            ths = [threading.Thread(target=run, args=(t,), daemon=True) for t in range(nthreads)]
            for th in ths:
                th.start()
            import time
            deadline = time.time() + 60
            for th in ths:
                th.join(max(0.1, deadline - time.time()))
            for t, th in enumerate(ths):
                if th.is_alive():
                    res[t] = ('blocked', 'the thread did not finish within 60 s')
            for t in range(nthreads):
                if res[t] != base[t]:
                    bad.append({'rep': rep, 'thread': t, 'nthreads': nthreads, 'got': repr(res[t])[:1500],
                                'alone': repr(base[t])[:1500]})
                    break
            if bad:
                break
    finally:
        sys.setswitchinterval(old)
    return idx, nthreads, bad, reps


def plans_for(where, per_line, rng, two=0):
    """1-preemption plans: thread a is preempted before a yield point, b runs to completion, a goes on.  The points
    are chosen by *line coverage*: for every distinct source line a thread passes, its first, last and up to
    `per_line` - 2 other occurrences.  `two` sampled 2-preemption plans (and 3-thread rotations) on top."""
    T = len(where)
    npoints = [len(w) for w in where]
    out = []
    for a in range(T):
        occ = {}
        for k, loc in enumerate(where[a]):
            occ.setdefault(loc, []).append(k)
        ks = set([0, npoints[a]])
        for loc, lst in occ.items():
            pick = [lst[0], lst[-1]]
            if per_line > 2 and len(lst) > 2:
                pick += rng.sample(lst[1:-1], min(per_line - 2, len(lst) - 2))
            ks.update(pick)
        for b in range(T):
            if a != b:
                for k in sorted(ks):
                    out.append([(a, k), (b, INF)])
    for _ in range(two):
        a, b = rng.sample(range(T), 2)
        k1 = rng.randrange(npoints[a] + 1)
        k2 = rng.randrange(npoints[b] + 1)
        if T == 3 and rng.random() < 0.5:
            c = 3 - a - b
            out.append([(a, k1), (b, k2), (c, rng.randrange(npoints[c] + 1)), (a, INF)])
        else:
            out.append([(a, k1), (b, k2), (a, INF)])
    return out


# ------------------------------------------------------------------ A: the `shared` port

class LoggingSet(set):
    """stands in for Validator._valid_schemas: records (op, key, top-level?)"""
    log = None

    @staticmethod
    def _top():
        f = sys._getframe(2)
        while f is not None:
            if f.f_code.co_name == '_validate' and f.f_code.co_filename.endswith('schema.py'):
                return False
            f = f.f_back
        return True

    def __contains__(self, k):
        r = set.__contains__(self, k)
        if LoggingSet.log is not None:
            LoggingSet.log.append(('lookup', k, r, self._top()))
        return r

    def add(self, k):
        if LoggingSet.log is not None:
            LoggingSet.log.append(('add', k, None, self._top()))
        set.add(self, k)


class Ids(object):
    def __init__(self):
        self.d = {}

    def __call__(self, x):
        return self.d.setdefault(x, len(self.d) + 1)


def port_shared(ctx, drv, seed, idx):
    sc = make_scenario(seed, idx)
    if sc.get('thread_rules'):
        ctx.cov['out_of_domain'] += 1          # registries per thread are not part of the op-granular model
        return
    if isinstance(sc['cfg'].get('allow_unknown'), dict):
        sc['cfg'] = dict(sc['cfg'], allow_unknown=True)       # one top-level cache transaction per construction
    rng = random.Random(seed * 31 + idx)
    sid, kid = Ids(), Ids()
    tables = {'expand': {}, 'key': {}, 'valid': {}, 'subs': {}, 'children': {}, 'process': {}}

    def child_id(k):
        c = sid('key:%r' % (k,))
        tables['key'][c] = kid(k)
        return c

    owner = next(c for c in Validator.__mro__ if '_valid_schemas' in vars(c))    # the class that defines the cache
    old = owner._valid_schemas
    owner._valid_schemas = LoggingSet()
    try:
        # 1. tables from each program alone, the cache cleared before every operation
        for t, prog in enumerate(sc['threads']):
            fresh(False, sc)
            objs, cfg, held = copy.deepcopy(sc['objs']), copy.deepcopy(sc['cfg']), []
            held_ids = []
            for op in prog:
                Validator._valid_schemas.clear()
                LoggingSet.log = []
                before = canon(objs[op[1]]) if op[0] == 'construct' else None
                out = step_op(sc, op, objs, cfg, held)
                log, LoggingSet.log = LoggingSet.log, None
                top = [e for e in log if e[3]]
                nested_adds = [e[1] for e in log if e[0] == 'add' and not e[3]]
                if op[0] == 'construct':
                    s0, s1 = sid(before), sid(canon(objs[op[1]]))
                    tables['expand'][s0] = s1
                    tables['expand'][s1] = s1
                    if out[0] == 'raised':
                        ctx.dist('port_skipped', 'construct raised ' + out[1])
                        return
                    looks = [e for e in top if e[0] == 'lookup']
                    if len(looks) != 1:
                        ctx.port_mismatch('shared', describe(sc), None, repr(top)[:400],
                                          'a construction is not one top-level cache transaction')
                        return
                    tables['key'][s1] = kid(looks[0][1])
                    tables['valid'][s1] = 1 if out[0] == 'acc' else 0
                    tables['subs'][s1] = [child_id(k) for k in nested_adds]
                    for c in tables['subs'][s1]:
                        tables['valid'][c] = 1
                    if out[0] == 'acc':
                        held_ids.append(s1)
                elif out[0] != 'noinst':
                    h = held_ids[op[1]]
                    d = op[2] * 2 + (1 if op[0] == 'normalized' else 0)
                    kids, i = [], 0
                    while i < len(top):
                        e = top[i]
                        if e[0] == 'lookup':
                            c = child_id(e[1])
                            added = i + 1 < len(top) and top[i + 1][0] == 'add' and top[i + 1][1] == e[1]
                            if e[2] or added:
                                tables['valid'][c] = 1
                            else:
                                tables['valid'].setdefault(c, 0)
                            kids.append(c)
                        i += 1
                    # nested adds of a call belong to the children that were validated cold; attribute them to the call's
                    # first cold child (the model only needs them in the cache after that child's check)
                    cold = [c for c, e in zip(kids, [x for x in top if x[0] == 'lookup']) if not e[2]]
                    if cold and nested_adds:
                        tables['subs'].setdefault(cold[0], [])
                        for k in nested_adds:
                            c = child_id(k)
                            tables['valid'][c] = 1
                            if c not in tables['subs'][cold[0]]:
                                tables['subs'][cold[0]].append(c)
                    tables['children'][(h, d)] = kids
                    tables['process'][(h, d)] = sid(repr(out))
        # 2. the shared history on the real code
        T = len(sc['threads'])
        order = [t for t in range(T) for _ in sc['threads'][t]]
        rng.shuffle(order)
        fresh(False, sc)
        Validator._valid_schemas.clear()
        objs, cfg = copy.deepcopy(sc['objs']), copy.deepcopy(sc['cfg'])
        obj0 = [sid(canon(o)) for o in objs]
        for s in obj0:
            tables['expand'].setdefault(s, s)
        held = [[] for _ in range(T)]
        pc = [0] * T
        real_outs = [[] for _ in range(T)]
        real_events = []
        for t in order:
            op = sc['threads'][t][pc[t]]
            pc[t] += 1
            LoggingSet.log = []
            out = step_op(sc, op, objs, cfg, held[t])
            log, LoggingSet.log = LoggingSet.log, None
            real_outs[t].append(out)
            for e in log:
                if e[3]:
                    real_events.append(['lookup', t, kid(e[1]), e[2]] if e[0] == 'lookup' else ['add', t, kid(e[1])])
            real_events.append(['cache', sorted(kid(k) for k in set(Validator._valid_schemas))])
        real_objs = [sid(canon(o)) for o in objs]
    finally:
        LoggingSet.log = None
        owner._valid_schemas = old
        Validator.clear_caches()
        real.clear_global_state()
    # 3. the model on the same interleaving
    progs = []
    for prog in sc['threads']:
        progs.append([[0, op[1]] if op[0] == 'construct' else [1, op[1], op[2] * 2 + (1 if op[0] == 'normalized' else 0)]
                      for op in prog])
    req = {'port': 'shared', 'opgran': True, 'cls': 0, 'cache': [], 'objs': obj0, 'progs': progs, 'sched': order,
           'expand': [[a, b] for a, b in tables['expand'].items()],
           'key': [[a, b] for a, b in tables['key'].items()],
           'valid': [[a, b] for a, b in tables['valid'].items()],
           'subs': [[a] + b for a, b in tables['subs'].items()],
           'children': [[h, d] + c for (h, d), c in tables['children'].items()],
           'process': [[h, d, r] for (h, d), r in tables['process'].items()]}
    rep = drv.ask(req)
    # 4. compare
    model_outs = []
    for t, outs in enumerate(rep['outs']):
        row = []
        for o in outs:
            if o[0] == 'acc':
                row.append(('acc', o[1]))
            elif o[0] == 'rej':
                row.append(('rej',))
            elif o[0] == 'call':
                row.append(('call', o[1]) if all(o[2]) else ('child-rejected',))
            else:
                row.append(('noinst',))
        model_outs.append(row)
    real_rows = []
    for t, outs in enumerate(real_outs):
        row = []
        for o in outs:
            if o[0] == 'acc':
                row.append(('acc', sid(o[1])))
            elif o[0] in ('rej', 'noinst'):
                row.append((o[0],))
            elif o[0] == 'call':
                row.append(('call', sid(repr(o))))
            else:
                row.append(('raised', o[1]))
        real_rows.append(row)
    jd = dict(describe(sc), order=order)
    if not all(rep['terminated']):
        ctx.port_mismatch('shared', jd, rep['terminated'], None, 'the model did not run every program to its end')
    if model_outs != real_rows:
        ctx.port_mismatch('shared', jd, repr(model_outs)[:800], repr(real_rows)[:800],
                          'outcomes of the shared history differ from the model run on the tables measured alone')
    mev = [e if e[0] != 'cache' else ['cache', sorted(set(e[1]))] for e in rep['events']]      # the model's cache is a list
    if mev != real_events:
        k = next((i for i, (a, b) in enumerate(zip(mev, real_events)) if a != b), min(len(mev), len(real_events)))
        ctx.port_mismatch('shared', jd, repr(mev[max(0, k - 2):k + 3]), repr(real_events[max(0, k - 2):k + 3]),
                          'cache traffic / cache contents differ (first difference at event %d)' % k)
    if rep['objs'] != real_objs:
        ctx.port_mismatch('shared', jd, rep['objs'], real_objs, 'final contents of the shared schema objects differ')
    hits = sum(1 for e in real_events if e[0] == 'lookup' and e[3])
    ctx.count('shared', key=(seed, idx), nontrivial=hits > 0 and len(set(order)) > 1,
              sample={'scenario': describe(sc)['origin'], 'order': order, 'events': len(real_events)})
    ctx.dist('shared_port_hits', min(hits, 10))
    ctx.dist('shared_port_threads', T)


# ------------------------------------------------------------------ D: footprint

def footprint():
    Validator({})                      # the lazily created class exists
    return {
        'rules_set_registry': canon(dict(rules_set_registry.all())),
        'schema_registry': canon(dict(schema_registry.all())),
        'types_mapping': sorted(Validator.types_mapping),
        'meta_types_mapping': sorted(cschema.SchemaValidator.types_mapping),
        'rules': canon({k: v for k, v in Validator.rules.items()}),
        'priority': repr(Validator.priority_validations) + repr(Validator.mandatory_validations),
        'schema_globals': sorted(k for k in vars(cschema) if not k.startswith('__')),
        'messages': repr(sorted(cerr.BasicErrorHandler.messages.items())),
        'class_attrs': sorted(k for k in vars(Validator) if not k.startswith('_Validator') and not k.startswith('__')),
    }


# ------------------------------------------------------------------ the check

def explore(ctx, n_scen, per_line, two, stress_reps, wide=False, first=0):
    """parts B and C in worker processes"""
    jobs, stress = [], []
    rng = random.Random(ctx.seed * 97 + 5)
    for idx in range(first, first + n_scen):
        sc = make_scenario(ctx.seed, idx)
        try:
            npoints = yield_points(sc, FILES_WIDE if wide else FILES)
        except sched.Deadlock as e:
            raise RuntimeError('scheduler fault on scenario %d: %s' % (idx, e))
        plans = plans_for(npoints, per_line + (1 if idx < len(CORPUS) else 0), rng, two)
        ctx.dist('distinct_lines_preempted', 'scenario %d' % idx, len(set(l for w in npoints for l in w)))
        for lazy_absent in ((True, False) if idx < len(CORPUS) or rng.random() < 0.3 else (False,)):
            for i in range(0, len(plans), 40):
                jobs.append((ctx.seed, idx, plans[i:i + 40], lazy_absent, wide))
        if stress_reps:
            stress.append((ctx.seed, idx, rng.choice([2, 3, 4, 8]), stress_reps))
    procs = min(14, os.cpu_count() or 2)
    infra = []
    # one process per job: a thread that a defect leaves blocked (or a lock it leaves taken) must not outlive its job
    with multiprocessing.get_context('fork').Pool(procs, maxtasksperchild=1) as pool:
        for idx, lazy_absent, bad, nplans, switches, blocks in pool.imap_unordered(worker_plans, jobs):
            ctx.cov['evaluations'] += nplans
            ctx.cov['ports']['schedules'] = ctx.cov['ports'].get('schedules', 0) + nplans
            ctx.dist('scheduler', 'plans', nplans)
            ctx.dist('scheduler', 'context switches taken', switches)
            ctx.dist('scheduler', 'blocked on the expansion lock', blocks)
            for b in bad:
                sc = make_scenario(ctx.seed, idx)
                if b.get('infra'):
                    infra.append('%s (scenario %d, plan %r)' % (b['got'], idx, b['plan']))
                    continue
                ctx._distinct.add('bad-%d-%r' % (idx, b['plan']))
                ctx.fail('C18: under a deterministic schedule a thread has an outcome it does not have alone',
                         {'scenario': describe(sc), 'seed': ctx.seed, 'scenario_index': idx, 'plan': b['plan'],
                          'lazy_class_absent': lazy_absent, 'wide': wide},
                         classifier='thread_interference', detail=b)
        for idx, nthreads, bad, reps in pool.imap_unordered(worker_stress, stress):
            ctx.cov['evaluations'] += reps
            ctx.cov['ports']['stress'] = ctx.cov['ports'].get('stress', 0) + reps
            ctx.dist('stress_threads', nthreads, reps)
            for b in bad:
                sc = make_scenario(ctx.seed, idx)
                ctx.fail('C18: with free-running threads a thread has an outcome it does not have alone',
                         {'scenario': describe(sc), 'seed': ctx.seed, 'scenario_index': idx, 'stress': True,
                          'nthreads': nthreads},
                         classifier='thread_interference', detail=b)
    if infra and not ctx.failures:
        _raise_infra(infra)


def _raise_infra(infra):
    if infra:
        from .. import core
        raise core.InfraError('the thread scheduler timed out twice (busy machine?): %s' % infra[0])


def run(ctx, n):
    ctx.cov['rule'] = ('A: op-granular shared histories, model vs real (outcomes, top-level cache traffic, cache contents, object '
                       'contents), non-trivial = >= 1 cache hit across >= 2 threads; B: real threads under deterministic '
                       '1-/2-preemption plans at line granularity in cerberus/schema.py (lazy class absent/present), every plan is '
                       'a distinct schedule; C: free-running threads with switch interval 1e-6; D: footprint of other shared state')
    thorough = ctx.tier == 'thorough'
    before = footprint()
    with Driver() as drv:
        for idx in range(n // 10 if not thorough else n // 20):
            try:
                port_shared(ctx, drv, ctx.seed, idx)
            except codec.OutOfUniverse:
                ctx.cov['out_of_domain'] += 1
    n_scen = (len(CORPUS) + 3) if not thorough else (len(CORPUS) + 20)
    explore(ctx, n_scen, per_line=2 if not thorough else 4, two=60 if not thorough else 1000,
            stress_reps=6 if not thorough else 60)
    if thorough:
        explore(ctx, len(CORPUS) + 2, per_line=2, two=200, stress_reps=0, wide=True)
    Validator.clear_caches()
    real.clear_global_state()
    after = footprint()
    if after != before:
        diff = [k for k in before if before[k] != after[k]]
        ctx.fail('C18: process-wide state outside the cache and the shared schema objects changed: %s' % diff,
                 {'changed': diff}, classifier='footprint', detail={k: (before[k][:300], after[k][:300]) for k in diff})
    ctx._distinct.update('plan-%d' % i for i in range(ctx.cov['ports'].get('schedules', 0)))


def search(ctx, n):
    if n < 1000:        # shortened search (VERIF_SEARCH_SCALE)
        explore(ctx, len(CORPUS) + 2, per_line=2, two=40, stress_reps=4, first=0)
    else:
        explore(ctx, len(CORPUS) + 12, per_line=5, two=400, stress_reps=20, first=0)


def replay_plan(rp):
    """re-run the recorded schedule on the current tree"""
    case = rp['case']
    sc = make_scenario(case['seed'], case['scenario_index'])
    if case.get('stress'):
        idx, nthreads, bad, reps = worker_stress((case['seed'], case['scenario_index'], case['nthreads'], 200))
        return bad
    idx, lazy, bad, nplans, sw, bl = worker_plans((case['seed'], case['scenario_index'], [case['plan']],
                                                   case['lazy_class_absent'], case.get('wide', False)))
    return bad
