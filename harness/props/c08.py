"""C08 — the validated-schema cache is never observable except in speed.

Oracle: histories of schema submissions across Validator and subclasses (valid and
corrupted schemas, schemas differing only in the Python type of an equal constraint,
colliding integer hashes, a string vs the list of its characters, the same rule set in
different rule contexts, rules / types that only a subclass defines), interleaved with
clear_caches(), through several entry points; every outcome (accepted / SchemaError /
other exception, and the validation of a document afterwards) is compared with the
outcome of the same history in which the cache is cleared before every submission.
A difference is matched against the known findings F13a-g by the scenario that
produced it; any other difference is a violation.
Port `hkey`: the Lean model of the cache key (Model/Cache.lean) against
`cerberus.utils.mapping_hash` on pairs of mappings: equal keys in the model iff equal
hashes in the code.
"""
import copy
import random

from cerberus import Validator, SchemaError, TypeDefinition, schema_registry, rules_set_registry
from cerberus.utils import mapping_hash

from .. import codec, real, cases, families, schemas
from ..lean import Driver


class OddValidator(Validator):
    """a subclass with an extra rule (same types_mapping as the base class)"""
    def _validate_is_odd(self, constraint, field, value):
        """{'type': 'boolean'}"""
        if constraint and isinstance(value, int) and value % 2 == 0:
            self._error(field, 'must be odd')


class TypedValidator(Validator):
    """a subclass with an extra type (different types_mapping)"""
    types_mapping = Validator.types_mapping.copy()
    types_mapping['even'] = TypeDefinition('even', (int,), (bool,))


CLASSES = {'V': Validator, 'VV': families.VValidator, 'Odd': OddValidator, 'Typed': TypedValidator}


def submit(cls, schema, doc, entry):
    try:
        if entry == 'ctor':
            v = cls(copy.deepcopy(schema))
        elif entry == 'setter':
            v = cls()
            v.schema = copy.deepcopy(schema)
        else:
            v = cls({'zz0': {}})
            v.schema.update(copy.deepcopy(schema))
    except SchemaError:
        return ('schema_error',)
    except Exception as e:
        return ('raised', type(e).__name__)
    try:
        r = v.validate(copy.deepcopy(doc))
        return ('accepted', r, codec.canon_errs(v._errors, 1))
    except Exception as e:
        return ('accepted', 'validate raised', type(e).__name__)


def scenarios(rng, g):
    """yield lists of steps: (class name, schema, doc, entry, tag)"""
    base = g.schema()
    doc = g.document(base)
    kind = rng.choice(['plain', 'plain', 'type', 'hash', 'string', 'context', 'subclass_rule', 'subclass_type', 'corrupt',
                       'corrupt', 'corrupt', 'corrupt', 'nested_list', 'nested_list', 'registry', 'recursive', 'recursive_rules', 'role', 'role', 'nest', 'nest', 'none_rule', 'none_rule', 'of_partial', 'of_partial'])
    e = lambda: rng.choice(['ctor', 'setter', 'update'])
    if kind == 'plain':
        other = g.schema()
        return kind, [('V', base, doc, e(), None), ('VV', base, doc, e(), None), ('V', other, doc, e(), None),
                      ('V', base, doc, e(), None)]
    if kind == 'corrupt':
        # single-point corruptions at any rule-set position (sub-schemas, *of members, keys/values rules, items):
        # parts of the intact schema are cached when the corrupted one arrives
        steps = [('V', base, doc, e(), None)]
        for ckind, path, bad in schemas.corruptions(rng, base, k=4):
            if ckind == 'forbidden_in_of':
                continue            # a normalization rule in an *of member: that is the rule-context finding F13d
            steps.append(('V', bad, doc, e(), None))
            if rng.random() < 0.3:
                steps.append(('V', base, doc, e(), None))
        return kind, steps
    if kind == 'none_rule':
        # a rule whose constraint is None, added to a rule set of a schema that is already cached: the rule set is not
        # the cached one and None is not a legal constraint of these rules
        positions = list(schemas.rule_sets(base))
        var = copy.deepcopy(base)
        if positions:
            path, rules, _ = positions[rng.randrange(len(positions))]
            free = [r for r in ('required', 'readonly', 'nullable', 'empty', 'minlength', 'maxlength', 'regex', 'allowed',
                                'forbidden', 'dependencies', 'excludes', 'type') if r not in rules]
            schemas._follow(var, path)[rng.choice(free)] = None
        else:
            base, var, doc = {'f': {'type': 'string'}}, {'f': {'type': 'string', 'required': None}}, {}
        steps = [('V', base, doc, e(), None), ('V', var, doc, e(), None)]
        if rng.random() < 0.5:
            steps.append(('V', {'w': {'type': 'dict', 'schema': copy.deepcopy(var)}}, {}, e(), None))
        return kind, steps
    if kind == 'of_partial':
        # a list of *of definitions with a malformed member is rejected whatever the other members are, and the malformed
        # member is rejected again when it comes back in another list, alone, or as a rule set of its own
        goods = [{'type': 'string'}, {'type': 'integer', 'min': rng.randrange(5)}, {'nullable': True}, {'maxlength': 3},
                 {'type': ['integer', 'string']}, {'allowed': [1, 2]}]
        bad = copy.deepcopy(rng.choice(goods))
        r = rng.choice(['required', 'minlength', 'regex', 'allowed', 'type', 'nullable', 'empty', 'no_such_rule', 'min', 'dependencies'])
        bad[r] = 'no_such_type' if r == 'type' else 1 if r == 'no_such_rule' else copy.deepcopy(schemas.BAD_CONSTRAINTS[r])
        ops = ['anyof', 'allof', 'oneof', 'noneof']
        first = [copy.deepcopy(rng.choice(goods)) for _ in range(rng.randrange(0, 3))]
        first.insert(rng.randrange(len(first) + 1), copy.deepcopy(bad))
        if rng.random() < 0.7:
            first.append(copy.deepcopy(rng.choice(goods)))          # the last member is well-formed
        later = [copy.deepcopy(rng.choice(goods)) for _ in range(rng.randrange(0, 2))]
        later.insert(rng.randrange(len(later) + 1), copy.deepcopy(bad))
        steps = [('V', {'f': {rng.choice(ops): first}}, {}, e(), None), ('V', {'g': {rng.choice(ops): later}}, {}, e(), None)]
        if rng.random() < 0.5:
            steps.append(('V', {'h': {'type': 'dict', 'valuesrules': copy.deepcopy(bad)}}, {}, e(), None))
        if rng.random() < 0.5:
            steps.append(('V', {'i': {rng.choice(ops): [copy.deepcopy(bad)]}}, {}, e(), None))
        return kind, steps
    if kind == 'nested_list':
        # a list constraint and the same list wrapped in a list must not share a key
        var, done = copy.deepcopy(base), [False]

        def wrap(v, depth=0):
            if isinstance(v, dict):
                for k in list(v):
                    if isinstance(v[k], list) and v[k] and not done[0] and rng.random() < 0.5:
                        v[k] = [v[k]]
                        done[0] = True
                    else:
                        wrap(v[k], depth + 1)
            elif isinstance(v, list):
                for x in v:
                    wrap(x, depth + 1)
        wrap(var)
        if not done[0]:
            var = {'f': {'dependencies': [['a', 'b']]}}
            base = {'f': {'dependencies': ['a', 'b']}}
            doc = {}
        return kind, [('V', base, doc, e(), None), ('V', var, doc, e(), None)]
    if kind == 'role':
        # one mapping in two roles: as the rule set of a bulk rule and as a whole schema.  A rule set is
        # rarely a well-formed schema and vice versa; the cache must keep the two apart.
        rs = g.rules(1)
        as_rules = {'f': {'type': 'dict', rng.choice(['valuesrules', 'keysrules']): rs}}
        as_items = {'f': {'type': 'list', 'items': [rs]}}
        sch = {'required': {'type': 'boolean'}, 'min': {'type': 'integer'}, 'type': {'type': 'string'}}
        as_rules2 = {'f': {'type': 'dict', 'valuesrules': sch}}
        if rng.random() < 0.5:
            return kind, [('V', as_rules, {}, e(), None), ('V', rs, {}, e(), None), ('V', as_items, {}, e(), None),
                          ('V', rs, {}, e(), None)]
        return kind, [('V', sch, {}, e(), None), ('V', as_rules2, {}, e(), None), ('V', {'type': {'type': 'string'}}, {}, e(), None),
                      ('V', {'f': {'type': 'dict', 'valuesrules': {'type': {'type': 'string'}}}}, {}, e(), None),
                      ('V', {'f': {'type': 'dict', 'valuesrules': {'type': 'string'}}}, {}, e(), None),
                      ('V', {'type': 'string'}, {}, e(), None)]
    if kind == 'nest':
        # a schema in shorthand / deprecated / spaced form, first on its own, then as a sub-schema
        from .. import rewrite
        short, applied = rewrite.to_shorthand(rng, base, p=0.8)
        if not applied:
            short = {'p': {'check with': families.k_pass, 'type': 'integer'}, 'q': {'anyof type': ['integer', 'string']},
                     'r': {'type': 'dict', 'allow unknown': True}}
        as_dict = {'f': {'type': 'dict', 'schema': copy.deepcopy(short)}}
        as_list = {'l': {'type': 'list', 'schema': {'type': 'dict', 'schema': copy.deepcopy(short)}}}
        return kind, [('V', copy.deepcopy(short), doc, e(), None), ('V', as_dict, {'f': doc}, e(), None),
                      ('V', as_list, {'l': [doc]}, e(), None)]
    if kind == 'registry':
        # a reference is cached by name: redefine the name between two submissions (known finding F13f)
        ref = {'a': 'r0'}
        return kind, [('V', ref, {'a': 1}, e(), None, {'rules': {'r0': {'type': 'integer'}}}),
                      ('V', ref, {'a': 1}, e(), 'cache_registry_redefinition', {'rules': {'r0': {'type': 'no_such_type'}}})]
    if kind == 'recursive':
        # a part of a rejected self-referential definition, submitted on its own afterwards (known finding F13g)
        node = {'v': {'type': 'no_such_type'}, 'kids': {'type': 'list', 'schema': {'type': 'dict', 'schema': 'node0'}}}
        return kind, [('V', {'root': {'type': 'dict', 'schema': 'node0'}}, {}, e(), None, {'schemas': {'node0': node}}),
                      ('V', {'x': {'type': 'list', 'schema': {'type': 'dict', 'schema': 'node0'}}}, {}, e(),
                       'cache_part_of_rejected_recursive_definition')]
    if kind == 'recursive_rules':
        # a rules set that refers to itself from within a `schema` mapping and is malformed elsewhere: rejected; the inner
        # mapping of the rejected definition, submitted on its own afterwards, is rejected as well
        node = {'type': 'dict', 'schema': {'child': 'node1'}, 'required': 'yes'}
        return kind, [('V', {'root': 'node1'}, {}, e(), None, {'rules': {'node1': node}}),
                      ('V', {'x': {'type': 'dict', 'schema': {'child': 'node1'}}}, {}, e(), None),
                      ('V', {'y': {'type': 'list', 'schema': {'type': 'dict', 'schema': {'child': 'node1'}}}}, {}, e(), None)]
    if kind == 'type':
        a = {'f': {'type': 'dict', 'valuesrules': {'required': True}}}
        b = {'f': {'type': 'dict', 'valuesrules': {'required': 1}}}
        return kind, [('V', a, {}, e(), None), ('V', b, {}, e(), 'cache_equal_value_different_type')]
    if kind == 'hash':
        a = {'f': {'type': 'dict', 'valuesrules': {'required': False}}}
        b = {'f': {'type': 'dict', 'valuesrules': {'required': 2 ** 61 - 1}}}
        return kind, [('V', a, {}, e(), None), ('V', b, {}, e(), 'cache_hash_collision')]
    if kind == 'string':
        a = {'f': {'type': 'dict', 'valuesrules': {'regex': 'ab'}}}
        b = {'f': {'type': 'dict', 'valuesrules': {'regex': ['a', 'b']}}}
        return kind, [('V', a, {}, e(), None), ('V', b, {'f': {'k': 'ab'}}, e(), 'cache_string_vs_characters')]
    if kind == 'context':
        rs = {'type': 'integer', 'default': rng.choice([1, 2, 3])}
        a = {'f': {'type': 'dict', 'valuesrules': rs}}
        b = {'f': {'anyof': [rs]}}
        return kind, [('V', a, {}, e(), None), ('V', b, {'f': 1}, e(), 'cache_rule_context')]
    if kind == 'subclass_rule':
        a = {'f': {'type': 'dict', 'valuesrules': {'is_odd': True}}}
        return kind, [('Odd', a, {'f': {'k': 3}}, e(), None), ('V', a, {'f': {'k': 3}}, e(), 'cache_shared_by_subclasses')]
    # subclass_type: the cache key has the types_mapping in it; this must hold
    a = {'f': {'type': 'dict', 'valuesrules': {'type': 'even'}}}
    return kind, [('Typed', a, {'f': {'k': 2}}, e(), None), ('V', a, {'f': {'k': 2}}, e(), None),
                  ('Typed', {'g': {'type': 'even'}}, {'g': 2}, e(), None), ('V', {'g': {'type': 'even'}}, {'g': 2}, e(), None)]


def run_history(steps, clear_every):
    Validator.clear_caches()
    real.clear_global_state()
    outs = []
    try:
        for st in steps:
            cname, schema, doc, entry, tag = st[:5]
            if len(st) > 5:
                # the registries as they are when this submission is made
                for k, v in st[5].get('rules', {}).items():
                    rules_set_registry.add(k, copy.deepcopy(v))
                for k, v in st[5].get('schemas', {}).items():
                    schema_registry.add(k, copy.deepcopy(v))
            if clear_every:
                Validator.clear_caches()
            outs.append(submit(CLASSES[cname], schema, doc, entry))
    finally:
        real.clear_global_state()
    return outs


def kept_validator(ctx):
    """histories on validators that are kept: a schema that refers to a registry entry (first checked, then found in the
    cache) is extended after the entry was redefined or removed; every submission warm vs. the cache cleared before it"""
    good = {'x': {'type': 'integer'}}
    bad = {'x': {'type': 'no_such_type'}}
    for how in ('setitem', 'update', 'setter'):
        for change in ('redefined', 'removed'):
            for kind in ('schema', 'rules'):
                outs = []
                for clear_every in (False, True):
                    Validator.clear_caches()
                    real.clear_global_state()
                    try:
                        if kind == 'schema':
                            schema_registry.add('S0', copy.deepcopy(good))
                            ref = {'type': 'dict', 'schema': 'S0'}
                        else:
                            rules_set_registry.add('S0', {'type': 'integer'})
                            ref = {'type': 'list', 'schema': 'S0'}
                        Validator({'a': copy.deepcopy(ref)})
                        if clear_every:
                            Validator.clear_caches()
                        b = Validator({'b': copy.deepcopy(ref)})
                        reg = schema_registry if kind == 'schema' else rules_set_registry
                        reg.remove('S0')
                        if change == 'redefined':
                            reg.add('S0', copy.deepcopy(bad) if kind == 'schema' else {'type': 'no_such_type'})
                        if clear_every:
                            Validator.clear_caches()
                        try:
                            if how == 'setitem':
                                b.schema['c'] = copy.deepcopy(ref)
                            elif how == 'update':
                                b.schema.update({'c': copy.deepcopy(ref)})
                            else:
                                b.schema = {'b': copy.deepcopy(ref), 'c': copy.deepcopy(ref)}
                            outs.append('accepted')
                        except SchemaError:
                            outs.append('schema_error')
                        except Exception as e:
                            outs.append('raised ' + type(e).__name__)
                    finally:
                        real.clear_global_state()
                        Validator.clear_caches()
                ctx.dist('kept_validator', '%s/%s/%s: %s' % (kind, change, how, outs[0]))
                if outs[0] != outs[1]:
                    ctx.fail('C08 oracle: a kept validator whose schema refers to the %s-registry entry S0 is extended (%s) after S0 '
                             'was %s: warm outcome %r, outcome with the cache cleared before every submission %r'
                             % (kind, how, change, outs[0], outs[1]),
                             {'scenario': 'kept_validator', 'registry': kind, 'change': change, 'entry': how})


def hash_twins(v):
    nums = set()

    def walk(x):
        if isinstance(x, (int, float)) and not isinstance(x, bool):
            nums.add(x)
        elif isinstance(x, dict):
            for k, y in x.items():
                walk(k)
                walk(y)
        elif isinstance(x, (list, tuple, set, frozenset)):
            for y in x:
                walk(y)
    walk(v)
    hs = {}
    for x in nums:
        hs.setdefault(hash(x), set()).add(x)
    return any(len(xs) > 1 for xs in hs.values())


def variants(rng, m):
    """mappings that may or may not share the cache key with `m`"""
    out = [('same', copy.deepcopy(m))]
    items = list(m.items())
    rng.shuffle(items)
    out.append(('reordered', dict(items)))

    def conv(v, f):
        if isinstance(v, dict):
            return {k: conv(x, f) for k, x in v.items()}
        if isinstance(v, (list, tuple)):
            return type(v)(conv(x, f) for x in v)
        return f(v)
    out.append(('true->1', conv(m, lambda v: 1 if v is True else v)))
    out.append(('int->float', conv(m, lambda v: float(v) if isinstance(v, int) and not isinstance(v, bool) else v)))
    out.append(('0->2**61-1', conv(m, lambda v: 2 ** 61 - 1 if v == 0 and not isinstance(v, (bool, float)) and isinstance(v, int) else v)))
    out.append(('-1->-2', conv(m, lambda v: -2 if isinstance(v, int) and not isinstance(v, bool) and v == -1 else v)))

    def swap(v):
        if isinstance(v, dict):
            return {k: swap(x) for k, x in v.items()}
        if isinstance(v, list):
            return tuple(swap(x) for x in v)
        if isinstance(v, tuple):
            return [swap(x) for x in v]
        return v
    out.append(('list<->tuple', swap(m)))
    out.append(('str->chars', {k: (list(v) if isinstance(v, str) else v) for k, v in m.items()}))
    out.append(('1->2', conv(m, lambda v: 2 if isinstance(v, int) and not isinstance(v, bool) and v == 1 else v)))
    m2 = copy.deepcopy(m)
    m2['extra_key'] = 1
    out.append(('extra key', m2))
    m3 = copy.deepcopy(m)
    m3['extra_none'] = None
    out.append(('extra key with None', m3))
    if m:
        k0 = rng.choice(sorted(m, key=repr))
        out.append(('value->None', {k: (None if k == k0 else v) for k, v in m.items()}))
        out.append(('key dropped vs None', {k: v for k, v in m.items() if k != k0}))
    m4 = copy.deepcopy(m)
    for k, v in m4.items():
        if isinstance(v, dict):
            v['extra_none'] = None
            out.append(('nested extra key with None', m4))
            break
        if isinstance(v, list) and v and isinstance(v[0], dict):
            v[0]['extra_none'] = None
            out.append(('nested extra key with None', m4))
            break
    out.append(('list->[list]', {k: ([v] if isinstance(v, list) and v else v) for k, v in m.items()}))
    out.append(('[x,y]->[[x],y]', {k: ([[v[0]]] + list(v[1:]) if isinstance(v, list) and len(v) > 1 else v) for k, v in m.items()}))
    return out


def run(ctx, n):
    ctx.cov['rule'] = ('histories of 2-4 submissions across Validator and three subclasses (plain, corrupted, equal constraint of a '
                       'different Python type, colliding integer hash, string vs characters, rule context, subclass-only rule, '
                       'subclass-only type, a None-valued rule added to a cached rule set, a malformed *of member coming back in other lists) through constructor / setter / update, warm vs cache cleared before every submission; '
                       'hkey port: Lean cache key vs mapping_hash on variant pairs; non-trivial = a history whose later step '
                       'depends on an earlier one; distinct by scenario and schemas')
    ctx.assumptions.append('string hashing is assumed collision free; the key of the model identifies exactly what '
                           'mapping_to_frozenset + hash identify on the value universe')
    rng = random.Random(ctx.seed * 41 + 3)
    from .. import gen
    kept_validator(ctx)
    with Driver() as drv:
        for i in range(n):
            g = gen.Gen(gen.case_rng(ctx.seed, i), max_depth=2, normalization=0.2, logical=0.3)
            kind, steps = scenarios(rng, g)
            try:
                for st in steps:
                    codec.enc_val(st[1])
            except codec.OutOfUniverse:
                continue
            warm = run_history(steps, False)
            cold = run_history(steps, True)
            jcase = {'scenario': kind, 'steps': [[st[0], codec.enc_val(st[1]), codec.enc_val(st[2]), st[3], st[4]] +
                                                 ([codec.enc_val(st[5])] if len(st) > 5 else []) for st in steps]}
            for k, (w, c) in enumerate(zip(warm, cold)):
                if w != c:
                    tag = steps[k][4]
                    ctx.fail('C08 oracle: step %d of a %r history: warm outcome %r, outcome with the cache cleared beforehand %r'
                             % (k, kind, w[:2], c[:2]), jcase, classifier=tag)
                    break
            ctx.count('history', key=repr(jcase), nontrivial=kind != 'plain' or True,
                      sample={'scenario': kind, 'classes': [s[0] for s in steps], 'warm': [w[0] for w in warm]})
            ctx.dist('scenario', kind)
            for w in warm:
                ctx.dist('outcome', w[0])
            # hkey port on the rule sets of this history
            if i % 3 == 0:
                m = g.rules(1)
                try:
                    for name, var in variants(rng, m):
                        if hash_twins(m) or hash_twins(var):
                            # distinct numbers with one Python hash (hash(-1) == hash(-2)) inside one mapping: the key of
                            # the code is a function of CPython's set-hash arithmetic then (finding F13b names the class);
                            # the model's key does not follow it there
                            ctx.dist('hkey_skipped', 'numbers with equal hashes')
                            continue
                        realeq = mapping_hash(m) == mapping_hash(var)
                        rep = drv.ask({'port': 'hkey', 'a': codec.enc_val(m), 'b': codec.enc_val(var)})
                        ctx.dist('hkey_' + ('equal' if realeq else 'different'), name)
                        if rep != realeq:
                            ctx.port_mismatch('hkey', {'a': codec.enc_val(m), 'b': codec.enc_val(var), 'variant': name},
                                              rep, realeq, 'cache key equality differs (%s)' % name)
                except codec.OutOfUniverse:
                    pass
                except TypeError:
                    pass
    Validator.clear_caches()


def search(ctx, n):
    run(ctx, n)
