"""C15 — schema shorthands mean exactly their canonical form.

Oracle: a canonical generated schema is rewritten at random subsets of eligible
positions (at any depth: sub-schemas, list schemas, keysrules / valuesrules, items,
*of definitions, allow_unknown rule sets) into `<of-rule>_<rule>` shorthands (also for
rules whose own name contains an underscore), deprecated rule names and rule names
with spaces; the rewritten schema must be accepted, expose the canonical form as
validator.schema, and give the same verdict, errors and normalized document.
Port `accept`: the Lean model of expansion + acceptance on the rewritten schema must
expose the same expanded schema as the real code.
"""
import copy
import random

from cerberus import Validator, SchemaError

from .. import codec, real, cases, ports, schemas, rewrite, families
from ..lean import Driver


def canon_schema(v):
    return codec.canon_val(dict(v.schema))


def one(ctx, drv, i, prof, case):
    rng = random.Random(ctx.seed * 29 + i)
    if cases.accepted(case) is not True:
        return
    short, applied = rewrite.to_shorthand(rng, case['schema'], p=0.6)
    jcase = dict(real.enc_case(case), shorthand=codec.enc_val(short), rewrites=[list(map(str, a)) for a in applied])
    Validator.clear_caches()
    canon_v = real.make_validator(case)
    Validator.clear_caches()
    c2 = dict(case, schema=short)
    au = case.get('cfg', {}).get('allow_unknown')
    au_by = None
    if isinstance(au, dict) and au:
        # the rule set given as the validator option allow_unknown is written in shorthand form as well,
        # and handed over by the constructor or by assignment
        w, ap = rewrite.to_shorthand(rng, {0: au}, p=0.7)
        if ap:
            applied = applied + [(k, key, 'option allow_unknown') for k, key, where in ap]
            au_by = rng.choice(['constructor', 'assignment'])
            c2 = dict(c2, cfg=dict(case['cfg'], allow_unknown=w[0]))
            jcase['allow_unknown_shorthand'] = codec.enc_val(w[0])
            jcase['allow_unknown_given_by'] = au_by
    entry = rng.choice(['constructor', 'constructor', 'setter', 'item assignment', 'update'])
    jcase['entry'] = entry
    try:
        if au_by == 'assignment':
            short_v = real.make_validator(dict(c2, cfg={k: v for k, v in c2['cfg'].items() if k != 'allow_unknown'}))
            short_v.allow_unknown = copy.deepcopy(c2['cfg']['allow_unknown'])
        elif entry == 'constructor':
            short_v = real.make_validator(c2)
        else:
            # the shorthand form handed over through another entry point means the same
            short_v = real.cls_of(c2)({}, **copy.deepcopy(c2.get('cfg', {})))
            if entry == 'setter':
                short_v.schema = copy.deepcopy(short)
            elif entry == 'update':
                short_v.schema.update(copy.deepcopy(short))
            else:
                for k in short:
                    short_v.schema[k] = copy.deepcopy(short[k])
        ctx.dist('entry', entry)
    except SchemaError as e:
        ctx.fail('C15 oracle: the shorthand form is rejected although the canonical form is accepted (%s)'
                 % (applied[:3],), jcase, detail=str(e)[:300])
        return
    except Exception as e:
        ctx.fail('C15 oracle: the shorthand form raised %s' % type(e).__name__, jcase)
        return
    if canon_schema(short_v) != canon_schema(canon_v):
        ctx.fail('C15 oracle: validator.schema of the shorthand form is not the canonical form', jcase,
                 detail={'exposed': repr(dict(short_v.schema))[:800], 'canonical': repr(dict(canon_v.schema))[:800]})
        return
    # expanding an expanded schema changes nothing (what the thread model of C18 assumes of `expand`)
    from cerberus.schema import DefinitionSchema
    e1 = DefinitionSchema.expand(copy.deepcopy(short))
    e2 = DefinitionSchema.expand(copy.deepcopy(e1))
    if codec.canon_val(e1) != codec.canon_val(e2):
        ctx.fail('C15 oracle: expansion is not idempotent on a shorthand schema', jcase,
                 detail={'once': repr(e1)[:800], 'twice': repr(e2)[:800]})
        return
    for normalize in (False, True):
        a = real.run_validate(case, normalize=normalize)
        if au_by == 'assignment':
            bv = real.make_validator(dict(c2, cfg={k: v for k, v in c2['cfg'].items() if k != 'allow_unknown'}))
            bv.allow_unknown = copy.deepcopy(c2['cfg']['allow_unknown'])
            b = real.run_validate(c2, normalize=normalize, v=bv)
        else:
            b = real.run_validate(c2, normalize=normalize)
        if (a.exc is None) != (b.exc is None):
            ctx.fail('C15 oracle: only one of the two forms raised', jcase)
            return
        if a.exc is None:
            if a.ret != b.ret or codec.canon_errs(a.errors, 1) != codec.canon_errs(b.errors, 1) \
                    or codec.canon_val(a.document) != codec.canon_val(b.document):
                ctx.fail('C15 oracle: verdict / errors / processed document differ between shorthand and canonical form '
                         '(normalize=%s)' % normalize, jcase)
                return
    # shorthand definitions that live in a registry mean their canonical form as well, however they got there
    if i % 2 == 0:
        from cerberus import schema_registry, rules_set_registry
        from cerberus.schema import RulesSetRegistry, SchemaRegistry
        # references are placed on the canonical schema (the rewriting tool classifies positions by rule names);
        # then every definition and what is left inline are rewritten into shorthand form
        refschema, rs, ss, refd = rewrite.to_references(rng, case['schema'], p=0.5)
        n_short = 0
        if refd:
            rs2 = {}
            for k, v in rs.items():
                w, ap = rewrite.to_shorthand(rng, {0: v}, p=0.6) if isinstance(v, dict) else ({0: v}, [])
                rs2[k] = w[0]
                n_short += len(ap)
            ss2 = {}
            for k, v in ss.items():
                w, ap = rewrite.to_shorthand(rng, v, p=0.6) if isinstance(v, dict) else (v, [])
                ss2[k] = w
                n_short += len(ap)
            rs, ss = rs2, ss2
            refschema, ap = rewrite.to_shorthand(rng, refschema, p=0.4)
            n_short += len(ap)
        if refd and n_short:
            how = rng.choice(['add', 'extend', 'constructor'])
            real.clear_global_state()
            cfg = copy.deepcopy(case.get('cfg', {}))
            try:
                if how == 'add':
                    for k, v in rs.items():
                        rules_set_registry.add(k, copy.deepcopy(v))
                    for k, v in ss.items():
                        schema_registry.add(k, copy.deepcopy(v))
                elif how == 'extend':
                    rules_set_registry.extend(copy.deepcopy(rs))
                    schema_registry.extend(copy.deepcopy(ss))
                else:
                    cfg['rules_set_registry'] = RulesSetRegistry(copy.deepcopy(rs))
                    cfg['schema_registry'] = SchemaRegistry(copy.deepcopy(ss))
                jc = dict(jcase, referenced=codec.enc_val(refschema), rules_sets=codec.enc_val(rs), schemas=codec.enc_val(ss),
                          registry_filled_by=how)
                # known finding F15d: shorthand beside a reference-defined field in one mapping sub-schema
                f15d = 'shorthand_beside_reference_field' if (mixed_mapping(refschema) or mixed_mapping(rs) or mixed_mapping(ss)) else None
                try:
                    rv = real.cls_of(case)(copy.deepcopy(refschema), **cfg)
                except Exception as e:
                    ctx.fail('C15 oracle: shorthand definitions put into a registry by %s(): the referencing schema is rejected (%s)'
                             % (how, type(e).__name__), jc, detail=str(e)[:300], classifier=f15d)
                    return
                a = real.run_validate(case, normalize=True)
                try:
                    r = rv.validate(copy.deepcopy(case['doc']), update=case.get('update', False))
                    got = (r, codec.canon_errs(rv._errors, 1), codec.canon_val(rv.document))
                except Exception as e:
                    got = ('raised', type(e).__name__)
                want = (a.ret, codec.canon_errs(a.errors, 1), codec.canon_val(a.document)) if a.exc is None else ('raised', type(a.exc).__name__)
                if got != want:
                    ctx.fail('C15 oracle: shorthand definitions put into a registry by %s() do not mean their canonical form' % how,
                             jc, detail={'canonical inline': repr(want)[:600], 'referenced shorthand': repr(got)[:600]}, classifier=f15d)
                    return
                ctx.dist('registry_filled_by', how)
            finally:
                real.clear_global_state()
    # port
    req = {'port': 'accept', 'schema': codec.enc_val(short), 'env': {}}
    ct = schemas.cls_tables(real.cls_of(case))
    if ct:
        req['cls'] = ct
    rep = drv.ask(req)
    if rep == 'schema_error' or 'accepted' not in rep:
        ctx.port_mismatch('accept', jcase, repr(rep)[:300], 'accepted', 'the model rejects the shorthand form')
    elif codec.canon_jval(rep['accepted']) != canon_schema(short_v):
        ctx.port_mismatch('accept', jcase, repr(codec.canon_jval(rep['accepted']))[:1200], repr(canon_schema(short_v))[:1200],
                          'expanded schema differs')
    ctx.count('accept', key=repr(jcase['shorthand']), nontrivial=len(applied) > 0,
              sample={'shorthand': repr(short)[:400], 'rewrites': [list(map(str, a)) for a in applied[:6]]})
    ctx.dist('rewrites_per_schema', min(len(applied), 8))
    for kind, key, where in applied:
        ctx.dist('rewrite_kind', kind)
        ctx.dist('rewrite_position', where)


KNOWN_WITNESSES = [
    # F15c: a list-schema rule set all of whose constraints are mappings is taken for a field mapping;
    # a deprecated name in it is then neither renamed nor rejected
    {'schema': {'a': {'type': 'list', 'schema': {'valuesrules': {'type': 'integer'}}}},
     'shorthand': {'a': {'type': 'list', 'schema': {'valueschema': {'type': 'integer'}}}},
     'doc': {'a': [{'x': 1}]}, 'classifier': 'deprecated_name_in_mapping_like_list_schema'},
    # F15d: a mapping sub-schema one of whose fields is defined by a rules-set reference (a string) is taken for a
    # list-schema rule set; shorthand / deprecated names in its other fields are not expanded
    {'schema': {'d': {'type': 'dict', 'schema': {'a': 'rs', 'c': {'check_with': families.k_pass}}}},
     'shorthand': {'d': {'type': 'dict', 'schema': {'a': 'rs', 'c': {'validator': families.k_pass}}}},
     'rules_sets': {'rs': {'type': 'integer'}}, 'doc': {'d': {'a': 1, 'c': 2}},
     'classifier': 'shorthand_beside_reference_field',
     'what': 'a deprecated / shorthand rule name in a mapping sub-schema that also has a field defined by reference is not expanded'},
]


def mixed_mapping(v):
    """is there a `schema` constraint that is a mapping with both a string (reference) and a mapping among its values?"""
    if isinstance(v, dict):
        sub = v.get('schema')
        if isinstance(sub, dict) and any(isinstance(x, str) for x in sub.values()) and any(isinstance(x, dict) for x in sub.values()):
            return True
        return any(mixed_mapping(x) for x in v.values())
    if isinstance(v, (list, tuple)):
        return any(mixed_mapping(x) for x in v)
    return False


def known_witnesses(ctx):
    from cerberus import rules_set_registry
    for w in KNOWN_WITNESSES:
        Validator.clear_caches()
        real.clear_global_state()
        for k, v in w.get('rules_sets', {}).items():
            rules_set_registry.add(k, copy.deepcopy(v))
        try:
            cv = Validator(copy.deepcopy(w['schema']))
            sv = Validator(copy.deepcopy(w['shorthand']))
            same = codec.canon_val(dict(cv.schema)) == codec.canon_val(dict(sv.schema))
            if same:
                ra, rb = cv.validate(copy.deepcopy(w['doc'])), sv.validate(copy.deepcopy(w['doc']))
                same = ra == rb
        except Exception:
            same = False
        finally:
            real.clear_global_state()
        if not same:
            ctx.fail('C15 oracle: %s' % w.get('what', 'deprecated rule name inside a list-schema rule set whose constraints are all '
                                              'mappings is not treated like its canonical form'),
                     {'schema': repr(w['schema']), 'shorthand': repr(w['shorthand'])}, classifier=w['classifier'])


def run(ctx, n):
    ctx.cov['rule'] = ('canonical generated schemas rewritten at random subsets of eligible positions into <of>_<rule> shorthands '
                       '(incl. rules with underscores), deprecated names and names with spaces, at any depth; oracle: accepted, '
                       'validator.schema canonical, same verdict/errors/normalized document with and without normalization; port: '
                       'expanded schema of the Lean model = exposed schema; non-trivial = at least one rewrite applied; distinct '
                       'by the rewritten schema')
    profiles = ['of', 'mixed', 'normalize', 'of', 'deep']
    known_witnesses(ctx)
    with Driver() as drv:
        for i, prof, case, g in cases.stream(ctx.seed, n, profiles):
            one(ctx, drv, i, prof, case)


def search(ctx, n):
    with Driver() as drv:
        for i, prof, case, g in cases.stream(ctx.seed + 7919, n, ['of', 'mixed', 'normalize']):
            before = len(ctx.failures)
            one(ctx, drv, i, prof, case)
            if len(ctx.failures) > before:
                return
