"""C15 — schema shorthands mean exactly their canonical form.

Oracle: a canonical generated schema is rewritten at random subsets of eligible
positions (at any depth: sub-schemas, list schemas, keysrules / valuesrules, items,
*of definitions, allow_unknown rule sets) into `<of-rule>_<rule>` shorthands (also for
rules whose own name contains an underscore), deprecated rule names and rule names
with spaces; the rewritten schema must be accepted, expose the canonical form as
validator.schema, and give the same verdict, errors and normalized document.
Port `accept`: the Lean model of expansion + acceptance on the rewritten schema must
expose the same expanded schema as the real code.
"""
import copy
import random

from cerberus import Validator, SchemaError

from .. import codec, real, cases, ports, schemas, rewrite
from ..lean import Driver


def canon_schema(v):
    return codec.canon_val(dict(v.schema))


def one(ctx, drv, i, prof, case):
    rng = random.Random(ctx.seed * 29 + i)
    if cases.accepted(case) is not True:
        return
    short, applied = rewrite.to_shorthand(rng, case['schema'], p=0.6)
    jcase = dict(real.enc_case(case), shorthand=codec.enc_val(short), rewrites=[list(map(str, a)) for a in applied])
    Validator.clear_caches()
    canon_v = real.make_validator(case)
    Validator.clear_caches()
    c2 = dict(case, schema=short)
    try:
        short_v = real.make_validator(c2)
    except SchemaError as e:
        ctx.fail('C15 oracle: the shorthand form is rejected although the canonical form is accepted (%s)'
                 % (applied[:3],), jcase, detail=str(e)[:300])
        return
    except Exception as e:
        ctx.fail('C15 oracle: the shorthand form raised %s' % type(e).__name__, jcase)
        return
    if canon_schema(short_v) != canon_schema(canon_v):
        ctx.fail('C15 oracle: validator.schema of the shorthand form is not the canonical form', jcase,
                 detail={'exposed': repr(dict(short_v.schema))[:800], 'canonical': repr(dict(canon_v.schema))[:800]})
        return
    # expanding an expanded schema changes nothing (what the thread model of C18 assumes of `expand`)
    from cerberus.schema import DefinitionSchema
    e1 = DefinitionSchema.expand(copy.deepcopy(short))
    e2 = DefinitionSchema.expand(copy.deepcopy(e1))
    if codec.canon_val(e1) != codec.canon_val(e2):
        ctx.fail('C15 oracle: expansion is not idempotent on a shorthand schema', jcase,
                 detail={'once': repr(e1)[:800], 'twice': repr(e2)[:800]})
        return
    for normalize in (False, True):
        a = real.run_validate(case, normalize=normalize)
        b = real.run_validate(c2, normalize=normalize)
        if (a.exc is None) != (b.exc is None):
            ctx.fail('C15 oracle: only one of the two forms raised', jcase)
            return
        if a.exc is None:
            if a.ret != b.ret or codec.canon_errs(a.errors, 1) != codec.canon_errs(b.errors, 1) \
                    or codec.canon_val(a.document) != codec.canon_val(b.document):
                ctx.fail('C15 oracle: verdict / errors / processed document differ between shorthand and canonical form '
                         '(normalize=%s)' % normalize, jcase)
                return
    # port
    req = {'port': 'accept', 'schema': codec.enc_val(short), 'env': {}}
    ct = schemas.cls_tables(real.cls_of(case))
    if ct:
        req['cls'] = ct
    rep = drv.ask(req)
    if rep == 'schema_error' or 'accepted' not in rep:
        ctx.port_mismatch('accept', jcase, repr(rep)[:300], 'accepted', 'the model rejects the shorthand form')
    elif codec.canon_jval(rep['accepted']) != canon_schema(short_v):
        ctx.port_mismatch('accept', jcase, repr(codec.canon_jval(rep['accepted']))[:1200], repr(canon_schema(short_v))[:1200],
                          'expanded schema differs')
    ctx.count('accept', key=repr(jcase['shorthand']), nontrivial=len(applied) > 0,
              sample={'shorthand': repr(short)[:400], 'rewrites': [list(map(str, a)) for a in applied[:6]]})
    ctx.dist('rewrites_per_schema', min(len(applied), 8))
    for kind, key, where in applied:
        ctx.dist('rewrite_kind', kind)
        ctx.dist('rewrite_position', where)


KNOWN_WITNESSES = [
    # F15c: a list-schema rule set all of whose constraints are mappings is taken for a field mapping;
    # a deprecated name in it is then neither renamed nor rejected
    {'schema': {'a': {'type': 'list', 'schema': {'valuesrules': {'type': 'integer'}}}},
     'shorthand': {'a': {'type': 'list', 'schema': {'valueschema': {'type': 'integer'}}}},
     'doc': {'a': [{'x': 1}]}, 'classifier': 'deprecated_name_in_mapping_like_list_schema'},
]


def known_witnesses(ctx):
    for w in KNOWN_WITNESSES:
        Validator.clear_caches()
        try:
            cv = Validator(copy.deepcopy(w['schema']))
            sv = Validator(copy.deepcopy(w['shorthand']))
            same = codec.canon_val(dict(cv.schema)) == codec.canon_val(dict(sv.schema))
            if same:
                ra, rb = cv.validate(copy.deepcopy(w['doc'])), sv.validate(copy.deepcopy(w['doc']))
                same = ra == rb
        except Exception:
            same = False
        if not same:
            ctx.fail('C15 oracle: deprecated rule name inside a list-schema rule set whose constraints are all mappings '
                     'is not treated like its canonical form', {'schema': repr(w['schema']), 'shorthand': repr(w['shorthand'])},
                     classifier=w['classifier'])


def run(ctx, n):
    ctx.cov['rule'] = ('canonical generated schemas rewritten at random subsets of eligible positions into <of>_<rule> shorthands '
                       '(incl. rules with underscores), deprecated names and names with spaces, at any depth; oracle: accepted, '
                       'validator.schema canonical, same verdict/errors/normalized document with and without normalization; port: '
                       'expanded schema of the Lean model = exposed schema; non-trivial = at least one rewrite applied; distinct '
                       'by the rewritten schema')
    profiles = ['of', 'mixed', 'normalize', 'of', 'deep']
    known_witnesses(ctx)
    with Driver() as drv:
        for i, prof, case, g in cases.stream(ctx.seed, n, profiles):
            one(ctx, drv, i, prof, case)


def search(ctx, n):
    with Driver() as drv:
        for i, prof, case, g in cases.stream(ctx.seed + 7919, n, ['of', 'mixed', 'normalize']):
            before = len(ctx.failures)
            one(ctx, drv, i, prof, case)
            if len(ctx.failures) > before:
                return
