"""C13 — the `errors` property is a pure and complete rendering of the errors.

Port `render`: the model's `Render.render` applied to the *real* recorded
errors, compared with the real handler's output in which every message is
replaced by a tag naming the error (and the `field` it was formatted with).
Oracle: purity, emptiness, keys, shape and message count on the real objects.
"""
import copy
import re

from cerberus import errors as cerr

from .. import codec, real, cases
from ..lean import Driver


class TagHandler(cerr.BasicErrorHandler):
    """the default handler with `_format_message` replaced by a tag"""

    def _format_message(self, field, error):
        sp = '<str>' if isinstance(error.schema_path, str) else '/'.join(str(x) for x in error.schema_path)
        return '%d@%s#%s' % (error.code, sp, field)


def canon_tree(t):
    """real pretty tree -> {key: ([msgs], subtree)}"""
    out = {}
    for k, lst in t.items():
        msgs = [x for x in lst if not isinstance(x, dict)]
        subs = [x for x in lst if isinstance(x, dict)]
        out[codec.canon_key(k)] = (msgs, canon_tree(subs[0]) if subs else {})
    return out


def canon_jtree(j):
    out = {}
    for k, msgs, sub in j:
        out[codec.canon_key(codec.dec_key(k))] = (list(msgs), canon_jtree(sub))
    return out


def shape_ok(t):
    """every list: strings, optionally followed by exactly one non-empty dict as last element"""
    for k, lst in t.items():
        if not isinstance(lst, list) or not lst:
            return False
        for x in lst[:-1]:
            if not isinstance(x, str):
                return False
        last = lst[-1]
        if isinstance(last, dict):
            if not last or not shape_ok(last):
                return False
        elif not isinstance(last, str):
            return False
    return True


def count_msgs(t):
    n = 0
    for k, lst in t.items():
        for x in lst:
            n += count_msgs(x) if isinstance(x, dict) else 1
    return n


def same_shape(a, b):
    if set(a) != set(b):
        return False
    for k in a:
        if len(a[k]) != len(b[k]):
            return False
        for x, y in zip(a[k], b[k]):
            if isinstance(x, dict) != isinstance(y, dict):
                return False
            if isinstance(x, dict) and not same_shape(x, y):
                return False
    return True


def oracle(v, errs):
    """the property on the real objects; returns failure text or None"""
    flat = real.flatten(errs)
    before = codec.canon_errs(errs, 2)
    try:
        r1 = v.errors
        r1c = copy.deepcopy(r1)
        r2 = v.errors
    except Exception as e:
        return 'reading errors raised %r' % (e,)
    if r1c != r2:
        return 'reading errors twice gives different results'
    if codec.canon_errs(v._errors, 2) != before:
        return 'reading errors altered the recorded errors'
    if bool(r1) != bool(errs):
        return 'errors is %s but %d errors are recorded' % ('non-empty' if r1 else 'empty', len(errs))
    firsts = set(e.document_path[0] for e in errs)
    if set(r1.keys()) != firsts:
        return 'top-level keys %r differ from the first document-path elements %r' % (sorted(map(repr, r1)), sorted(map(repr, firsts)))
    if not shape_ok(r1):
        return 'rendering has an ill-shaped list (nested fields must be a dict in last position)'
    want = sum(1 for e in flat if not codec.is_group(e)) + sum(1 for e in flat if e.is_logic_error)
    if count_msgs(r1) != want:
        return 'rendering holds %d messages, expected %d (non-group errors + *of errors)' % (count_msgs(r1), want)
    tagged = TagHandler()(errs)
    if not same_shape(tagged, r1):
        return 'tagged and default renderings differ in shape'
    for e in errs:
        if codec.is_group(e):
            continue
        node = tagged.get(e.document_path[0])
        for k in e.document_path[1:]:
            node = node[-1].get(k) if node and isinstance(node[-1], dict) else None
        tag = TagHandler()._format_message(e.field, e)
        if not node or tag not in node:
            return 'message of error %r is not in the list at its document path' % (e.document_path,)
    # *of errors: one sub-tree per failing definition, named after the definition's own index
    # (which field name a message is formatted with is not part of the property: the unchanged code formats the
    # messages below an *of definition nested in another *of definition with the name of the definition node;
    # the render port compares that choice with the model's)
    msg = logic_subtrees(r1, errs)
    if msg:
        return msg
    return nested_locations(tagged, errs)


DEFKEY = re.compile(r'^(allof|anyof|noneof|oneof) definition (\d+)$')


def node_at(tree, path):
    node = tree.get(path[0])
    for k in path[1:]:
        node = node[-1].get(k) if node and isinstance(node[-1], dict) else None
    return node


def nested_locations(tagged, errs):
    """every non-group error — also one inside the definitions of (nested) *of errors and below bulk rules inside them —
    has its message in the list found at its document path, with one `<rule> definition <i>` node after the path of each
    enclosing *of error"""
    def prefix(e):
        sp = '<str>' if isinstance(e.schema_path, str) else '/'.join(str(x) for x in e.schema_path)
        return '%d@%s#' % (e.code, sp)

    def visit(es, inserts):
        # inserts: list of (length of the enclosing *of error's document path, node name), outermost first
        for e in es:
            if e.is_logic_error:
                for i, children in e.definitions_errors.items():
                    msg = visit(children, inserts + [(len(e.document_path), '%s definition %d' % (e.rule, i))])
                    if msg:
                        return msg
            elif codec.is_group(e):
                msg = visit(e.info[0], inserts)
                if msg:
                    return msg
            else:
                path = list(e.document_path)
                for k, (at, name) in enumerate(inserts):
                    path.insert(at + k, name)
                node = node_at(tagged, path) if path else None
                if not node or not any(isinstance(x, str) and x.startswith(prefix(e)) for x in node):
                    return ('the message of the error %#x at %r (inside %d *of definition(s)) is not in the list at %r'
                            % (e.code, tuple(e.document_path), len(inserts), tuple(path)))
        return None
    return visit(errs, [])


def logic_subtrees(tree, errs):
    """several *of errors of one rule can sit at one document path (the same key judged by keysrules and by valuesrules):
    the sub-trees at a path are those of all of them together"""
    want = {}

    def collect(es):
        for e in es:
            if e.is_logic_error:
                key = (tuple(e.document_path), e.rule)
                want.setdefault(key, set()).update('%s definition %d' % (e.rule, i) for i, ch in e.definitions_errors.items() if ch)
            elif codec.is_group(e):
                collect(e.info[0])
    collect(errs)
    for (path, rule), w in want.items():
        node = node_at(tree, path)
        sub = node[-1] if node and isinstance(node[-1], dict) else {}
        have = set(k for k in sub if isinstance(k, str) and DEFKEY.match(k) and k.startswith(rule + ' '))
        if have != w:
            return ('the %s error(s) at %r have the failing definitions %r but the sub-trees %r' % (rule, path, sorted(w), sorted(have)))
    return None


def one(ctx, drv, i, case, normalize):
    out = real.run_validate(case, normalize=normalize)
    if out.exc is not None:
        ctx.dist('skipped', 'real raised ' + type(out.exc).__name__)
        return
    errs = out.errors
    jcase = dict(real.enc_case(case), normalize=normalize)
    msg = oracle(out.v, errs)
    if msg:
        ctx.fail('C13 oracle: ' + msg, jcase)
    try:
        jerrs = [codec.enc_err(e) for e in errs]
    except codec.OutOfUniverse:
        ctx.cov['out_of_domain'] += 1
        return
    rep = drv.ask({'port': 'render', 'errors': jerrs, 'codes': sorted(cerr.BasicErrorHandler.messages)})
    try:
        tagged = TagHandler()(errs)
        realc = canon_tree(tagged)
        realn = count_msgs(tagged)
    except Exception as e:
        realc, realn = ('raised', type(e).__name__), None
    if 'raised' in rep:
        modelc = ('raised', rep['raised'][0])
        if modelc != realc:
            ctx.port_mismatch('render', jcase, rep, repr(realc))
    else:
        modelc = canon_jtree(rep['tree'])
        if modelc != realc or rep['count'] != realn:
            ctx.port_mismatch('render', jcase, rep, repr(realc), 'rendered trees differ')
    flat = real.flatten(errs)
    nontrivial = any(codec.is_group(e) for e in errs) or len(flat) >= 2
    ctx.count('render', key=codec.canon_errs(errs), nontrivial=nontrivial,
              sample={'schema': repr(case['schema'])[:300], 'doc': repr(case['doc'])[:200],
                      'rendering': repr(out.v.errors)[:400]})
    ctx.dist('flat_errors', min(len(flat), 10))
    ctx.dist('logic_errors', min(sum(1 for e in flat if e.is_logic_error), 5))
    ctx.dist('group_errors', min(sum(1 for e in flat if codec.is_group(e)), 5))


def run(ctx, n):
    ctx.cov['rule'] = ('generated (schema, config, document) cases validated by the real cerberus, with and without '
                       'normalization; the recorded errors are rendered by the Lean Render model and by the real handler '
                       '(messages replaced by error tags) and compared; oracle: purity, emptiness, keys, shape, message count; '
                       'non-trivial = a group/*of error or >= 2 errors; distinct by canonical error forest')
    ctx.assumptions.append('message *texts* are not modelled: a message is identified by (code, schema path, field argument); '
                           'the message table itself is extracted and C13_messages shows every emitted code has a template')
    profiles = ['of', 'validate', 'deep', 'mixed', 'of', 'normalize']
    with Driver() as drv:
        for i, prof, case, g in cases.stream(ctx.seed, n, profiles):
            one(ctx, drv, i, case, normalize=(i % 3 != 0))


def search(ctx, n):
    profiles = ['of', 'deep', 'mixed', 'validate']
    for i, prof, case, g in cases.stream(ctx.seed + 7919, n, profiles):
        out = real.run_validate(case, normalize=(i % 2 == 0))
        if out.exc is None:
            msg = oracle(out.v, out.errors)
            if msg:
                ctx.fail('C13 oracle: ' + msg, dict(real.enc_case(case), normalize=(i % 2 == 0)))
                return
