"""C01 — validation verdict and error set follow the documented rule semantics.

The reference interpreter of the rules is the Lean model (`validate0`, proved
equal to the declarative `Spec` in Props/C01.lean).  Port `validate0` runs it
and the real `validate(doc, update=…, normalize=False)` on the same generated
case and compares verdict and error forest: a difference *is* a failing input
of this property.
"""
from .. import codec, real, cases, ports
from ..lean import Driver

LEVEL = 2   # compare document path, code, schema path, rule, value, constraint, counts, children


def compare(ctx, drv, case, port_name='validate0', level=LEVEL, ref=False):
    """returns (status, detail); status in ok / mismatch / ood"""
    try:
        rep = ports.model_validate0(drv, case, ref=ref)
    except codec.OutOfUniverse:
        ctx.cov['out_of_domain'] += 1
        return 'ood', None
    out = real.run_validate(case, normalize=False)
    if out.exc is not None:
        rsig = ('raised', type(out.exc).__name__)
    else:
        try:
            rsig = ('ok', codec.canon_errs(out.errors, level))
        except codec.OutOfUniverse:
            ctx.cov['out_of_domain'] += 1
            return 'ood', None
    if rep == 'fuel':
        msig = ('fuel',)
    elif 'raised' in rep:
        msig = ('raised', rep['raised'][0])
    else:
        msig = ('ok', codec.canon_jerrs(rep['ok'], level))
    if msig == rsig:
        return 'ok', (out, rep)
    return 'mismatch', {'model': repr(msig)[:3000], 'real': repr(rsig)[:3000],
                        'real_exc': repr(out.exc) if out.exc is not None else None}


def run(ctx, n):
    ctx.cov['rule'] = ('generated accepted schemas x configurations x documents (schema-directed near-valid and arbitrary), '
                       'validate(normalize=False) on the real code vs the Lean reference interpreter; compared: verdict and the '
                       'error forest (document path, code, schema path, rule, value, constraint, *of counts, children); '
                       'non-trivial = at least one error; distinct by canonical (schema, document, config)')
    profiles = ['validate', 'of', 'deep', 'wrong', 'update', 'mixed', 'nones', 'validate']
    with Driver() as drv:
        for i, prof, case, g in cases.stream(ctx.seed, n, profiles):
            if cases.accepted(case) is not True:
                ctx.dist('skipped', 'schema not accepted')
                continue
            st, detail = compare(ctx, drv, case, ref=True)
            jcase = real.enc_case(case)
            if st == 'mismatch':
                ctx.fail('C01: real validate(normalize=False) differs from the reference interpreter', jcase, detail=detail)
                ctx.dist('result', 'mismatch')
                continue
            if st != 'ok':
                continue
            out, rep = detail
            nerr = len(out.errors) if out.exc is None else -1
            ctx.count('validate0', key=repr(jcase), nontrivial=nerr > 0,
                      sample={'schema': repr(case['schema'])[:300], 'doc': repr(case['doc'])[:200],
                              'cfg': repr(case['cfg'])[:100], 'update': case['update'], 'errors': nerr})
            ctx.dist('errors', min(nerr, 8))
            ctx.dist('profile', prof)
            if out.exc is None:
                for e in real.flatten(out.errors):
                    ctx.dist('codes', hex(e.code))
            for k in g.features:
                ctx.dist('rules', k)


def search(ctx, n):
    profiles = ['validate', 'of', 'deep', 'wrong', 'update']
    with Driver() as drv:
        for i, prof, case, g in cases.stream(ctx.seed + 7919, n, profiles):
            if cases.accepted(case) is not True:
                continue
            st, detail = compare(ctx, drv, case, ref=True)
            if st == 'mismatch':
                ctx.fail('C01: real validate(normalize=False) differs from the reference interpreter',
                         real.enc_case(case), detail=detail)
                return
