"""C11 — error trees contain exactly the reported errors at their paths.

Port `tree`: the model's `Tree.build` is applied to the *real* recorded errors
and compared with a traversal of the real trees (so a change to the validation
logic does not disturb this check, a change to tree insertion does).
Oracle: the statement itself over the real objects.
"""
import collections

from cerberus import errors as cerr

from .. import codec, real, cases
from ..lean import Driver

ALL_DEFS = [v for k, v in vars(cerr).items() if isinstance(v, cerr.ErrorDefinition)]


def path_key(p):
    if isinstance(p, str):
        return tuple(("s", c) for c in p)
    return tuple(codec.canon_key(k) for k in p)


def err_id(e):
    return (path_key(e.document_path), path_key(e.schema_path), e.code)


def jerr_id(j):
    dp, sp, code = j
    return (tuple(codec.canon_key(codec.dec_key(k)) for k in dp),
            tuple(codec.canon_key(codec.dec_key(k)) for k in sp), code)


def dump_real(tree):
    out = {}

    def walk(node, path):
        out[path] = collections.Counter(err_id(e) for e in node.errors)
        for k, child in node.descendants.items():
            walk(child, path + (codec.canon_key(k),))
    walk(tree, ())
    return out


def dump_model(jdump):
    out = {}
    for p, es in jdump:
        out[tuple(codec.canon_key(codec.dec_key(k)) for k in p)] = collections.Counter(jerr_id(e) for e in es)
    return out


def raw_path(p):
    return tuple(p) if not isinstance(p, str) else tuple(p)


def oracle(ctx, jcase, v, ret, errs):
    """the property stated over the real objects; returns a failure text or None"""
    flat = real.flatten(errs)
    for kind, tree in (('document', v.document_error_tree), ('schema', v.schema_error_tree)):
        total = 0

        def walk(node, path):
            nonlocal total
            total += len(node.errors)
            for e in node.errors:
                if not any(e is x for x in flat):
                    return 'tree %s holds an error at %r that was not reported' % (kind, path)
                if raw_path(getattr(e, kind + '_path')) != path:
                    return 'tree %s holds an error at %r whose path is %r' % (kind, path, getattr(e, kind + '_path'))
            for d in ALL_DEFS:
                has = any(e.code == d.code for e in node.errors)
                if (d in node) != has:
                    return 'membership test for %r disagrees with the node list at %r' % (d, path)
                first = next((e for e in node.errors if e.code == d.code), None)
                if node[d] is not first:
                    return 'lookup by %r disagrees with the node list at %r' % (d, path)
            if not node.errors and not node.descendants and path:
                return 'empty leaf node at %r' % (path,)
            for k, child in node.descendants.items():
                r = walk(child, path + (k,))
                if r:
                    return r
            return None
        r = walk(tree, ())
        if r:
            return r
        if total != len(flat):
            return 'tree %s holds %d errors, %d were reported (incl. child errors)' % (kind, total, len(flat))
        for e in flat:
            path = raw_path(getattr(e, kind + '_path'))
            got = tree.fetch_errors_from(path) if path else tree.errors
            if not any(e is x for x in got):
                return 'error %r not retrievable from the %s tree at its path' % (err_id(e), kind)
            node = tree.fetch_node_from(path)
            if node is None or node.errors is not got:
                return 'fetch_node_from disagrees with fetch_errors_from at %r' % (path,)
            n = tree
            for k in path:
                n = n[k]
                if n is None:
                    break
            if n is not node:
                return 'subscripting does not reach the node at %r' % (path,)
        empty = not tree.errors and not tree.descendants
        if empty != bool(ret):
            return 'tree %s empty=%s but validate returned %s' % (kind, empty, ret)
    return None


def queries(rng, paths):
    qs = set(paths)
    for p in list(paths)[:6]:
        if p:
            qs.add(p[:-1])
            qs.add(p + (rng.choice(['a', 0, 'type']),))
            qs.add(p[:-1] + (rng.choice(['zz', 7]),))
    qs.add(('nope',))
    return [q for q in qs if all(isinstance(k, (str, int)) and not isinstance(k, bool) for k in q)]


def one(ctx, drv, i, prof, case, normalize):
    out = real.run_validate(case, normalize=normalize)
    if out.exc is not None:
        ctx.dist('skipped', 'real raised ' + type(out.exc).__name__)
        return
    errs = out.errors
    jcase = dict(real.enc_case(case), normalize=normalize)
    flat = real.flatten(errs)
    if i % 2 == 1:
        try:
            out.v.errors        # reading the errors property must not disturb the trees
        except Exception:
            pass
    msg = oracle(ctx, jcase, out.v, out.ret, errs)
    if msg:
        ctx.fail('C11 oracle: ' + msg, jcase)
    # the same instance used again: the trees belong to the call just made, nothing is left of the previous one
    if i % 3 == 0:
        import copy as _copy
        v2 = real.make_validator(case)
        try:
            v2.validate(_copy.deepcopy(case['doc']), update=case.get('update', False), normalize=normalize)
            for doc2 in ({}, case['doc']):
                r2 = v2.validate(_copy.deepcopy(doc2), update=case.get('update', False), normalize=normalize)
                msg = oracle(ctx, dict(jcase, second_document=codec.enc_val(doc2)), v2, r2, list(v2._errors))
                if msg:
                    ctx.fail('C11 oracle (instance used again): ' + msg, dict(jcase, second_document=codec.enc_val(doc2)))
                    break
        except Exception:
            pass
    # port
    rng = __import__('random').Random(i)
    dreal = dump_real(out.v.document_error_tree)
    sreal = dump_real(out.v.schema_error_tree)
    qd = queries(rng, [raw_path(e.document_path) for e in flat])
    qs = queries(rng, [raw_path(e.schema_path) for e in flat])
    try:
        jerrs = [codec.enc_err(e) for e in errs]
    except codec.OutOfUniverse:
        ctx.cov['out_of_domain'] += 1
        return
    rep = drv.ask({'port': 'tree', 'errors': jerrs,
                   'qdoc': [[codec.enc_key(k) for k in q] for q in qd],
                   'qschema': [[codec.enc_key(k) for k in q] for q in qs]})
    ok = True
    if dump_model(rep['doc']) != dreal or dump_model(rep['schema']) != sreal:
        ok = False
        ctx.port_mismatch('tree', jcase, {'doc': rep['doc'], 'schema': rep['schema']},
                          {'doc': repr(dreal), 'schema': repr(sreal)}, 'tree dumps differ')
    for tree, qsx, key in ((out.v.document_error_tree, qd, 'fdoc'), (out.v.schema_error_tree, qs, 'fschema')):
        for q, a in zip(qsx, rep[key]):
            rn = tree.fetch_node_from(q) is not None
            re_ = collections.Counter(err_id(e) for e in tree.fetch_errors_from(q))
            if a['node'] != rn or collections.Counter(jerr_id(e) for e in a['errs']) != re_:
                ok = False
                ctx.port_mismatch('tree', jcase, a, {'node': rn, 'errs': repr(re_)}, 'fetch at %r' % (q,))
    if rep['flat'] != len(flat) or rep['empty'] != (not errs):
        ok = False
        ctx.port_mismatch('tree', jcase, rep['flat'], len(flat), 'flat count / emptiness')
    nontrivial = any(codec.is_group(e) for e in errs) or len(flat) >= 2
    ctx.count('tree', key=codec.canon_errs(errs), nontrivial=nontrivial,
              sample={'schema': repr(case['schema'])[:300], 'doc': repr(case['doc'])[:200],
                      'errors': [list(map(repr, err_id(e))) for e in flat[:6]]})
    ctx.dist('flat_errors', min(len(flat), 10))
    ctx.dist('depth', max([len(e.document_path) for e in flat] + [0]))
    for e in flat:
        ctx.dist('codes', hex(e.code))
    return ok


def run(ctx, n):
    ctx.cov['rule'] = ('generated (schema, config, document) cases validated by the real cerberus, with and without '
                       'normalization; the recorded error forest is fed to the Lean Tree model (port) and checked '
                       'directly (oracle); non-trivial = a group/*of error or >= 2 errors; distinct by canonical error forest')
    profiles = ['validate', 'of', 'deep', 'mixed', 'wrong', 'normalize']
    with Driver() as drv:
        for i, prof, case, g in cases.stream(ctx.seed, n, profiles):
            one(ctx, drv, i, prof, case, normalize=(i % 3 != 0))


def search(ctx, n):
    """extended search: the oracle alone, on a larger budget"""
    profiles = ['of', 'deep', 'mixed', 'validate']
    for i, prof, case, g in cases.stream(ctx.seed + 7919, n, profiles):
        out = real.run_validate(case, normalize=(i % 2 == 0))
        if out.exc is None:
            msg = oracle(ctx, None, out.v, out.ret, out.errors)
            if msg:
                ctx.fail('C11 oracle: ' + msg, dict(real.enc_case(case), normalize=(i % 2 == 0)))
                return
