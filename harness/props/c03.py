"""C03 — processing reports problems as errors and never raises.

Oracle: for accepted schemas and mapping documents (in particular values of the
wrong shape, unhashable members, non-mappings on dependency paths, failing
coercers / rename handlers / default setters, rules given by registry
reference) validate / validated / normalized / errors return normally and
validate returns a bool; a non-mapping document raises DocumentError, a missing
or invalid schema SchemaError, nothing else.
Ports validate0 / normalize / validate: the Lean model (every partial Python
operation is an explicit `Except`) and the real code must agree on *whether and
with which exception class* a case raises.
"""
import copy

from cerberus import Validator, SchemaError, DocumentError

from .. import codec, real, cases, ports
from ..lean import Driver
from . import c01, c02


def classify(exc):
    t, site = real.exc_signature(exc)
    return '%s@%s' % (t, site)


def oracle_case(ctx, case, jcase, g=None):
    ok = True
    calls = [('validate', lambda v, d: v.validate(d, update=case.get('update', False))),
             ('validate(normalize=False)', lambda v, d: v.validate(d, update=case.get('update', False), normalize=False)),
             ('validated', lambda v, d: v.validated(d)),
             ('normalized', lambda v, d: v.normalized(d))]
    for name, call in calls:
        v = real.make_validator(case)
        try:
            r = call(v, copy.deepcopy(case['doc']))
            if name.startswith('validate(') or name == 'validate':
                if not isinstance(r, bool):
                    ctx.fail('C03 oracle: %s returned %r, not a bool' % (name, r), jcase)
                    ok = False
            _ = v.errors
        except Exception as e:
            ctx.fail('C03 oracle: %s raised %s' % (name, classify(e)), dict(jcase, call=name),
                     classifier='raise:' + classify(e), detail=repr(e)[:300])
            ok = False
    # the same on one validator that is used again and again: first the document, then a near-valid one
    if ok and g is not None:
        docs = [case['doc'], g.document(case['schema'], extra=0.0, missing=0.1), case['doc']]
        v = real.make_validator(case)
        for k, d in enumerate(docs):
            for name, call in calls:
                try:
                    call(v, copy.deepcopy(d))
                    _ = v.errors
                except Exception as e:
                    ctx.fail('C03 oracle: %s raised %s on a validator that processed %d document(s) before'
                             % (name, classify(e), k * len(calls) + [n for n, _ in calls].index(name)),
                             dict(jcase, call=name, reused=True, docs=[codec.enc_val(x) for x in docs[:k + 1]]),
                             classifier='raise:' + classify(e), detail=repr(e)[:300])
                    return False
        # ... and with another flag and another schema afterwards: nothing of the earlier calls may make these raise
        if ok:
            other = {'zq1': {'type': 'integer'}}
            tail = [('validate(update=True)', lambda: v.validate(copy.deepcopy(case['doc']), update=True)),
                    ('validate with another schema', lambda: v.validate({}, copy.deepcopy(other))),
                    ('validated with another schema', lambda: v.validated({'zq1': 'x'}, copy.deepcopy(other))),
                    ('normalized with another schema', lambda: v.normalized({'zq2': 1}, copy.deepcopy(other)))]
            for name, call in tail:
                try:
                    call()
                    _ = v.errors
                except Exception as e:
                    ctx.fail('C03 oracle: %s raised %s on a validator that processed other documents (and another schema) before'
                             % (name, classify(e)), dict(jcase, call=name, reused=True),
                             classifier='raise:' + classify(e), detail=repr(e)[:300])
                    return False
    return ok


def oracle_declared(ctx, case, jcase, rng):
    """non-mapping documents and missing schemas raise the declared exceptions only"""
    v = real.make_validator(case)
    for bad in (None, [1], 'x', 5):
        for name in ('validate', 'validated', 'normalized'):
            try:
                getattr(v, name)(bad)
                ctx.fail('C03 oracle: %s(%r) did not raise DocumentError' % (name, bad), jcase)
            except DocumentError:
                pass
            except Exception as e:
                ctx.fail('C03 oracle: %s(%r) raised %s instead of DocumentError' % (name, bad, classify(e)), jcase)
    v2 = real.cls_of(case)()
    try:
        v2.validate({'a': 1})
        ctx.fail('C03 oracle: validate without a schema did not raise SchemaError', jcase)
    except SchemaError:
        pass
    except Exception as e:
        ctx.fail('C03 oracle: validate without a schema raised %s' % classify(e), jcase)


def run(ctx, n):
    ctx.cov['rule'] = ('generated accepted schemas x configurations x documents with a high share of wrong-shaped values (scalars under '
                       'container rules, unhashable members, non-mappings on dotted dependency paths, None everywhere), raising coercers / '
                       'rename handlers / default setters; oracle: the four API calls return normally; ports: model and code agree on '
                       'raising; non-trivial = at least one error reported; distinct by canonical case')
    profiles = ['wrong', 'normalize', 'wrong', 'mixed', 'of', 'wrong']
    import random
    with Driver() as drv:
        for i, prof, case, g in cases.stream(ctx.seed, n, profiles):
            if cases.accepted(case) is not True:
                ctx.dist('skipped', 'schema not accepted')
                continue
            if i % 3 == 1:
                # fields whose rules are registry references: the definitions in registries bound to the validator
                refd = cases.with_refs(case, random.Random(ctx.seed * 71 + i))
                if refd is not None and cases.accepted(refd) is True:
                    case = refd
                    ctx.dist('registries', 'bound to the validator')
            jcase = real.enc_case({k: v for k, v in case.items() if k != 'inline_schema'})
            oracle_case(ctx, case, jcase, g)
            if i % 25 == 0:
                oracle_declared(ctx, case, jcase, random.Random(i))
            st, detail = c01.compare(ctx, drv, case)
            if st == 'mismatch':
                ctx.port_mismatch('validate0', jcase, detail['model'], detail['real'], 'validate0 port')
            for full in (False, True):
                st2, d2 = c02.compare(ctx, drv, case, full=full)
                if st2 == 'mismatch':
                    ctx.port_mismatch('validate' if full else 'normalize', jcase, d2['model'], d2['real'], 'normalize port')
            out = real.run_validate(case, normalize=True)
            nerr = len(out.errors) if out.exc is None else -1
            ctx.count('api', key=repr(jcase), nontrivial=nerr > 0,
                      sample={'schema': repr(case['schema'])[:300], 'doc': repr(case['doc'])[:200], 'errors': nerr})
            ctx.dist('errors', min(nerr, 8))
            ctx.dist('profile', prof)


def search(ctx, n):
    profiles = ['wrong', 'normalize', 'mixed', 'of']
    for i, prof, case, g in cases.stream(ctx.seed + 7919, n, profiles):
        if cases.accepted(case) is not True:
            continue
        if not oracle_case(ctx, case, real.enc_case(case), g):
            return
        import random
        refd = cases.with_refs(case, random.Random(ctx.seed * 71 + i))
        if refd is not None and cases.accepted(refd) is True:
            if not oracle_case(ctx, refd, real.enc_case({k: v for k, v in refd.items() if k != 'inline_schema'}), g):
                return
