"""C17 — default setters resolve in dependency order and always terminate.

Port `setters`: the Lean work-list model against the real normalization, on
dependency graphs among up to 6 fields (all graphs on <= 3 fields in the
thorough tier), all subsets of present fields, sampled field orders.
Oracle: an independent least-fixpoint computation.
"""
import itertools
import random

from cerberus import Validator

from .. import codec, families
from ..lean import Driver

NAMES = ['a', 'b', 'c', -1, -2, 'd']


def lfp(fields, specs, doc):
    """independent reference: least fixpoint of 'all inputs available'"""
    val = dict(doc)
    failed_own = set()
    progress = True
    while progress:
        progress = False
        for f in fields:
            if f in val or f in failed_own:
                continue
            s = specs[f]
            if s['kind'] == 'raise':
                failed_own.add(f)
                progress = True
            elif s['kind'] == 'const':
                val[f] = s['v']
                progress = True
            elif s['kind'] == 'indirect':
                if s['dep'] in val:
                    val[f] = 1
                    progress = True
            elif s['kind'] == 'sum':
                if all(d in val for d in s['deps']):
                    if any(isinstance(val[d], bool) or not isinstance(val[d], int) for d in s['deps']):
                        failed_own.add(f)           # TypeError: an error for this field only
                    else:
                        val[f] = 1 + sum(val[d] for d in s['deps'])
                    progress = True
    unresolved = set(f for f in fields if f not in val)
    return val, unresolved


def run_real(order, specs, doc):
    schema = {}
    for f in order:
        schema[f] = {'default_setter': families.make_setter(specs[f])}
    v = Validator(schema)
    res = v.normalized(dict(doc), always_return_document=True)
    failed = sorted((e.document_path[0] for e in v._errors if e.code == 0x64), key=repr)
    other = [e for e in v._errors if e.code != 0x64]
    # the resolution starts afresh for every document: the same validator, the same document once more
    res2 = v.normalized(dict(doc), always_return_document=True)
    failed2 = sorted((e.document_path[0] for e in v._errors if e.code == 0x64), key=repr)
    if (res2, failed2) != (res, failed):
        raise AgainDiffers('first %r / unresolved %r, again on the same validator %r / unresolved %r' % (res, failed, res2, failed2))
    return res, failed, other


class AgainDiffers(Exception):
    pass


def one(ctx, drv, order, specs, doc):
    jcase = {'order': [codec.enc_key(k) for k in order],
             'specs': [[codec.enc_key(k), specs[k]] for k in order],
             'doc': codec.enc_val(doc)}
    try:
        res, failed, other = run_real(order, specs, doc)
    except AgainDiffers as e:
        ctx.fail('C17 oracle: the same document normalized twice by one validator gives two results: %s' % e, jcase)
        return
    except Exception as e:
        ctx.fail('C17 oracle: normalization raised %r' % (e,), jcase)
        return
    # oracle (a setter that fails for good when its input is not there *yet* makes the result depend on the order: the
    # least fixpoint does not describe it; the port does)
    val, unresolved = lfp(order, specs, doc)
    if any(s['kind'] == 'index' for s in specs.values()):
        ctx.dist('oracle', 'port only (IndexError setter)')
    elif other:
        ctx.fail('C17 oracle: unexpected errors %r' % ([hex(e.code) for e in other],), jcase)
    elif set(failed) != unresolved or len(failed) != len(unresolved):
        ctx.fail('C17 oracle: fields with "default cannot be set" %r differ from the fields without obtainable inputs %r'
                 % (failed, sorted(unresolved, key=repr)), jcase)
    elif res != val:
        ctx.fail('C17 oracle: result %r is not the least fixpoint %r' % (res, val), jcase)
    # port
    if drv is not None:
        pending = [f for f in order if f not in doc]
        jspecs = []
        for f in order:
            s = dict(specs[f])
            if 'deps' in s:
                s['deps'] = [codec.enc_key(k) for k in s['deps']]
            if 'dep' in s:
                s['dep'] = codec.enc_key(s['dep'])
            if 'v' in s:
                s['v'] = codec.enc_val(s['v'])
            jspecs.append([codec.enc_key(f), s])
        rep = drv.ask({'port': 'setters', 'pending': [codec.enc_key(k) for k in pending],
                       'mapping': codec.enc_val(doc), 'setters': jspecs})
        if rep == 'fuel':
            ctx.port_mismatch('setters', jcase, rep, None, 'model ran out of fuel (contradicts C17_terminates)')
        else:
            mres = codec.dec_val(rep['mapping'])
            mfailed = sorted((codec.dec_key(k) for k in rep['failed']), key=repr)
            if mres != res or mfailed != failed:
                ctx.port_mismatch('setters', jcase, {'mapping': mres, 'failed': mfailed},
                                  {'mapping': res, 'failed': failed})
            ctx.dist('model_steps', min(rep['steps'], 30))
    nontrivial = any((s['kind'] == 'sum' and s['deps']) or s['kind'] == 'indirect' for s in specs.values())
    key = (tuple(map(repr, order)), repr(sorted(specs.items(), key=repr)), repr(sorted(doc.items(), key=repr)))
    ctx.count('setters', key=key, nontrivial=nontrivial,
              sample={'order': list(map(repr, order)), 'specs': {repr(k): v for k, v in specs.items()},
                      'doc': repr(doc), 'result': repr(res), 'failed': list(map(repr, failed))})
    ctx.dist('fields', len(order))
    ctx.dist('unresolved', len(unresolved))


def random_case(rng, nmax=6):
    n = rng.randint(1, nmax)
    fields = rng.sample(NAMES, n)
    specs = {}
    for f in fields:
        x = rng.random()
        if x < 0.62:
            specs[f] = {'kind': 'sum', 'deps': rng.sample(fields, rng.randint(0, min(3, n)))}
        elif x < 0.72:
            specs[f] = {'kind': 'raise'}
        elif x < 0.82:
            specs[f] = {'kind': 'indirect', 'dep': rng.choice(fields)}
        elif x < 0.86:
            specs[f] = {'kind': 'index', 'dep': rng.choice(fields)}
        elif x < 0.93:
            specs[f] = {'kind': 'const', 'v': rng.choice([0, 5, None, None])}
        else:
            specs[f] = {'kind': 'sum', 'deps': [rng.choice(NAMES)]}   # possibly a field outside the schema
    present = [f for f in fields if rng.random() < 0.25]
    doc = {f: rng.choice([0, 1, 7]) for f in present}
    order = list(fields)
    rng.shuffle(order)
    return order, specs, doc


def exhaustive(nfields):
    fields = NAMES[:nfields]
    subsets = [list(c) for r in range(nfields + 1) for c in itertools.combinations(fields, r)]
    for depsets in itertools.product(subsets, repeat=nfields):
        specs = {f: {'kind': 'sum', 'deps': list(d)} for f, d in zip(fields, depsets)}
        for present in subsets:
            doc = {f: 1 for f in present}
            yield fields, specs, doc


def run(ctx, n):
    ctx.cov['rule'] = ('dependency graphs of default setters (sum-of-dependencies, constant, raising, missing-key) among up to 6 '
                       'fields incl. the integer names -1/-2, random subsets of present fields, random field orders; thorough: '
                       'additionally every graph on <= 3 fields x every present-subset x every order; non-trivial = at least one '
                       'setter with a dependency; distinct by (order, specs, document)')
    rng = random.Random(ctx.seed * 7 + 1)
    with Driver() as drv:
        # a fixed corpus first: the F16 witness and the documented circular example
        one(ctx, drv, [-1, -2, 'c'], {-1: {'kind': 'sum', 'deps': [-2]}, -2: {'kind': 'sum', 'deps': ['c']},
                                       'c': {'kind': 'const', 'v': 1}}, {})
        one(ctx, drv, ['a', 'b'], {'a': {'kind': 'sum', 'deps': ['b']}, 'b': {'kind': 'sum', 'deps': ['a']}}, {})
        # an input read through a table (the KeyError names no field); a setter that yields None
        one(ctx, drv, ['a', 'b', 'c'], {'a': {'kind': 'indirect', 'dep': 'b'}, 'b': {'kind': 'indirect', 'dep': 'c'},
                                        'c': {'kind': 'const', 'v': 1}}, {})
        one(ctx, drv, ['a', 'b', 'c'], {'a': {'kind': 'indirect', 'dep': 'b'}, 'b': {'kind': 'const', 'v': None},
                                        'c': {'kind': 'sum', 'deps': ['b']}}, {})
        # a setter that raises an exception other than KeyError (here IndexError, when its input is not there yet) is an
        # error of its own field at once — it is not tried again after the input has arrived
        for order, specs in ((['a', 'b'], {'a': {'kind': 'index', 'dep': 'b'}, 'b': {'kind': 'const', 'v': 1}}),
                             (['a', 'c', 'b'], {'a': {'kind': 'index', 'dep': 'b'}, 'b': {'kind': 'const', 'v': 1},
                                                'c': {'kind': 'sum', 'deps': ['b']}})):
            one(ctx, drv, order, specs, {})
            try:
                res, failed, other = run_real(order, specs, {})
                if failed != ['a'] or 'a' in res:
                    ctx.fail('C17 oracle: the setter of \'a\' raises IndexError when it is called (its input \'b\' is set later): '
                             'expected an error for \'a\' only and no value; got %r, errors for %r' % (res, failed),
                             {'order': order, 'specs': [[k, specs[k]] for k in order], 'doc': {}})
            except Exception as e:
                ctx.fail('C17 oracle: normalization raised %r' % (e,), {'order': order, 'specs': [[k, specs[k]] for k in order]})
        if ctx.tier == 'thorough':
            for nf in (1, 2, 3):
                for fields, specs, doc in exhaustive(nf):
                    for order in itertools.permutations(fields):
                        one(ctx, drv, list(order), specs, doc)
            ctx.cov['exhaustive_upto_fields'] = 3
        for _ in range(n):
            order, specs, doc = random_case(rng)
            one(ctx, drv, order, specs, doc)


def search(ctx, n):
    rng = random.Random(ctx.seed * 13 + 5)
    for nf in (1, 2, 3):
        for fields, specs, doc in exhaustive(nf):
            for order in itertools.permutations(fields):
                one(ctx, None, list(order), specs, doc)
                if ctx.failures:
                    return
    for _ in range(n):
        order, specs, doc = random_case(rng)
        one(ctx, None, order, specs, doc)
        if ctx.failures:
            return
