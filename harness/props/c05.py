"""C05 — the caller's document and the validator's schema are never modified.

Oracle on the real objects: the document passed in (deep snapshot, and the identity of
every nested container), `dict(validator.schema)`, the objects the caller built the
schema from, and the registry contents are compared before and after validate /
validated / normalized; the processed document is a distinct object; with
normalize=False it equals the input.
Port `alias`: normalization replayed on the Lean heap model (`hnormalize`): the
reified result must equal the real normalized document, no pre-existing cell may
change (`C05_frame` says it cannot), the processed document must be a fresh cell, and
wherever the model says a container of the result *is* a container of the input, the
real result must hold the identical object.
"""
import copy
import random

from cerberus import Validator, schema_registry, rules_set_registry

from .. import codec, real, cases, ports, rewrite
from ..lean import Driver


def containers(v, path=(), out=None):
    out = {} if out is None else out
    if isinstance(v, dict):
        out[path] = v
        for k, x in v.items():
            containers(x, path + (k,), out)
    elif isinstance(v, (list, tuple)):
        out[path] = v
        for i, x in enumerate(v):
            containers(x, path + (i,), out)
    return out


def snapshot(v):
    try:
        return codec.canon_val(v)
    except RecursionError:
        # the object contains itself: as a snapshot that is a value no acyclic object equals
        return ('cyclic', id(v))


def oracle(ctx, case, jcase):
    """returns the real normalized document (or None)"""
    schema_src = copy.deepcopy(case['schema'])
    schema_snap = repr(codec.canon_val(schema_src))
    v = real.cls_of(case)(schema_src, **copy.deepcopy(case.get('cfg', {})))
    held = snapshot(dict(v.schema))
    result = None
    for call in ('validate', 'validate0', 'validated', 'normalized'):
        doc = copy.deepcopy(case['doc'])
        before = snapshot(doc)
        ids = {p: id(c) for p, c in containers(doc).items()}
        try:
            if call == 'validate':
                v.validate(doc, update=case.get('update', False))
            elif call == 'validate0':
                v.validate(doc, update=case.get('update', False), normalize=False)
            elif call == 'validated':
                v.validated(doc)
            else:
                v.normalized(doc)
        except Exception as e:
            ctx.dist('skipped', 'real raised ' + type(e).__name__)
            return None
        if snapshot(doc) != before:
            ctx.fail('C05 oracle: %s modified the document passed by the caller' % call, dict(jcase, call=call),
                     detail={'before': repr(before)[:600], 'after': repr(snapshot(doc))[:600]})
            return None
        if any(id(c) != ids.get(p) for p, c in containers(doc).items()):
            ctx.fail('C05 oracle: %s replaced a nested object of the caller\'s document' % call, dict(jcase, call=call))
            return None
        if v.document is doc:
            ctx.fail('C05 oracle: after %s validator.document is the very object passed in' % call, dict(jcase, call=call))
            return None
        if call == 'validate0' and snapshot(v.document) != before:
            ctx.fail('C05 oracle: with normalize=False the processed document differs from the input', dict(jcase, call=call))
            return None
        if snapshot(dict(v.schema)) != held:
            ctx.fail('C05 oracle: %s modified the schema held by the validator' % call, dict(jcase, call=call))
            return None
        if call == 'normalized':
            result = v.document
    # the validator's own previous output passed back in is a caller's document like any other
    for call in ('normalized', 'validate', 'validate0'):
        own = v.document
        if not isinstance(own, dict):
            break
        before = snapshot(own)
        try:
            if call == 'normalized':
                v.normalized(own)
            else:
                v.validate(own, normalize=(call == 'validate'))
        except Exception as e:
            ctx.dist('skipped', 'real raised ' + type(e).__name__)
            break
        if snapshot(own) != before:
            ctx.fail('C05 oracle: %s modified the document passed by the caller (the validator\'s own previous output)' % call,
                     dict(jcase, call=call, own_output=True),
                     detail={'before': repr(before)[:600], 'after': repr(snapshot(own))[:600]})
            return result
        if v.document is own:
            ctx.fail('C05 oracle: after %s of its own previous output validator.document is the very object passed in' % call,
                     dict(jcase, call=call, own_output=True))
            return result
    return result


def registry_snapshot():
    return (repr(codec.canon_val(dict(rules_set_registry.all()))), repr(codec.canon_val(dict(schema_registry.all()))))


def oracle_registries(ctx, case, jcase, rng):
    """the same with parts of the schema moved into the module-level registries: their contents stay as they are"""
    refschema, rs, ss, applied = rewrite.to_references(rng, case['schema'], p=0.5)
    if not applied:
        return
    real.clear_global_state()
    how = rng.choice(['add', 'add', 'extend'])
    rs0, ss0 = rs, ss
    if rng.random() < 0.4:
        # the definitions in shorthand form: what the registry holds after registration is what it must keep holding
        rs = {k: (rewrite.to_shorthand(rng, {0: d}, p=0.6)[0][0] if isinstance(d, dict) else d) for k, d in rs.items()}
        ss = {k: (rewrite.to_shorthand(rng, d, p=0.6)[0] if isinstance(d, dict) else d) for k, d in ss.items()}
        how += ', shorthand definitions'
    canon_rs, canon_ss = rs0, ss0
    swap = how == 'extend, shorthand definitions' and rng.random() < 0.5
    if swap:
        how += ' swapped in after the validator was built'
    try:
        if how.startswith('add') or swap:
            for k, v in (canon_rs if swap else rs).items():
                rules_set_registry.add(k, copy.deepcopy(v))
            for k, v in (canon_ss if swap else ss).items():
                schema_registry.add(k, copy.deepcopy(v))
        else:
            rules_set_registry.extend(copy.deepcopy(rs))
            schema_registry.extend(copy.deepcopy(ss))
        try:
            v = real.cls_of(case)(copy.deepcopy(refschema), **copy.deepcopy(case.get('cfg', {})))
        except Exception as e:
            ctx.dist('skipped', 'referenced schema not constructed: ' + type(e).__name__)
            return
        if swap:
            # references are resolved lazily: the definitions behind the names are replaced (by equivalent ones in
            # shorthand form) after the validator was built
            rules_set_registry.extend(copy.deepcopy(rs))
            schema_registry.extend(copy.deepcopy(ss))
        ctx.dist('registries_filled_by', how)
        held = snapshot(dict(v.schema))
        before = registry_snapshot()
        for call in ('validate', 'validated', 'normalized'):
            doc = copy.deepcopy(case['doc'])
            snap = snapshot(doc)
            try:
                getattr(v, call)(doc)
            except Exception as e:
                ctx.dist('skipped', 'real raised ' + type(e).__name__)
                return
            jc = dict(jcase, call=call, referenced=codec.enc_val(refschema), rules_sets=codec.enc_val(rs),
                      schemas=codec.enc_val(ss))
            if registry_snapshot() != before:
                ctx.fail('C05 oracle: %s modified a registry entry' % call, jc)
                return
            if snapshot(dict(v.schema)) != held:
                ctx.fail('C05 oracle: %s modified the schema (with references) held by the validator' % call, jc)
                return
            if snapshot(doc) != snap:
                ctx.fail('C05 oracle: %s modified the document passed by the caller (schema with references)' % call, jc)
                return
        ctx.dist('registry_cases', len(applied) if len(applied) < 5 else '5+')
    finally:
        real.clear_global_state()


def one(ctx, drv, i, prof, case):
    if cases.accepted(case) is not True:
        return
    jcase = real.enc_case(case)
    oracle(ctx, case, jcase)
    oracle_registries(ctx, case, jcase, random.Random(ctx.seed * 41 + i))
    # port
    doc = copy.deepcopy(case['doc'])
    v = real.make_validator(case)
    try:
        res = v.normalized(doc, always_return_document=True)
    except Exception:
        return
    try:
        req = ports.base_request(case, 'alias')
        rep = ports.ask(drv, req)
    except codec.OutOfUniverse:
        ctx.cov['out_of_domain'] += 1
        return
    if ports.find_need(rep) is not None or rep == 'fuel' or 'raised' in rep:
        if rep == 'fuel' or (isinstance(rep, dict) and 'raised' in rep):
            ctx.port_mismatch('alias', jcase, repr(rep)[:200], 'ok', 'heap model raised / out of fuel')
        else:
            ctx.cov['out_of_domain'] += 1
        return
    try:
        rdoc = codec.canon_val(res)
    except codec.OutOfUniverse:
        ctx.cov['out_of_domain'] += 1
        return
    if codec.canon_jval(rep['doc']) != rdoc:
        ctx.port_mismatch('alias', jcase, repr(codec.canon_jval(rep['doc']))[:1000], repr(rdoc)[:1000],
                          'reified heap result differs from the real normalized document')
    if not rep['unchanged'] or not rep['fresh']:
        ctx.port_mismatch('alias', jcase, {'unchanged': rep['unchanged'], 'fresh': rep['fresh']}, None,
                          'the heap model wrote to a pre-existing cell (contradicts C05_frame)')
    if codec.canon_jval(rep['input']) != codec.canon_val(case['doc']):
        ctx.port_mismatch('alias', jcase, None, None, 'the input document changed in the heap model')
    # sharing: where the model says "same object as in the input", the real result must agree
    in_ids = {id(c) for c in containers(doc).values()}
    rcont = containers(res)
    shared_model = 0
    # a `copy` default setter and the `c_wrap` coercer hand out / embed an object of the document itself;
    # the model allocates the results of callables wholesale, so the reverse direction is checked without them
    txt = repr(jcase.get('schema')) + repr(jcase.get('cfg'))
    reverse = 'copy' not in txt and 'c_wrap' not in txt
    ctx.dist('sharing_checked_both_ways', reverse)
    for p, is_shared in rep['shared']:
        path = tuple(codec.dec_key(k) for k in p)
        obj = rcont.get(path)
        if is_shared:
            shared_model += 1
            if obj is None or id(obj) not in in_ids:
                ctx.port_mismatch('alias', jcase, {'path': repr(path), 'model': 'shared with input'}, 'not the input object',
                                  'sharing map differs')
                break
        elif reverse and obj is not None and id(obj) in in_ids and not (isinstance(obj, tuple) and not obj):
            ctx.port_mismatch('alias', jcase, {'path': repr(path), 'model': 'a new object'}, 'an object of the input document',
                              'sharing map differs: the real result holds an input object where the model allocates')
            break
    changed = rdoc != codec.canon_val(case['doc'])
    ctx.count('alias', key=repr(jcase), nontrivial=changed,
              sample={'schema': repr(case['schema'])[:300], 'doc': repr(case['doc'])[:200], 'result': repr(res)[:200]})
    ctx.dist('document_changed', changed)
    ctx.dist('shared_containers', min(shared_model, 6))


def run(ctx, n):
    ctx.cov['rule'] = ('generated schemas whose normalization rules sit inside nested containers (keysrules, valuesrules, list/dict '
                       'schema, items, allow_unknown rule sets) x configurations x documents; oracle: deep snapshot and object '
                       'identities of the caller document, validator.schema before/after each of the four calls; port: heap model '
                       'vs real (reified result, no pre-existing cell written, fresh result, sharing); non-trivial = normalization '
                       'changed the document; distinct by canonical case')
    profiles = ['normalize', 'normalize', 'mixed', 'normalize']
    with Driver() as drv:
        for i, prof, case, g in cases.stream(ctx.seed, n, profiles):
            one(ctx, drv, i, prof, case)


def search(ctx, n):
    for i, prof, case, g in cases.stream(ctx.seed + 7919, n, ['normalize', 'mixed']):
        if cases.accepted(case) is not True:
            continue
        before = len(ctx.failures)
        oracle(ctx, case, real.enc_case(case))
        oracle_registries(ctx, case, real.enc_case(case), random.Random(ctx.seed * 41 + i))
        if len(ctx.failures) > before:
            return
