"""C07 — a validator's result does not depend on what it processed before.

Port `api`: the Lean state machine (which takes the instance's whole state as
input, as the code does) against the real instance, over random histories of
validate / validated / normalized / errors calls with mixed flags, invalid and
non-mapping documents, accepted and rejected per-call schemas.
Oracle: the probe call on the used instance vs the same call on a fresh instance
with the same schema and configuration.
"""
import copy
import random

from .. import codec, real, cases, ports, api
from ..lean import Driver


def fresh_like(case, v, ops=()):
    """a fresh instance with the configuration and the schema the used instance was *given* last (the constructor's,
    or the last accepted per-call schema) — not a copy of what the used instance holds now, which a defect
    may have altered"""
    cls = real.cls_of(case)
    cfg = copy.deepcopy(case.get('cfg', {}))
    schema = case['schema']
    for op in ops:
        if op.get('schema_raw') is not None and op.get('schema_acc') is not None:
            schema = op['schema_raw']
    return cls(copy.deepcopy(schema), **cfg)


def directed(ctx, case, g):
    """short fixed histories around the per-call state: update then no update, a rejected call then a normal one,
    normalization then none — the probe must behave as on a fresh instance"""
    full = g.document(case['schema'], extra=0.0, missing=0.0)
    part = g.document(case['schema'], extra=0.0, missing=0.7)
    pats = [
        [dict(op='validate', doc=full, update=True, normalize=False), dict(op='validate', doc={}, update=False, normalize=False)],
        [dict(op='validate', doc=full, update=True, normalize=True), dict(op='validate', doc=part, update=False, normalize=True)],
        [dict(op='validate', doc=part, update=False, normalize=True), dict(op='normalized', doc=full, always=True),
         dict(op='validate', doc=part, update=True, normalize=False)],
        [dict(op='validate', doc=5, update=False, normalize=True), dict(op='validated', doc=part, update=False, normalize=True, always=False)],
    ]
    # a per-call schema that compares equal to the schema in force (1 == 1.0 == True) but is another schema
    if all(isinstance(k, str) and k != 'zq' for k in case['schema']):
        s1 = dict(copy.deepcopy(case['schema']), zq={'default': 1})
        s2 = dict(copy.deepcopy(case['schema']), zq={'default': 1.0})
        s3 = dict(copy.deepcopy(case['schema']), zq={'default': True})
        d = {k: x for k, x in part.items() if k != 'zq'} if isinstance(part, dict) else {}
        pats.append([dict(op='validate', doc=d, update=False, normalize=True, schema_raw=s1, schema_acc=s1),
                     dict(op='validate', doc=d, update=False, normalize=True, schema_raw=s2, schema_acc=s2)])
        pats.append([dict(op='normalized', doc=d, always=True, schema_raw=s3, schema_acc=s3),
                     dict(op='validate', doc=full, update=True, normalize=False),
                     dict(op='validated', doc=d, update=False, normalize=True, always=True, schema_raw=s1, schema_acc=s1)])
    # a per-call schema whose field names are rule names, then the same mapping where a rule set is expected
    # (what an earlier call accepted as a schema must not count as an accepted rule set)
    form = {'required': {'type': 'boolean'}, 'nullable': {'type': 'boolean'}}
    for wrap in ({'a': {'anyof': [form]}}, {'a': {'type': 'dict', 'valuesrules': form}}, {'a': {'type': 'list', 'items': [form]}}):
        pats.append([dict(op='validate', doc={'required': True}, update=False, normalize=True, schema_raw=form, schema_acc=form),
                     dict(op='validate', doc={'a': 5}, update=False, normalize=True, schema_raw=wrap, schema_acc=None)])
    for ops in pats:
        try:
            real.clear_global_state()
            real.Validator.clear_caches()
            v = real.make_validator(case)
            for op in ops[:-1]:
                api.run_real_op(v, op)
            r = api.run_real_op(v, ops[-1])
            o = api.observe_real(v)
            o['ret'] = r['ret']
            real.Validator.clear_caches()
            f = fresh_like(case, v, ())
            rf = api.run_real_op(f, ops[-1])
            of = api.observe_real(f)
            of['ret'] = rf['ret']
        except Exception as e:
            ctx.dist('skipped', 'directed history: ' + type(e).__name__)
            continue
        ctx.dist('directed_histories', len(ops))
        if of != o:
            jc = dict(real.enc_case({k: case[k] for k in ('schema', 'cfg', 'cls', 'seed', 'index', 'profile') if k in case}),
                      ops=[{k: (codec.enc_val(x) if k == 'doc' else x) for k, x in op.items()} for op in ops])
            ctx.fail('C07 oracle: probe on the used instance differs from the same call on a fresh instance', jc,
                     detail={'used': repr(o)[:1500], 'fresh': repr(of)[:1500], 'history': 'directed'})
            return


def rejected_then_probe(ctx):
    """a per-call schema that is rejected (a rules set that refers to itself and is malformed elsewhere) must not make a
    later per-call schema — a part of the rejected definition — acceptable on the used instance"""
    from cerberus import Validator, SchemaError, rules_set_registry
    node = {'type': 'dict', 'schema': {'child': 'node7'}, 'required': 'yes'}
    probes = [{'x': {'type': 'dict', 'schema': {'child': 'node7'}}},
              {'y': {'type': 'list', 'schema': {'type': 'dict', 'schema': {'child': 'node7'}}}}]

    def run(history, probe):
        real.clear_global_state()
        try:
            rules_set_registry.add('node7', copy.deepcopy(node))
            v = Validator()
            for doc, sch in history:
                try:
                    v.validate(copy.deepcopy(doc), copy.deepcopy(sch))
                except Exception:
                    pass
            try:
                return ('returned', v.validate({}, copy.deepcopy(probe)))
            except SchemaError:
                return ('SchemaError',)
            except Exception as e:
                return ('raised', type(e).__name__)
        finally:
            real.clear_global_state()
    for probe in probes:
        fresh = run([], probe)
        used = run([({}, {'root': 'node7'})], probe)
        ctx.dist('directed_histories', 'rejected per-call schema, then a part of it')
        if fresh != used:
            ctx.fail('C07 oracle: probe with a per-call schema on an instance that was given a rejected per-call schema before: %r; '
                     'on a fresh instance: %r' % (used, fresh), {'history': 'rejected_then_probe', 'probe': repr(probe), 'rules_set': repr(node)})
            return


def one(ctx, drv, i, prof, case, hist_len, g=None):
    rng = random.Random(ctx.seed * 31 + i)
    try:
        v = real.make_validator(case)
    except Exception:
        ctx.dist('skipped', 'schema not accepted')
        return
    if g is not None:
        directed(ctx, case, g)
    case = dict(case, schema_acc=dict(v.schema))
    ops = api.gen_ops(rng, case, rng.randint(1, hist_len))
    jcase = dict(real.enc_case({k: case[k] for k in ('schema', 'cfg', 'cls', 'seed', 'index', 'profile') if k in case}),
                 ops=[{k: (codec.enc_val(x) if k in ('doc', 'schema_raw', 'schema_acc') and x is not None else x)
                       for k, x in op.items()} for op in ops])
    real_obs = []
    crashed = False
    for op in ops:
        r = api.run_real_op(v, op)
        o = api.observe_real(v)
        o['ret'] = r['ret']
        real_obs.append(o)
        if r['exc'] is not None and type(r['exc']).__name__ not in ('SchemaError', 'DocumentError'):
            crashed = True
            break
    if crashed:
        ctx.dist('skipped', 'real raised (C03 matter)')
        return
    # oracle: last op is the probe; compare with a fresh instance
    probe = ops[-1]
    try:
        # state of the used instance *before* the probe is what a fresh instance must mimic:
        # replay all but the probe on a second instance to learn schema/config, then build fresh
        v2 = real.make_validator(case)
        for op in ops[:-1]:
            api.run_real_op(v2, op)
        f = fresh_like(case, v2, ops[:-1])
        if probe['op'] == 'errors':
            pass   # reading errors depends on the last processing by definition
        else:
            rf = api.run_real_op(f, probe)
            of = api.observe_real(f)
            of['ret'] = rf['ret']
            # the `errors` property after the probe (also after a probe that was refused) is the probe's, not an earlier call's
            try:
                pu, pf = repr(v.errors), repr(f.errors)
            except Exception as e:
                pu, pf = 'raised', 'raised'
            if pu != pf:
                ctx.fail('C07 oracle: Validator.errors after the probe on the used instance differs from a fresh instance',
                         jcase, detail={'used': pu[:800], 'fresh': pf[:800]})
            elif of != real_obs[-1]:
                ctx.fail('C07 oracle: probe on the used instance differs from the same call on a fresh instance',
                         jcase, detail={'used': repr(real_obs[-1])[:1500], 'fresh': repr(of)[:1500]})
    except Exception as e:
        ctx.dist('skipped', 'fresh instance failed: ' + type(e).__name__)
    # port
    try:
        req = api.model_request(case, ops)
    except codec.OutOfUniverse:
        ctx.cov['out_of_domain'] += 1
        return
    rep = ports.ask(drv, req)
    if ports.find_need(rep) is not None:
        ctx.cov['out_of_domain'] += 1
        return
    try:
        mobs = [api.canon_model_obs(o) for o in rep['obs']]
    except Exception as e:
        ctx.port_mismatch('api', jcase, repr(rep)[:800], None, 'cannot canonicalise model reply: %r' % (e,))
        return
    for k, (m, r) in enumerate(zip(mobs, real_obs)):
        if m != r:
            ctx.port_mismatch('api', jcase, repr(m)[:1500], repr(r)[:1500], 'observation %d (%s) differs' % (k, ops[k]['op']))
            break
    ctx.count('api', key=repr(jcase), nontrivial=len(ops) >= 2,
              sample={'schema': repr(case['schema'])[:200], 'ops': [dict((k, repr(x)[:80]) for k, x in op.items()) for op in ops[:4]]})
    ctx.dist('history_length', len(ops))
    for op in ops:
        ctx.dist('ops', op['op'] + ('+schema' if 'schema_raw' in op else ''))
    for o in real_obs:
        ctx.dist('outcomes', o['ret'][0] + (':' + str(o['ret'][1]) if o['ret'][0] in ('raised', 'bool') else ''))


def run(ctx, n):
    ctx.cov['rule'] = ('random histories (1..12 calls quick, 1..40 thorough) of validate/validated/normalized/errors with mixed '
                       'update/normalize/always flags, near-valid, arbitrary and non-mapping documents, accepted and corrupted per-call '
                       'schemas, on one instance; port: every observation (return value or exception class, recorded errors, processed '
                       'document) vs the Lean state machine; oracle: the last call vs the same call on a fresh instance; '
                       'non-trivial = history of >= 2 calls; distinct by canonical (case, history)')
    hist = 40 if ctx.tier == 'thorough' else 12
    profiles = ['mixed', 'normalize', 'validate', 'of']
    rejected_then_probe(ctx)
    with Driver() as drv:
        for i, prof, case, g in cases.stream(ctx.seed, n, profiles):
            one(ctx, drv, i, prof, case, hist, g)


def search(ctx, n):
    profiles = ['mixed', 'normalize', 'validate']
    with Driver() as drv:
        for i, prof, case, g in cases.stream(ctx.seed + 7919, n, profiles):
            before = len(ctx.failures)
            one(ctx, drv, i, prof, case, 20)
            if len(ctx.failures) > before:
                return
