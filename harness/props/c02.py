"""C02 — normalization yields the documented result in the documented order.

Port `normalize`: the Lean model of `__normalize_mapping` (proved in
Props/C02.lean to be the documented pipeline) against the real
`normalized(doc, always_return_document=True)`: normalized document (typed,
dict order-insensitive) and normalization errors.  A difference is a failing
input of this property.  Port `validate` compares the full
`validate(doc, normalize=True)` the same way.
"""
import copy

from .. import codec, real, cases, ports
from ..lean import Driver

LEVEL = 2


def model_sig(rep, level=LEVEL):
    if rep == 'fuel':
        return ('fuel',)
    if 'raised' in rep:
        return ('raised', rep['raised'][0])
    return ('ok', codec.canon_jval(rep['doc']), codec.canon_jerrs(rep['ok'], level))


def real_sig(out, level=LEVEL):
    if out.exc is not None:
        return ('raised', type(out.exc).__name__)
    return ('ok', codec.canon_val(out.document), codec.canon_errs(out.errors, level))


def compare(ctx, drv, case, full=False):
    try:
        rep = ports.model_validate(drv, case) if full else ports.model_normalize(drv, case)
    except codec.OutOfUniverse:
        ctx.cov['out_of_domain'] += 1
        return 'ood', None
    if isinstance(rep, dict) and 'need' in rep:
        ctx.cov['out_of_domain'] += 1
        return 'ood', None
    out = real.run_validate(case, normalize=True) if full else real.run_normalized(case)
    try:
        rsig = real_sig(out)
    except codec.OutOfUniverse:
        ctx.cov['out_of_domain'] += 1
        return 'ood', None
    msig = model_sig(rep)
    if msig == rsig:
        return 'ok', (out, rep)
    return 'mismatch', {'model': repr(msig)[:3000], 'real': repr(rsig)[:3000],
                        'real_exc': repr(out.exc) if out.exc is not None else None}


def oracle_again(ctx, case, jcase):
    """the documented result does not depend on the instance having normalized before: the same document through
    normalized() twice, and after a validate(), on one instance"""
    try:
        f = real.make_validator(case)
        r0 = f.normalized(copy.deepcopy(case['doc']), always_return_document=True)
        want = (codec.canon_val(r0), codec.canon_errs(f._errors, LEVEL))
        v = real.make_validator(case)
        for k, prelude in enumerate((lambda: v.normalized(copy.deepcopy(case['doc'])),
                                     lambda: v.validate(copy.deepcopy(case['doc']), update=case.get('update', False)))):
            prelude()
            r = v.normalized(copy.deepcopy(case['doc']), always_return_document=True)
            got = (codec.canon_val(r), codec.canon_errs(v._errors, LEVEL))
            if got != want:
                ctx.fail('C02 oracle: normalized() on an instance that has %s the document before differs from a fresh normalized()'
                         % ('normalized', 'validated')[k], dict(jcase, again=k),
                         detail={'fresh': repr(want)[:800], 'again': repr(got)[:800]})
                return
    except Exception as e:
        ctx.dist('skipped', 'again: ' + type(e).__name__)


def run(ctx, n):
    ctx.cov['rule'] = ('generated accepted schemas with normalization rules (rename, rename_handler, default, default_setter, coerce '
                       'incl. chains and raising coercers, purge_unknown at validator and rule level, purge_readonly, readonly) nested '
                       'in schema/items/keysrules/valuesrules/allow_unknown x configurations x documents; real normalized() and '
                       'validate(normalize=True) vs the Lean model; compared: typed normalized document and error forest; '
                       'non-trivial = the document changed or an error was reported; distinct by canonical case')
    profiles = ['normalize', 'normalize', 'mixed', 'normalize', 'validate']
    with Driver() as drv:
        for i, prof, case, g in cases.stream(ctx.seed, n, profiles):
            if cases.accepted(case) is not True:
                ctx.dist('skipped', 'schema not accepted')
                continue
            jcase = real.enc_case(case)
            oracle_again(ctx, case, jcase)
            for full in (False, True):
                st, detail = compare(ctx, drv, case, full=full)
                port = 'validate' if full else 'normalize'
                if st == 'mismatch':
                    ctx.fail('C02: real %s differs from the reference model' % ('validate(normalize=True)' if full else 'normalized()'),
                             dict(jcase, full=full), detail=detail)
                    ctx.dist('result', 'mismatch ' + port)
                    continue
                if st != 'ok':
                    continue
                out, rep = detail
                changed = out.exc is None and codec.canon_val(out.document) != codec.canon_val(case['doc'])
                nerr = len(out.errors) if out.exc is None else -1
                ctx.count(port, key=(repr(jcase), full), nontrivial=changed or nerr > 0,
                          sample={'schema': repr(case['schema'])[:300], 'doc': repr(case['doc'])[:200],
                                  'cfg': repr(case['cfg'])[:100], 'result': repr(out.document)[:200], 'errors': nerr})
                if not full:
                    ctx.dist('document_changed', changed)
                    ctx.dist('norm_errors', min(nerr, 6))
                    if out.exc is None:
                        for e in real.flatten(out.errors):
                            ctx.dist('codes', hex(e.code))
                    for k in g.features:
                        if k in ('coerce', 'default', 'default_setter', 'rename', 'rename_handler', 'purge_unknown', 'readonly'):
                            ctx.dist('rules', k)


def search(ctx, n):
    profiles = ['normalize', 'mixed']
    with Driver() as drv:
        for i, prof, case, g in cases.stream(ctx.seed + 7919, n, profiles):
            if cases.accepted(case) is not True:
                continue
            for full in (False, True):
                st, detail = compare(ctx, drv, case, full=full)
                if st == 'mismatch':
                    ctx.fail('C02: real normalization differs from the reference model',
                             dict(real.enc_case(case), full=full), detail=detail)
                    return
