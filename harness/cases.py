"""Case streams shared by the ports: (schema, configuration, document, flags)."""
from cerberus import SchemaError

from . import gen, real, codec


PROFILES = {
    # validation only
    'validate': dict(max_depth=3, normalization=0.0, logical=0.25),
    'of': dict(max_depth=3, normalization=0.0, logical=0.7),
    'deep': dict(max_depth=4, normalization=0.0, logical=0.2, wrong_shape=0.1),
    'wrong': dict(max_depth=2, normalization=0.0, logical=0.2, wrong_shape=0.6),
    'nones': dict(max_depth=2, normalization=0.0, logical=0.6, wrong_shape=0.05),
    # update=True with ignore_none_values / require_all and None values at every depth: what `update` must reach
    'update': dict(max_depth=3, normalization=0.0, logical=0.3, wrong_shape=0.05),
    # with normalization rules
    'normalize': dict(max_depth=3, normalization=0.5, logical=0.15),
    'mixed': dict(max_depth=3, normalization=0.25, logical=0.25, named=0.3),
    'corpus': dict(max_depth=3, normalization=0.25, logical=0.25),
}


def make_case(seed, index, profile='validate', norm_cfg=None):
    """Returns (case, generator) or (None, reason).  Deterministic in (seed, index, profile)."""
    if index < 0:
        import copy as _copy
        from . import corpus
        for k, c in corpus.corpus_cases(True):
            if k == index:
                return dict(_copy.deepcopy({x: y for x, y in c.items() if x not in ('schema', 'cfg')}),
                            schema=_copy.deepcopy(c['schema']), cfg=_copy.deepcopy(c['cfg']), seed=seed), \
                    gen.Gen(gen.case_rng(seed, index), **PROFILES['mixed'])
    rng = gen.case_rng(seed, index)
    params = PROFILES[profile]
    g = gen.Gen(rng, **params)
    norm = params.get('normalization', 0) > 0 if norm_cfg is None else norm_cfg
    schema = g.schema()
    cfg = g.config(depth=1, norm=norm)
    if profile == 'update':
        cfg['ignore_none_values'] = rng.random() < 0.7
        if rng.random() < 0.6:
            cfg['require_all'] = True
        doc = g.nones_document(schema, deep=True)
    elif profile == 'nones':
        doc = g.nones_document(schema)
    elif rng.random() < 0.7:
        doc = g.document(schema, unknown=cfg.get('allow_unknown'))
    else:
        doc = g.arbitrary_document()
        for f in list(schema)[:2]:
            if rng.random() < 0.5:
                doc[f] = g.anyval(2)
    if profile in ('wrong', 'validate', 'deep') and rng.random() < 0.5:
        doc = g.poison_dependencies(schema, doc)
    case = {'schema': schema, 'cfg': cfg, 'doc': doc, 'update': rng.random() < (0.85 if profile == 'update' else 0.25),
            'cls': 'VV' if g.uses_named else 'V', 'seed': seed, 'index': index, 'profile': profile}
    return case, g


def accepted(case):
    """does the real code accept the schema? (None on other exceptions)"""
    try:
        real.make_validator(case)
        return True
    except SchemaError:
        return False
    except Exception:
        return None


def with_refs(case, rng, p=0.5, decoys=False):
    """the same case with parts of its schema moved into registries bound to the validator (None when the schema has
    no position that can be given by reference)"""
    from . import rewrite
    refschema, rs, ss, applied = rewrite.to_references(rng, case['schema'], p=p)
    if not applied:
        return None
    return dict(case, schema=refschema, rules_sets=rs, schemas=ss, bound_registries=True, decoys=decoys,
                inline_schema=case['schema'])


ONLY = None      # replay mode: (seed, index) of the one case to yield


def stream(seed, n, profiles, start=0, corpus=True):
    """yield the hand-written corpus cases first (index < 0), then generated cases; profile chosen round-robin"""
    if corpus and start == 0:
        from . import corpus as _corpus
        norm_ok = any(PROFILES[p].get('normalization', 0) > 0 for p in profiles)
        for k, c in _corpus.corpus_cases(norm_ok):
            if ONLY is not None and (seed, k) != ONLY:
                continue
            case, g = make_case(seed, k)
            yield k, 'corpus', case, g
    for i in range(start, start + n):
        if ONLY is not None and (seed, i) != ONLY:
            continue
        prof = profiles[i % len(profiles)]
        case, g = make_case(seed, i, prof)
        try:
            codec.enc_val(case['schema'])
            codec.enc_val(case['doc'])
        except codec.OutOfUniverse:
            continue
        yield i, prof, case, g
