"""Translator: regenerate `lean/Cerberus/Extracted.lean` from the live cerberus
classes on every run (DESIGN.md §4a).  Tables are obtained by *behaviour*
(probing documented extension points), not by reading the source text, so a
harmless rewrite of the code does not change them.
"""
import json
import os
import warnings

warnings.simplefilter('ignore')

from cerberus import Validator, errors as cerr            # noqa: E402
from cerberus.schema import UnvalidatedSchema              # noqa: E402

ROOT = os.path.dirname(os.path.dirname(os.path.abspath(__file__)))
OUT = os.path.join(ROOT, 'lean', 'Cerberus', 'Extracted.lean')
OUT_JSON = os.path.join(ROOT, 'lean', 'extracted.json')


def _fn():
    pass


REPRESENTATIVES = [('none', None), ('bool', True), ('int', 1), ('flt', 1.5), ('str', 'a'),
                   ('list', [1]), ('tuple', (1,)), ('dict', {'a': 1}), ('fn', _fn)]


def all_rules():
    return sorted(set(Validator.validation_rules) | set(Validator.normalization_rules))


def probe_queue():
    """which rules of a rule set enter the queue of `__validate_definitions`, and in which order"""
    rec = {}

    class Probe(Validator):
        def _validate_nullable(self, nullable, field, value):
            rec['queue'] = ['nullable'] + list(self._remaining_rules)
            self._drop_remaining_rules()

    names = [r for r in reversed(all_rules())]
    v = Probe(UnvalidatedSchema({'f': dict((r, None) for r in names)}))
    v.validate({'f': 1}, normalize=False)
    return rec['queue'], names


def probe_drop(handler, constraint, value):
    """load `_remaining_rules` with every rule, call one handler, see what is left"""
    names = all_rules()
    v = Validator({'f': {'type': 'integer', 'nullable': True, 'empty': True}})
    v.validate({'f': value}, normalize=False)
    v.document = {'f': value}
    v._remaining_rules = list(names)
    getattr(v, '_validate_' + handler)(constraint, 'f', value)
    left = list(v._remaining_rules)
    return [r for r in names if r not in left], (len(left) == 0)


def type_table():
    t = {}
    for name, td in Validator.types_mapping.items():
        row = {}
        for cname, rep in REPRESENTATIVES:
            row[cname] = bool(isinstance(rep, td.included_types) and not isinstance(rep, td.excluded_types))
        t[name] = row
    return t


def meta_type_table():
    """types_mapping of the lazily created SchemaValidator (adds 'callable' and 'hashable')"""
    from cerberus import schema as cschema
    Validator({})                      # makes sure SchemaValidator exists
    t = {}
    for name, td in cschema.SchemaValidator.types_mapping.items():
        row = {}
        for cname, rep in REPRESENTATIVES:
            row[cname] = bool(isinstance(rep, td.included_types) and not isinstance(rep, td.excluded_types))
        t[name] = row
    # a tuple of lists is Hashable for isinstance(), like every tuple
    return t


def error_defs():
    out = {}
    for k, v in vars(cerr).items():
        if isinstance(v, cerr.ErrorDefinition):
            out[k] = [v.code, v.rule]
    return out


def bit_tests():
    """is_group_error / is_logic_error / is_normalization_error on every code 0..255"""
    g, l, n = [], [], []
    for c in range(256):
        e = cerr.ValidationError((), (), c, None, None, None, ())
        if e.is_group_error:
            g.append(c)
        if e.is_logic_error:
            l.append(c)
        if e.is_normalization_error:
            n.append(c)
    return g, l, n


def tables():
    queue, given = probe_queue()
    none_drop, _ = probe_drop('nullable', True, None)
    empty_drop, _ = probe_drop('empty', True, '')
    _, type_all = probe_drop('type', 'integer', 'x')
    rules = all_rules()
    g, l, n = bit_tests()
    return {
        'priority': list(Validator.priority_validations),
        'mandatory': list(Validator.mandatory_validations),
        'queueProbe': queue,
        'nonQueue': [r for r in rules if r not in queue],
        'dropOnNone': none_drop,
        'dropOnEmpty': empty_drop,
        'typeFailDropsAll': type_all,
        'typeTable': type_table(),
        'metaTypeTable': meta_type_table(),
        'typeNames': list(Validator.types),
        'errorDefs': error_defs(),
        'messageCodes': sorted(cerr.BasicErrorHandler.messages),
        'groupCodes': g, 'logicCodes': l, 'normCodes': n,
        'validationRules': sorted(Validator.validation_rules),
        'normalizationRules': sorted(Validator.normalization_rules),
        'metaSchema': {k: _plain(v) for k, v in sorted(Validator.rules.items())},
    }


def _plain(v):
    if isinstance(v, dict):
        return {k: _plain(x) for k, x in v.items()}
    if isinstance(v, tuple):
        return {'__tuple__': [_plain(x) for x in v]}
    if isinstance(v, list):
        return [_plain(x) for x in v]
    return v


# --- Lean rendering ------------------------------------------------------------

def lstr(s):
    return json.dumps(s, ensure_ascii=False)


def lstrs(xs):
    return '[' + ', '.join(lstr(x) for x in xs) + ']'


def lval(v):
    if v is None:
        return 'Val.none'
    if isinstance(v, bool):
        return '(Val.bool %s)' % ('true' if v else 'false')
    if isinstance(v, int):
        return '(Val.int %s)' % (('(%d)' % v) if v < 0 else str(v))
    if isinstance(v, str):
        return '(Val.str %s)' % lstr(v)
    if isinstance(v, list):
        return '(Val.seq false [%s])' % ', '.join(lval(x) for x in v)
    if isinstance(v, dict) and list(v) == ['__tuple__']:
        return '(Val.seq true [%s])' % ', '.join(lval(x) for x in v['__tuple__'])
    if isinstance(v, dict):
        return '(Val.dict [%s])' % ', '.join('(Key.s %s, %s)' % (lstr(k), lval(x)) for k, x in v.items())
    raise TypeError(v)


def render(t):
    L = []
    L.append('/- GENERATED by harness/extract.py from the live cerberus classes. Do not edit. -/')
    L.append('import Cerberus.Model.Tables')
    L.append('namespace Cerberus.Extracted')
    L.append('def priority : List String := %s' % lstrs(t['priority']))
    L.append('def mandatory : List String := %s' % lstrs(t['mandatory']))
    L.append('def queueProbe : List String := %s' % lstrs(t['queueProbe']))
    L.append('def nonQueue : List String := %s' % lstrs(t['nonQueue']))
    L.append('def dropOnNone : List String := %s' % lstrs(t['dropOnNone']))
    L.append('def dropOnEmpty : List String := %s' % lstrs(t['dropOnEmpty']))
    L.append('def typeFailDropsAll : Bool := %s' % ('true' if t['typeFailDropsAll'] else 'false'))
    rows = []
    for name, row in sorted(t['typeTable'].items()):
        cells = ', '.join('(Val.Ctor.%s, %s)' % (c, 'true' if b else 'false') for c, b in row.items())
        rows.append('  (%s, [%s])' % (lstr(name), cells))
    L.append('def typeTable : List (String × List (Val.Ctor × Bool)) := [\n%s]' % ',\n'.join(rows))
    rows = []
    for name, row in sorted(t['metaTypeTable'].items()):
        cells = ', '.join('(Val.Ctor.%s, %s)' % (c, 'true' if b else 'false') for c, b in row.items())
        rows.append('  (%s, [%s])' % (lstr(name), cells))
    L.append('def metaTypeTable : List (String × List (Val.Ctor × Bool)) := [\n%s]' % ',\n'.join(rows))
    L.append('def typeNames : List String := %s' % lstrs(t['typeNames']))
    defs = []
    for name, (code, rule) in sorted(t['errorDefs'].items(), key=lambda kv: (kv[1][0], kv[0])):
        defs.append('  (%s, %d, %s)' % (lstr(name), code, 'none' if rule is None else 'some ' + lstr(rule)))
    L.append('def errorDefs : List (String × Nat × Option String) := [\n%s]' % ',\n'.join(defs))
    L.append('def messageCodes : List Nat := [%s]' % ', '.join(str(c) for c in t['messageCodes']))
    L.append('def groupCodes : List Nat := [%s]' % ', '.join(map(str, t['groupCodes'])))
    L.append('def logicCodes : List Nat := [%s]' % ', '.join(map(str, t['logicCodes'])))
    L.append('def normCodes : List Nat := [%s]' % ', '.join(map(str, t['normCodes'])))
    L.append('def validationRules : List String := %s' % lstrs(t['validationRules']))
    L.append('def normalizationRules : List String := %s' % lstrs(t['normalizationRules']))
    ms = []
    for k, v in t['metaSchema'].items():
        ms.append('  (%s, %s)' % (lstr(k), lval(v)))
    L.append('def metaSchema : List (String × Val) := [\n%s]' % ',\n'.join(ms))
    L.append('def metaSchemaFields : List (Key × Val) := metaSchema.map (fun p => (Key.s p.1, p.2))')
    L.append('def tables : Tables := {')
    L.append('  priority := priority, mandatory := mandatory, nonQueue := nonQueue,')
    L.append('  dropOnNone := dropOnNone, dropOnEmpty := dropOnEmpty, typeFailDropsAll := typeFailDropsAll,')
    L.append('  typeTable := typeTable, messageCodes := messageCodes,')
    L.append('  normalizationRules := normalizationRules }')
    L.append('/-- the tables of the SchemaValidator class: the same, with its extended type table -/')
    L.append('def metaTables : Tables := { tables with typeTable := metaTypeTable }')
    L.append('end Cerberus.Extracted')
    return '\n'.join(L) + '\n'


def run():
    t = tables()
    src = render(t)
    old = None
    try:
        old = open(OUT).read()
    except FileNotFoundError:
        pass
    with open(OUT_JSON, 'w') as f:
        json.dump(t, f, indent=1, sort_keys=True)
    if old != src:
        tmp = OUT + '.tmp'
        with open(tmp, 'w') as f:
            f.write(src)
        os.replace(tmp, OUT)
        return True
    return False


if __name__ == '__main__':
    print('changed' if run() else 'unchanged')
