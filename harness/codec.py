"""Typed JSON for Python values, keys and cerberus errors (DESIGN.md appendix D).

Canonical forms used when comparing model and implementation are defined here
too, so that every port canonicalises the same way.
"""
from collections.abc import Mapping

from cerberus import errors as cerr


class OutOfUniverse(Exception):
    """a Python value that the Lean `Val` universe does not contain"""


def enc_key(k):
    if isinstance(k, bool):
        raise OutOfUniverse('bool key')
    if isinstance(k, str):
        return {"s": k}
    if isinstance(k, int):
        return {"i": str(k)}
    raise OutOfUniverse('key %r' % (k,))


def dec_key(j):
    if "s" in j:
        return j["s"]
    return int(j["i"])


def enc_val(v):
    if v is None:
        return None
    if isinstance(v, bool):
        return v
    if isinstance(v, int):
        return {"i": str(v)}
    if isinstance(v, float):
        if v != v or v in (float('inf'), float('-inf')):
            raise OutOfUniverse('non-finite float')
        n, d = v.as_integer_ratio()
        e = d.bit_length() - 1
        assert d == 1 << e
        return {"f": [str(n), e]}
    if isinstance(v, str):
        return {"s": v}
    if isinstance(v, list):
        return {"l": [enc_val(x) for x in v]}
    if isinstance(v, tuple):
        return {"t": [enc_val(x) for x in v]}
    if isinstance(v, Mapping):
        return {"d": [[enc_key(k), enc_val(x)] for k, x in v.items()]}
    name = getattr(v, '__vname__', None)
    if name is not None:
        return {"fn": name}
    raise OutOfUniverse('value %r' % (v,))


def dec_val(j, fns=None):
    if j is None or isinstance(j, bool):
        return j
    if "i" in j:
        return int(j["i"])
    if "s" in j:
        return j["s"]
    if "f" in j:
        m, e = j["f"]
        return int(m) / float(1 << e)
    if "l" in j:
        return [dec_val(x, fns) for x in j["l"]]
    if "t" in j:
        return tuple(dec_val(x, fns) for x in j["t"])
    if "d" in j:
        return {dec_key(k): dec_val(x, fns) for k, x in j["d"]}
    if "fn" in j:
        if fns is None:
            raise OutOfUniverse('fn without table')
        return fns[j["fn"]]
    raise ValueError(j)


# --- canonical forms -------------------------------------------------------

def canon_key(k):
    """typed, sortable"""
    if isinstance(k, str):
        return ("s", k)
    return ("i", k)


def canon_val(v):
    """A hashable, sortable canonical form: dicts order-insensitive, numbers by
    exact value (True == 1 == 1.0 are *not* identified: the type tag is kept)."""
    if v is None:
        return ("none",)
    if isinstance(v, bool):
        return ("bool", v)
    if isinstance(v, int):
        return ("int", v)
    if isinstance(v, float):
        return ("flt",) + v.as_integer_ratio()
    if isinstance(v, str):
        return ("str", v)
    if isinstance(v, list):
        return ("list", tuple(canon_val(x) for x in v))
    if isinstance(v, tuple):
        return ("tuple", tuple(canon_val(x) for x in v))
    if isinstance(v, Mapping):
        return ("dict", tuple(sorted(((canon_key(k), canon_val(x)) for k, x in v.items()), key=repr)))
    if isinstance(v, (set, frozenset)):
        return ("set", tuple(sorted((canon_val(x) for x in v), key=repr)))
    name = getattr(v, '__vname__', None)
    if name is not None:
        return ("fn", name)
    return ("opaque", type(v).__name__)


def canon_jval(j):
    """canonical form of a typed-JSON value (as produced by the Lean driver)"""
    return canon_val(dec_val(j, _FnNames()))


class _Named(object):
    def __init__(self, n):
        self.__vname__ = n


class _FnNames(dict):
    def __missing__(self, k):
        return _Named(k)


# --- errors ----------------------------------------------------------------

def is_group(e):
    return bool(e.code & cerr.ERROR_GROUP.code)


def enc_path(p):
    if isinstance(p, str):
        return {"str": p}
    return [enc_key(k) for k in p]


def enc_err(e, with_vals=True):
    """ValidationError -> typed JSON (recursively through child errors)."""
    j = {"dp": enc_path(e.document_path), "sp": enc_path(e.schema_path), "code": e.code,
         "rule": e.rule}
    if with_vals:
        try:
            j["c"] = enc_val(e.constraint)
        except OutOfUniverse:
            j["c"] = {"fn": "<opaque>"}
        try:
            j["v"] = enc_val(e.value)
        except OutOfUniverse:
            j["v"] = {"fn": "<opaque>"}
    if is_group(e):
        j["kids"] = [enc_err(c, with_vals) for c in e.info[0]]
        rest = e.info[1:]
    else:
        rest = e.info
    info = []
    for x in rest:
        try:
            info.append(enc_val(x))
        except OutOfUniverse:
            info.append({"fn": "<opaque>"})
    j["info"] = info
    return j


def canon_path(p):
    if isinstance(p, str):
        # the "__require_all__" marker; its content is opaque (crumb dropping may delete a character)
        return ("str",)
    return tuple(canon_key(k) for k in p)


# error codes whose `info` is compared (others carry free text / unordered data)
INFO_CODES = {0x26, 0x27, 0x28, 0x91, 0x92, 0x93, 0x94}


def canon_err(e, level=1):
    """Canonical, order-free form of a real ValidationError.

    level 0: (dp, code, kids)            -- what C01 compares
    level 1: + schema path
    level 2: + rule, value, constraint, compared info
    """
    kids = ()
    if is_group(e):
        kids = tuple(sorted((canon_err(c, level) for c in e.info[0]), key=repr))
    out = [canon_path(e.document_path), e.code]
    if level >= 1:
        out.append(canon_path(e.schema_path))
    if level >= 2:
        out.append(e.rule)
        out.append(canon_val(e.value))
        out.append(canon_val(e.constraint))
        if e.code in INFO_CODES:
            rest = e.info[1:] if is_group(e) else e.info
            out.append(tuple(canon_val(x) for x in rest))
        else:
            out.append(())
    out.append(kids)
    return tuple(out)


def canon_jpath(p):
    if isinstance(p, dict):
        return ("str",)
    return tuple(canon_key(dec_key(k)) for k in p)


def canon_jerr(j, level=1):
    """the same canonical form from the driver's JSON"""
    kids = tuple(sorted((canon_jerr(c, level) for c in j.get("kids", [])), key=repr))
    if not (j["code"] & 0x80):
        kids = ()
    out = [canon_jpath(j["dp"]), j["code"]]
    if level >= 1:
        out.append(canon_jpath(j["sp"]))
    if level >= 2:
        out.append(j.get("rule"))
        out.append(canon_jval(j.get("v")))
        out.append(canon_jval(j.get("c")))
        if j["code"] in INFO_CODES:
            out.append(tuple(canon_jval(x) for x in j.get("info", [])))
        else:
            out.append(())
    out.append(kids)
    return tuple(out)


def canon_errs(es, level=1):
    return tuple(sorted((canon_err(e, level) for e in es), key=repr))


def canon_jerrs(js, level=1):
    return tuple(sorted((canon_jerr(j, level) for j in js), key=repr))
