"""Access to the Lean side: build, audit, and the line-protocol driver."""
import json
import os
import subprocess

ROOT = os.path.dirname(os.path.dirname(os.path.abspath(__file__)))
LEAN_DIR = os.path.join(ROOT, 'lean')
DRIVER = os.path.join(LEAN_DIR, '.lake', 'build', 'bin', 'driver')


class DriverError(Exception):
    """the driver answered {"error": …} or died: a harness fault, never a verdict"""


class Driver(object):
    def __init__(self):
        if not os.path.exists(DRIVER):
            raise DriverError('driver not built: %s' % DRIVER)
        self.p = subprocess.Popen([DRIVER], stdin=subprocess.PIPE, stdout=subprocess.PIPE,
                                  text=True, bufsize=1)
        self.n = 0

    def ask(self, req):
        self.n += 1
        req = dict(req)
        req["id"] = self.n
        self.p.stdin.write(json.dumps(req, separators=(',', ':')) + '\n')
        self.p.stdin.flush()
        line = self.p.stdout.readline()
        if not line:
            raise DriverError('driver died on request %r' % (req,))
        rep = json.loads(line)
        if rep.get("id") != self.n:
            raise DriverError('out of sync: %r' % (rep,))
        if "error" in rep:
            raise DriverError('%s on %s' % (rep["error"], json.dumps(req)[:400]))
        return rep["r"]

    def close(self):
        try:
            self.p.stdin.close()
            self.p.wait(timeout=5)
        except Exception:
            self.p.kill()

    def __enter__(self):
        return self

    def __exit__(self, *a):
        self.close()
