"""Schema-side helpers: rule-set positions, single-point corruptions, class tables for the accept port."""
import copy

from cerberus import Validator

from . import codec, families

OPS = ('anyof', 'allof', 'noneof', 'oneof')


def cls_tables(cls):
    """what the Lean `Cls` record needs, read from the live class"""
    if cls is Validator:
        return None          # the driver falls back to the tables extracted at build time
    return {'rules': codec.enc_val(_plain(cls.rules)), 'validation_rules': sorted(cls.validation_rules),
            'types': list(cls.types)}


def _plain(v):
    if isinstance(v, dict):
        return {k: _plain(x) for k, x in v.items()}
    if isinstance(v, tuple):
        return tuple(_plain(x) for x in v)
    if isinstance(v, list):
        return [_plain(x) for x in v]
    return v


def rule_sets(schema, path=()):
    """yield (path, rule_set_dict, context) for every rule set of a field mapping, at every depth;
    context: 'field' | 'of' (directly inside an *of definition)"""
    for f, rules in schema.items():
        if isinstance(rules, dict):
            yield from _rule_set(rules, path + (f,), 'field')


def _rule_set(rules, path, ctx):
    yield path, rules, ctx
    sub = rules.get('schema')
    if isinstance(sub, dict):
        if sub and all(isinstance(x, dict) for x in sub.values()) and not (set(sub) <= set(Validator.rules)):
            yield from rule_sets(sub, path + ('schema',))
        elif set(sub) <= set(Validator.rules) | {'no_such_rule'}:
            yield from _rule_set(sub, path + ('schema',), 'field')
    for r in ('keysrules', 'valuesrules', 'allow_unknown'):
        if isinstance(rules.get(r), dict):
            yield from _rule_set(rules[r], path + (r,), 'field')
    if isinstance(rules.get('items'), list):
        for i, d in enumerate(rules['items']):
            if isinstance(d, dict):
                yield from _rule_set(d, path + ('items', i), 'field')
    for op in OPS:
        if isinstance(rules.get(op), list):
            for i, d in enumerate(rules[op]):
                if isinstance(d, dict):
                    yield from _rule_set(d, path + (op, i), 'of')


BAD_CONSTRAINTS = {
    'minlength': 'three', 'maxlength': [1], 'required': 'yes', 'nullable': 'x', 'readonly': 5, 'empty': 'x',
    'allowed': 5, 'forbidden': 'abc', 'regex': 5, 'items': {'a': 1}, 'schema': 5, 'keysrules': 5, 'valuesrules': [1],
    'anyof': 5, 'allof': {'a': 1}, 'noneof': 'abc', 'oneof': 7, 'dependencies': [[1]], 'excludes': [[1]], 'check_with': 5,
    'coerce': 5, 'rename_handler': 5, 'default_setter': 5, 'allow_unknown': 5, 'require_all': 'x', 'contains': '',
    'max': None, 'min': None, 'purge_unknown': 'x', 'rename': [1], 'type': 5,
}


def corruptions(rng, schema, k=3, extra_bad=None):
    """up to k single-point corruptions: (kind, path, corrupted_schema)"""
    out = []
    positions = list(rule_sets(schema))
    if not positions:
        return out
    for _ in range(k):
        path, rules, ctx = positions[rng.randrange(len(positions))]
        kind = rng.choice(['unknown_rule', 'unknown_type', 'bad_constraint', 'forbidden_in_of', 'dangling_ref', 'unknown_name'])
        s = copy.deepcopy(schema)
        target = _follow(s, path)
        if kind == 'unknown_rule':
            # the unknown name need not be a string
            # ... nor a name of the class at all: `logical` is a rule of the internal schema validator only
            name = rng.choice(['no_such_rule', 'no_such_rule', 'no such rule', 'logical', 'logical', 7, None, ('type',), 1.5, True])
            target[name] = 'anyof' if name == 'logical' else 1
        elif kind == 'unknown_type':
            target['type'] = rng.choice(['no_such_type', ['string', 'no_such_type'], [['string', 'integer']], [1], ['string', 2]])
        elif kind == 'unknown_name':
            # a name of a method the class does not have, alone or inside the list form
            r = rng.choice(['check_with', 'check_with', 'coerce', 'rename_handler', 'default_setter'])
            if ctx == 'of' and r != 'check_with':
                r = 'check_with'
            good = {'check_with': families.k_pass, 'coerce': families.c_id, 'rename_handler': families.c_id}.get(r)
            bad = 'no_such_' + r
            if r == 'check_with' and rng.random() < 0.4:
                bad = rng.choice(['bulk_schema', 'items', 'schema', 'dependencies'])     # checkers of the internal schema validator only
            if r == 'default_setter' or rng.random() < 0.4:
                target[r] = bad
            else:
                target[r] = rng.choice([[good, bad], [bad], [bad, good], (good, bad)])
        elif kind == 'bad_constraint':
            present = [r for r in target if r in BAD_CONSTRAINTS]
            r = rng.choice(present) if present and rng.random() < 0.7 else rng.choice(sorted(BAD_CONSTRAINTS))
            if ctx == 'of' and r in Validator.normalization_rules:
                r = 'minlength'
            if extra_bad and rng.random() < 0.35:
                # a rule that only the class under test defines, with a constraint its declared schema forbids
                r = rng.choice(sorted(extra_bad))
                target[r] = copy.deepcopy(extra_bad[r])
            else:
                target[r] = copy.deepcopy(BAD_CONSTRAINTS[r])
        elif kind == 'forbidden_in_of':
            ofpos = [p for p in positions if p[2] == 'of']
            if not ofpos:
                target['anyof'] = [{'coerce': families.c_id}]
            else:
                path, _, _ = ofpos[rng.randrange(len(ofpos))]
                t2 = _follow(s, path)
                r = rng.choice(['coerce', 'default', 'rename', 'default_setter', 'purge_unknown', 'rename_handler'])
                t2[r] = {'coerce': families.c_id, 'default': 1, 'rename': 'zz', 'default_setter': families.make_setter({'kind': 'const', 'v': 1}),
                         'purge_unknown': True, 'rename_handler': families.c_id}[r]
        else:
            r = rng.choice(['schema', 'keysrules', 'valuesrules', 'items', 'allow_unknown', 'field'])
            if r == 'field':
                parent, last = _follow(s, path[:-1]) if len(path) > 1 else s, path[-1]
                if isinstance(parent, (dict, list)):
                    try:
                        parent[last] = 'no_such_reference'
                    except Exception:
                        target['schema'] = 'no_such_reference'
            elif r == 'items':
                target['items'] = ['no_such_reference']
            else:
                target[r] = 'no_such_reference'
        out.append((kind, path, s))
    return out


def _follow(s, path):
    cur = s
    for k in path:
        cur = cur[k]
    return cur
