"""A deterministic line-level scheduler for real Python threads (C18).

Worker threads run real cerberus code under `sys.settrace`; every `line` event in a
file of interest is a *yield point*.  Exactly one worker runs at a time; a `plan`
— a list of segments `(thread, number_of_yield_points)` — says when the token moves.
When the plan is exhausted (or names a finished thread) the remaining threads run to
completion in index order.  The same plan always produces the same execution, so a
failing schedule is a replay.

This is *search support* (it finds concrete interfering schedules on the real code); the
claim itself is the theorem over the model of the shared state (Props/C18.lean).
"""
import sys
import threading


class Deadlock(Exception):
    pass


_LOCK_TYPES = (type(threading.Lock()), type(threading.RLock()))


class CoopLock(object):
    """stands in for a module-level (R)Lock of the code under test while a Sched runs: a thread that
    cannot take it stops being runnable and the token moves on, as a real scheduler would do"""

    def __init__(self, sched, reentrant=True):
        self.sched, self.reentrant = sched, reentrant
        self.owner, self.count = None, 0

    def acquire(self, blocking=True, timeout=-1):
        me = self.sched.tid_of_current()
        while True:
            if self.owner is None or (self.reentrant and self.owner == me):
                self.owner = me
                self.count += 1
                return True
            if not blocking:
                return False
            self.sched.block(me, self)

    def release(self):
        self.count -= 1
        if self.count == 0:
            self.owner = None

    __enter__ = acquire

    def __exit__(self, *a):
        self.release()


def module_locks(modules):
    """(module, name, lock) for the module-level locks of the code under test"""
    out = []
    for m in modules:
        for k, v in list(vars(m).items()):
            if isinstance(v, _LOCK_TYPES):
                out.append((m, k, v))
    return out


class Sched(object):
    def __init__(self, fns, plan, files, timeout=20.0):
        self.fns = fns
        self.n = len(fns)
        self.plan = [list(seg) for seg in plan]
        self.files = tuple(files)
        self.sems = [threading.Semaphore(0) for _ in fns]
        self.done = [False] * self.n
        self.results = [None] * self.n
        self.events = [0] * self.n            # yield points seen per thread
        self.trace_log = []                   # (thread, file:line) at each switch
        self.timeout = timeout
        self.pos = 0
        self.record = False
        self.where = [[] for _ in fns]       # with `record`: the location of every yield point, per thread
        self.blocked = [None] * self.n        # the CoopLock a thread waits for
        self.idents = {}
        self.lock_blocks = 0

    def tid_of_current(self):
        return self.idents.get(threading.get_ident())

    def runnable(self, tid):
        if self.done[tid]:
            return False
        l = self.blocked[tid]
        return l is None or l.owner is None

    def block(self, tid, lock):
        """thread `tid` (token holder) cannot take `lock`: its segment ends, someone runnable goes on"""
        self.lock_blocks += 1
        self.blocked[tid] = lock
        if self.pos < len(self.plan) and self.plan[self.pos][0] == tid:
            self.pos += 1
        nxt = self._next_runner(tid)
        if nxt is None or nxt == tid:
            raise Deadlock('thread %d waits for a lock nobody will release' % tid)
        self.trace_log.append((tid, 'blocked on a lock'))
        self.sems[nxt].release()
        if not self.sems[tid].acquire(timeout=self.timeout):
            raise Deadlock('thread %d never got the token back' % tid)
        self.blocked[tid] = None

    # -- plan bookkeeping (called by the token holder only) -------------------------
    def _next_runner(self, me):
        """who runs next, given that `me` just used up its segment or finished"""
        while self.pos < len(self.plan):
            tid, budget = self.plan[self.pos]
            if not self.runnable(tid) or budget <= 0:
                self.pos += 1
                continue
            return tid
        for tid in range(self.n):
            if self.runnable(tid):
                return tid
        return None

    def _yield_point(self, tid, where):
        """called before a line of interest executes in thread `tid` (which holds the token)"""
        self.events[tid] += 1
        if self.record:
            self.where[tid].append(where)
        while self.pos < len(self.plan):
            seg = self.plan[self.pos]
            if seg[0] != tid:
                return                      # cannot happen while the plan is consistent; run on
            if seg[1] > 0:
                seg[1] -= 1                 # this line runs inside the segment
                return
            # the segment is used up: the token moves before this line runs
            self.pos += 1
            nxt = self._next_runner(tid)
            if nxt is not None and nxt != tid:
                self.trace_log.append((tid, where))
                self.sems[nxt].release()
                if not self.sems[tid].acquire(timeout=self.timeout):
                    raise Deadlock('thread %d never got the token back' % tid)
        # plan exhausted: run to completion

    def _tracer(self, tid):
        files = self.files
        sched = self

        def local(frame, event, arg):
            if event == 'line':
                sched._yield_point(tid, '%s:%d' % (frame.f_code.co_filename.rsplit('/', 1)[-1], frame.f_lineno))
            return local

        def glob(frame, event, arg):
            if frame.f_code.co_filename.endswith(files):
                return local
            return None
        return glob

    def _worker(self, tid):
        self.idents[threading.get_ident()] = tid
        if not self.sems[tid].acquire(timeout=self.timeout):
            self.results[tid] = ('sched-error', 'never started')
            return
        sys.settrace(self._tracer(tid))
        try:
            self.results[tid] = ('ok', self.fns[tid]())
        except Deadlock as e:
            self.results[tid] = ('sched-error', str(e))
        except BaseException as e:          # the outcome of the thread's program
            self.results[tid] = ('raised', type(e).__name__, str(e)[:200])
        finally:
            sys.settrace(None)
            self.done[tid] = True
            if self.pos < len(self.plan) and self.plan[self.pos][0] == tid:
                self.pos += 1
            nxt = self._next_runner(tid)
            if nxt is not None:
                self.sems[nxt].release()

    def run(self, lock_modules=()):
        patched = []
        for m, k, v in module_locks(lock_modules):
            setattr(m, k, CoopLock(self, reentrant=isinstance(v, _LOCK_TYPES[1])))
            patched.append((m, k, v))
        try:
            threads = [threading.Thread(target=self._worker, args=(i,)) for i in range(self.n)]
            for t in threads:
                t.daemon = True
                t.start()
            first = self._next_runner(None)
            self.sems[first].release()
            for t in threads:
                t.join(self.timeout * 2)
                if t.is_alive():
                    raise Deadlock('a worker did not finish (plan %r)' % (self.plan,))
            return self.results
        finally:
            for m, k, v in patched:
                setattr(m, k, v)


def run_alone(fn, files, lock_modules=(), record=False):
    """yield points of one program run alone (the length of its schedule axis; with `record` their locations)"""
    s = Sched([fn], [], files)
    s.record = record
    res = s.run(lock_modules)
    return (res[0], s.where[0]) if record else (res[0], s.events[0])
