"""Ports: running the Lean model on a case through the driver."""
import re

from . import codec


def rx_answer(pat, s):
    if not pat.endswith('$'):
        pat += '$'
    return bool(re.compile(pat).match(s))


def find_need(rep):
    if isinstance(rep, dict):
        if 'need' in rep and isinstance(rep['need'], str):
            return rep['need']
        for v in rep.values():
            r = find_need(v)
            if r is not None:
                return r
    elif isinstance(rep, list):
        for v in rep:
            r = find_need(v)
            if r is not None:
                return r
    return None


def base_request(case, port):
    req = {'port': port,
           'schema': codec.enc_val(case['schema']),
           'doc': codec.enc_val(case['doc']),
           'cfg': {k: (v if isinstance(v, bool) and k in ('ignore_none_values', 'purge_readonly') else codec.enc_val(v))
                   for k, v in case.get('cfg', {}).items()},
           'update': bool(case.get('update', False)),
           'env': {'rx': [], 'named': case.get('cls') == 'VV'}}
    if case.get('rules_sets'):
        req['env']['rulesSets'] = codec.enc_val(case['rules_sets'])
    if case.get('schemas'):
        req['env']['schemas'] = codec.enc_val(case['schemas'])
    return req


def ask(drv, req, max_rounds=200):
    """ask, answering regex-oracle questions until the model has what it needs"""
    for _ in range(max_rounds):
        rep = drv.ask(req)
        need = find_need(rep)
        if need is not None:
            kind, pat, s = need.split('\t', 2)
            if kind != 'rx':
                return rep
            req['env']['rx'].append([pat, s, rx_answer(pat, s)])
            continue
        return rep
    raise RuntimeError('regex oracle did not converge')


def model_validate0(drv, case, ref=False):
    req = base_request(case, 'validate0')
    if ref:
        req['ref'] = True     # run the reference interpreter with the documented tables
    return ask(drv, req)


def model_normalize(drv, case):
    return ask(drv, base_request(case, 'normalize'))


def model_validate(drv, case):
    return ask(drv, base_request(case, 'validate'))
